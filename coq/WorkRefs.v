(* C04: every chunk id referenced by a branch of the final chunk graph - the target of a generated goto, of a condition's
   success or failure edge, of a switch case, of a break / continue - is -1 (render as 'return' / fall out) or the id of a
   chunk of that graph.  An invariant of the worklist (over Worklist.v's step function). *)
From Coq Require Import List String Ascii ZArith NArith Lia Bool.
From Pory Require Import Lexer Ast Emitter Sem2 Tr Worklist.
Import ListNotations.
Open Scope list_scope.

Definition targets (c : chunk) : list Z :=
  match cbr c with
  | Some (BrJump d) => [d]
  | Some (BrBreak d) => [d]
  | Some (BrLeaf _ tr fa) => [tr; fa]
  | Some (BrSwitch _ _ cases def dest) => map (fun x : text * Z * Z => snd x) cases ++ match def with Some dd => [dd] | None => [dest] end
  | None => [cret c]
  end.

(* all targets of the chunks cs satisfy A *)
Definition refs (A : Z -> Prop) (cs : list chunk) : Prop := forall c, In c cs -> forall d, In d (targets c) -> A d.
Lemma refs_nil (A : Z -> Prop) : refs A []. Proof. intros c []. Qed.
Lemma refs_app (A : Z -> Prop) a b : refs A a -> refs A b -> refs A (a ++ b).
Proof. intros H1 H2 c I. apply in_app_or in I. destruct I as [I|I]; [apply H1|apply H2]; exact I. Qed.
Lemma refs_cons (A : Z -> Prop) c cs : (forall d, In d (targets c) -> A d) -> refs A cs -> refs A (c :: cs).
Proof. intros H1 H2 x [<-|I]; [exact H1|apply H2; exact I]. Qed.
Lemma refs_weaken (A A' : Z -> Prop) cs : (forall d, A d -> A' d) -> refs A cs -> refs A' cs.
Proof. intros H R c I d J. apply H. eapply R; eassumption. Qed.
Lemma refs_app_inv (A : Z -> Prop) a b : refs A (a ++ b) -> refs A a /\ refs A b.
Proof. intros H. split; intros c I; apply H; apply in_or_app; auto. Qed.

(* ---------- conditions ---------- *)
Lemma split_bexp_refs : forall e cn su fa fi cs en f2 c2,
  split_bexp e cn su fa fi = (cs, en, f2, c2) -> (0 <= cn)%Z ->
  refs (fun d => In d (ids cs) \/ d = su \/ d = fa) cs /\ In en (ids cs).
Proof.
  induction e as [l|o a IHa b IHb]; intros cn su fa fi cs en f2 c2 H Hc.
  - cbn in H. inversion H; subst. split; [|left; reflexivity]. apply refs_cons; [|apply refs_nil]. cbn. intros d [<-|[<-|[]]]; auto.
  - destruct o; cbn [split_bexp] in H.
    + destruct (split_bexp a (cn + 1) (cn + 1) fa fi) as [[[ra la] f1] c1] eqn:Ea.
      destruct (split_bexp b c1 su fa f1) as [[[rb lb] f2x] c2x] eqn:Eb. inversion H; subst.
      destruct (split_bexp_ids _ _ _ _ _ _ _ _ _ Ea ltac:(lia)) as (A1 & _).
      destruct (IHa _ _ _ _ _ _ _ _ Ea ltac:(lia)) as [RA EA]. destruct (IHb _ _ _ _ _ _ _ _ Eb ltac:(lia)) as [RB EB].
      assert (ID : forall x, In x (ids ra) \/ In x (ids rb) \/ x = (cn + 1)%Z -> In x (ids (ra ++ rb ++ [mk (cn + 1) 0 [] (Some (BrJump lb))]))).
      { intros x Hx. unfold ids. rewrite !map_app. cbn. rewrite !in_app_iff. cbn. destruct Hx as [Q|[Q|Q]]; auto. }
      split; [|apply ID; left; exact EA].
      apply refs_app; [|apply refs_app].
      * eapply refs_weaken; [|exact RA]. cbn. intros d [Q|[Q|Q]]; [left; apply ID; auto|left; apply ID; auto|auto].
      * eapply refs_weaken; [|exact RB]. cbn. intros d [Q|[Q|Q]]; [left; apply ID; auto|auto|auto].
      * apply refs_cons; [|apply refs_nil]. cbn. intros d [<-|[]]. left. apply ID. right. left. exact EB.
    + destruct (split_bexp a (cn + 1) su (cn + 1) fi) as [[[ra la] f1] c1] eqn:Ea.
      destruct (split_bexp b c1 su fa f1) as [[[rb lb] f2x] c2x] eqn:Eb. inversion H; subst.
      destruct (split_bexp_ids _ _ _ _ _ _ _ _ _ Ea ltac:(lia)) as (A1 & _).
      destruct (IHa _ _ _ _ _ _ _ _ Ea ltac:(lia)) as [RA EA]. destruct (IHb _ _ _ _ _ _ _ _ Eb ltac:(lia)) as [RB EB].
      assert (ID : forall x, In x (ids ra) \/ In x (ids rb) \/ x = (cn + 1)%Z -> In x (ids (ra ++ rb ++ [mk (cn + 1) 0 [] (Some (BrJump lb))]))).
      { intros x Hx. unfold ids. rewrite !map_app. cbn. rewrite !in_app_iff. cbn. destruct Hx as [Q|[Q|Q]]; auto. }
      split; [|apply ID; left; exact EA].
      apply refs_app; [|apply refs_app].
      * eapply refs_weaken; [|exact RA]. cbn. intros d [Q|[Q|Q]]; [left; apply ID; auto|auto|left; apply ID; auto].
      * eapply refs_weaken; [|exact RB]. cbn. intros d [Q|[Q|Q]]; [left; apply ID; auto|auto|auto].
      * apply refs_cons; [|apply refs_nil]. cbn. intros d [<-|[]]. left. apply ID. right. left. exact EB.
Qed.

(* ---------- the create functions: what the new chunks and the finished chunk may refer to ---------- *)
Definition Acc (news : list chunk) (cur : chunk) (d : Z) : Prop := In d (ids news) \/ d = cret cur.
Lemma acc_mono news news' cur d : (forall x, In x (ids news) -> In x (ids news')) -> Acc news cur d -> Acc news' cur d.
Proof. intros H [A|A]; [left; auto|right; exact A]. Qed.
Lemma ids_app a b : ids (a ++ b) = ids a ++ ids b.
Proof. unfold ids. apply map_app. Qed.

Lemma sfb_refs cur pre s rest' cn post ret c0 :
  cstmts cur = pre ++ s :: rest' -> split_for_branch cur (List.length pre) cn = (post, ret, c0) ->
  refs (Acc post cur) post /\ Acc post cur ret.
Proof.
  intros E H. destruct (sfb_spec _ _ _ _ _ _ _ _ E H) as [(-> & -> & -> & ->)|(N & -> & -> & ->)].
  - split; [apply refs_nil|right; reflexivity].
  - split; [|left; left; reflexivity]. apply refs_cons; [|apply refs_nil]. cbn. intros d [<-|[]]. right. reflexivity.
Qed.

Lemma bodies_refs : forall bodies cn ret cs c', mk_body_chunks bodies cn ret = (cs, c') -> refs (fun d => d = ret) cs.
Proof.
  induction bodies as [|b r IH]; intros cn ret cs c' H; cbn in H.
  - inversion H; subst. apply refs_nil.
  - destruct (mk_body_chunks r (cn + 1) ret) as [cs1 c1] eqn:E. inversion H; subst. apply refs_cons; [|eapply IH; exact E].
    cbn. intros d [<-|[]]. reflexivity.
Qed.

Lemma stitch_refs : forall rl cn fail cs entry c',
  stitch_elifs rl cn fail = (cs, entry, c') -> (0 <= cn)%Z ->
  refs (fun d => In d (ids cs) \/ In d (map snd rl) \/ d = fail) cs /\ (In entry (ids cs) \/ entry = fail).
Proof.
  induction rl as [|[e id] r IH]; intros cn fail cs entry c' H Hc; cbn in H.
  - inversion H; subst. split; [apply refs_nil|right; reflexivity].
  - destruct (split_bexp e cn id fail (-1)) as [[[cs0 x] first] c1] eqn:E0.
    destruct (stitch_elifs r c1 first) as [[cs2 entry2] c2] eqn:E2. inversion H; subst.
    destruct (split_bexp_ids _ _ _ _ _ _ _ _ _ E0 Hc) as (A1 & _ & _ & _ & A5). cbn in A5. subst first.
    destruct (split_bexp_refs _ _ _ _ _ _ _ _ _ E0 Hc) as [R0 EN0].
    destruct (IH _ _ _ _ _ E2 ltac:(lia)) as [R2 EN2]. split.
    + apply refs_app.
      * eapply refs_weaken; [|exact R0]. cbn. rewrite ids_app. intros d [Q|[Q|Q]]; [left; apply in_or_app; auto|right; left; left; symmetry; exact Q|right; right; exact Q].
      * eapply refs_weaken; [|exact R2]. cbn. rewrite ids_app. intros d [Q|[Q|Q]]; [left; apply in_or_app; auto|right; left; right; exact Q|].
        subst d. left. apply in_or_app. left. exact EN0.
    + rewrite ids_app. destruct EN2 as [Q|Q]; [left; apply in_or_app; auto|]. subst entry. left. apply in_or_app. left. exact EN0.
Qed.

Definition fin_of (cur : chunk) (pre : list stmt) (ret : Z) (br : brancher) : chunk :=
  {| cid := cid cur; cret := ret; cend := false; cstmts := pre; cbr := Some br |}.

Lemma in_combine_snd {A C} (a : list A) (b : list C) x : In x (map snd (combine a b)) -> In x b.
Proof. revert b. induction a as [|y a IH]; intros [|z b] H; cbn in *; try contradiction. destruct H as [<-|H]; auto. Qed.

Lemma create_if_refs e b more els cur pre rest' cn news br ret c' :
  cstmts cur = pre ++ SIf ((e, b) :: more) els :: rest' ->
  create_if ((e, b) :: more) els cur (List.length pre) cn = (news, br, ret, c') -> (0 <= cn)%Z ->
  refs (Acc news cur) (fin_of cur pre ret br :: news) /\ Acc news cur ret.
Proof.
  intros E H Hc. rewrite create_if_unfold in H.
  destruct (split_for_branch cur (List.length pre) cn) as [[post ret0] c0] eqn:ES.
  destruct (mk_body_chunks (b :: map snd more) c0 ret0) as [bodychunks c1] eqn:EB.
  destruct (sfb_news _ _ _ _ _ _ _ _ E ES) as [P1 _]. assert (C0 : (cn <= c0)%Z) by (destruct P1; assumption).
  destruct (sfb_refs _ _ _ _ _ _ _ _ E ES) as [RP AR].
  destruct (mk_body_chunks_spec _ _ _ _ _ EB) as (B1 & _ & _ & _ & _ & B6).
  pose proof (bodies_refs _ _ _ _ _ EB) as RB.
  set (EL := match els with Some eb => let c := (c1 + 1)%Z in ([mk c ret0 eb None], c, c) | None => ([], c1, ret0) end) in H.
  assert (NE : (c1 <= snd (fst EL))%Z /\ refs (fun d => d = ret0) (fst (fst EL)) /\ (In (snd EL) (ids (fst (fst EL))) \/ snd EL = ret0)).
  { subst EL. destruct els as [eb|]; cbn.
    - split; [lia|]. split; [apply refs_cons; [cbn; intros d [<-|[]]; reflexivity|apply refs_nil]|left; left; reflexivity].
    - split; [lia|]. split; [apply refs_nil|right; reflexivity]. }
  destruct EL as [[elsechunk c2] finalfail]. cbn [fst snd] in NE. destruct NE as (C2 & RE & FF).
  destruct (stitch_elifs (rev (combine (map fst more) (tl (map cid bodychunks)))) c2 finalfail) as [[cs entryfail] c3] eqn:EST.
  destruct (stitch_news _ _ _ _ _ _ EST ltac:(lia)) as [S1 _]. assert (C3 : (c2 <= c3)%Z) by (destruct S1; assumption).
  destruct (stitch_refs _ _ _ _ _ _ EST ltac:(lia)) as [RS ES'].
  destruct (split_bexp e c3 (hd 0%Z (map cid bodychunks)) entryfail (-1)) as [[[cs1 x] entry] c4] eqn:EX.
  destruct (split_bexp_ids _ _ _ _ _ _ _ _ _ EX ltac:(lia)) as (_ & _ & _ & _ & X5). cbn in X5. subst entry.
  destruct (split_bexp_refs _ _ _ _ _ _ _ _ _ EX ltac:(lia)) as [RX EN].
  inversion H; subst. clear H.
  set (news := post ++ bodychunks ++ elsechunk ++ cs ++ cs1).
  assert (IDS : forall d, In d (ids post) \/ In d (ids bodychunks) \/ In d (ids elsechunk) \/ In d (ids cs) \/ In d (ids cs1) -> In d (ids news)).
  { intros d Hd. unfold news. rewrite !ids_app, !in_app_iff. tauto. }
  assert (ARET : Acc news cur ret). { destruct AR as [Q|Q]; [left; apply IDS; auto|right; exact Q]. }
  assert (AFF : Acc news cur finalfail). { destruct FF as [Q|Q]; [left; apply IDS; auto|subst finalfail; exact ARET]. }
  assert (AEF : Acc news cur entryfail). { destruct ES' as [Q|Q]; [left; apply IDS; auto|subst entryfail; exact AFF]. }
  assert (BID : forall d, In d (map cid bodychunks) -> Acc news cur d) by (intros d Hd; left; apply IDS; auto).
  split; [|exact ARET].
  apply refs_cons.
  - cbn. intros d [<-|[]]. left. apply IDS. right. right. right. right. exact EN.
  - unfold news. apply refs_app; [eapply refs_weaken; [|exact RP]; intros d Hd; eapply acc_mono; [|exact Hd]; intros y Hy; apply IDS; auto|].
    apply refs_app; [eapply refs_weaken; [|exact RB]; intros d ->; exact ARET|].
    apply refs_app; [eapply refs_weaken; [|exact RE]; intros d ->; exact ARET|].
    apply refs_app.
    + eapply refs_weaken; [|exact RS]. cbn. intros d [Q|[Q|Q]]; [left; apply IDS; auto| |subst d; exact AFF].
      rewrite map_rev in Q. apply in_rev in Q. apply in_combine_snd in Q. apply BID. destruct (map cid bodychunks); [destruct Q|right; exact Q].
    + eapply refs_weaken; [|exact RX]. cbn. intros d [Q|[Q|Q]]; [left; apply IDS; auto| |subst d; exact AEF].
      subst d. apply BID. destruct bodychunks as [|b0 bs]; [cbn in B6; discriminate|left; reflexivity].
Qed.

Lemma loop_refs cur pre post cs ret0 c0 body entry (su fa : Z) :
  refs (Acc post cur) post -> Acc post cur ret0 ->
  refs (fun d => In d (ids cs) \/ d = (c0 + 2)%Z \/ d = ret0) cs -> (In entry (ids cs) \/ entry = (c0 + 2)%Z) ->
  forall j, (j = (c0 + 1)%Z \/ j = (c0 + 2)%Z) ->
  let news := post ++ cs ++ [mk (c0 + 2) (c0 + 1) body None; mk (c0 + 1) ret0 [] (Some (BrJump entry))] in
  refs (Acc news cur) (fin_of cur pre ret0 (BrJump j) :: news) /\ Acc news cur ret0 /\ In j (ids news).
Proof.
  intros RP AR RC EN j HJ news.
  assert (IDS : forall d, In d (ids post) \/ In d (ids cs) \/ d = (c0 + 2)%Z \/ d = (c0 + 1)%Z -> In d (ids news)).
  { intros d Hd. unfold news. rewrite !ids_app, !in_app_iff. cbn. intuition. }
  assert (ARET : Acc news cur ret0). { destruct AR as [Q|Q]; [left; apply IDS; auto|right; exact Q]. }
  assert (JN : In j (ids news)) by (apply IDS; destruct HJ; auto).
  split; [|split; [exact ARET|exact JN]].
  apply refs_cons; [cbn; intros d [<-|[]]; left; exact JN|].
  unfold news. apply refs_app; [eapply refs_weaken; [|exact RP]; intros d Hd; eapply acc_mono; [|exact Hd]; intros y Hy; apply IDS; auto|].
  apply refs_app.
  - eapply refs_weaken; [|exact RC]. cbn. intros d [Q|[Q|Q]]; [left; apply IDS; auto|left; apply IDS; auto|subst d; exact ARET].
  - apply refs_cons; [cbn; intros d [<-|[]]; left; apply IDS; auto|]. apply refs_cons; [|apply refs_nil].
    cbn. intros d [<-|[]]. left. apply IDS. destruct EN; auto.
Qed.

Lemma create_while_refs tg c body cur pre rest' cn news br ret c' :
  cstmts cur = pre ++ SWhile tg c body :: rest' ->
  create_while c body cur (List.length pre) cn = (news, br, ret, c') -> (0 <= cn)%Z ->
  refs (Acc news cur) (fin_of cur pre ret br :: news) /\ Acc news cur ret /\ In (match br with BrJump d => d | _ => 0%Z end) (ids news).
Proof.
  intros E H Hc. unfold create_while in H.
  destruct (split_for_branch cur (List.length pre) cn) as [[post ret0] c0] eqn:ES.
  destruct (sfb_news _ _ _ _ _ _ _ _ E ES) as [P1 _]. assert (C0 : (cn <= c0)%Z) by (destruct P1; assumption).
  destruct (sfb_refs _ _ _ _ _ _ _ _ E ES) as [RP AR].
  destruct c as [e|].
  - destruct (split_bexp e (c0 + 2) (c0 + 2) ret0 (-1)) as [[[cs x] entry] c1] eqn:EX.
    destruct (split_bexp_ids _ _ _ _ _ _ _ _ _ EX ltac:(lia)) as (_ & _ & _ & _ & X5). cbn in X5. subst entry.
    destruct (split_bexp_refs _ _ _ _ _ _ _ _ _ EX ltac:(lia)) as [RX EN]. inversion H; subst.
    apply (loop_refs cur pre post cs ret c0 body x 0 0 RP AR RX (or_introl EN) (c0 + 1)%Z). left. reflexivity.
  - inversion H; subst.
    apply (loop_refs cur pre post [] ret c0 body (c0 + 2)%Z 0 0 RP AR (refs_nil _) (or_intror eq_refl) (c0 + 1)%Z). left. reflexivity.
Qed.

Lemma create_dowhile_refs tg body e cur pre rest' cn news br ret c' :
  cstmts cur = pre ++ SDoWhile tg body e :: rest' ->
  create_dowhile body e cur (List.length pre) cn = (news, br, ret, c') -> (0 <= cn)%Z ->
  refs (Acc news cur) (fin_of cur pre ret br :: news) /\ Acc news cur ret /\ In (match br with BrJump d => d | _ => 0%Z end) (ids news).
Proof.
  intros E H Hc. unfold create_dowhile in H.
  destruct (split_for_branch cur (List.length pre) cn) as [[post ret0] c0] eqn:ES.
  destruct (sfb_news _ _ _ _ _ _ _ _ E ES) as [P1 _]. assert (C0 : (cn <= c0)%Z) by (destruct P1; assumption).
  destruct (sfb_refs _ _ _ _ _ _ _ _ E ES) as [RP AR].
  destruct (split_bexp e (c0 + 2) (c0 + 2) ret0 (-1)) as [[[cs x] entry] c1] eqn:EX.
  destruct (split_bexp_ids _ _ _ _ _ _ _ _ _ EX ltac:(lia)) as (_ & _ & _ & _ & X5). cbn in X5. subst entry.
  destruct (split_bexp_refs _ _ _ _ _ _ _ _ _ EX ltac:(lia)) as [RX EN]. inversion H; subst.
  apply (loop_refs cur pre post cs ret c0 body x 0 0 RP AR RX (or_introl EN) (c0 + 2)%Z). right. reflexivity.
Qed.

(* the switch case loop: every destination it records is the id of a chunk it created *)
Definition swJ (ret : Z) (st : swst) : Prop :=
  (forall x, In x (sw_cases st) -> In (snd x) (ids (sw_new st))) /\
  (forall dd, sw_def st = Some dd -> In dd (ids (sw_new st))) /\
  refs (fun d => d = ret) (sw_new st).
Lemma case_entry_snd id c x : In x (case_entry id c) -> snd x = id.
Proof. unfold case_entry. destruct (sc_def c); [intros []|intros [<-|[]]; reflexivity]. Qed.
Lemma swJ_group ret st id Grp b :
  swJ ret st -> swJ ret {| sw_new := sw_new st ++ [mk id ret b None]; sw_cases := sw_cases st ++ flat_map (case_entry id) Grp;
                           sw_def := if existsb sc_def Grp then Some id else sw_def st; sw_counter := id |}.
Proof.
  intros (J1 & J2 & J3). unfold swJ. cbn [sw_new sw_cases sw_def]. split; [|split].
  - intros x I. rewrite ids_app. apply in_app_or in I. destruct I as [I|I]; [apply in_or_app; left; apply J1; exact I|].
    apply in_flat_map in I. destruct I as (c & _ & I). rewrite (case_entry_snd _ _ _ I). apply in_or_app. right. left. reflexivity.
  - intros dd H. rewrite ids_app. destruct (existsb sc_def Grp); [inversion H; subst; apply in_or_app; right; left; reflexivity|apply in_or_app; left; apply J2; exact H].
  - apply refs_app; [exact J3|]. apply refs_cons; [cbn; intros d [<-|[]]; reflexivity|apply refs_nil].
Qed.

Lemma sw_suf_refs ret : forall f S st st' el, sw_suf f S ret st = (st', el) -> swJ ret st -> swJ ret st'.
Proof.
  induction f as [|f IH]; intros S st st' el H J; [cbn in H; inversion H; subst; exact J|].
  destruct S as [|c r]; [cbn in H; inversion H; subst; exact J|]. cbn [sw_suf] in H.
  destruct (sc_body c) as [|s0 b0] eqn:Bc.
  - destruct (find_bodied r 0) as [[k cj]|].
    + eapply IH; [exact H|].
      pose proof (swJ_group ret st (sw_counter st + 1) ((c :: firstn k r) ++ [cj]) (sc_body cj) J) as G.
      destruct G as (G1 & G2 & G3). cbn [sw_new sw_cases sw_def] in *. unfold swJ. split; [|split]; cbn [sw_new sw_cases sw_def].
      * intros x I. apply G1. rewrite flat_map_app. cbn [flat_map]. rewrite app_nil_r. exact I.
      * intros dd Hd. apply G2. rewrite existsb_app. cbn [existsb]. rewrite orb_false_r, orb_comm. exact Hd.
      * exact G3.
    + destruct (sw_def st) as [dd|] eqn:DS.
      * assert (H' : ({| sw_new := sw_new st ++ [mk (sw_counter st + 1) ret [] None];
                         sw_cases := sw_cases st ++ flat_map (case_entry (sw_counter st + 1)) (c :: r);
                         sw_def := Some dd; sw_counter := (sw_counter st + 1)%Z |}, false) = (st', el)) by (destruct (sw_cases st); exact H).
        inversion H'; subst. pose proof (swJ_group ret st (sw_counter st + 1) (c :: r) [] J) as (G1 & G2 & G3). cbn [sw_new sw_cases sw_def] in *.
        destruct J as (J1 & J2 & J3). unfold swJ. split; [|split]; cbn [sw_new sw_cases sw_def].
        -- exact G1.
        -- intros d0 Hd. inversion Hd; subst. rewrite ids_app. apply in_or_app. left. apply J2. exact DS.
        -- exact G3.
      * assert (H' : st' = st) by (destruct (sw_cases st); inversion H; reflexivity). subst st'. exact J.
  - eapply IH; [exact H|].
    pose proof (swJ_group ret st (sw_counter st + 1) [c] (s0 :: b0) J) as (G1 & G2 & G3). cbn [sw_new sw_cases sw_def] in *. unfold swJ. split; [|split]; cbn [sw_new sw_cases sw_def].
    + intros x I. apply G1. cbn [flat_map]. rewrite app_nil_r. exact I.
    + intros dd Hd. apply G2. cbn [existsb]. rewrite orb_false_r. exact Hd.
    + exact G3.
Qed.

Lemma create_switch_refs tg op ol cases cur pre rest' cn news br ret c' :
  cstmts cur = pre ++ SSwitch tg op ol cases :: rest' ->
  create_switch op ol cases cur (List.length pre) cn = (news, br, ret, c') -> (0 <= cn)%Z ->
  refs (Acc news cur) (fin_of cur pre ret br :: news) /\ Acc news cur ret /\ In (match br with BrJump d => d | _ => 0%Z end) (ids news).
Proof.
  intros E H Hc. unfold create_switch in H.
  destruct (split_for_branch cur (List.length pre) cn) as [[post ret0] c0] eqn:ES.
  destruct (sfb_refs _ _ _ _ _ _ _ _ E ES) as [RP AR].
  cbv zeta in H. rewrite sw_loop_suf in H. change (skipn 0 cases) with cases in H.
  match type of H with context[sw_suf ?a ?b ?c ?d] => destruct (sw_suf a b c d) as [st el] eqn:SW end.
  assert (J0 : swJ ret0 {| sw_new := []; sw_cases := []; sw_def := None; sw_counter := (c0 + 1)%Z |}).
  { unfold swJ. cbn. split; [intros x []|split; [discriminate|apply refs_nil]]. }
  destruct (sw_suf_refs ret0 _ _ _ _ _ SW J0) as (J1 & J2 & J3). inversion H; subst. clear H.
  set (swc := mk (c0 + 1) ret [] (if el then None else Some (BrSwitch op ol (sw_cases st) (sw_def st) (match sw_def st with Some _ => 0%Z | None => ret end)))).
  set (news := post ++ [swc] ++ sw_new st).
  assert (IDS : forall d, In d (ids post) \/ d = (c0 + 1)%Z \/ In d (ids (sw_new st)) -> In d (ids news)).
  { intros d Hd. unfold news. rewrite !ids_app, !in_app_iff. cbn. intuition. }
  assert (ARET : Acc news cur ret). { destruct AR as [Q|Q]; [left; apply IDS; auto|right; exact Q]. }
  split; [|split; [exact ARET|apply IDS; auto]].
  apply refs_cons; [cbn; intros d [<-|[]]; left; apply IDS; auto|].
  unfold news. apply refs_app; [eapply refs_weaken; [|exact RP]; intros d Hd; eapply acc_mono; [|exact Hd]; intros y Hy; apply IDS; auto|].
  cbn [app]. apply refs_cons.
  - unfold swc, targets. cbn [cbr mk cret]. destruct el; [cbn; intros d [<-|[]]; exact ARET|].
    intros d Hd. apply in_app_or in Hd. destruct Hd as [Hd|Hd].
    + apply in_map_iff in Hd. destruct Hd as (x & <- & Hx). left. apply IDS. right. right. apply J1. exact Hx.
    + destruct (sw_def st) as [dd|] eqn:DS; destruct Hd as [<-|[]]; [left; apply IDS; right; right; apply J2; reflexivity|exact ARET].
  - eapply refs_weaken; [|exact J3]. intros d ->. exact ARET.
Qed.

(* ---------- the invariant ---------- *)
Definition okid (all : list chunk) (d : Z) : Prop := d = (-1)%Z \/ In d (ids all).
Definition map_ok (all : list chunk) (m : tagmap) : Prop := forall tg d, tm_get m tg = Some d -> okid all d.
Definition RInv (w : wst) : Prop :=
  let all := remaining w ++ finals w in refs (okid all) all /\ map_ok all (brk w) /\ map_ok all (org w).

Lemma okid_mono all all' d : (forall x, In x (ids all) -> In x (ids all')) -> okid all d -> okid all' d.
Proof. intros H [A|A]; [left; exact A|right; auto]. Qed.
Lemma map_ok_cons all m tg v : okid all v -> map_ok all m -> map_ok all ((tg, v) :: m).
Proof. intros V M k d H. cbn in H. destruct (Nat.eqb k tg); [inversion H; subst; exact V|eapply M; exact H]. Qed.

Lemma wstep_rinv w cur rest fin news c' nt :
  Inv w -> RInv w -> remaining w = cur :: rest -> wstep w = SNext fin news c' nt -> RInv (wnext w fin news c' nt).
Proof.
  intros I (R1 & R2 & R3) R H.
  destruct (wstep_inv _ _ _ _ _ _ _ I R H) as (_ & SF & _ & _).
  pose proof (wstep_facts _ _ _ _ _ _ _ I R H) as [SC _ _ _ _].
  set (all := remaining w ++ finals w) in *. set (all1 := remaining (wnext w fin news c' nt) ++ finals (wnext w fin news c' nt)).
  assert (A1 : all1 = (rest ++ news) ++ fin :: finals w) by (unfold all1; rewrite SF; unfold wnext; cbn [remaining]; rewrite R; reflexivity).
  assert (SUB : forall x, In x (ids all) -> In x (ids all1)).
  { intros x Hx. unfold all in Hx. rewrite R in Hx. rewrite A1. unfold ids in *. rewrite !map_app in *. cbn [map app] in *. rewrite SC.
    destruct Hx as [Hx|Hx]; [apply in_or_app; right; left; exact Hx|]. apply in_app_or in Hx. destruct Hx as [Hx|Hx].
    - apply in_or_app. left. apply in_or_app. left. exact Hx.
    - apply in_or_app. right. right. exact Hx. }
  assert (NEWS : forall x, In x (ids news) -> In x (ids all1)).
  { intros x Hx. rewrite A1. unfold ids in *. rewrite !map_app. apply in_or_app. left. apply in_or_app. right. exact Hx. }
  assert (CUR : forall d, In d (targets cur) -> okid all1 d).
  { intros d Hd. eapply okid_mono; [exact SUB|]. apply (R1 cur); [unfold all; rewrite R; left; reflexivity|exact Hd]. }
  assert (OLD : refs (okid all1) (rest ++ finals w)).
  { intros c Hc d Hd. eapply okid_mono; [exact SUB|]. apply (R1 c); [|exact Hd]. unfold all. rewrite R. cbn. right. exact Hc. }
  (* the new chunks and the finished one, per case of the step *)
  assert (KEY : refs (okid all1) (fin :: news) /\
                match nt with Some (tg, r, d) => okid all1 r /\ okid all1 d | None => True end).
  { unfold wstep in H. rewrite R in H.
    assert (FR : fresh cur) by (pose proof (inv_fresh w I) as F; rewrite R in F; inversion F; assumption).
    assert (OKB : okb (cstmts cur) = true) by (pose proof (inv_ok w I) as F; rewrite R in F; inversion F; assumption).
    pose proof (inv_cnt w I) as CN.
    pose proof (scan_ok (cstmts cur) 0 (List.length (cstmts cur)) eq_refl) as SCN.
    destruct (scan (cstmts cur) 0 (List.length (cstmts cur))) as [i er]. inversion SCN as [pre c e E F ER Q1|F Q1|pre s rest' E F NS Q1]; subst.
    - cbn [Nat.add] in H. inversion H; subst. split; [|exact Logic.I]. apply refs_cons; [|apply refs_nil]. cbn. intros d [<-|[]]. left. reflexivity.
    - cbn [Nat.add] in H. rewrite Nat.eqb_refl in H. inversion H; subst. split; [|exact Logic.I]. apply refs_cons; [exact CUR|apply refs_nil].
    - cbn [Nat.add] in H.
      assert (NE : Nat.eqb (List.length pre) (List.length (cstmts cur)) = false) by (apply Nat.eqb_neq; rewrite E, app_length; cbn; lia).
      rewrite NE in H. rewrite E in H at 1. rewrite nth_error_app_here in H.
      assert (FN : firstn (List.length pre) (cstmts cur) = pre) by (rewrite E; apply firstn_app_here). rewrite FN in H.
      assert (PL : plainchunk cur). { destruct FR as [(E0 & _)|P]; [rewrite E0 in E; destruct pre; discriminate|exact P]. }
      destruct PL as [PE PB].
      assert (CR : okid all1 (cret cur)). { apply CUR. unfold targets. rewrite PB. left. reflexivity. }
      assert (ACC : forall d, Acc news cur d -> okid all1 d). { intros d [Q|Q]; [right; apply NEWS; exact Q|subst d; exact CR]. }
      rewrite E in OKB. apply okb_app in OKB. destruct OKB as [_ OKB]. apply okb_cons in OKB. destruct OKB as (W1 & W2 & _).
      destruct s as [c|nm g tk|conds els|tag c body|tag body c|tag|tag|tag op ol cases]; try discriminate NS.
      + destruct conds as [|[e b] more]; [apply ifok1_if in W2; congruence|].
        destruct (create_if ((e, b) :: more) els cur (List.length pre) (counter w)) as [[[news0 br] ret] c0] eqn:CR0. inversion H; subst.
        destruct (create_if_refs _ _ _ _ _ _ _ _ _ _ _ _ E CR0 CN) as [RF AR]. split; [|exact Logic.I]. eapply refs_weaken; [exact ACC|exact RF].
      + destruct (create_while c body cur (List.length pre) (counter w)) as [[[news0 br] ret] c0] eqn:CR0. inversion H; subst.
        destruct (create_while_refs _ _ _ _ _ _ _ _ _ _ _ E CR0 CN) as (RF & AR & JN). split; [eapply refs_weaken; [exact ACC|exact RF]|].
        split; [apply ACC; exact AR|right; apply NEWS; exact JN].
      + destruct (create_dowhile body c cur (List.length pre) (counter w)) as [[[news0 br] ret] c0] eqn:CR0. inversion H; subst.
        destruct (create_dowhile_refs _ _ _ _ _ _ _ _ _ _ _ E CR0 CN) as (RF & AR & JN). split; [eapply refs_weaken; [exact ACC|exact RF]|].
        split; [apply ACC; exact AR|right; apply NEWS; exact JN].
      + destruct (tm_get (brk w) tag) as [d|] eqn:TB; [|discriminate].
        destruct (split_for_branch cur (List.length pre) (counter w)) as [[post ret] c0] eqn:ES. inversion H; subst.
        destruct (sfb_refs _ _ _ _ _ _ _ _ E ES) as [RP AR]. split; [|exact Logic.I]. apply refs_cons; [|eapply refs_weaken; [exact ACC|exact RP]].
        cbn. intros x [<-|[]]. eapply okid_mono; [exact SUB|]. eapply R2. exact TB.
      + destruct (tm_get (org w) tag) as [d|] eqn:TB; [|discriminate].
        destruct (split_for_branch cur (List.length pre) (counter w)) as [[post ret] c0] eqn:ES. inversion H; subst.
        destruct (sfb_refs _ _ _ _ _ _ _ _ E ES) as [RP AR]. split; [|exact Logic.I]. apply refs_cons; [|eapply refs_weaken; [exact ACC|exact RP]].
        cbn. intros x [<-|[]]. eapply okid_mono; [exact SUB|]. eapply R3. exact TB.
      + destruct (create_switch op ol cases cur (List.length pre) (counter w)) as [[[news0 br] ret] c0] eqn:CR0. inversion H; subst.
        destruct (create_switch_refs _ _ _ _ _ _ _ _ _ _ _ _ E CR0 CN) as (RF & AR & JN). split; [eapply refs_weaken; [exact ACC|exact RF]|].
        split; [apply ACC; exact AR|right; apply NEWS; exact JN]. }
  destruct KEY as [KR KN]. unfold RInv. fold all1. split; [|split].
  - intros c Hc d Hd. rewrite A1 in Hc. rewrite in_app_iff in Hc. cbn [In] in Hc. rewrite in_app_iff in Hc.
    destruct Hc as [[Hc|Hc]|[Hc|Hc]].
    + apply (OLD c); [apply in_or_app; left; exact Hc|exact Hd].
    + apply (KR c); [right; exact Hc|exact Hd].
    + subst c. apply (KR fin); [left; reflexivity|exact Hd].
    + apply (OLD c); [apply in_or_app; right; exact Hc|exact Hd].
  - unfold wnext. cbn [brk]. destruct nt as [[[tg r] d]|].
    + apply map_ok_cons; [apply KN|]. intros k v Hk. eapply okid_mono; [exact SUB|]. eapply R2. exact Hk.
    + intros k v Hk. eapply okid_mono; [exact SUB|]. eapply R2. exact Hk.
  - unfold wnext. cbn [org]. destruct nt as [[[tg r] d]|].
    + apply map_ok_cons; [apply KN|]. intros k v Hk. eapply okid_mono; [exact SUB|]. eapply R3. exact Hk.
    + intros k v Hk. eapply okid_mono; [exact SUB|]. eapply R3. exact Hk.
Qed.

Theorem work_refs : forall f w w', Inv w -> RInv w -> work f w = Ok w' -> RInv w'.
Proof.
  induction f as [|f IH]; intros w w' I RI H; [discriminate|]. rewrite work_S in H.
  destruct (wstep w) as [|fin news c' nt| |] eqn:WS; try discriminate.
  - inversion H; subst. exact RI.
  - destruct (remaining w) as [|cur rest] eqn:R; [unfold wstep in WS; rewrite R in WS; discriminate|].
    destruct (wstep_inv _ _ _ _ _ _ _ I R WS) as (I1 & _).
    eapply IH; [exact I1| |exact H]. eapply wstep_rinv; eassumption.
Qed.

(* THE THEOREM (C04, generated references): in the chunk graph of every script body that passes the source check, every id a
   branch refers to is -1 or the id of a chunk of the graph *)
Local Opaque work_fuel work.
Theorem generated_targets_resolve body w :
  emit_graph body = Ok w -> src_ok body ->
  forall c, In c (finals w) -> forall d, In d (targets c) -> d = (-1)%Z \/ exists c', In c' (finals w) /\ cid c' = d.
Proof.
  intros H [OK ND] c Hc d Hd. unfold emit_graph in H.
  set (w0 := {| remaining := [mk 0 (-1) body None]; finals := []; counter := 0; brk := []; org := [] |}) in H.
  assert (I0 : Inv w0).
  { constructor; cbn.
    - lia.
    - repeat constructor. intros [].
    - repeat constructor; cbn; lia.
    - constructor; [right; split; reflexivity|constructor].
    - constructor; [exact OK|constructor].
    - unfold tags_rem. cbn. rewrite !app_nil_r. exact ND.
    - reflexivity. }
  assert (R0 : RInv w0).
  { unfold RInv. cbn. split; [|split; intros tg x Hx; discriminate]. apply refs_cons; [|apply refs_nil]. cbn. intros x [<-|[]]. left. reflexivity. }
  pose proof (work_refs _ _ _ I0 R0 H) as (RW & _ & _).
  destruct (work_establishes_obligations _ _ _ I0 H) as (_ & RE & _). rewrite RE in RW. cbn [app] in RW.
  destruct (RW c Hc d Hd) as [Q|Q]; [left; exact Q|right]. apply in_map_iff in Q. destruct Q as (c' & E & I'). exists c'. split; assumption.
Qed.
