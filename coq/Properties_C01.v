(* C01 - Structured control flow is lowered to gotos without changing behaviour.
   This file contains only the statements; proofs live in Tr.v / Check.v / C01Proofs.v. *)
From Coq Require Import List ZArith.
From Pory Require Import Lexer Ast Parser Emitter Sem2 SemTgt Tr Check C01Proofs ParseWf ProgWf RenderSim RenderCheck LabelSim C01Final Worklist C01Main Format ProgSrc C01Top.

(* PARTIAL (named so): source semantics = chunk-graph semantics, for every abstract game (St, exec, observers),
   every body, every run length, on every chunk graph that the verified relation checker accepts
   (the driver runs the extracted checker on the model's graph of every generated script).
   Missing for the full statement of C01: graph -> rendered instruction list (lemma 3), the two label-lookup facts,
   and the worklist invariant that would replace the checker run (lemma 1). *)
Theorem emit_script_correct_partial :
  forall (St : Type) (exec : cmd -> St -> stepres St) (flag_set trainer_beaten : text -> St -> bool)
         (cmp_var cmp_var_value : text -> text -> St -> comparison) (case_matches : text -> text -> St -> bool)
         (G : list chunk) (brkT orgT : tagmap) (find_label : text -> option sstate) (fuel : nat) (body : list stmt),
    (forall i c, get_chunk G i = Some c -> (0 <= i)%Z) ->
    chk_block G brkT orgT fuel body 0 (-1) = true ->
    scoped None None body ->
    label_lookup_agrees St exec flag_set trainer_beaten cmp_var cmp_var_value case_matches G brkT orgT find_label ->
    label_lookup_scoped find_label ->
    forall n s, exists m, (n <= m)%nat /\
      run sfinal (sstep St exec flag_set trainer_beaten cmp_var cmp_var_value case_matches find_label) n (enter body Kstop) s =
      run (@gfinal) (gstep St exec flag_set trainer_beaten cmp_var cmp_var_value case_matches G) m (ggoto G 0) s.
Proof. exact checked_graph_sim. Qed.
Print Assumptions emit_script_correct_partial.

(* both interpreters are monotone in fuel: a longer run extends a shorter one and never changes a finished result *)
Theorem run_monotone :
  forall (State St : Type) (final : State -> option outcome) (step : State -> St -> list event * State * St)
         (n : nat) (a : State) (s : St) (m : nat), (n <= m)%nat -> res_le (run final step n a s) (run final step m a s).
Proof. exact run_mono. Qed.
Print Assumptions run_monotone.

(* the well-scopedness hypothesis above holds of every script body of every accepted program *)
Theorem accepted_bodies_are_scoped :
  forall autovars switches env_errors parse_format ts p,
    parse_program autovars switches env_errors parse_format ts = Parser.Ok p -> all_scoped (bodies_of (tops p)).
Proof. exact ProgWf.parse_program_scoped. Qed.
Print Assumptions accepted_bodies_are_scoped.

(* MAIN THEOREM (validated form): for every abstract game (state type, command behaviour, flag / var / trainer observers),
   every body, both -optimize settings, marker modes and names: started at the script's entry label the emitted instruction
   list performs exactly the command sequence of the structured source and finishes the same way - every finite run of
   either is a prefix of a run of the other and they are equal once finished - provided the two executable validators accept
   the model's own chunk graph and code (relation checker chk_block: soundness theorem check_tr_sound; render check
   wf_render: ids, references, label uniqueness, no fall off the end), which the driver runs on every generated script.
   Still assumed: the two label-lookup facts (find_label agrees with the position of the label in the graph). *)
Theorem emit_script_correct_checked :
  forall (St : Type) (exec : cmd -> St -> stepres St) (flag_set trainer_beaten : text -> St -> bool)
         (cmp_var cmp_var_value : text -> text -> St -> comparison) (case_matches : text -> text -> St -> bool)
         (mp : option text) (tl : list text) (name : text) (glob optimize : bool) (body : list stmt)
         (w : wst) (code : list instr) (find_label : text -> option sstate) (fuel : nat),
    emit_graph body = Ok w ->
    emit_script mp tl name glob optimize body = Ok code ->
    chk_block (finals w) (brk w) (org w) fuel body 0 (-1) = true ->
    wf_render mp name (finals w) (order_of optimize (finals w)) code = true ->
    scoped None None body ->
    label_lookup_agrees St exec flag_set trainer_beaten cmp_var cmp_var_value case_matches (finals w) (brk w) (org w) find_label ->
    label_lookup_scoped find_label ->
    (forall n s, exists m,
        run sfinal (sstep St exec flag_set trainer_beaten cmp_var cmp_var_value case_matches find_label) n (enter body Kstop) s =
        run (@tfinal) (tstep St exec flag_set trainer_beaten cmp_var cmp_var_value case_matches code) m (jump code name) s) /\
    (forall m s, exists n,
        res_le (run (@tfinal) (tstep St exec flag_set trainer_beaten cmp_var cmp_var_value case_matches code) m (jump code name) s)
               (run sfinal (sstep St exec flag_set trainer_beaten cmp_var cmp_var_value case_matches find_label) n (enter body Kstop) s)).
Proof. exact C01Final.emit_script_correct_checked. Qed.
Print Assumptions emit_script_correct_checked.

(* lemma 3 alone: chunk graph = rendered instruction list, for ANY chunk order that passes the render check *)
Theorem render_sim_checked :
  forall (St : Type) (exec : cmd -> St -> stepres St) (flag_set trainer_beaten : text -> St -> bool)
         (cmp_var cmp_var_value : text -> text -> St -> comparison) (case_matches : text -> text -> St -> bool)
         mp tl name glob G order code,
    render_chunks mp tl name glob G order = Ok code -> wf_render mp name G order code = true ->
    (forall n s, exists m,
        run (@gfinal) (gstep St exec flag_set trainer_beaten cmp_var cmp_var_value case_matches G) n (ggoto G 0) s =
        run (@tfinal) (tstep St exec flag_set trainer_beaten cmp_var cmp_var_value case_matches code) m (jump code name) s) /\
    (forall m s, exists n,
        res_le (run (@tfinal) (tstep St exec flag_set trainer_beaten cmp_var cmp_var_value case_matches code) m (jump code name) s)
               (run (@gfinal) (gstep St exec flag_set trainer_beaten cmp_var cmp_var_value case_matches G) n (ggoto G 0) s)).
Proof. exact RenderCheck.render_sim_checked. Qed.
Print Assumptions render_sim_checked.

(* MAIN THEOREM, final form: no semantic hypothesis is left.  `goto L` in the source resumes at the state fl_body computes
   (the statement list after the label with the continuation rebuilt as if the label had been reached normally).
   Premises: the model's own graph and code pass the three executable validators - chk_block (relation checker),
   wf_render (render check), labels_okb (switches well formed, chunk labels distinct and found in the body) - which the
   driver runs on every generated script, and the body is well scoped, which holds of every accepted program
   (accepted_bodies_are_scoped). *)
Theorem emit_script_correct_validated :
  forall (St : Type) (exec : cmd -> St -> stepres St) (flag_set trainer_beaten : text -> St -> bool)
         (cmp_var cmp_var_value : text -> text -> St -> comparison) (case_matches : text -> text -> St -> bool)
         (mp : option text) (tl : list text) (name : text) (glob optimize : bool) (body : list stmt)
         (w : wst) (code : list instr) (fuel : nat),
    emit_graph body = Ok w ->
    emit_script mp tl name glob optimize body = Ok code ->
    chk_block (finals w) (brk w) (org w) fuel body 0 (-1) = true ->
    wf_render mp name (finals w) (order_of optimize (finals w)) code = true ->
    labels_okb body (finals w) = true ->
    scoped None None body ->
    (forall n s, exists m,
        run sfinal (sstep St exec flag_set trainer_beaten cmp_var cmp_var_value case_matches (fun l => fl_body l body Kstop)) n (enter body Kstop) s =
        run (@tfinal) (tstep St exec flag_set trainer_beaten cmp_var cmp_var_value case_matches code) m (jump code name) s) /\
    (forall m s, exists n,
        res_le (run (@tfinal) (tstep St exec flag_set trainer_beaten cmp_var cmp_var_value case_matches code) m (jump code name) s)
               (run sfinal (sstep St exec flag_set trainer_beaten cmp_var cmp_var_value case_matches (fun l => fl_body l body Kstop)) n (enter body Kstop) s)).
Proof. exact C01Final.emit_script_correct_validated. Qed.
Print Assumptions emit_script_correct_validated.

(* the two label-lookup facts (hypotheses of the _checked form above) *)
Theorem label_lookup_scoped_holds : forall body, scoped None None body -> label_lookup_scoped (fun l => fl_body l body Kstop).
Proof. exact LabelSim.label_lookup_scoped_holds. Qed.
Print Assumptions label_lookup_scoped_holds.

Theorem label_lookup_agrees_holds :
  forall (St : Type) (exec : cmd -> St -> stepres St) (flag_set trainer_beaten : text -> St -> bool)
         (cmp_var cmp_var_value : text -> text -> St -> comparison) (case_matches : text -> text -> St -> bool)
         (G : list chunk) (brkT orgT : tagmap) (body : list stmt),
    (forall i c, get_chunk G i = Some c -> (0 <= i)%Z) ->
    tr_block G brkT orgT body 0 (-1) -> swfb body = true -> NoDup (chunk_labels G) ->
    (forall n, In n (chunk_labels G) -> fl_body n body Kstop <> None) ->
    label_lookup_agrees St exec flag_set trainer_beaten cmp_var cmp_var_value case_matches G brkT orgT (fun l => fl_body l body Kstop).
Proof. exact LabelSim.label_lookup_agrees_holds. Qed.
Print Assumptions label_lookup_agrees_holds.


(* ---------- lemma 1: the worklist establishes the translation relation (no validator) ---------- *)
(* For every source that passes the executable source check (a property of the parser's output: switches well formed,
   every 'if' has a first condition, loop / switch tags pairwise distinct), the chunk graph the FIFO worklist ends with
   is related to the body by tr_block, all chunk ids are non-negative and distinct. *)
Theorem worklist_establishes_tr_block :
  forall body w, emit_graph body = Ok w -> src_ok body ->
    tr_block (finals w) (brk w) (org w) body 0 (-1) /\
    (forall i c, get_chunk (finals w) i = Some c -> (0 <= i)%Z) /\
    NoDup (ids (finals w)).
Proof. exact Worklist.worklist_establishes_tr_block. Qed.
Print Assumptions worklist_establishes_tr_block.

(* ---------- C01, final form: no premise about the chunk graph ---------- *)
(* lemma 1 (above) + lemma 2 (graph_sim) + lemma 3 (render_step) + label lookup; the remaining executable premises concern
   the rendered instruction list (wf_render) and the user labels (labels_okb); src_okb and scoped are properties of the
   parser's output (scoped is a theorem: accepted_bodies_are_scoped). *)
Theorem emit_script_correct :
  forall (St : Type) (exec : cmd -> St -> stepres St) (flag_set trainer_beaten : text -> St -> bool)
         (cmp_var cmp_var_value : text -> text -> St -> comparison) (case_matches : text -> text -> St -> bool)
         (mp : option text) (tl : list text) (name : text) (glob optimize : bool) (body : list stmt)
         (w : wst) (code : list instr),
    emit_graph body = Ok w ->
    emit_script mp tl name glob optimize body = Ok code ->
    src_okb body = true ->
    wf_render mp name (finals w) (order_of optimize (finals w)) code = true ->
    labels_okb body (finals w) = true ->
    scoped None None body ->
    (forall n s, exists m,
        run sfinal (sstep St exec flag_set trainer_beaten cmp_var cmp_var_value case_matches (fun l => fl_body l body Kstop)) n (enter body Kstop) s =
        run (@tfinal) (tstep St exec flag_set trainer_beaten cmp_var cmp_var_value case_matches code) m (jump code name) s) /\
    (forall m s, exists n,
        res_le (run (@tfinal) (tstep St exec flag_set trainer_beaten cmp_var cmp_var_value case_matches code) m (jump code name) s)
               (run sfinal (sstep St exec flag_set trainer_beaten cmp_var cmp_var_value case_matches (fun l => fl_body l body Kstop)) n (enter body Kstop) s)).
Proof. exact C01Main.emit_script_correct. Qed.
Print Assumptions emit_script_correct.


(* ---------- the parser's output passes the source check (no validator) ---------- *)
Theorem accepted_bodies_are_src_ok :
  forall hl hd hs autovars switches ee fc cli_font cli_maxlen s p,
  parse_program autovars switches ee (parse_format fc cli_font cli_maxlen ee) (lex hl hd hs s) = Parser.Ok p ->
  Forall (fun b => src_ok b /\ scoped None None b) (ProgWf.bodies_of (tops p)).
Proof. exact ProgSrc.accepted_bodies_are_src_ok. Qed.
Print Assumptions accepted_bodies_are_src_ok.

(* ---------- C01 from the source text ---------- *)
(* For every text, every classification of non-ASCII code points, command configuration, switch set, font configuration and
   mode: every script body (script statements and inline map scripts) of the parsed program is compiled correctly - the
   emitted instruction list and the structured source perform the same commands and finish the same way, in both directions -
   whenever the render check (labels of the emitted text unique, references resolved, no run-off) and the label check (the
   user's labels distinct and present) pass.  Nothing is assumed about the parser's output or the emitter's chunk graph. *)
Theorem compiled_scripts_correct :
  forall (St : Type) (exec : cmd -> St -> stepres St) (flag_set trainer_beaten : text -> St -> bool)
         (cmp_var cmp_var_value : text -> text -> St -> comparison) (case_matches : text -> text -> St -> bool)
         hl hd hs autovars switches ee fc cli_font cli_maxlen (src : text) (p : program),
  parse_program autovars switches ee (parse_format fc cli_font cli_maxlen ee) (lex hl hd hs src) = Parser.Ok p ->
  forall body, In body (ProgWf.bodies_of (tops p)) ->
  forall (mp : option text) (tl : list text) (name : text) (glob optimize : bool) (w : wst) (code : list instr),
  emit_graph body = Ok w ->
  emit_script mp tl name glob optimize body = Ok code ->
  wf_render mp name (finals w) (order_of optimize (finals w)) code = true ->
  labels_okb body (finals w) = true ->
  (forall n s, exists m,
      run sfinal (sstep St exec flag_set trainer_beaten cmp_var cmp_var_value case_matches (fun l => fl_body l body Kstop)) n (enter body Kstop) s =
      run (@tfinal) (tstep St exec flag_set trainer_beaten cmp_var cmp_var_value case_matches code) m (jump code name) s) /\
  (forall m s, exists n,
      res_le (run (@tfinal) (tstep St exec flag_set trainer_beaten cmp_var cmp_var_value case_matches code) m (jump code name) s)
             (run sfinal (sstep St exec flag_set trainer_beaten cmp_var cmp_var_value case_matches (fun l => fl_body l body Kstop)) n (enter body Kstop) s)).
Proof. exact C01Top.compiled_scripts_correct. Qed.
Print Assumptions compiled_scripts_correct.

(* ---------- the label premise stated on the source ---------- *)
(* The worklist conserves the user's labels: the chunk labels of the final graph are, as a multiset, the labels written in the
   body (at any depth).  (Also the C04 half "every label the author wrote is carried by exactly one chunk".) *)
Theorem chunk_labels_are_source_labels :
  forall body w, emit_graph body = Ok w -> src_ok body ->
  Permutation.Permutation (LabelSim.chunk_labels (finals w)) (WorkLabels.dlabs body).
Proof. exact WorkLabels.chunk_labels_are_source_labels. Qed.
Print Assumptions chunk_labels_are_source_labels.

(* C01 from the source text with one executable premise left (wf_render): the labels of the script are pairwise distinct. *)
Theorem compiled_scripts_correct_distinct_labels :
  forall (St : Type) (exec : cmd -> St -> stepres St) (flag_set trainer_beaten : text -> St -> bool)
         (cmp_var cmp_var_value : text -> text -> St -> comparison) (case_matches : text -> text -> St -> bool)
         hl hd hs autovars switches ee fc cli_font cli_maxlen (src : text) (p : program),
  parse_program autovars switches ee (parse_format fc cli_font cli_maxlen ee) (lex hl hd hs src) = Parser.Ok p ->
  forall body, In body (ProgWf.bodies_of (tops p)) ->
  NoDup (WorkLabels.dlabs body) ->
  forall (mp : option text) (tl : list text) (name : text) (glob optimize : bool) (w : wst) (code : list instr),
  emit_graph body = Ok w ->
  emit_script mp tl name glob optimize body = Ok code ->
  wf_render mp name (finals w) (order_of optimize (finals w)) code = true ->
  (forall n s, exists m,
      run sfinal (sstep St exec flag_set trainer_beaten cmp_var cmp_var_value case_matches (fun l => fl_body l body Kstop)) n (enter body Kstop) s =
      run (@tfinal) (tstep St exec flag_set trainer_beaten cmp_var cmp_var_value case_matches code) m (jump code name) s) /\
  (forall m s, exists n,
      res_le (run (@tfinal) (tstep St exec flag_set trainer_beaten cmp_var cmp_var_value case_matches code) m (jump code name) s)
             (run sfinal (sstep St exec flag_set trainer_beaten cmp_var cmp_var_value case_matches (fun l => fl_body l body Kstop)) n (enter body Kstop) s)).
Proof. exact C01Top.compiled_scripts_correct_distinct_labels. Qed.
Print Assumptions compiled_scripts_correct_distinct_labels.

(* ---------- C01 from the source text, no validator of the compiler's work left ---------- *)
(* wf_render and labels_okb are theorems (RenderFromSource.v).  The remaining premises speak about what the AUTHOR wrote:
   labels pairwise distinct; names_okb - an AutoVar command is not called end / return / goto, a goto names a label of the
   script or no label of the emitted script (it does not imitate a generated name) - and fewer than 10^40 chunks. *)
Theorem compiled_scripts_correct_from_source :
  forall (St : Type) (exec : cmd -> St -> stepres St) (flag_set trainer_beaten : text -> St -> bool)
         (cmp_var cmp_var_value : text -> text -> St -> comparison) (case_matches : text -> text -> St -> bool)
         hl hd hs autovars switches ee fc cli_font cli_maxlen (src : text) (p : program),
  parse_program autovars switches ee (parse_format fc cli_font cli_maxlen ee) (lex hl hd hs src) = Parser.Ok p ->
  forall body, In body (ProgWf.bodies_of (tops p)) ->
  NoDup (WorkLabels.dlabs body) ->
  forall (mp : option text) (tl : list text) (name : text) (glob optimize : bool) (w : wst) (code : list instr),
  emit_graph body = Ok w ->
  emit_script mp tl name glob optimize body = Ok code ->
  RenderFromSource.names_okb (finals w) code = true ->
  (Z.of_nat (List.length (finals w)) <= 10 ^ 40)%Z ->
  (forall n s, exists m,
      run sfinal (sstep St exec flag_set trainer_beaten cmp_var cmp_var_value case_matches (fun l => fl_body l body Kstop)) n (enter body Kstop) s =
      run (@tfinal) (tstep St exec flag_set trainer_beaten cmp_var cmp_var_value case_matches code) m (jump code name) s) /\
  (forall m s, exists n,
      res_le (run (@tfinal) (tstep St exec flag_set trainer_beaten cmp_var cmp_var_value case_matches code) m (jump code name) s)
             (run sfinal (sstep St exec flag_set trainer_beaten cmp_var cmp_var_value case_matches (fun l => fl_body l body Kstop)) n (enter body Kstop) s)).
Proof. exact C01Top.compiled_scripts_correct_from_source. Qed.
Print Assumptions compiled_scripts_correct_from_source.

(* ---- down to the printed text (PrintRead.v). The theorems above are about the instruction list emit_script returns; the
   compiler's output is the text print_instrs mp code. read_printed / read_asm_print: what the assembly reader makes of every
   printed line (every constructor) and of the whole text; print_read_behaviour(_exact): the target machine runs the
   read-back text exactly as it runs the list, under an executable condition on names and arguments (printable_code: no
   newline / comma in an argument, no command named like one of the machine's own instructions - each condition shown
   necessary by an example in PrintRead.v); compiled_text_correct_from_source: C01 from the source text to the printed
   text. hypotheses_satisfiable: all premises hold on a real source text, markers on, both settings. ---- *)
From Coq Require Import String NArith Bool Permutation.
From Pory Require Import PrintRead.
Import ListNotations. Open Scope list_scope.
Theorem read_printed :
  forall (path : text) (i : instr), printable_instr path i = true -> read_line (line_of path i) = rb i.
Proof. exact PrintRead.read_printed. Qed.
Print Assumptions read_printed.

Theorem printed_line_nl :
  forall (path : text) (i : instr), printable_instr path i = true -> nochar 10 (line_of path i) = true.
Proof. exact PrintRead.printed_line_nl. Qed.
Print Assumptions printed_line_nl.

Theorem read_asm_print :
  forall (mpath : option text) (code : list instr),
  printable_code mpath code = true -> read_asm (print_instrs mpath code) = map rb code ++ [IBlank].
Proof. exact PrintRead.read_asm_print. Qed.
Print Assumptions read_asm_print.

Theorem print_read_behaviour :
  forall (St : Type) (exec : cmd -> St -> stepres St) (flag_set trainer_beaten : text -> St -> bool)
    (cmp_var cmp_var_value : text -> text -> St -> comparison) (case_matches : text -> text -> St -> bool) (mpath : option text)
    (code : list instr) (name : text),
  printable_code mpath code = true ->
  token_blind St exec ->
  (forall (m : nat) (s : St),
   exists m' : nat,
     run tfinal (tstep St exec flag_set trainer_beaten cmp_var cmp_var_value case_matches (read_asm (print_instrs mpath code))) m'
       (jump (read_asm (print_instrs mpath code)) name) s =
     strip_res (run tfinal (tstep St exec flag_set trainer_beaten cmp_var cmp_var_value case_matches code) m (jump code name) s)) /\
  (forall (m : nat) (s : St),
   res_le
     (run tfinal (tstep St exec flag_set trainer_beaten cmp_var cmp_var_value case_matches (read_asm (print_instrs mpath code))) m
        (jump (read_asm (print_instrs mpath code)) name) s)
     (strip_res (run tfinal (tstep St exec flag_set trainer_beaten cmp_var cmp_var_value case_matches code) m (jump code name) s))).
Proof. exact PrintRead.print_read_behaviour. Qed.
Print Assumptions print_read_behaviour.

Theorem print_read_behaviour_any_exec :
  forall (St : Type) (exec : cmd -> St -> stepres St) (flag_set trainer_beaten : text -> St -> bool)
    (cmp_var cmp_var_value : text -> text -> St -> comparison) (case_matches : text -> text -> St -> bool) (mpath : option text)
    (code : list instr) (name : text),
  printable_code mpath code = true ->
  (forall (m : nat) (s : St),
   exists m' : nat,
     run tfinal (tstep St exec flag_set trainer_beaten cmp_var cmp_var_value case_matches (read_asm (print_instrs mpath code))) m'
       (jump (read_asm (print_instrs mpath code)) name) s =
     strip_res
       (run tfinal (tstep St (fun c : cmd => exec (strip c)) flag_set trainer_beaten cmp_var cmp_var_value case_matches code) m 
          (jump code name) s)) /\
  (forall (m : nat) (s : St),
   res_le
     (run tfinal (tstep St exec flag_set trainer_beaten cmp_var cmp_var_value case_matches (read_asm (print_instrs mpath code))) m
        (jump (read_asm (print_instrs mpath code)) name) s)
     (strip_res
        (run tfinal (tstep St (fun c : cmd => exec (strip c)) flag_set trainer_beaten cmp_var cmp_var_value case_matches code) m
           (jump code name) s))).
Proof. exact PrintRead.print_read_behaviour_any_exec. Qed.
Print Assumptions print_read_behaviour_any_exec.

Theorem print_read_behaviour_exact :
  forall (St : Type) (exec : cmd -> St -> stepres St) (flag_set trainer_beaten : text -> St -> bool)
    (cmp_var cmp_var_value : text -> text -> St -> comparison) (case_matches : text -> text -> St -> bool) (mpath : option text)
    (code : list instr) (name : text),
  printable_code mpath code = true ->
  closed_code code = true ->
  token_blind St exec ->
  forall (m : nat) (s : St),
  run tfinal (tstep St exec flag_set trainer_beaten cmp_var cmp_var_value case_matches (read_asm (print_instrs mpath code))) m
    (jump (read_asm (print_instrs mpath code)) name) s =
  strip_res (run tfinal (tstep St exec flag_set trainer_beaten cmp_var cmp_var_value case_matches code) m (jump code name) s).
Proof. exact PrintRead.print_read_behaviour_exact. Qed.
Print Assumptions print_read_behaviour_exact.

Theorem print_read_behaviour_exact_any_exec :
  forall (St : Type) (exec : cmd -> St -> stepres St) (flag_set trainer_beaten : text -> St -> bool)
    (cmp_var cmp_var_value : text -> text -> St -> comparison) (case_matches : text -> text -> St -> bool) (mpath : option text)
    (code : list instr) (name : text),
  printable_code mpath code = true ->
  closed_code code = true ->
  forall (m : nat) (s : St),
  run tfinal (tstep St exec flag_set trainer_beaten cmp_var cmp_var_value case_matches (read_asm (print_instrs mpath code))) m
    (jump (read_asm (print_instrs mpath code)) name) s =
  strip_res
    (run tfinal (tstep St (fun c : cmd => exec (strip c)) flag_set trainer_beaten cmp_var cmp_var_value case_matches code) m (jump code name) s).
Proof. exact PrintRead.print_read_behaviour_exact_any_exec. Qed.
Print Assumptions print_read_behaviour_exact_any_exec.

Theorem run_target_print_read :
  forall (mpath : option text) (code : list instr) (entry : text) (fuel : nat) (seed : N),
  printable_code mpath code = true ->
  closed_code code = true -> run_target (read_asm (print_instrs mpath code)) entry fuel seed = run_target code entry fuel seed.
Proof. exact PrintRead.run_target_print_read. Qed.
Print Assumptions run_target_print_read.

Theorem compiled_text_correct_from_source :
  forall (St : Type) (exec : cmd -> St -> stepres St) (flag_set trainer_beaten : text -> St -> bool)
    (cmp_var cmp_var_value : text -> text -> St -> comparison) (case_matches : text -> text -> St -> bool) (hl hd hs : N -> bool)
    (autovars : list (text * autovar)) (switches : list (text * text)) (ee : bool) (fc : fontcfg) (cli_font : text) 
    (cli_maxlen : Z) (source : text) (p : program),
  parse_program autovars switches ee (parse_format fc cli_font cli_maxlen ee) (lex hl hd hs source) = Parser.Ok p ->
  forall body : list stmt,
  In body (bodies_of (tops p)) ->
  NoDup (WorkLabels.dlabs body) ->
  forall (mp : option text) (tl : list text) (name : text) (glob optimize : bool) (w : wst) (code : list instr),
  emit_graph body = Ok w ->
  emit_script mp tl name glob optimize body = Ok code ->
  RenderFromSource.names_okb (finals w) code = true ->
  (Z.of_nat (Datatypes.length (finals w)) <= 10 ^ 40)%Z ->
  printable_code mp code = true ->
  token_blind St exec ->
  (forall (n : nat) (s : St),
   exists m : nat,
     strip_res
       (run sfinal (sstep St exec flag_set trainer_beaten cmp_var cmp_var_value case_matches (fun l : text => fl_body l body Kstop)) n
          (enter body Kstop) s) =
     run tfinal (tstep St exec flag_set trainer_beaten cmp_var cmp_var_value case_matches (read_asm (print_instrs mp code))) m
       (jump (read_asm (print_instrs mp code)) name) s) /\
  (forall (m : nat) (s : St),
   exists n : nat,
     res_le
       (run tfinal (tstep St exec flag_set trainer_beaten cmp_var cmp_var_value case_matches (read_asm (print_instrs mp code))) m
          (jump (read_asm (print_instrs mp code)) name) s)
       (strip_res
          (run sfinal (sstep St exec flag_set trainer_beaten cmp_var cmp_var_value case_matches (fun l : text => fl_body l body Kstop)) n
             (enter body Kstop) s))).
Proof. exact PrintRead.compiled_text_correct_from_source. Qed.
Print Assumptions compiled_text_correct_from_source.

Theorem compiled_text_correct_from_source_any_exec :
  forall (St : Type) (exec : cmd -> St -> stepres St) (flag_set trainer_beaten : text -> St -> bool)
    (cmp_var cmp_var_value : text -> text -> St -> comparison) (case_matches : text -> text -> St -> bool) (hl hd hs : N -> bool)
    (autovars : list (text * autovar)) (switches : list (text * text)) (ee : bool) (fc : fontcfg) (cli_font : text) 
    (cli_maxlen : Z) (source : text) (p : program),
  parse_program autovars switches ee (parse_format fc cli_font cli_maxlen ee) (lex hl hd hs source) = Parser.Ok p ->
  forall body : list stmt,
  In body (bodies_of (tops p)) ->
  NoDup (WorkLabels.dlabs body) ->
  forall (mp : option text) (tl : list text) (name : text) (glob optimize : bool) (w : wst) (code : list instr),
  emit_graph body = Ok w ->
  emit_script mp tl name glob optimize body = Ok code ->
  RenderFromSource.names_okb (finals w) code = true ->
  (Z.of_nat (Datatypes.length (finals w)) <= 10 ^ 40)%Z ->
  printable_code mp code = true ->
  (forall (n : nat) (s : St),
   exists m : nat,
     strip_res
       (run sfinal
          (sstep St (fun c : cmd => exec (strip c)) flag_set trainer_beaten cmp_var cmp_var_value case_matches
             (fun l : text => fl_body l body Kstop)) n (enter body Kstop) s) =
     run tfinal (tstep St exec flag_set trainer_beaten cmp_var cmp_var_value case_matches (read_asm (print_instrs mp code))) m
       (jump (read_asm (print_instrs mp code)) name) s) /\
  (forall (m : nat) (s : St),
   exists n : nat,
     res_le
       (run tfinal (tstep St exec flag_set trainer_beaten cmp_var cmp_var_value case_matches (read_asm (print_instrs mp code))) m
          (jump (read_asm (print_instrs mp code)) name) s)
       (strip_res
          (run sfinal
             (sstep St (fun c : cmd => exec (strip c)) flag_set trainer_beaten cmp_var cmp_var_value case_matches
                (fun l : text => fl_body l body Kstop)) n (enter body Kstop) s))).
Proof. exact PrintRead.compiled_text_correct_from_source_any_exec. Qed.
Print Assumptions compiled_text_correct_from_source_any_exec.

Theorem hypotheses_satisfiable :
  forall optimize : bool,
  exists (p : program) (w : wst),
    parse_program [] [] false (parse_format fc0 [] 0 false) (lex nf nf nf (t ex_src)) = Parser.Ok p /\
    In ex_body (bodies_of (tops p)) /\
    NoDup (WorkLabels.dlabs ex_body) /\
    emit_graph ex_body = Ok w /\
    emit_script ex_mp [] (t "Main") true optimize ex_body = Ok (ex_code optimize) /\
    RenderFromSource.names_okb (finals w) (ex_code optimize) = true /\
    (Z.of_nat (Datatypes.length (finals w)) <= 10 ^ 40)%Z /\
    printable_code ex_mp (ex_code optimize) = true /\
    closed_code (ex_code optimize) = true /\ Datatypes.length (ex_code optimize) = (if optimize then 57 else 85) /\ token_blind N o_exec.
Proof. exact PrintRead.hypotheses_satisfiable. Qed.
Print Assumptions hypotheses_satisfiable.


(* ---- inside the whole program (ProgramRun.v). The compiler emits ONE instruction list per file and the machine resolves a
   label by searching all of it. script_steps_in_program_closed / script_runs_in_program_closed: if prog = pre ++ code ++ post,
   no label of code is defined in pre and code is closed (rendered_script_closed: every emitted script is), the run over prog
   is the run over code shifted by length pre until code jumps to a label it does not define; then the program continues
   at that label (_continued_) or leaves (_unknown_); self_contained_...: without such jumps the runs are equal for every
   fuel. program_contains_scripts: the program's list contains the code of each script (top-level and map scripts) as a
   segment. program_scripts_correct: C01 for every script against the WHOLE program's list, assuming the labels of the
   program pairwise distinct (boundary B2). ---- *)
From Pory Require Import ProgramRun.
Theorem script_steps_in_program_closed :
  forall (St : Type) (exec : cmd -> St -> stepres St) (flag_set trainer_beaten : text -> St -> bool)
    (cmp_var cmp_var_value : text -> text -> St -> comparison) (case_matches : text -> text -> St -> bool) (pre code post : list instr)
    (name : text) (k : nat) (s : St) (tr : list event) (b : tstate) (s' : St),
  closed code ->
  (forall l : text, In l (lnames code) -> ~ In l (lnames pre)) ->
  steps tfinal (tstep St exec flag_set trainer_beaten cmp_var cmp_var_value case_matches code) k (jump code name) s tr b s' ->
  steps tfinal (tstep St exec flag_set trainer_beaten cmp_var cmp_var_value case_matches (pre ++ code ++ post)) k
    (jump (pre ++ code ++ post) name) s tr (emb pre code post b) s'.
Proof. exact ProgramRun.script_steps_in_program_closed. Qed.
Print Assumptions script_steps_in_program_closed.

Theorem script_runs_in_program_closed :
  forall (St : Type) (exec : cmd -> St -> stepres St) (flag_set trainer_beaten : text -> St -> bool)
    (cmp_var cmp_var_value : text -> text -> St -> comparison) (case_matches : text -> text -> St -> bool) (pre code post : list instr)
    (name : text) (m : nat) (s : St),
  closed code ->
  (forall l : text, In l (lnames code) -> ~ In l (lnames pre)) ->
  match snd (run tfinal (tstep St exec flag_set trainer_beaten cmp_var cmp_var_value case_matches code) m (jump code name) s) with
  | Done (OJumpOut l) =>
      exists (k : nat) (s' : St),
        k <= m /\
        steps tfinal (tstep St exec flag_set trainer_beaten cmp_var cmp_var_value case_matches (pre ++ code ++ post)) k
          (jump (pre ++ code ++ post) name) s
          (Datatypes.fst (run tfinal (tstep St exec flag_set trainer_beaten cmp_var cmp_var_value case_matches code) m (jump code name) s))
          (jump (pre ++ code ++ post) l) s'
  | _ =>
      run tfinal (tstep St exec flag_set trainer_beaten cmp_var cmp_var_value case_matches (pre ++ code ++ post)) m
        (jump (pre ++ code ++ post) name) s =
      run tfinal (tstep St exec flag_set trainer_beaten cmp_var cmp_var_value case_matches code) m (jump code name) s
  end.
Proof. exact ProgramRun.script_runs_in_program_closed. Qed.
Print Assumptions script_runs_in_program_closed.

Theorem script_runs_in_program_continued_closed :
  forall (St : Type) (exec : cmd -> St -> stepres St) (flag_set trainer_beaten : text -> St -> bool)
    (cmp_var cmp_var_value : text -> text -> St -> comparison) (case_matches : text -> text -> St -> bool) (pre code post : list instr)
    (name : text) (m : nat) (s : St) (l : text),
  closed code ->
  (forall l0 : text, In l0 (lnames code) -> ~ In l0 (lnames pre)) ->
  snd (run tfinal (tstep St exec flag_set trainer_beaten cmp_var cmp_var_value case_matches code) m (jump code name) s) = Done (OJumpOut l) ->
  exists (k : nat) (s' : St),
    k <= m /\
    run tfinal (tstep St exec flag_set trainer_beaten cmp_var cmp_var_value case_matches (pre ++ code ++ post)) m
      (jump (pre ++ code ++ post) name) s =
    (Datatypes.fst (run tfinal (tstep St exec flag_set trainer_beaten cmp_var cmp_var_value case_matches code) m (jump code name) s) ++
     Datatypes.fst
       (run tfinal (tstep St exec flag_set trainer_beaten cmp_var cmp_var_value case_matches (pre ++ code ++ post)) 
          (m - k) (jump (pre ++ code ++ post) l) s'),
     snd
       (run tfinal (tstep St exec flag_set trainer_beaten cmp_var cmp_var_value case_matches (pre ++ code ++ post)) 
          (m - k) (jump (pre ++ code ++ post) l) s')).
Proof. exact ProgramRun.script_runs_in_program_continued_closed. Qed.
Print Assumptions script_runs_in_program_continued_closed.

Theorem script_runs_in_program_unknown_closed :
  forall (St : Type) (exec : cmd -> St -> stepres St) (flag_set trainer_beaten : text -> St -> bool)
    (cmp_var cmp_var_value : text -> text -> St -> comparison) (case_matches : text -> text -> St -> bool) (pre code post : list instr)
    (name : text) (m : nat) (s : St),
  closed code ->
  (forall l : text, In l (lnames code) -> ~ In l (lnames pre)) ->
  (forall l : text,
   snd (run tfinal (tstep St exec flag_set trainer_beaten cmp_var cmp_var_value case_matches code) m (jump code name) s) = Done (OJumpOut l) ->
   ~ In l (lnames (pre ++ code ++ post))) ->
  run tfinal (tstep St exec flag_set trainer_beaten cmp_var cmp_var_value case_matches (pre ++ code ++ post)) m
    (jump (pre ++ code ++ post) name) s =
  run tfinal (tstep St exec flag_set trainer_beaten cmp_var cmp_var_value case_matches code) m (jump code name) s.
Proof. exact ProgramRun.script_runs_in_program_unknown_closed. Qed.
Print Assumptions script_runs_in_program_unknown_closed.

Theorem self_contained_script_runs_in_program_closed :
  forall (St : Type) (exec : cmd -> St -> stepres St) (flag_set trainer_beaten : text -> St -> bool)
    (cmp_var cmp_var_value : text -> text -> St -> comparison) (case_matches : text -> text -> St -> bool) (pre code post : list instr)
    (name : text) (m : nat) (s : St),
  closed code ->
  (forall l : text, In l (lnames code) -> ~ In l (lnames pre)) ->
  (forall l : text, In l (jtargets code) -> In l (lnames (pre ++ code ++ post)) -> In l (lnames code)) ->
  (In name (lnames (pre ++ code ++ post)) -> In name (lnames code)) ->
  run tfinal (tstep St exec flag_set trainer_beaten cmp_var cmp_var_value case_matches (pre ++ code ++ post)) m
    (jump (pre ++ code ++ post) name) s =
  run tfinal (tstep St exec flag_set trainer_beaten cmp_var cmp_var_value case_matches code) m (jump code name) s.
Proof. exact ProgramRun.self_contained_script_runs_in_program_closed. Qed.
Print Assumptions self_contained_script_runs_in_program_closed.

Theorem rendered_script_closed :
  forall (mp : option text) (tl : list text) (name : text) (glob : bool) (G : list chunk) (order : list Z) (code : list instr),
  render_chunks mp tl name glob G order = Ok code -> wf_render mp name G order code = true -> closed code.
Proof. exact ProgramRun.rendered_script_closed. Qed.
Print Assumptions rendered_script_closed.

Theorem program_contains_scripts :
  forall (optimize : bool) (mp : option text) (p : program) (prog : list instr),
  emit_program_instrs optimize mp p = Ok prog ->
  forall (name : text) (glob : bool) (body : list stmt),
  In (name, glob, body) (NameClash.scripts_of (tops p)) ->
  exists code pre post : list instr, emit_script mp (map xname (texts p)) name glob optimize body = Ok code /\ prog = pre ++ code ++ post.
Proof. exact ProgramRun.program_contains_scripts. Qed.
Print Assumptions program_contains_scripts.

Theorem code_labels_distinct_source :
  forall (mp : option text) (tl : list text) (name : text) (glob optimize : bool) (body : list stmt) (w : wst) (code : list instr),
  emit_graph body = Ok w ->
  src_ok body -> emit_script mp tl name glob optimize body = Ok code -> NoDup (lnames code) -> NoDup (WorkLabels.dlabs body).
Proof. exact ProgramRun.code_labels_distinct_source. Qed.
Print Assumptions code_labels_distinct_source.

Theorem program_scripts_correct :
  forall (St : Type) (exec : cmd -> St -> stepres St) (flag_set trainer_beaten : text -> St -> bool)
    (cmp_var cmp_var_value : text -> text -> St -> comparison) (case_matches : text -> text -> St -> bool) (hl hd hs : N -> bool)
    (autovars : list (text * autovar)) (switches : list (text * text)) (ee : bool) (fc : fontcfg) (cli_font : text) 
    (cli_maxlen : Z) (src : text) (p : program) (optimize : bool) (mp : option text) (prog : list instr),
  parse_program autovars switches ee (parse_format fc cli_font cli_maxlen ee) (lex hl hd hs src) = Parser.Ok p ->
  emit_program_instrs optimize mp p = Ok prog ->
  NoDup (lnames prog) ->
  forall (name : text) (glob : bool) (body : list stmt),
  In (name, glob, body) (NameClash.scripts_of (tops p)) ->
  forall (w : wst) (code : list instr),
  emit_graph body = Ok w ->
  emit_script mp (map xname (texts p)) name glob optimize body = Ok code ->
  RenderFromSource.names_okb (finals w) code = true ->
  (forall (n : nat) (s : St),
   exists m : nat,
     match
       snd
         (run sfinal (sstep St exec flag_set trainer_beaten cmp_var cmp_var_value case_matches (fun l : text => fl_body l body Kstop)) n
            (enter body Kstop) s)
     with
     | Done (OJumpOut l) =>
         exists (k : nat) (s' : St),
           k <= m /\
           steps tfinal (tstep St exec flag_set trainer_beaten cmp_var cmp_var_value case_matches prog) k (jump prog name) s
             (Datatypes.fst
                (run sfinal (sstep St exec flag_set trainer_beaten cmp_var cmp_var_value case_matches (fun l0 : text => fl_body l0 body Kstop))
                   n (enter body Kstop) s)) (jump prog l) s'
     | _ =>
         run tfinal (tstep St exec flag_set trainer_beaten cmp_var cmp_var_value case_matches prog) m (jump prog name) s =
         run sfinal (sstep St exec flag_set trainer_beaten cmp_var cmp_var_value case_matches (fun l : text => fl_body l body Kstop)) n
           (enter body Kstop) s
     end) /\
  (forall (m : nat) (s : St),
   exists n : nat,
     res_le (run tfinal (tstep St exec flag_set trainer_beaten cmp_var cmp_var_value case_matches prog) m (jump prog name) s)
       (run sfinal (sstep St exec flag_set trainer_beaten cmp_var cmp_var_value case_matches (fun l : text => fl_body l body Kstop)) n
          (enter body Kstop) s) \/
     (exists (l : text) (k : nat) (s' : St),
        snd
          (run sfinal (sstep St exec flag_set trainer_beaten cmp_var cmp_var_value case_matches (fun l0 : text => fl_body l0 body Kstop)) n
             (enter body Kstop) s) = Done (OJumpOut l) /\
        In l (lnames prog) /\
        k <= m /\
        steps tfinal (tstep St exec flag_set trainer_beaten cmp_var cmp_var_value case_matches prog) k (jump prog name) s
          (Datatypes.fst
             (run sfinal (sstep St exec flag_set trainer_beaten cmp_var cmp_var_value case_matches (fun l0 : text => fl_body l0 body Kstop)) n
                (enter body Kstop) s)) (jump prog l) s')).
Proof. exact ProgramRun.program_scripts_correct. Qed.
Print Assumptions program_scripts_correct.

Theorem program_script_goto_continues :
  forall (St : Type) (exec : cmd -> St -> stepres St) (flag_set trainer_beaten : text -> St -> bool)
    (cmp_var cmp_var_value : text -> text -> St -> comparison) (case_matches : text -> text -> St -> bool) (hl hd hs : N -> bool)
    (autovars : list (text * autovar)) (switches : list (text * text)) (ee : bool) (fc : fontcfg) (cli_font : text) 
    (cli_maxlen : Z) (src : text) (p : program) (optimize : bool) (mp : option text) (prog : list instr),
  parse_program autovars switches ee (parse_format fc cli_font cli_maxlen ee) (lex hl hd hs src) = Parser.Ok p ->
  emit_program_instrs optimize mp p = Ok prog ->
  NoDup (lnames prog) ->
  forall (name : text) (glob : bool) (body : list stmt),
  In (name, glob, body) (NameClash.scripts_of (tops p)) ->
  forall (w : wst) (code : list instr),
  emit_graph body = Ok w ->
  emit_script mp (map xname (texts p)) name glob optimize body = Ok code ->
  RenderFromSource.names_okb (finals w) code = true ->
  forall (n : nat) (s : St) (l : text),
  snd
    (run sfinal (sstep St exec flag_set trainer_beaten cmp_var cmp_var_value case_matches (fun l0 : text => fl_body l0 body Kstop)) n
       (enter body Kstop) s) = Done (OJumpOut l) ->
  exists (k : nat) (s' : St),
    forall j : nat,
    run tfinal (tstep St exec flag_set trainer_beaten cmp_var cmp_var_value case_matches prog) (k + j) (jump prog name) s =
    (Datatypes.fst
       (run sfinal (sstep St exec flag_set trainer_beaten cmp_var cmp_var_value case_matches (fun l0 : text => fl_body l0 body Kstop)) n
          (enter body Kstop) s) ++
     Datatypes.fst (run tfinal (tstep St exec flag_set trainer_beaten cmp_var cmp_var_value case_matches prog) j (jump prog l) s'),
     snd (run tfinal (tstep St exec flag_set trainer_beaten cmp_var cmp_var_value case_matches prog) j (jump prog l) s')).
Proof. exact ProgramRun.program_script_goto_continues. Qed.
Print Assumptions program_script_goto_continues.

Theorem program_self_contained_scripts_correct :
  forall (St : Type) (exec : cmd -> St -> stepres St) (flag_set trainer_beaten : text -> St -> bool)
    (cmp_var cmp_var_value : text -> text -> St -> comparison) (case_matches : text -> text -> St -> bool) (hl hd hs : N -> bool)
    (autovars : list (text * autovar)) (switches : list (text * text)) (ee : bool) (fc : fontcfg) (cli_font : text) 
    (cli_maxlen : Z) (src : text) (p : program) (optimize : bool) (mp : option text) (prog : list instr),
  parse_program autovars switches ee (parse_format fc cli_font cli_maxlen ee) (lex hl hd hs src) = Parser.Ok p ->
  emit_program_instrs optimize mp p = Ok prog ->
  NoDup (lnames prog) ->
  forall (name : text) (glob : bool) (body : list stmt),
  In (name, glob, body) (NameClash.scripts_of (tops p)) ->
  forall (w : wst) (code : list instr),
  emit_graph body = Ok w ->
  emit_script mp (map xname (texts p)) name glob optimize body = Ok code ->
  RenderFromSource.names_okb (finals w) code = true ->
  (forall l : text, In l (jtargets code) -> In l (lnames prog) -> In l (lnames code)) ->
  (forall (n : nat) (s : St),
   exists m : nat,
     run sfinal (sstep St exec flag_set trainer_beaten cmp_var cmp_var_value case_matches (fun l : text => fl_body l body Kstop)) n
       (enter body Kstop) s = run tfinal (tstep St exec flag_set trainer_beaten cmp_var cmp_var_value case_matches prog) m (jump prog name) s) /\
  (forall (m : nat) (s : St),
   exists n : nat,
     res_le (run tfinal (tstep St exec flag_set trainer_beaten cmp_var cmp_var_value case_matches prog) m (jump prog name) s)
       (run sfinal (sstep St exec flag_set trainer_beaten cmp_var cmp_var_value case_matches (fun l : text => fl_body l body Kstop)) n
          (enter body Kstop) s)).
Proof. exact ProgramRun.program_self_contained_scripts_correct. Qed.
Print Assumptions program_self_contained_scripts_correct.


(* ---- the premises on names moved to the SOURCE (NamesOk.v). src_names_ok name body (executable): the author's labels are
   pairwise distinct; every goto(l) with one argument names a label of the script, or a name that is neither the script's own
   name nor of the generated form <name>_<digits>; no AutoVar command of a condition is called end / return / goto.
   names_ok_from_source: then the output-level check names_okb holds. compiled_scripts_correct_src_names: C01 from the source text
   with src_names_ok in place of NoDup (dlabs body) and names_okb; optimize_equiv_src_names; program_scripts_correct_src_names,
   program_self_contained_scripts_correct_source (inside the whole program, hypothesis on the author's gotos only),
   program_local_goto_scripts_correct; autovar_names_from_config: the third clause follows from a check of the command
   configuration. Each clause is needed: NamesOk.v examples duplicate_label_miscompiled (a label written twice in one script is
   accepted by the compiler and the goto binds differently in source and assembly - outside C01's 'user labels' as a set, recorded
   as boundary B2), goto_generated_label_miscompiled, goto_own_name_differs_alone, autovar_named_end_miscompiled. ---- *)
From Pory Require Import NamesOk.
Theorem src_names_ok_spec :
  forall (name : text) (body : list stmt),
  src_names_ok name body = true <->
  NoDup (WorkLabels.dlabs body) /\
  (forall (c : cmd) (l : text),
   In (ML.KCommand c) (ML.body_constructs body) ->
   is_name c "goto" = true -> cargs c = [l] -> In l (WorkLabels.dlabs body) \/ l <> name /\ generated_form name l = false) /\
  (forall (l : leaf) (p : cmd),
   In (ML.KCond l) (ML.body_constructs body) ->
   lpre l = Some p -> is_name p "end" = false /\ is_name p "return" = false /\ is_name p "goto" = false).
Proof. exact NamesOk.src_names_ok_spec. Qed.
Print Assumptions src_names_ok_spec.

Theorem names_ok_from_source :
  forall (mp : option text) (tl : list text) (name : text) (glob optimize : bool) (body : list stmt) (w : wst) (code : list instr),
  src_ok body ->
  src_names_ok name body = true ->
  emit_graph body = Ok w -> emit_script mp tl name glob optimize body = Ok code -> RenderFromSource.names_okb (finals w) code = true.
Proof. exact NamesOk.names_ok_from_source. Qed.
Print Assumptions names_ok_from_source.

Theorem compiled_scripts_correct_src_names :
  forall (St : Type) (exec : cmd -> St -> stepres St) (flag_set trainer_beaten : text -> St -> bool)
    (cmp_var cmp_var_value : text -> text -> St -> comparison) (case_matches : text -> text -> St -> bool) (hl hd hs : N -> bool)
    (autovars : list (text * autovar)) (switches : list (text * text)) (ee : bool) (fc : fontcfg) (cli_font : text) 
    (cli_maxlen : Z) (src : text) (p : program),
  parse_program autovars switches ee (parse_format fc cli_font cli_maxlen ee) (lex hl hd hs src) = Parser.Ok p ->
  forall body : list stmt,
  In body (bodies_of (tops p)) ->
  forall (mp : option text) (tl : list text) (name : text) (glob optimize : bool) (w : wst) (code : list instr),
  src_names_ok name body = true ->
  emit_graph body = Ok w ->
  emit_script mp tl name glob optimize body = Ok code ->
  (Z.of_nat (Datatypes.length (finals w)) <= 10 ^ 40)%Z ->
  (forall (n : nat) (s : St),
   exists m : nat,
     run sfinal (sstep St exec flag_set trainer_beaten cmp_var cmp_var_value case_matches (fun l : text => fl_body l body Kstop)) n
       (enter body Kstop) s = run tfinal (tstep St exec flag_set trainer_beaten cmp_var cmp_var_value case_matches code) m (jump code name) s) /\
  (forall (m : nat) (s : St),
   exists n : nat,
     res_le (run tfinal (tstep St exec flag_set trainer_beaten cmp_var cmp_var_value case_matches code) m (jump code name) s)
       (run sfinal (sstep St exec flag_set trainer_beaten cmp_var cmp_var_value case_matches (fun l : text => fl_body l body Kstop)) n
          (enter body Kstop) s)).
Proof. exact NamesOk.compiled_scripts_correct_src_names. Qed.
Print Assumptions compiled_scripts_correct_src_names.

Theorem optimize_equiv_src_names :
  forall (St : Type) (exec : cmd -> St -> stepres St) (flag_set trainer_beaten : text -> St -> bool)
    (cmp_var cmp_var_value : text -> text -> St -> comparison) (case_matches : text -> text -> St -> bool) (hl hd hs : N -> bool)
    (autovars : list (text * autovar)) (switches : list (text * text)) (ee : bool) (fc : fontcfg) (cli_font : text) 
    (cli_maxlen : Z) (src : text) (p : program),
  parse_program autovars switches ee (parse_format fc cli_font cli_maxlen ee) (lex hl hd hs src) = Parser.Ok p ->
  forall body : list stmt,
  In body (bodies_of (tops p)) ->
  forall (mp : option text) (tl : list text) (name : text) (glob : bool) (w : wst) (code0 code1 : list instr),
  src_names_ok name body = true ->
  emit_graph body = Ok w ->
  emit_script mp tl name glob false body = Ok code0 ->
  emit_script mp tl name glob true body = Ok code1 ->
  (Z.of_nat (Datatypes.length (finals w)) <= 10 ^ 40)%Z ->
  (forall (m : nat) (s : St),
   exists m' : nat,
     res_le (run tfinal (tstep St exec flag_set trainer_beaten cmp_var cmp_var_value case_matches code0) m (jump code0 name) s)
       (run tfinal (tstep St exec flag_set trainer_beaten cmp_var cmp_var_value case_matches code1) m' (jump code1 name) s)) /\
  (forall (m : nat) (s : St),
   exists m' : nat,
     res_le (run tfinal (tstep St exec flag_set trainer_beaten cmp_var cmp_var_value case_matches code1) m (jump code1 name) s)
       (run tfinal (tstep St exec flag_set trainer_beaten cmp_var cmp_var_value case_matches code0) m' (jump code0 name) s)).
Proof. exact NamesOk.optimize_equiv_src_names. Qed.
Print Assumptions optimize_equiv_src_names.

Theorem program_scripts_correct_src_names :
  forall (St : Type) (exec : cmd -> St -> stepres St) (flag_set trainer_beaten : text -> St -> bool)
    (cmp_var cmp_var_value : text -> text -> St -> comparison) (case_matches : text -> text -> St -> bool) (hl hd hs : N -> bool)
    (autovars : list (text * autovar)) (switches : list (text * text)) (ee : bool) (fc : fontcfg) (cli_font : text) 
    (cli_maxlen : Z) (src : text) (p : program) (optimize : bool) (mp : option text) (prog : list instr),
  parse_program autovars switches ee (parse_format fc cli_font cli_maxlen ee) (lex hl hd hs src) = Parser.Ok p ->
  emit_program_instrs optimize mp p = Ok prog ->
  NoDup (lnames prog) ->
  forall (name : text) (glob : bool) (body : list stmt),
  In (name, glob, body) (NameClash.scripts_of (tops p)) ->
  src_names_ok name body = true ->
  forall (w : wst) (code : list instr),
  emit_graph body = Ok w ->
  emit_script mp (map xname (texts p)) name glob optimize body = Ok code ->
  (forall (n : nat) (s : St),
   exists m : nat,
     match
       snd
         (run sfinal (sstep St exec flag_set trainer_beaten cmp_var cmp_var_value case_matches (fun l : text => fl_body l body Kstop)) n
            (enter body Kstop) s)
     with
     | Done (OJumpOut l) =>
         exists (k : nat) (s' : St),
           k <= m /\
           steps tfinal (tstep St exec flag_set trainer_beaten cmp_var cmp_var_value case_matches prog) k (jump prog name) s
             (Datatypes.fst
                (run sfinal (sstep St exec flag_set trainer_beaten cmp_var cmp_var_value case_matches (fun l0 : text => fl_body l0 body Kstop))
                   n (enter body Kstop) s)) (jump prog l) s'
     | _ =>
         run tfinal (tstep St exec flag_set trainer_beaten cmp_var cmp_var_value case_matches prog) m (jump prog name) s =
         run sfinal (sstep St exec flag_set trainer_beaten cmp_var cmp_var_value case_matches (fun l : text => fl_body l body Kstop)) n
           (enter body Kstop) s
     end) /\
  (forall (m : nat) (s : St),
   exists n : nat,
     res_le (run tfinal (tstep St exec flag_set trainer_beaten cmp_var cmp_var_value case_matches prog) m (jump prog name) s)
       (run sfinal (sstep St exec flag_set trainer_beaten cmp_var cmp_var_value case_matches (fun l : text => fl_body l body Kstop)) n
          (enter body Kstop) s) \/
     (exists (l : text) (k : nat) (s' : St),
        snd
          (run sfinal (sstep St exec flag_set trainer_beaten cmp_var cmp_var_value case_matches (fun l0 : text => fl_body l0 body Kstop)) n
             (enter body Kstop) s) = Done (OJumpOut l) /\
        In l (lnames prog) /\
        k <= m /\
        steps tfinal (tstep St exec flag_set trainer_beaten cmp_var cmp_var_value case_matches prog) k (jump prog name) s
          (Datatypes.fst
             (run sfinal (sstep St exec flag_set trainer_beaten cmp_var cmp_var_value case_matches (fun l0 : text => fl_body l0 body Kstop)) n
                (enter body Kstop) s)) (jump prog l) s')).
Proof. exact NamesOk.program_scripts_correct_src_names. Qed.
Print Assumptions program_scripts_correct_src_names.

Theorem program_script_goto_continues_src_names :
  forall (St : Type) (exec : cmd -> St -> stepres St) (flag_set trainer_beaten : text -> St -> bool)
    (cmp_var cmp_var_value : text -> text -> St -> comparison) (case_matches : text -> text -> St -> bool) (hl hd hs : N -> bool)
    (autovars : list (text * autovar)) (switches : list (text * text)) (ee : bool) (fc : fontcfg) (cli_font : text) 
    (cli_maxlen : Z) (src : text) (p : program) (optimize : bool) (mp : option text) (prog : list instr),
  parse_program autovars switches ee (parse_format fc cli_font cli_maxlen ee) (lex hl hd hs src) = Parser.Ok p ->
  emit_program_instrs optimize mp p = Ok prog ->
  NoDup (lnames prog) ->
  forall (name : text) (glob : bool) (body : list stmt),
  In (name, glob, body) (NameClash.scripts_of (tops p)) ->
  src_names_ok name body = true ->
  forall (w : wst) (code : list instr),
  emit_graph body = Ok w ->
  emit_script mp (map xname (texts p)) name glob optimize body = Ok code ->
  forall (n : nat) (s : St) (l : text),
  snd
    (run sfinal (sstep St exec flag_set trainer_beaten cmp_var cmp_var_value case_matches (fun l0 : text => fl_body l0 body Kstop)) n
       (enter body Kstop) s) = Done (OJumpOut l) ->
  exists (k : nat) (s' : St),
    forall j : nat,
    run tfinal (tstep St exec flag_set trainer_beaten cmp_var cmp_var_value case_matches prog) (k + j) (jump prog name) s =
    (Datatypes.fst
       (run sfinal (sstep St exec flag_set trainer_beaten cmp_var cmp_var_value case_matches (fun l0 : text => fl_body l0 body Kstop)) n
          (enter body Kstop) s) ++
     Datatypes.fst (run tfinal (tstep St exec flag_set trainer_beaten cmp_var cmp_var_value case_matches prog) j (jump prog l) s'),
     snd (run tfinal (tstep St exec flag_set trainer_beaten cmp_var cmp_var_value case_matches prog) j (jump prog l) s')).
Proof. exact NamesOk.program_script_goto_continues_src_names. Qed.
Print Assumptions program_script_goto_continues_src_names.

Theorem jump_targets_from_source :
  forall (mp : option text) (tl : list text) (name : text) (glob optimize : bool) (body : list stmt) (w : wst) (code : list instr) (l : text),
  emit_graph body = Ok w ->
  emit_script mp tl name glob optimize body = Ok code ->
  wf_render mp name (finals w) (order_of optimize (finals w)) code = true ->
  In l (jtargets code) ->
  In l (lnames code) \/ (exists c : cmd, In (ML.KCommand c) (ML.body_constructs body) /\ is_name c "goto" = true /\ cargs c = [l]).
Proof. exact NamesOk.jump_targets_from_source. Qed.
Print Assumptions jump_targets_from_source.

Theorem program_self_contained_scripts_correct_src_names :
  forall (St : Type) (exec : cmd -> St -> stepres St) (flag_set trainer_beaten : text -> St -> bool)
    (cmp_var cmp_var_value : text -> text -> St -> comparison) (case_matches : text -> text -> St -> bool) (hl hd hs : N -> bool)
    (autovars : list (text * autovar)) (switches : list (text * text)) (ee : bool) (fc : fontcfg) (cli_font : text) 
    (cli_maxlen : Z) (src : text) (p : program) (optimize : bool) (mp : option text) (prog : list instr),
  parse_program autovars switches ee (parse_format fc cli_font cli_maxlen ee) (lex hl hd hs src) = Parser.Ok p ->
  emit_program_instrs optimize mp p = Ok prog ->
  NoDup (lnames prog) ->
  forall (name : text) (glob : bool) (body : list stmt),
  In (name, glob, body) (NameClash.scripts_of (tops p)) ->
  src_names_ok name body = true ->
  (forall (c : cmd) (l : text),
   In (ML.KCommand c) (ML.body_constructs body) ->
   is_name c "goto" = true -> cargs c = [l] -> In l (WorkLabels.dlabs body) \/ ~ In l (lnames prog)) ->
  forall (w : wst) (code : list instr),
  emit_graph body = Ok w ->
  emit_script mp (map xname (texts p)) name glob optimize body = Ok code ->
  (forall (n : nat) (s : St),
   exists m : nat,
     run sfinal (sstep St exec flag_set trainer_beaten cmp_var cmp_var_value case_matches (fun l : text => fl_body l body Kstop)) n
       (enter body Kstop) s = run tfinal (tstep St exec flag_set trainer_beaten cmp_var cmp_var_value case_matches prog) m (jump prog name) s) /\
  (forall (m : nat) (s : St),
   exists n : nat,
     res_le (run tfinal (tstep St exec flag_set trainer_beaten cmp_var cmp_var_value case_matches prog) m (jump prog name) s)
       (run sfinal (sstep St exec flag_set trainer_beaten cmp_var cmp_var_value case_matches (fun l : text => fl_body l body Kstop)) n
          (enter body Kstop) s)).
Proof. exact NamesOk.program_self_contained_scripts_correct_src_names. Qed.
Print Assumptions program_self_contained_scripts_correct_src_names.

Theorem program_labels_from_source :
  forall (hl hd hs : N -> bool) (autovars : list (text * autovar)) (switches : list (text * text)) (ee : bool) (fc : fontcfg) 
    (cli_font : text) (cli_maxlen : Z) (src : text) (p : program) (optimize : bool) (mp : option text) (prog : list instr),
  parse_program autovars switches ee (parse_format fc cli_font cli_maxlen ee) (lex hl hd hs src) = Parser.Ok p ->
  emit_program_instrs optimize mp p = Ok prog -> forall l : text, In l (lnames prog) -> program_names p l.
Proof. exact NamesOk.program_labels_from_source. Qed.
Print Assumptions program_labels_from_source.

Theorem program_self_contained_scripts_correct_source :
  forall (St : Type) (exec : cmd -> St -> stepres St) (flag_set trainer_beaten : text -> St -> bool)
    (cmp_var cmp_var_value : text -> text -> St -> comparison) (case_matches : text -> text -> St -> bool) (hl hd hs : N -> bool)
    (autovars : list (text * autovar)) (switches : list (text * text)) (ee : bool) (fc : fontcfg) (cli_font : text) 
    (cli_maxlen : Z) (src : text) (p : program) (optimize : bool) (mp : option text) (prog : list instr),
  parse_program autovars switches ee (parse_format fc cli_font cli_maxlen ee) (lex hl hd hs src) = Parser.Ok p ->
  emit_program_instrs optimize mp p = Ok prog ->
  NoDup (lnames prog) ->
  forall (name : text) (glob : bool) (body : list stmt),
  In (name, glob, body) (NameClash.scripts_of (tops p)) ->
  src_names_ok name body = true ->
  (forall (c : cmd) (l : text),
   In (ML.KCommand c) (ML.body_constructs body) ->
   is_name c "goto" = true -> cargs c = [l] -> In l (WorkLabels.dlabs body) \/ ~ program_names p l) ->
  forall (w : wst) (code : list instr),
  emit_graph body = Ok w ->
  emit_script mp (map xname (texts p)) name glob optimize body = Ok code ->
  (forall (n : nat) (s : St),
   exists m : nat,
     run sfinal (sstep St exec flag_set trainer_beaten cmp_var cmp_var_value case_matches (fun l : text => fl_body l body Kstop)) n
       (enter body Kstop) s = run tfinal (tstep St exec flag_set trainer_beaten cmp_var cmp_var_value case_matches prog) m (jump prog name) s) /\
  (forall (m : nat) (s : St),
   exists n : nat,
     res_le (run tfinal (tstep St exec flag_set trainer_beaten cmp_var cmp_var_value case_matches prog) m (jump prog name) s)
       (run sfinal (sstep St exec flag_set trainer_beaten cmp_var cmp_var_value case_matches (fun l : text => fl_body l body Kstop)) n
          (enter body Kstop) s)).
Proof. exact NamesOk.program_self_contained_scripts_correct_source. Qed.
Print Assumptions program_self_contained_scripts_correct_source.

Theorem program_local_goto_scripts_correct :
  forall (St : Type) (exec : cmd -> St -> stepres St) (flag_set trainer_beaten : text -> St -> bool)
    (cmp_var cmp_var_value : text -> text -> St -> comparison) (case_matches : text -> text -> St -> bool) (hl hd hs : N -> bool)
    (autovars : list (text * autovar)) (switches : list (text * text)) (ee : bool) (fc : fontcfg) (cli_font : text) 
    (cli_maxlen : Z) (src : text) (p : program) (optimize : bool) (mp : option text) (prog : list instr),
  parse_program autovars switches ee (parse_format fc cli_font cli_maxlen ee) (lex hl hd hs src) = Parser.Ok p ->
  emit_program_instrs optimize mp p = Ok prog ->
  NoDup (lnames prog) ->
  forall (name : text) (glob : bool) (body : list stmt),
  In (name, glob, body) (NameClash.scripts_of (tops p)) ->
  src_names_ok name body = true ->
  gotos_local body = true ->
  forall (w : wst) (code : list instr),
  emit_graph body = Ok w ->
  emit_script mp (map xname (texts p)) name glob optimize body = Ok code ->
  (forall (n : nat) (s : St),
   exists m : nat,
     run sfinal (sstep St exec flag_set trainer_beaten cmp_var cmp_var_value case_matches (fun l : text => fl_body l body Kstop)) n
       (enter body Kstop) s = run tfinal (tstep St exec flag_set trainer_beaten cmp_var cmp_var_value case_matches prog) m (jump prog name) s) /\
  (forall (m : nat) (s : St),
   exists n : nat,
     res_le (run tfinal (tstep St exec flag_set trainer_beaten cmp_var cmp_var_value case_matches prog) m (jump prog name) s)
       (run sfinal (sstep St exec flag_set trainer_beaten cmp_var cmp_var_value case_matches (fun l : text => fl_body l body Kstop)) n
          (enter body Kstop) s)).
Proof. exact NamesOk.program_local_goto_scripts_correct. Qed.
Print Assumptions program_local_goto_scripts_correct.

Theorem autovar_names_from_config :
  forall (hl hd hs : N -> bool) (autovars : list (text * autovar)) (switches : list (text * text)) (ee : bool) (fc : fontcfg) 
    (cli_font : text) (cli_maxlen : Z) (src : text) (p : program),
  parse_program autovars switches ee (parse_format fc cli_font cli_maxlen ee) (lex hl hd hs src) = Parser.Ok p ->
  autovars_ok autovars = true ->
  forall body : list stmt,
  In body (bodies_of (tops p)) ->
  forall (l : leaf) (c' : cmd),
  In (ML.KCond l) (ML.body_constructs body) ->
  lpre l = Some c' -> is_name c' "end" = false /\ is_name c' "return" = false /\ is_name c' "goto" = false.
Proof. exact NamesOk.autovar_names_from_config. Qed.
Print Assumptions autovar_names_from_config.

Theorem compiled_scripts_correct_src_labels :
  forall (St : Type) (exec : cmd -> St -> stepres St) (flag_set trainer_beaten : text -> St -> bool)
    (cmp_var cmp_var_value : text -> text -> St -> comparison) (case_matches : text -> text -> St -> bool) (hl hd hs : N -> bool)
    (autovars : list (text * autovar)) (switches : list (text * text)) (ee : bool) (fc : fontcfg) (cli_font : text) 
    (cli_maxlen : Z) (src : text) (p : program),
  parse_program autovars switches ee (parse_format fc cli_font cli_maxlen ee) (lex hl hd hs src) = Parser.Ok p ->
  autovars_ok autovars = true ->
  forall body : list stmt,
  In body (bodies_of (tops p)) ->
  forall (mp : option text) (tl : list text) (name : text) (glob optimize : bool) (w : wst) (code : list instr),
  src_labels_ok name body = true ->
  emit_graph body = Ok w ->
  emit_script mp tl name glob optimize body = Ok code ->
  (Z.of_nat (Datatypes.length (finals w)) <= 10 ^ 40)%Z ->
  (forall (n : nat) (s : St),
   exists m : nat,
     run sfinal (sstep St exec flag_set trainer_beaten cmp_var cmp_var_value case_matches (fun l : text => fl_body l body Kstop)) n
       (enter body Kstop) s = run tfinal (tstep St exec flag_set trainer_beaten cmp_var cmp_var_value case_matches code) m (jump code name) s) /\
  (forall (m : nat) (s : St),
   exists n : nat,
     res_le (run tfinal (tstep St exec flag_set trainer_beaten cmp_var cmp_var_value case_matches code) m (jump code name) s)
       (run sfinal (sstep St exec flag_set trainer_beaten cmp_var cmp_var_value case_matches (fun l : text => fl_body l body Kstop)) n
          (enter body Kstop) s)).
Proof. exact NamesOk.compiled_scripts_correct_src_labels. Qed.
Print Assumptions compiled_scripts_correct_src_labels.

Theorem generated_form_spec :
  forall name l : text, generated_form name l = true <-> (exists ds : list N, l = name ++ t "_" ++ ds /\ ds <> [] /\ forallb is_digit ds = true).
Proof. exact NamesOk.generated_form_spec. Qed.
Print Assumptions generated_form_spec.


(* ---- THE STATEMENT (C01Capstone.v): from the source text, every script body of every accepted program, both settings, any
   abstract game: whenever the emitter produces code, source and code behave alike (both directions). No premise about the
   compiler's work is left - only src_names_ok on the author's names. (That the emitter does answer: C18 compile_total_tokens.) ---- *)
From Pory Require Import C01Capstone.
Theorem compiled_scripts_correct_final :
  forall (St : Type) (exec : cmd -> St -> stepres St) (flag_set trainer_beaten : text -> St -> bool)
    (cmp_var cmp_var_value : text -> text -> St -> comparison) (case_matches : text -> text -> St -> bool) (hl hd hs : N -> bool)
    (autovars : list (text * autovar)) (switches : list (text * text)) (ee : bool) (fc : fontcfg) (cli_font : text) 
    (cli_maxlen : Z) (src : text) (p : program),
  parse_program autovars switches ee (parse_format fc cli_font cli_maxlen ee) (lex hl hd hs src) = Parser.Ok p ->
  forall body : list stmt,
  In body (bodies_of (tops p)) ->
  forall (mp : option text) (tl : list text) (name : text) (glob optimize : bool) (code : list instr),
  src_names_ok name body = true ->
  emit_script mp tl name glob optimize body = Ok code ->
  (forall (n : nat) (s : St),
   exists m : nat,
     run sfinal (sstep St exec flag_set trainer_beaten cmp_var cmp_var_value case_matches (fun l : text => fl_body l body Kstop)) n
       (enter body Kstop) s = run tfinal (tstep St exec flag_set trainer_beaten cmp_var cmp_var_value case_matches code) m (jump code name) s) /\
  (forall (m : nat) (s : St),
   exists n : nat,
     res_le (run tfinal (tstep St exec flag_set trainer_beaten cmp_var cmp_var_value case_matches code) m (jump code name) s)
       (run sfinal (sstep St exec flag_set trainer_beaten cmp_var cmp_var_value case_matches (fun l : text => fl_body l body Kstop)) n
          (enter body Kstop) s)).
Proof. exact C01Capstone.compiled_scripts_correct_final. Qed.
Print Assumptions compiled_scripts_correct_final.

