(* C09 - Text is emitted line by line with exactly one correct terminator. *)
From Coq Require Import List String ZArith NArith.
Open Scope string_scope.
From Pory Require Import Lexer Ast Parser Emitter Props1 TopProps Tables TablesOK.
Import ListNotations.

Theorem suffix_table :
  text_suffix [] = Some (t "$") /\ text_suffix (t "braille") = Some (t "$") /\
  text_suffix (t "ascii") = Some [92%N; 48%N] /\
  forall ty, ty <> [] -> ty <> t "ascii" -> ty <> t "braille" -> text_suffix ty = None.
Proof. exact Props1.suffix_table. Qed.
Print Assumptions suffix_table.

Theorem terminate_spec : forall s ty suf,
  text_suffix ty = Some suf ->
  (exists p, terminate s ty = p ++ suf) /\
  (terminate s ty = s \/ terminate s ty = s ++ suf) /\
  ((exists p, s = p ++ suf) -> terminate s ty = s) /\
  terminate (terminate s ty) ty = terminate s ty.
Proof. exact Props1.terminate_spec. Qed.
Print Assumptions terminate_spec.

Theorem terminate_other : forall s ty, text_suffix ty = None -> terminate s ty = s.
Proof. exact Props1.terminate_other. Qed.
Print Assumptions terminate_other.

Theorem text_lines_concat : forall v, List.concat (split_nl v []) = filter (fun c => negb (c =? 10)%N) v.
Proof. exact Props1.text_lines_concat. Qed.
Print Assumptions text_lines_concat.

Theorem text_lines_count : forall v, List.length (split_nl v []) = S (List.length (filter (fun c => (c =? 10)%N) v)).
Proof. exact Props1.text_lines_count. Qed.
Print Assumptions text_lines_count.

(* a text block is its label followed by one directive per line of the value: .string unless a type prefix names another *)
Theorem text_block_shape : forall x,
  emit_text None x = ILabel (xname x) (xglob x) :: map (fun line => IData (directive x) line) (split_nl (xvalue x) []).
Proof. exact TopProps.emit_text_shape. Qed.
Print Assumptions text_block_shape.

(* the terminator table of the model is textSuffixes of parser/parser.go (regenerated from /repo on every run) *)
Theorem suffixes_are_the_go_table : forall ty, text_suffix ty = assoc go_text_suffixes ty.
Proof. exact text_suffix_agree. Qed.
Print Assumptions suffixes_are_the_go_table.
