(* C09 - Text is emitted line by line with exactly one correct terminator. *)
From Coq Require Import List String ZArith NArith.
Open Scope string_scope.
From Pory Require Import Lexer Ast Parser Emitter Props1 TopProps Tables TablesOK.
Import ListNotations.

Theorem suffix_table :
  text_suffix [] = Some (t "$") /\ text_suffix (t "braille") = Some (t "$") /\
  text_suffix (t "ascii") = Some [92%N; 48%N] /\
  forall ty, ty <> [] -> ty <> t "ascii" -> ty <> t "braille" -> text_suffix ty = None.
Proof. exact Props1.suffix_table. Qed.
Print Assumptions suffix_table.

Theorem terminate_spec : forall s ty suf,
  text_suffix ty = Some suf ->
  (exists p, terminate s ty = p ++ suf) /\
  (terminate s ty = s \/ terminate s ty = s ++ suf) /\
  ((exists p, s = p ++ suf) -> terminate s ty = s) /\
  terminate (terminate s ty) ty = terminate s ty.
Proof. exact Props1.terminate_spec. Qed.
Print Assumptions terminate_spec.

Theorem terminate_other : forall s ty, text_suffix ty = None -> terminate s ty = s.
Proof. exact Props1.terminate_other. Qed.
Print Assumptions terminate_other.

Theorem text_lines_concat : forall v, List.concat (split_nl v []) = filter (fun c => negb (c =? 10)%N) v.
Proof. exact Props1.text_lines_concat. Qed.
Print Assumptions text_lines_concat.

Theorem text_lines_count : forall v, List.length (split_nl v []) = S (List.length (filter (fun c => (c =? 10)%N) v)).
Proof. exact Props1.text_lines_count. Qed.
Print Assumptions text_lines_count.

(* a text block is its label followed by one directive per line of the value: .string unless a type prefix names another *)
Theorem text_block_shape : forall x,
  emit_text None x = ILabel (xname x) (xglob x) :: map (fun line => IData (directive x) line) (split_nl (xvalue x) []).
Proof. exact TopProps.emit_text_shape. Qed.
Print Assumptions text_block_shape.

(* the terminator table of the model is textSuffixes of parser/parser.go (regenerated from /repo on every run) *)
Theorem suffixes_are_the_go_table : forall ty, text_suffix ty = assoc go_text_suffixes ty.
Proof. exact text_suffix_agree. Qed.
Print Assumptions suffixes_are_the_go_table.

(* ---------- from source characters to the emitted lines (TextLex.v) ---------- *)
(* `part_lit body`: the characters between two quotes as the reader records them - every character kept (backslashes included),
   except that a raw line break plus the whitespace after it becomes one space; `lit_parts`: the parts of a multi-part literal
   (adjacent literals separated only by layout) joined by newlines; a prefix identifier directly before the quote becomes the
   string type.  read_string'_spec / next_string / next_typed_string: what the lexer returns for any such literal, in any state;
   text_value_* / parse_text_*: what the parser records (terminate applied once, with the type's terminator);
   compile_text_stmt: a file consisting of one text statement compiles to its label, one directive per part, in order, the last
   one terminated exactly once; program_texts_terminated / program_text_blocks: every text of every accepted program - inline,
   typed, format(), text statement, poryswitch - ends with its terminator and is emitted as its block. *)
From Pory Require Import LexLayout LexBetween TextLex.
Theorem read_str_part_spec :
  forall (f : nat) (body : list N) (l : lx) (acc : text) (rest : list N),
  body_ok body ->
  stops rest ->
  chs l = body ++ rest -> Datatypes.length body < f -> exists l' : lx, read_str_part f l acc = (acc ++ part_lit body, l') /\ chs l' = rest.
Proof. exact TextLex.read_str_part_spec. Qed.
Print Assumptions read_str_part_spec.

Theorem part_lit_plain :
  forall b : list N, Forall (fun c : N => is_nl c = false) b -> part_lit b = b.
Proof. exact TextLex.part_lit_plain. Qed.
Print Assumptions part_lit_plain.

Theorem part_lit_break :
  forall (c : N) (r : list N), is_nl c = true -> part_lit (c :: r) = 32%N :: part_lit (dropws r).
Proof. exact TextLex.part_lit_break. Qed.
Print Assumptions part_lit_break.

Theorem backslash_quote_ends_part :
  forall (f : nat) (b : list N) (l : lx) (acc : text) (rest : list N),
  body_ok b ->
  chs l = b ++ 92%N :: 34%N :: rest ->
  S (Datatypes.length b) < f -> exists l' : lx, read_str_part f l acc = (acc ++ part_lit b ++ [92%N], l') /\ chs l' = 34%N :: rest.
Proof. exact TextLex.backslash_quote_ends_part. Qed.
Print Assumptions backslash_quote_ends_part.

Theorem nt_core_string :
  forall (is_letter_hi is_digit_hi is_space_hi : N -> bool) (p : part) (ps : list part) (l : lx) (r : list N),
  Forall part_ok (p :: ps) ->
  no_quote r ->
  chs l = src_parts (p :: ps) ++ r ->
  exists (tk : token) (l' : lx),
    nt_core is_letter_hi is_digit_hi is_space_hi l = ([tk], l', false) /\
    ttype tk = STRING /\ tlit tk = lit_parts (p :: ps) /\ tline tk = line l /\ chs l' = skipped r.
Proof. exact TextLex.nt_core_string. Qed.
Print Assumptions nt_core_string.

Theorem nt_core_typed_string :
  forall (is_letter_hi is_digit_hi is_space_hi : N -> bool) (id : list N) (p : part) (ps : list part) (l : lx) (r : list N),
  is_ident is_letter_hi is_digit_hi id ->
  Forall part_ok (p :: ps) ->
  no_quote r ->
  chs l = id ++ src_parts (p :: ps) ++ r ->
  exists (ty tk : token) (l' : lx),
    nt_core is_letter_hi is_digit_hi is_space_hi l = ([ty; tk], l', false) /\
    ttype ty = STRINGTYPE /\ tlit ty = id /\ tline ty = line l /\ ttype tk = STRING /\ tlit tk = lit_parts (p :: ps) /\ chs l' = skipped r.
Proof. exact TextLex.nt_core_typed_string. Qed.
Print Assumptions nt_core_typed_string.

Theorem next_string :
  forall (is_letter_hi is_digit_hi is_space_hi : N -> bool) (g : list N) (p : part) (ps : list part) (l : lx) (r : list N),
  gap g ->
  Forall part_ok (p :: ps) ->
  no_quote r ->
  chs l = g ++ src_parts (p :: ps) ++ r ->
  exists (tk : token) (l' : lx),
    next_token_aux is_letter_hi is_digit_hi is_space_hi l = ([tk], l', false) /\
    ttype tk = STRING /\ tlit tk = lit_parts (p :: ps) /\ chs l' = skipped r.
Proof. exact TextLex.next_string. Qed.
Print Assumptions next_string.

Theorem next_typed_string :
  forall (is_letter_hi is_digit_hi is_space_hi : N -> bool) (g id : list N) (p : part) (ps : list part) (l : lx) (r : list N),
  gap g ->
  is_ident is_letter_hi is_digit_hi id ->
  Forall part_ok (p :: ps) ->
  no_quote r ->
  chs l = g ++ id ++ src_parts (p :: ps) ++ r ->
  exists (ty tk : token) (l' : lx),
    next_token_aux is_letter_hi is_digit_hi is_space_hi l = ([ty; tk], l', false) /\
    ttype ty = STRINGTYPE /\ tlit ty = id /\ ttype tk = STRING /\ tlit tk = lit_parts (p :: ps) /\ chs l' = skipped r.
Proof. exact TextLex.next_typed_string. Qed.
Print Assumptions next_typed_string.

Theorem lex_text_stmt :
  forall (is_letter_hi is_digit_hi is_space_hi : N -> bool) (g0 g1 name g2 g3 tyid : list N) (p : part) (ps : list part) (g4 : list N),
  gap g0 ->
  gap g1 ->
  g1 <> [] ->
  is_ident is_letter_hi is_digit_hi name ->
  gap g2 ->
  gap g3 ->
  tyid = [] \/ is_ident is_letter_hi is_digit_hi tyid ->
  Forall part_ok (p :: ps) ->
  gap g4 ->
  map shape (lex is_letter_hi is_digit_hi is_space_hi (text_stmt_src g0 g1 name g2 g3 tyid (p :: ps) g4)) =
  [(TEXT, t "text"); (lookup_kw keywords name, name); (LBRACE, [123%N])] ++
  match tyid with
  | [] => []
  | _ :: _ => [(STRINGTYPE, tyid)]
  end ++ [(STRING, lit_parts (p :: ps)); (RBRACE, [125%N]); (EOF, [])] /\
  tline (hd eof0 (lex is_letter_hi is_digit_hi is_space_hi (text_stmt_src g0 g1 name g2 g3 tyid (p :: ps) g4))) = (1 + LexInv.nl g0)%Z.
Proof. exact TextLex.lex_text_stmt. Qed.
Print Assumptions lex_text_stmt.

Theorem text_value_string :
  forall (parse_format : toks -> Parser.res (token * text * text * toks)) (ts : toks),
  ttype (cur ts) = STRING -> text_value parse_format ts = Parser.Ok (terminate (tlit (cur ts)) [], [], ts).
Proof. exact TextLex.text_value_string. Qed.
Print Assumptions text_value_string.

Theorem text_value_typed :
  forall (parse_format : toks -> Parser.res (token * text * text * toks)) (ts : toks),
  ttype (cur ts) = STRINGTYPE ->
  ttype (cur (adv ts)) = STRING ->
  text_value parse_format ts = Parser.Ok (terminate (tlit (cur (adv ts))) (tlit (cur ts)), tlit (cur ts), adv ts).
Proof. exact TextLex.text_value_typed. Qed.
Print Assumptions text_value_typed.

Theorem text_value_format :
  forall (parse_format : toks -> Parser.res (token * text * text * toks)) (ts : toks) (tk : token) (v sty : text) (ts1 : toks),
  ttype (cur ts) = FORMAT -> parse_format ts = Parser.Ok (tk, v, sty, ts1) -> text_value parse_format ts = Parser.Ok (terminate v sty, sty, ts1).
Proof. exact TextLex.text_value_format. Qed.
Print Assumptions text_value_format.

Theorem text_value_inv :
  forall (parse_format : toks -> Parser.res (token * text * text * toks)) (ts : toks) (v sty : text) (ts' : toks),
  text_value parse_format ts = Parser.Ok (v, sty, ts') ->
  ttype (cur ts) = STRING /\ sty = [] /\ ts' = ts /\ v = terminate (tlit (cur ts)) [] \/
  ttype (cur ts) = STRINGTYPE /\
  ttype (cur (adv ts)) = STRING /\ sty = tlit (cur ts) /\ ts' = adv ts /\ v = terminate (tlit (cur (adv ts))) (tlit (cur ts)) \/
  ttype (cur ts) = FORMAT /\ (exists (tk : token) (s : text), parse_format ts = Parser.Ok (tk, s, sty, ts') /\ v = terminate s sty).
Proof. exact TextLex.text_value_inv. Qed.
Print Assumptions text_value_inv.

Theorem pory_text_inv :
  forall (switches : list (text * text)) (env_errors : bool) (parse_format : toks -> Parser.res (token * text * text * toks)) 
    (f : nat) (ts : toks) (v sty : text) (ts' : toks),
  pory_text switches env_errors parse_format f ts = Parser.Ok (v, sty, ts') ->
  (exists s : text, v = terminate s sty) \/ v = [] /\ sty = [] /\ env_errors = false.
Proof. exact TextLex.pory_text_inv. Qed.
Print Assumptions pory_text_inv.

Theorem parse_text_inv :
  forall (switches : list (text * text)) (env_errors : bool) (parse_format : toks -> Parser.res (token * text * text * toks)) 
    (f : nat) (ts : toks) (td : textdef) (ts' : toks),
  parse_text switches env_errors parse_format f ts = Parser.Ok (td, ts') ->
  xtok td = cur ts /\ ((exists s : text, xvalue td = terminate s (xtype td)) \/ xvalue td = [] /\ xtype td = [] /\ env_errors = false).
Proof. exact TextLex.parse_text_inv. Qed.
Print Assumptions parse_text_inv.

Theorem parse_text_plain :
  forall (switches : list (text * text)) (env_errors : bool) (parse_format : toks -> Parser.res (token * text * text * toks)) 
    (f : nat) (kw nm lb : token) (tyo : option token) (s rb : token) (rest : list token),
  ttype nm = IDENT ->
  ttype lb = LBRACE ->
  value_ok tyo ->
  ttype s = STRING ->
  ttype rb = RBRACE ->
  parse_text switches env_errors parse_format f (kw :: nm :: lb :: value_toks tyo s ++ rb :: rest) =
  Parser.Ok
    ({| xname := tlit nm; xvalue := terminate (tlit s) (value_type tyo); xtype := value_type tyo; xglob := true; xtok := kw |}, rb :: rest).
Proof. exact TextLex.parse_text_plain. Qed.
Print Assumptions parse_text_plain.

Theorem parse_text_scoped :
  forall (switches : list (text * text)) (env_errors : bool) (parse_format : toks -> Parser.res (token * text * text * toks)) 
    (f : nat) (kw lp sc rp nm lb : token) (tyo : option token) (s rb : token) (rest : list token),
  ttype lp = LPAREN ->
  ttype sc = GLOBAL \/ ttype sc = LOCAL ->
  ttype rp = RPAREN ->
  ttype nm = IDENT ->
  ttype lb = LBRACE ->
  value_ok tyo ->
  ttype s = STRING ->
  ttype rb = RBRACE ->
  parse_text switches env_errors parse_format f (kw :: lp :: sc :: rp :: nm :: lb :: value_toks tyo s ++ rb :: rest) =
  Parser.Ok
    ({| xname := tlit nm; xvalue := terminate (tlit s) (value_type tyo); xtype := value_type tyo; xglob := is GLOBAL sc; xtok := kw |},
     rb :: rest).
Proof. exact TextLex.parse_text_scoped. Qed.
Print Assumptions parse_text_scoped.

Theorem parse_program_text_stmt :
  forall (autovars : list (text * autovar)) (switches : list (text * text)) (env_errors : bool)
    (parse_format : toks -> Parser.res (token * text * text * toks)) (kw nm lb : token) (tyo : option token) (s rb eof : token),
  ttype kw = TEXT ->
  ttype nm = IDENT ->
  ttype lb = LBRACE ->
  value_ok tyo ->
  ttype s = STRING ->
  ttype rb = RBRACE ->
  ttype eof = EOF ->
  parse_program autovars switches env_errors parse_format (kw :: nm :: lb :: value_toks tyo s ++ [rb; eof]) =
  Parser.Ok
    {|
      tops := [TTextStmt];
      texts := [{| xname := tlit nm; xvalue := terminate (tlit s) (value_type tyo); xtype := value_type tyo; xglob := true; xtok := kw |}]
    |}.
Proof. exact TextLex.parse_program_text_stmt. Qed.
Print Assumptions parse_program_text_stmt.

Theorem terminated_lines :
  forall (L : list text) (ty : text),
  L <> [] -> Forall no10 L -> split_nl (terminate (Parser.join nl10 L) ty) [] = removelast L ++ [terminate (last L []) ty].
Proof. exact TextLex.terminated_lines. Qed.
Print Assumptions terminated_lines.

Theorem lit_parts_lines :
  forall ps : list part, lit_parts ps = Parser.join nl10 (lines_of ps).
Proof. exact TextLex.lit_parts_lines. Qed.
Print Assumptions lit_parts_lines.

Theorem lit_parts_plain :
  forall ps : list part,
  Forall (fun p : part => Forall (fun c : N => is_nl c = false) (fst p)) ps ->
  fst (hd ([], []) ps) <> [] -> lit_parts ps = Parser.join nl10 (map (fun p : part => fst p) ps).
Proof. exact TextLex.lit_parts_plain. Qed.
Print Assumptions lit_parts_plain.

Theorem literal_directive_lines :
  forall (ps : list part) (ty : text),
  split_nl (terminate (lit_parts ps) ty) [] = removelast (lines_of ps) ++ [terminate (last (lines_of ps) []) ty].
Proof. exact TextLex.literal_directive_lines. Qed.
Print Assumptions literal_directive_lines.

Theorem last_line_terminated :
  forall v ty suf : text, text_suffix ty = Some suf -> ends_with_terminator v ty -> exists q : list N, last (split_nl v []) [] = q ++ suf.
Proof. exact TextLex.last_line_terminated. Qed.
Print Assumptions last_line_terminated.

Theorem compile_text_stmt :
  forall (is_letter_hi is_digit_hi is_space_hi : N -> bool) (autovars : list (text * autovar)) (switches : list (text * text))
    (env_errors : bool) (fc : Format.fontcfg) (cli_font : text) (cli_maxlen : Z) (optimize : bool) (mpath : option text)
    (g0 g1 name g2 g3 tyid : list N) (p : part) (ps : list part) (g4 : list N),
  gap g0 ->
  gap g1 ->
  g1 <> [] ->
  is_ident is_letter_hi is_digit_hi name ->
  lookup_kw keywords name = IDENT ->
  gap g2 ->
  gap g3 ->
  tyid = [] \/ is_ident is_letter_hi is_digit_hi tyid ->
  Forall part_ok (p :: ps) ->
  gap g4 ->
  Compile.compile is_letter_hi is_digit_hi is_space_hi autovars switches env_errors fc cli_font cli_maxlen optimize mpath
    (text_stmt_src g0 g1 name g2 g3 tyid (p :: ps) g4) =
  Compile.OutText
    (print_instrs mpath
       (text_block mpath name true (1 + LexInv.nl g0) (directive_of tyid)
          (removelast (lines_of (p :: ps)) ++ [terminate (last (lines_of (p :: ps)) []) tyid]))).
Proof. exact TextLex.compile_text_stmt. Qed.
Print Assumptions compile_text_stmt.

Theorem program_texts_terminated :
  forall (autovars : list (text * autovar)) (switches : list (text * text)) (ee : bool)
    (parse_format : toks -> Parser.res (token * text * text * toks)) (ts : toks) (p : program),
  parse_program autovars switches ee parse_format ts = Parser.Ok p ->
  Forall (fun x : textdef => ends_with_terminator (xvalue x) (xtype x) \/ xvalue x = [] /\ xtype x = [] /\ ee = false) (texts p).
Proof. exact TextLex.program_texts_terminated. Qed.
Print Assumptions program_texts_terminated.

Theorem program_texts_terminated_strict :
  forall (autovars : list (text * autovar)) (switches : list (text * text)) (ee : bool)
    (parse_format : toks -> Parser.res (token * text * text * toks)) (ts : toks) (p : program),
  ee = true ->
  parse_program autovars switches ee parse_format ts = Parser.Ok p ->
  Forall (fun x : textdef => ends_with_terminator (xvalue x) (xtype x)) (texts p).
Proof. exact TextLex.program_texts_terminated_strict. Qed.
Print Assumptions program_texts_terminated_strict.

Theorem program_text_blocks :
  forall (optimize : bool) (mpath : option text) (p : program) (out : list instr) (x : textdef),
  emit_program_instrs optimize mpath p = Ok out ->
  In x (texts p) ->
  exists pre post : list instr,
    out = pre ++ text_block mpath (xname x) (xglob x) (tline (xtok x)) (directive x) (split_nl (xvalue x) []) ++ post.
Proof. exact TextLex.program_text_blocks. Qed.
Print Assumptions program_text_blocks.

