(* C18 (termination): how much fuel the parser model needs.

   HISTORY.  This proof found a defect of the MODEL (not of the Go code, which is recursive without fuel): parse_program
   used to start parse_tops with the fuel  S (length ts),  but a nesting level can cost more fuel than it has tokens
   (`while {` costs three units - parse_block, parse_stmt, parse_cond - and has two tokens), so an unterminated chain of
   `while {` made the model answer Fuel, or even a wrong error, where the Go parser answers "missing closing curly brace"
   ([old_fuel_was_insufficient], [old_fuel_gave_a_wrong_error] keep the two witnesses).  The model now starts with
   5 * length ts + 4, and [parser_never_out_of_fuel] is the theorem asked for.

   WHAT IS PROVED (for every token list that ends with its EOF token, in particular every output of the lexer):
   - [parse_tops_enough_fuel], [parser_never_out_of_fuel_partial]: with any fuel >= 5 * length ts + 4 the top-level loop
     parse_tops - and every other parsing function, with its own offset, lemmas *_nf - does not answer Fuel;
   - [parse_format_never_out_of_fuel]: the format() operator (parse_format / named_loop choose their own fuel) never
     answers Fuel;
   - [parse_tops_fuel_independent], [parser_answer_fuel_independent]: above the same bound the answer does not depend on
     the fuel (lemmas *_st: one more unit of fuel changes nothing, for every parsing function including collect_until,
     ms_collect and const_value, which do not signal the exhaustion of their fuel).

   Below the bound the answer can be a wrong error instead of Fuel (collect_until answers "end of input" when it runs out of
   fuel): [old_fuel_gave_a_wrong_error].

   Method: every recursive call either goes to a stream that is strictly shorter (relation ltS) - then 5 more units per
   token pay for any offset - or goes to a function with a smaller offset (the offsets 0..4 order the calls that do not
   consume a token: parse_tops 4 > parse_script/parse_block 3 > parse_stmt 2 > parse_if/command_stmt 1 > parse_cond 0). *)
From Coq Require Import List String Ascii ZArith NArith Lia Bool.
From Pory Require Import Lexer Ast Format Consume.
From Pory Require ProgSrc SrcWf.
From Pory Require Import Parser.
Import ListNotations.
Open Scope list_scope.

Notation len := (@List.length token).

(* ---------- strict progress ---------- *)
(* b is strictly shorter than a, whenever a ends with its EOF token *)
Definition ltS (a b : toks) : Prop := eof_ended a -> (len b < len a)%nat.

Lemma eof_len ts : eof_ended ts -> (1 <= len ts)%nat.
Proof. intros [N _]. destruct ts; [congruence|cbn; lia]. Qed.

Lemma lt_via t a b x : advs t a -> ltS a b -> advs b x -> ltS t x.
Proof.
  intros A L B E. pose proof (advs_len _ _ A). pose proof (advs_len _ _ B).
  specialize (L (advs_eof _ _ A E)). lia.
Qed.
Lemma lt_peek ty a b : expect_peek ty a = Some b -> ty <> EOF -> ltS a b.
Proof.
  intros H T E. unfold expect_peek in H. destruct (peekis ty a) eqn:P; [|discriminate]. inversion H; subst.
  eapply peek_strict; eassumption.
Qed.
Lemma lt_peekis ty a : peekis ty a = true -> ty <> EOF -> ltS a (adv a).
Proof. intros P T E. eapply peek_strict; eassumption. Qed.
(* after a token that is not the EOF: anything reached, then one more step *)
Lemma lt_adv_after a b : advs a b -> ttype (cur a) <> EOF -> ltS a (adv b).
Proof.
  intros A C E. inversion A as [|? ? A']; subst.
  - apply adv_strict; assumption.
  - pose proof (adv_strict _ E C). pose proof (advs_len _ _ A'). pose proof (adv_len b). lia.
Qed.
(* the token after the step is not the EOF: the step was a real one *)
Lemma lt_adv_noeof a : curis EOF (adv a) = false -> ltS a (adv a).
Proof.
  intros C [N E]. destruct a as [|x [|y r]]; [congruence| |cbn; lia]. exfalso.
  cbn in C, E. unfold curis, is, cur in C. cbn in C. rewrite E in C. vm_compute in C. discriminate.
Qed.

Lemma lt_peek_ne a : ttype (pk 1 a) <> EOF -> ltS a (adv a).
Proof.
  intros C [N E]. destruct a as [|x [|y r]]; [congruence| |cbn; lia]. exfalso. apply C. exact E.
Qed.

Lemma list_cases_advs sw ee f k start ts acc r ts' :
  list_cases sw ee f k start ts acc = Ok (r, ts') -> forall a, advs a ts -> advs a ts'.
Proof. apply (list_advs sw ee f). Qed.

Lemma if_nf {A} (c : bool) (x y : res A) : (c = true -> x <> Fuel) -> (c = false -> y <> Fuel) -> (if c then x else y) <> Fuel.
Proof. destruct c; auto. Qed.

Lemma parse_stmt_ok_cur av sw ee pf c f script bs cs ts r :
  parse_stmt av sw ee pf c f script bs cs ts = Ok r -> ttype (cur ts) <> EOF.
Proof.
  destruct f as [|f]; [discriminate|]. rewrite parse_stmt_unfold. intros H Q. rewrite Q in H. unfold err_tok in H. discriminate H.
Qed.

(* ---------- tactics ---------- *)
(* ttype (cur a) <> EOF from a boolean fact of the context about cur a *)
Ltac cur_ne a :=
  let Q := fresh "Q" in
  intro Q;
  match goal with
  | H : ttype (cur a) = _ |- _ => rewrite Q in H; discriminate H
  | H : parse_stmt _ _ _ _ _ _ _ _ _ a = Ok _ |- _ => exact (parse_stmt_ok_cur _ _ _ _ _ _ _ _ _ _ _ H Q)
  | H : ?lhs = ?b |- _ =>
      lazymatch type of b with bool => idtac end;
      lazymatch lhs with context [cur a] => idtac | context [curis _ a] => idtac end;
      let H' := fresh in
      pose proof H as H'; unfold curis, is in H'; rewrite Q in H'; vm_compute in H'; discriminate H'
  end.

Ltac pk_ne a :=
  let Q := fresh "Q" in
  intro Q;
  match goal with
  | H : ?lhs = ?b |- _ =>
      lazymatch type of b with bool => idtac end;
      lazymatch lhs with context [peekis _ a] => idtac | context [pk 1 a] => idtac end;
      let H' := fresh in
      pose proof H as H'; unfold peekis, is in H'; rewrite Q in H'; vm_compute in H'; discriminate H'
  end.

(* goals  advs a x *)
Ltac ex_top H :=
  first [ eapply parse_block_advs; [..|exact H|] | eapply scope_modifier_advs; [..|exact H|] | eapply text_value_advs; [..|exact H|]
        | eapply pory_text_cases_advs; [..|exact H|] | eapply pory_text_advs; [..|exact H|] | eapply ms_collect_advs; [..|exact H|]
        | eapply ms_table_advs; [..|exact H|] | eapply ms_entries_advs; [..|exact H|] | eapply list_cases_advs; [..|exact H|]
        | eapply parse_script_advs; [..|exact H|] | eapply parse_text_advs; [..|exact H|] | eapply parse_movement_advs; [..|exact H|]
        | eapply parse_mart_advs; [..|exact H|] | eapply parse_raw_advs; [..|exact H|] | eapply parse_mapscripts_advs; [..|exact H|]
        | eapply parse_const_advs; [..|exact H|] | eapply ProgSrc.named_loop_advs; [..|exact H|] ].
Ltac advs_now := advs_gox ltac:(fun K => ex_top K).

(* goals  ltS t x : find one strict step on the way from t to x *)
Ltac lt_go :=
  match goal with
  | H : expect_peek _ ?a = Some ?b |- ltS ?t ?x =>
      apply (lt_via t a b x); [advs_now | apply (lt_peek _ _ _ H); discriminate | advs_now]
  | H : peekis _ ?a = true |- ltS ?t ?x =>
      apply (lt_via t a (adv a) x); [advs_now | apply (lt_peekis _ _ H); discriminate | advs_now]
  | H : context [peekis _ ?a] |- ltS ?t ?x =>
      apply (lt_via t a (adv a) x); [advs_now | apply lt_peek_ne; pk_ne a | advs_now]
  | H : curis EOF (adv ?a) = false |- ltS ?t ?x =>
      apply (lt_via t a (adv a) x); [advs_now | apply (lt_adv_noeof _ H) | advs_now]
  | H : ?G = Ok _ |- ltS ?t ?x =>
      lazymatch type of H with
      | _ = Ok (_, ?b) => eapply (lt_via t _ b x)
      | _ = Ok (_, _, ?b) => eapply (lt_via t _ b x)
      | _ = Ok (_, _, _, ?b) => eapply (lt_via t _ b x)
      end; [ | solve [eauto 3 with ltS] | advs_now]; advs_now
  | H : context [cur ?a] |- ltS ?t ?x =>
      first
      [ apply (lt_via t a (adv a) x); [advs_now | apply lt_adv_after; [apply advs_refl | cur_ne a] | advs_now]
      | match x with context [adv ?b] =>
          apply (lt_via t a (adv b) x); [advs_now | apply lt_adv_after; [advs_now | cur_ne a] | advs_now]
        end ]
  | H : context [curis _ ?a] |- ltS ?t ?x =>
      first
      [ apply (lt_via t a (adv a) x); [advs_now | apply lt_adv_after; [apply advs_refl | cur_ne a] | advs_now]
      | match x with context [adv ?b] =>
          apply (lt_via t a (adv b) x); [advs_now | apply lt_adv_after; [advs_now | cur_ne a] | advs_now]
        end ]
  end.

Ltac eof_go :=
  match goal with
  | Hts : eof_ended ?t |- eof_ended ?x => solve [ exact Hts | eapply advs_eof; [|exact Hts]; advs_now ]
  end.
Ltac bound_go :=
  match goal with
  | Hts : eof_ended ?t |- (_ <= _)%nat =>
      pose proof (eof_len _ Hts);
      first
      [ lia
      | let A := fresh in
        match goal with |- context [len ?x] =>
          assert (A : advs t x) by advs_now; apply advs_len in A; lia end
      | let A := fresh in
        match goal with |- context [len ?x] =>
          assert (A : ltS t x) by lt_go; specialize (A Hts); lia end ]
  end.

Create HintDb nf.
Create HintDb ltS.
#[global] Hint Extern 1 (eof_ended _) => eof_go : nf.
#[global] Hint Extern 1 (_ <= _)%nat => bound_go : nf.

Ltac nf_contra :=
  match goal with
  | E : _ = Fuel |- _ => exfalso; solve [eauto 3 with nf]
  end.
Ltac nf_done :=
  match goal with
  | |- Ok _ <> Fuel => discriminate
  | |- Err _ <> Fuel => discriminate
  | |- Panic <> Fuel => discriminate
  | |- err_tok _ _ <> Fuel => unfold err_tok; discriminate
  | |- err_range _ _ _ <> Fuel => unfold err_range; discriminate
  | E : _ = Fuel |- Fuel <> Fuel => nf_contra
  end.
Ltac nf_destruct x :=
  lazymatch x with
  | err_tok _ _ => unfold err_tok at 1
  | err_range _ _ _ => unfold err_range at 1
  | (if ?c then _ else _) => destruct c eqn:?
  | (match ?y with _ => _ end) => nf_destruct y
  | _ => first [is_var x; destruct x | destruct x eqn:?]
  end.
Ltac nf_step :=
  cbv beta iota zeta;
  first
  [ nf_done
  | match goal with
    | |- (if ?c then _ else _) <> Fuel => apply if_nf; intro
    | |- (match ?x with _ => _ end) <> Fuel => nf_destruct x
    | |- ?t <> Fuel => let E := fresh "E" in intro E; nf_contra
    end ].
Ltac nf := repeat nf_step.

(* start of a lemma about a function with fuel: the bound excludes fuel 0 *)
Ltac fuel_S f Hts Hb :=
  destruct f as [|f]; [exfalso; pose proof (eof_len _ Hts); lia|].

Section NF.
Variable autovars : list (text * autovar).
Variable switches : list (text * text).
Variable env_errors : bool.
Variable parse_format : toks -> res (token * text * text * toks).
Variable consts : list (text * text).
Hypothesis parse_format_advs : forall ts tk v sty ts', parse_format ts = Ok (tk, v, sty, ts') -> forall a, advs a ts -> advs a ts'.
Hypothesis parse_format_lt : forall ts tk v sty ts', parse_format ts = Ok (tk, v, sty, ts') -> ltS ts ts'.
Hypothesis parse_format_nf : forall ts, parse_format ts = Fuel -> eof_ended ts -> False.
Hint Resolve parse_format_lt : ltS.
Hint Resolve parse_format_nf : nf.

Notation poryswitch_header := (poryswitch_header switches env_errors).
Notation list_value := (list_value switches env_errors).
Notation list_cases := (list_cases switches env_errors).

Lemma poryswitch_header_lt ts sc sv ts' : poryswitch_header ts = Ok (sc, sv, ts') -> ltS ts ts'.
Proof. intros H. unfold Parser.poryswitch_header in H. ok_split H; lt_go. Qed.
Hint Resolve poryswitch_header_lt : ltS.

Lemma poryswitch_header_nf ts : poryswitch_header ts = Fuel -> False.
Proof. change (poryswitch_header ts <> Fuel). unfold Parser.poryswitch_header. nf. Qed.
Hint Resolve poryswitch_header_nf : nf.

Lemma list_nf : forall f,
  (forall k multi ts acc, list_value f k multi ts acc = Fuel -> eof_ended ts -> (5 * len ts <= f)%nat -> False) /\
  (forall k start ts acc, list_cases f k start ts acc = Fuel -> eof_ended ts -> (5 * len ts <= f)%nat -> False).
Proof.
  induction f as [|f [IH1 IH2]]; (split; [intros k multi ts acc E Hts Hb|intros k start ts acc E Hts Hb]);
    try (exfalso; pose proof (eof_len _ Hts); lia); revert E.
  - change (list_value (S f) k multi ts acc <> Fuel). rewrite list_value_unfold. nf.
  - change (list_cases (S f) k start ts acc <> Fuel). rewrite list_cases_unfold. nf.
Qed.
Lemma list_value_nf f k multi ts acc : list_value f k multi ts acc = Fuel -> eof_ended ts -> (5 * len ts <= f)%nat -> False.
Proof. apply (list_nf f). Qed.
Hint Resolve list_value_nf : nf.

Notation moves_operator := (moves_operator switches env_errors).
Notation command_args := (command_args switches env_errors parse_format consts).
Notation command_stmt := (command_stmt switches env_errors parse_format consts).
Notation var_or_autovar := (var_or_autovar autovars switches env_errors parse_format consts).
Notation value_parts := (value_parts consts).
Notation cond_var_operator := (cond_var_operator consts).
Notation leaf_expr := (leaf_expr autovars switches env_errors parse_format consts).
Notation bool_expr := (bool_expr autovars switches env_errors parse_format consts).
Notation right_side := (right_side autovars switches env_errors parse_format consts).

Lemma moves_operator_lt f ts r ts' : moves_operator f ts = Ok (r, ts') -> ltS ts ts'.
Proof. intros H. unfold Parser.moves_operator, movement_value in H. ok_split H; lt_go. Qed.
Hint Resolve moves_operator_lt : ltS.
Lemma moves_operator_nf f ts : moves_operator f ts = Fuel -> eof_ended ts -> (5 * len ts <= f)%nat -> False.
Proof. intros E Hts Hb. revert E. change (moves_operator f ts <> Fuel). unfold Parser.moves_operator, movement_value. nf. Qed.
Hint Resolve moves_operator_nf : nf.

Lemma command_args_nf : forall f script cmdtok cidv ts depth parts args imp,
  command_args f script cmdtok cidv ts depth parts args imp = Fuel -> eof_ended ts -> (5 * len ts + 1 <= f)%nat -> False.
Proof.
  induction f as [|f IH]; intros script cmdtok cidv ts depth parts args imp E Hts Hb; [exfalso; lia|]. revert E.
  change (command_args (S f) script cmdtok cidv ts depth parts args imp <> Fuel). cbn [Parser.command_args]. nf.
Qed.
Hint Resolve command_args_nf : nf.

Lemma command_stmt_nf f script ts : command_stmt f script ts = Fuel -> eof_ended ts -> (5 * len ts + 1 <= f)%nat -> False.
Proof. intros E Hts Hb. revert E. change (command_stmt f script ts <> Fuel). unfold Parser.command_stmt. nf. Qed.
Hint Resolve command_stmt_nf : nf.

Lemma var_or_autovar_nf f script ts : var_or_autovar f script ts = Fuel -> eof_ended ts -> (5 * len ts + 1 <= f)%nat -> False.
Proof. intros E Hts Hb. revert E. change (var_or_autovar f script ts <> Fuel). unfold Parser.var_or_autovar. nf. Qed.
Hint Resolve var_or_autovar_nf : nf.

Lemma value_parts_nf : forall f vtok ts depth parts,
  value_parts f vtok ts depth parts = Fuel -> eof_ended ts -> (5 * len ts <= f)%nat -> False.
Proof.
  induction f as [|f IH]; intros vtok ts depth parts E Hts Hb; [exfalso; pose proof (eof_len _ Hts); lia|]. revert E.
  change (value_parts (S f) vtok ts depth parts <> Fuel). cbn [Parser.value_parts]. nf.
Qed.
Hint Resolve value_parts_nf : nf.

Lemma cond_var_operator_nf f ts : cond_var_operator f ts = Fuel -> eof_ended ts -> (5 * len ts <= f)%nat -> False.
Proof. intros E Hts Hb. revert E. change (cond_var_operator f ts <> Fuel). unfold Parser.cond_var_operator. nf. Qed.
Hint Resolve cond_var_operator_nf : nf.
Lemma cond_flag_operator_nf ts nm : cond_flag_operator ts nm = Fuel -> False.
Proof. change (cond_flag_operator ts nm <> Fuel). unfold cond_flag_operator. nf. Qed.
Hint Resolve cond_flag_operator_nf : nf.
Lemma autovar_ident ts : negb (peek_is_autovar autovars ts) = false -> peekis IDENT ts = true.
Proof. unfold peek_is_autovar. destruct (peekis IDENT ts); [reflexivity|discriminate]. Qed.
Ltac auto_ident := match goal with H : negb (peek_is_autovar _ ?a) = false |- _ => pose proof (autovar_ident _ H) end.

Lemma var_or_autovar_lt f script ts r i ts' : peekis IDENT ts = true -> var_or_autovar f script ts = Ok (r, i, ts') -> ltS ts ts'.
Proof. intros P H. unfold Parser.var_or_autovar in H. ok_split H; lt_go. Qed.
Hint Resolve var_or_autovar_lt : ltS.

Lemma leaf_expr_lt f script ts l i ts' : leaf_expr f script ts = Ok (l, i, ts') -> ltS ts ts'.
Proof.
  intros H. unfold Parser.leaf_expr in H. destruct (peekis NOT ts) eqn:PN; cbv beta iota zeta in H.
  - ok_split H; try lt_go; auto_ident; lt_go.
  - ok_split H; try lt_go; auto_ident; lt_go.
Qed.
Hint Resolve leaf_expr_lt : ltS.

Lemma leaf_expr_nf f script ts : leaf_expr f script ts = Fuel -> eof_ended ts -> (5 * len ts + 1 <= f)%nat -> False.
Proof.
  intros E Hts Hb. revert E. change (leaf_expr f script ts <> Fuel). unfold Parser.leaf_expr.
  destruct (peekis NOT ts) eqn:PN; nf.
Qed.
Hint Resolve leaf_expr_nf : nf.

Lemma bexp_lt : forall f,
  (forall single negated script ts e i ts', bool_expr f single negated script ts = Ok (e, i, ts') -> ltS ts ts').
Proof.
  intros [|f] single negated script ts e i ts' H; [discriminate|]. rewrite bool_expr_unfold in H.
  pose proof (bexp_advs autovars switches parse_format consts parse_format_advs env_errors f) as [_ RS].
  ok_split H; lt_go.
Qed.
Lemma bool_expr_lt f single negated script ts e i ts' : bool_expr f single negated script ts = Ok (e, i, ts') -> ltS ts ts'.
Proof. apply bexp_lt. Qed.
Hint Resolve bool_expr_lt : ltS.

Lemma bexp_nf : forall f,
  (forall single negated script ts, bool_expr f single negated script ts = Fuel -> eof_ended ts -> (5 * len ts + 2 <= f)%nat -> False) /\
  (forall left single negated script ts, right_side f left single negated script ts = Fuel -> eof_ended ts -> (5 * len ts + 3 <= f)%nat -> False).
Proof.
  induction f as [|f [IH1 IH2]]; (split; [intros single negated script ts E Hts Hb|intros left single negated script ts E Hts Hb]);
    try (exfalso; lia); revert E;
    pose proof (bexp_advs autovars switches parse_format consts parse_format_advs env_errors f) as [_ RS].
  - change (bool_expr (S f) single negated script ts <> Fuel). rewrite bool_expr_unfold. nf.
  - change (right_side (S f) left single negated script ts <> Fuel). rewrite right_side_unfold. nf.
Qed.
Lemma bool_expr_nf f single negated script ts : bool_expr f single negated script ts = Fuel -> eof_ended ts -> (5 * len ts + 2 <= f)%nat -> False.
Proof. apply (bexp_nf f). Qed.
Hint Resolve bool_expr_nf : nf.

Notation switch_operand := (switch_operand consts).
Lemma switch_operand_nf : forall f orig ts parts, switch_operand f orig ts parts = Fuel -> eof_ended ts -> (5 * len ts <= f)%nat -> False.
Proof.
  induction f as [|f IH]; intros orig ts parts E Hts Hb; [exfalso; pose proof (eof_len _ Hts); lia|]. revert E.
  change (switch_operand (S f) orig ts parts <> Fuel). cbn [Parser.switch_operand]. nf.
Qed.
Hint Resolve switch_operand_nf : nf.
Notation parse_stmt := (parse_stmt autovars switches env_errors parse_format consts).
Notation parse_block := (parse_block autovars switches env_errors parse_format consts).
Notation parse_switch_block := (parse_switch_block autovars switches env_errors parse_format consts).
Notation parse_cond := (parse_cond autovars switches env_errors parse_format consts).
Notation parse_if := (parse_if autovars switches env_errors parse_format consts).
Notation parse_elifs := (parse_elifs autovars switches env_errors parse_format consts).
Notation parse_switch := (parse_switch autovars switches env_errors parse_format consts).
Notation parse_cases := (parse_cases autovars switches env_errors parse_format consts).
Notation parse_pory := (parse_pory autovars switches env_errors parse_format consts).
Notation parse_pory_cases := (parse_pory_cases autovars switches env_errors parse_format consts).
Notation parse_pory_stmts := (parse_pory_stmts autovars switches env_errors parse_format consts).

(* the offsets: a call that does not consume a token goes to a function with a smaller offset *)
Definition NFS (f : nat) : Prop :=
  (forall script bs cs ts, parse_stmt f script bs cs ts = Fuel -> eof_ended ts -> (5 * len ts + 2 <= f)%nat -> False) /\
  (forall script bs cs start ts acc imp, parse_block f script bs cs start ts acc imp = Fuel -> eof_ended ts -> (5 * len ts + 3 <= f)%nat -> False) /\
  (forall script bs cs start ts acc imp, parse_switch_block f script bs cs start ts acc imp = Fuel -> eof_ended ts -> (5 * len ts + 3 <= f)%nat -> False) /\
  (forall req script bs cs ts, parse_cond f req script bs cs ts = Fuel -> eof_ended ts -> (5 * len ts <= f)%nat -> False) /\
  (forall script bs cs ts, parse_if f script bs cs ts = Fuel -> eof_ended ts -> (5 * len ts + 1 <= f)%nat -> False) /\
  (forall script bs cs ts acc imp, parse_elifs f script bs cs ts acc imp = Fuel -> eof_ended ts -> (5 * len ts <= f)%nat -> False) /\
  (forall script bs cs ts, parse_switch f script bs cs ts = Fuel -> eof_ended ts -> (5 * len ts <= f)%nat -> False) /\
  (forall script bs cs brace ts acc seen hasdef imp, parse_cases f script bs cs brace ts acc seen hasdef imp = Fuel -> eof_ended ts -> (5 * len ts <= f)%nat -> False) /\
  (forall script bs cs ts, parse_pory f script bs cs ts = Fuel -> eof_ended ts -> (5 * len ts <= f)%nat -> False) /\
  (forall script bs cs start ts acc, parse_pory_cases f script bs cs start ts acc = Fuel -> eof_ended ts -> (5 * len ts <= f)%nat -> False) /\
  (forall script bs cs multi ts acc imp, parse_pory_stmts f script bs cs multi ts acc imp = Fuel -> eof_ended ts -> (5 * len ts + 3 <= f)%nat -> False).

Ltac zero_case Hts := exfalso; pose proof (eof_len _ Hts); lia.

Lemma nfs_all : forall f, NFS f.
Proof.
  induction f as [|f IH].
  - unfold NFS.
    split; [|split; [|split; [|split; [|split; [|split; [|split; [|split; [|split; [|split]]]]]]]]];
      intros; match goal with Hts : eof_ended _ |- _ => zero_case Hts end.
  - destruct IH as (Istmt & Iblock & Iswb & Icond & Iif & Ielifs & Iswitch & Icases & Ipory & Ipcases & Ipstmts).
    destruct (adv_all autovars switches parse_format consts parse_format_advs env_errors f)
      as (Astmt & Ablock & Aswb & Acond & Aif & Aelifs & Aswitch & Acases & Apory & Apcases & Apstmts).
    unfold NFS.
    split; [|split; [|split; [|split; [|split; [|split; [|split; [|split; [|split; [|split]]]]]]]]].
    + intros script bs cs ts E Hts Hb. revert E. change (parse_stmt (S f) script bs cs ts <> Fuel). rewrite parse_stmt_unfold. nf.
    + intros script bs cs start ts acc imp E Hts Hb. revert E. change (parse_block (S f) script bs cs start ts acc imp <> Fuel). rewrite parse_block_unfold. nf.
    + intros script bs cs start ts acc imp E Hts Hb. revert E. change (parse_switch_block (S f) script bs cs start ts acc imp <> Fuel). rewrite parse_switch_block_unfold. nf.
    + intros req script bs cs ts E Hts Hb. revert E. change (parse_cond (S f) req script bs cs ts <> Fuel). rewrite parse_cond_unfold. nf.
    + intros script bs cs ts E Hts Hb. revert E. change (parse_if (S f) script bs cs ts <> Fuel). rewrite parse_if_unfold. nf.
    + intros script bs cs ts acc imp E Hts Hb. revert E. change (parse_elifs (S f) script bs cs ts acc imp <> Fuel). rewrite parse_elifs_unfold. nf.
    + intros script bs cs ts E Hts Hb. revert E. change (parse_switch (S f) script bs cs ts <> Fuel). rewrite parse_switch_unfold. nf.
    + intros script bs cs brace ts acc seen hasdef imp E Hts Hb. revert E. change (parse_cases (S f) script bs cs brace ts acc seen hasdef imp <> Fuel). rewrite parse_cases_unfold. nf.
    + intros script bs cs ts E Hts Hb. revert E. change (parse_pory (S f) script bs cs ts <> Fuel). rewrite parse_pory_unfold. nf.
    + intros script bs cs start ts acc E Hts Hb. revert E. change (parse_pory_cases (S f) script bs cs start ts acc <> Fuel). rewrite parse_pory_cases_unfold. nf.
    + intros script bs cs multi ts acc imp E Hts Hb. revert E. change (parse_pory_stmts (S f) script bs cs multi ts acc imp <> Fuel). rewrite parse_pory_stmts_unfold. nf.
Qed.
Lemma parse_block_nf f script bs cs start ts acc imp :
  parse_block f script bs cs start ts acc imp = Fuel -> eof_ended ts -> (5 * len ts + 3 <= f)%nat -> False.
Proof. apply (nfs_all f). Qed.
Hint Resolve parse_block_nf : nf.

Notation parse_script := (parse_script autovars switches env_errors parse_format consts).
Notation text_value := (text_value parse_format).
Notation pory_text_cases := (pory_text_cases parse_format).
Notation pory_text := (pory_text switches env_errors parse_format).
Notation parse_text := (parse_text switches env_errors parse_format).
Notation parse_movement := (parse_movement switches env_errors).
Notation parse_mart := (parse_mart switches env_errors consts).
Notation ms_table := (ms_table autovars switches env_errors parse_format consts).
Notation ms_entries := (ms_entries autovars switches env_errors parse_format consts).
Notation parse_mapscripts := (parse_mapscripts autovars switches env_errors parse_format consts).

Lemma scope_modifier_nf d ts : scope_modifier d ts = Fuel -> False.
Proof. change (scope_modifier d ts <> Fuel). unfold scope_modifier. nf. Qed.
Hint Resolve scope_modifier_nf : nf.

Lemma parse_script_nf f ts : parse_script f ts = Fuel -> eof_ended ts -> (5 * len ts + 3 <= f)%nat -> False.
Proof. intros E Hts Hb. revert E. change (parse_script f ts <> Fuel). unfold Parser.parse_script. nf. Qed.

Lemma text_value_nf ts : text_value ts = Fuel -> eof_ended ts -> False.
Proof. intros E Hts. revert E. change (text_value ts <> Fuel). unfold Parser.text_value. nf. Qed.
Hint Resolve text_value_nf : nf.

Lemma pory_text_cases_nf : forall f start ts acc, pory_text_cases f start ts acc = Fuel -> eof_ended ts -> (5 * len ts <= f)%nat -> False.
Proof.
  induction f as [|f IH]; intros start ts acc E Hts Hb; [zero_case Hts|]. revert E.
  change (pory_text_cases (S f) start ts acc <> Fuel). cbn [Parser.pory_text_cases]. nf.
Qed.
Hint Resolve pory_text_cases_nf : nf.

Lemma pory_text_nf f ts : pory_text f ts = Fuel -> eof_ended ts -> (5 * len ts <= f)%nat -> False.
Proof. intros E Hts Hb. revert E. change (pory_text f ts <> Fuel). unfold Parser.pory_text. nf. Qed.
Hint Resolve pory_text_nf : nf.

Lemma parse_text_nf f ts : parse_text f ts = Fuel -> eof_ended ts -> (5 * len ts <= f)%nat -> False.
Proof. intros E Hts Hb. revert E. change (parse_text f ts <> Fuel). unfold Parser.parse_text. nf. Qed.

Lemma parse_movement_nf f ts : parse_movement f ts = Fuel -> eof_ended ts -> (5 * len ts <= f)%nat -> False.
Proof. intros E Hts Hb. revert E. change (parse_movement f ts <> Fuel). unfold Parser.parse_movement, movement_value. nf. Qed.

Lemma parse_mart_nf f ts : parse_mart f ts = Fuel -> eof_ended ts -> (5 * len ts <= f)%nat -> False.
Proof. intros E Hts Hb. revert E. change (parse_mart f ts <> Fuel). unfold Parser.parse_mart, mart_value. nf. Qed.

Lemma parse_raw_nf ts : parse_raw ts = Fuel -> False.
Proof. change (parse_raw ts <> Fuel). unfold parse_raw. nf. Qed.

Lemma ms_collect_stop : forall f stop ts acc r ts', ms_collect consts f stop ts acc = Some (r, ts') -> stop (cur ts') = true.
Proof.
  induction f as [|f IH]; intros stop ts acc r ts' H; [discriminate|]. cbn [Parser.ms_collect] in H.
  destruct (stop (cur ts)) eqn:S; [inversion H; subst; exact S|]. destruct (curis EOF (adv ts)); [discriminate|]. eapply IH; exact H.
Qed.

Lemma ms_table_nf : forall f mapname tyname ts i acc imp,
  ms_table f mapname tyname ts i acc imp = Fuel -> eof_ended ts -> (5 * len ts + 4 <= f)%nat -> False.
Proof.
  induction f as [|f IH]; intros mapname tyname ts i acc imp E Hts Hb; [zero_case Hts|]. revert E.
  change (ms_table (S f) mapname tyname ts i acc imp <> Fuel). cbn [Parser.ms_table]. nf.
  match goal with H : ms_collect _ _ _ (adv _) _ = Some _ |- _ => pose proof (ms_collect_stop _ _ _ _ _ _ H) as ST; cbv beta in ST end. nf.
Qed.
Hint Resolve ms_table_nf : nf.

Lemma ms_entries_nf : forall f mapname ts plain tables imp,
  ms_entries f mapname ts plain tables imp = Fuel -> eof_ended ts -> (5 * len ts <= f)%nat -> False.
Proof.
  induction f as [|f IH]; intros mapname ts plain tables imp E Hts Hb; [zero_case Hts|]. revert E.
  change (ms_entries (S f) mapname ts plain tables imp <> Fuel). cbn [Parser.ms_entries]. nf.
Qed.
Hint Resolve ms_entries_nf : nf.

Lemma parse_mapscripts_nf f ts : parse_mapscripts f ts = Fuel -> eof_ended ts -> (5 * len ts <= f)%nat -> False.
Proof. intros E Hts Hb. revert E. change (parse_mapscripts f ts <> Fuel). unfold Parser.parse_mapscripts. nf. Qed.
End NF.

(* ---------- the top level ---------- *)
Section NF2.
Variable autovars : list (text * autovar).
Variable switches : list (text * text).
Variable env_errors : bool.
Variable parse_format : toks -> res (token * text * text * toks).
Hypothesis parse_format_advs : forall ts tk v sty ts', parse_format ts = Ok (tk, v, sty, ts') -> forall a, advs a ts -> advs a ts'.
Hypothesis parse_format_lt : forall ts tk v sty ts', parse_format ts = Ok (tk, v, sty, ts') -> ltS ts ts'.
Hypothesis parse_format_nf : forall ts, parse_format ts = Fuel -> eof_ended ts -> False.

Lemma parse_const_nf f c ts : parse_const f c ts = Fuel -> False.
Proof. change (parse_const f c ts <> Fuel). unfold parse_const. nf. Qed.

(* fuel linear in the number of tokens is enough for the whole program *)
Lemma parse_tops_nf : forall f st ts,
  parse_tops autovars switches env_errors parse_format f st ts = Fuel -> eof_ended ts -> (5 * len ts + 4 <= f)%nat -> False.
Proof.
  pose proof (fun c => parse_script_nf autovars switches env_errors parse_format c parse_format_advs parse_format_lt parse_format_nf) as H1.
  pose proof (parse_text_nf switches env_errors parse_format parse_format_advs parse_format_nf) as H2.
  pose proof (parse_movement_nf switches env_errors) as H3.
  pose proof (parse_mart_nf switches env_errors) as H4.
  pose proof (fun c => parse_mapscripts_nf autovars switches env_errors parse_format c parse_format_advs parse_format_lt parse_format_nf) as H5.
  pose proof parse_raw_nf as H6. pose proof parse_const_nf as H7.
  induction f as [|f IH]; intros st ts E Hts Hb; [exfalso; lia|]. revert E.
  change (parse_tops autovars switches env_errors parse_format (S f) st ts <> Fuel). cbn [parse_tops]. nf.
Qed.
End NF2.

(* ---------- the format() operator chooses its own fuel: it is enough ---------- *)
Section NFF.
Variable fc : fontcfg.
Variable cli_font : text.
Variable cli_maxlen : Z.
Variable env_errors : bool.

Lemma named_loop_nf : forall f ts p had, named_loop f ts p had = Fuel -> eof_ended ts -> (len ts + 1 <= f)%nat -> False.
Proof.
  induction f as [|f IH]; intros ts p had E Hts Hb; [exfalso; lia|]. revert E.
  change (named_loop (S f) ts p had <> Fuel). cbn [named_loop]. nf.
Qed.
Hint Resolve named_loop_nf : nf.

Lemma bind_nf {X Y} (m : res X) (k : X -> res Y) :
  m <> Fuel -> (forall x, m = Ok x -> k x <> Fuel) ->
  match m with Ok x => k x | Err e => Err e | Panic => Panic | Fuel => Fuel end <> Fuel.
Proof. intros A B. destruct m; try discriminate; [apply B; reflexivity|congruence]. Qed.

Lemma parse_format_lt ts tk v sty ts' : parse_format fc cli_font cli_maxlen env_errors ts = Ok (tk, v, sty, ts') -> ltS ts ts'.
Proof.
  intros H. unfold parse_format in H.
  destruct (expect_peek LPAREN ts) as [ts1|] eqn:P1; [|discriminate].
  destruct (peekis STRINGTYPE ts1) eqn:PS; cbv beta iota in H;
    (match type of H with context [expect_peek STRING ?a] => destruct (expect_peek STRING a) as [ts3|] eqn:P2; [|discriminate] end;
     cbv zeta in H; apply SrcWf.bind_inv in H; destruct H as ([p ts4] & E & H); cbv beta iota in H;
     destruct (expect_peek RPAREN ts4) as [ts5|] eqn:P3; [|discriminate];
     assert (ts' = ts5) by (ok_split H; reflexivity); subst ts'; clear H;
     apply (lt_via ts ts ts1 ts5); [apply advs_refl | apply (lt_peek _ _ _ P1); discriminate |];
     ok_split E; advs_now).
Qed.

Lemma parse_format_nf ts : parse_format fc cli_font cli_maxlen env_errors ts = Fuel -> eof_ended ts -> False.
Proof.
  intros E Hts. revert E. change (parse_format fc cli_font cli_maxlen env_errors ts <> Fuel). unfold parse_format.
  destruct (expect_peek LPAREN ts) as [ts1|] eqn:P1; [|unfold err_range; discriminate].
  destruct (peekis STRINGTYPE ts1) eqn:PS; cbv beta iota;
    (match goal with |- context [expect_peek STRING ?a] => destruct (expect_peek STRING a) as [ts3|] eqn:P2; [|unfold err_tok; discriminate] end;
     cbv zeta; apply bind_nf; [nf|]; intros [p ts4] E; nf).
Qed.
End NFF.

(* ---------- THE THEOREMS ---------- *)

(* the format() operator, which chooses its own fuel (S (length tsb) for named_loop), never runs out of it *)
Theorem parse_format_never_out_of_fuel :
  forall fc cli_font cli_maxlen ee (ts : toks),
    eof_ended ts -> parse_format fc cli_font cli_maxlen ee ts <> Fuel.
Proof. intros fc cli_font cli_maxlen ee ts Hts E. exact (parse_format_nf fc cli_font cli_maxlen ee ts E Hts). Qed.

(* fuel linear in the number of tokens is enough: for every token list that ends with its EOF token, every parser state and
   every fuel >= 5 * length ts + 4, the top-level loop of the parser does not answer Fuel *)
Theorem parse_tops_enough_fuel :
  forall autovars switches ee fc cli_font cli_maxlen (fuel : nat) (st : pstate) (ts : toks),
    eof_ended ts -> (5 * List.length ts + 4 <= fuel)%nat ->
    parse_tops autovars switches ee (parse_format fc cli_font cli_maxlen ee) fuel st ts <> Fuel.
Proof.
  intros autovars switches ee fc cli_font cli_maxlen fuel st ts Hts Hb E.
  exact (parse_tops_nf autovars switches ee _ (ProgSrc.parse_format_advs fc cli_font cli_maxlen ee)
           (parse_format_lt fc cli_font cli_maxlen ee) (parse_format_nf fc cli_font cli_maxlen ee) fuel st ts E Hts Hb).
Qed.

(* on source texts, for parse_tops with any fuel above the bound *)
Theorem parser_never_out_of_fuel_partial :
  forall hl hd hs autovars switches ee fc cli_font cli_maxlen (src : text) (fuel : nat) (st : pstate),
    (5 * List.length (lex hl hd hs src) + 4 <= fuel)%nat ->
    parse_tops autovars switches ee (parse_format fc cli_font cli_maxlen ee) fuel st (lex hl hd hs src) <> Fuel.
Proof.
  intros hl hd hs autovars switches ee fc cli_font cli_maxlen src fuel st Hb.
  apply parse_tops_enough_fuel; [apply ProgSrc.lex_eof|exact Hb].
Qed.

(* THE THEOREM (C18, termination of the parser model): for every source text and configuration the parser answers with a
   program or a located error - never with Fuel *)
Theorem parser_never_out_of_fuel :
  forall hl hd hs autovars switches ee fc cli_font cli_maxlen (src : text),
    parse_program autovars switches ee (parse_format fc cli_font cli_maxlen ee) (lex hl hd hs src) <> Fuel.
Proof.
  intros hl hd hs autovars switches ee fc cli_font cli_maxlen src H. unfold parse_program in H.
  destruct (parse_tops autovars switches ee (parse_format fc cli_font cli_maxlen ee) (5 * List.length (lex hl hd hs src) + 4) _ (lex hl hd hs src)) as [st|e| |] eqn:E.
  - destruct (dup_text [] _); [discriminate|]. destruct (dup_mov [] _); discriminate.
  - discriminate.
  - discriminate.
  - exact (parser_never_out_of_fuel_partial hl hd hs autovars switches ee fc cli_font cli_maxlen src _ _ (le_n _) E).
Qed.

(* ---------- the earlier fuel of the model, S (length ts), was not enough ---------- *)
Definition no_hi (_ : N) : bool := false.
Definition fc_empty : fontcfg := {| fcDefault := []; fcFonts := [] |}.
Definition refuting_source : text := t "script X { while { while { while { while {".

(* 12 tokens (with the EOF): parse_tops got the fuel 13, the block of the script 12, each `while {` level takes 3:
   the innermost parse_block is entered with the fuel 12 - 3 * 4 = 0 *)
Example old_fuel_was_insufficient :
  let ts := lex no_hi no_hi no_hi refuting_source in
  parse_tops [] [] false (parse_format fc_empty [] 0%Z false) (S (List.length ts)) {| pconsts := []; ph := hst0; ptops := []; ptexts := [] |} ts = Fuel.
Proof. vm_compute. reflexivity. Qed.

(* the hypotheses of the theorems above are satisfiable, and with the fuel of the theorem the same input gets its error
   (Go: "missing closing curly brace for block statement") *)
Example enough_fuel_on_refuting_source :
  let ts := lex no_hi no_hi no_hi refuting_source in
  eof_ended ts /\ List.length ts = 12%nat /\
  match parse_tops [] [] false (parse_format fc_empty [] 0%Z false) (5 * List.length ts + 4)
          {| pconsts := []; ph := hst0; ptops := []; ptexts := [] |} ts with
  | Err e => emsg e = t "missing closing curly brace for block statement"
  | _ => False
  end.
Proof. cbv zeta. split; [apply ProgSrc.lex_eof|]. split; vm_compute; reflexivity. Qed.

Ltac zero_case Hts := exfalso; pose proof (eof_len _ Hts); lia.

(* ====================================================================================================================
   Fuel independence: above the same bounds one more unit of fuel does not change the answer of any parsing function.
   (collect_until, ms_collect and const_value do not answer Fuel when they run out of it: they answer like at the end of
   the input.  Above the bound this never happens.)
   ==================================================================================================================== *)
Lemma if_st {A} (c : bool) (x y x' y' : A) : (c = true -> x = x') -> (c = false -> y = y') -> (if c then x else y) = (if c then x' else y').
Proof. destruct c; auto. Qed.

Create HintDb st.
Ltac st_side := solve [eauto 3 with st nf nocore].
Ltac st_rw y :=
  let e := fresh "e" in
  eassert (e : y = _) by st_side;
  rewrite e; clear e.
Ltac st_destruct x :=
  lazymatch x with
  | err_tok _ _ => unfold err_tok
  | err_range _ _ _ => unfold err_range
  | (if ?c then _ else _) => destruct c eqn:?
  | (match ?y with _ => _ end) => st_destruct y
  | _ => first [is_var x; destruct x | st_rw x | destruct x eqn:?]
  end.
Ltac st_step :=
  cbv beta iota zeta;
  first
  [ match goal with |- ?a = ?b => constr_eq a b; reflexivity end
  | match goal with
    | |- (if ?c then _ else _) = _ => apply if_st; intro
    | |- (match ?x with _ => _ end) = _ => st_destruct x
    | |- _ = _ => st_side
    end ].
Ltac st := repeat st_step.
(* goal  F (S (S f)) .. = F (S f) .. : unfold each side exactly once with [tac] *)
Ltac unfold_both f tac :=
  match goal with |- ?l = _ =>
    let L := fresh "L" in let EL := fresh "EL" in
    remember l as L eqn:EL; tac; subst L end;
  let g := fresh "g" in let Eg := fresh "Eg" in
  remember (S f) as g eqn:Eg; tac; subst g.

Section ST.
Variable autovars : list (text * autovar).
Variable switches : list (text * text).
Variable env_errors : bool.
Variable parse_format : toks -> res (token * text * text * toks).
Variable consts : list (text * text).
Hypothesis parse_format_advs : forall ts tk v sty ts', parse_format ts = Ok (tk, v, sty, ts') -> forall a, advs a ts -> advs a ts'.
Hypothesis parse_format_lt : forall ts tk v sty ts', parse_format ts = Ok (tk, v, sty, ts') -> ltS ts ts'.
Hint Resolve parse_format_lt : ltS.
Hint Resolve poryswitch_header_lt moves_operator_lt var_or_autovar_lt leaf_expr_lt bool_expr_lt : ltS.

Notation poryswitch_header := (poryswitch_header switches env_errors).
Notation list_value := (list_value switches env_errors).
Notation list_cases := (list_cases switches env_errors).
Notation moves_operator := (moves_operator switches env_errors).
Notation command_args := (command_args switches env_errors parse_format consts).
Notation command_stmt := (command_stmt switches env_errors parse_format consts).
Notation var_or_autovar := (var_or_autovar autovars switches env_errors parse_format consts).
Notation collect_until := (collect_until consts).
Notation value_parts := (value_parts consts).
Notation cond_var_operator := (cond_var_operator consts).
Notation leaf_expr := (leaf_expr autovars switches env_errors parse_format consts).
Notation bool_expr := (bool_expr autovars switches env_errors parse_format consts).
Notation right_side := (right_side autovars switches env_errors parse_format consts).

Lemma collect_until_st : forall f stop ts parts, eof_ended ts -> (len ts <= f)%nat ->
  collect_until (S f) stop ts parts = collect_until f stop ts parts.
Proof.
  induction f as [|f IH]; intros stop ts parts Hts Hb; [zero_case Hts|].
  change (collect_until (S (S f)) stop ts parts) with
    (if stop (cur ts) then Some (parts, ts) else if curis EOF (adv ts) then None else collect_until (S f) stop (adv ts) (parts ++ [creplace consts (tlit (cur ts))])).
  change (collect_until (S f) stop ts parts) with
    (if stop (cur ts) then Some (parts, ts) else if curis EOF (adv ts) then None else collect_until f stop (adv ts) (parts ++ [creplace consts (tlit (cur ts))])).
  st.
Qed.
Hint Resolve collect_until_st : st.

Lemma list_st : forall f,
  (forall k multi ts acc, eof_ended ts -> (5 * len ts <= f)%nat -> list_value (S f) k multi ts acc = list_value f k multi ts acc) /\
  (forall k start ts acc, eof_ended ts -> (5 * len ts <= f)%nat -> list_cases (S f) k start ts acc = list_cases f k start ts acc).
Proof.
  induction f as [|f [IH1 IH2]]; (split; [intros k multi ts acc Hts Hb|intros k start ts acc Hts Hb]);
    try (zero_case Hts).
  - rewrite (list_value_unfold _ _ (S f)), (list_value_unfold _ _ f). st.
  - rewrite (list_cases_unfold _ _ (S f)), (list_cases_unfold _ _ f). st.
Qed.
Lemma list_value_st f k multi ts acc : eof_ended ts -> (5 * len ts <= f)%nat -> list_value (S f) k multi ts acc = list_value f k multi ts acc.
Proof. apply (list_st f). Qed.
Hint Resolve list_value_st : st.
Lemma moves_operator_st f ts : eof_ended ts -> (5 * len ts <= f)%nat -> moves_operator (S f) ts = moves_operator f ts.
Proof. intros Hts Hb. unfold Parser.moves_operator, movement_value. st. Qed.
Hint Resolve moves_operator_st : st.

Lemma command_args_st : forall f script cmdtok cidv ts depth parts args imp, eof_ended ts -> (5 * len ts + 1 <= f)%nat ->
  command_args (S f) script cmdtok cidv ts depth parts args imp = command_args f script cmdtok cidv ts depth parts args imp.
Proof.
  induction f as [|f IH]; intros script cmdtok cidv ts depth parts args imp Hts Hb; [exfalso; lia|].
  unfold_both f ltac:(cbn [Parser.command_args]). st.
Qed.
Hint Resolve command_args_st : st.

Lemma command_stmt_st f script ts : eof_ended ts -> (5 * len ts + 1 <= f)%nat -> command_stmt (S f) script ts = command_stmt f script ts.
Proof. intros Hts Hb. unfold Parser.command_stmt. st. Qed.
Hint Resolve command_stmt_st : st.

Lemma var_or_autovar_st f script ts : eof_ended ts -> (5 * len ts + 1 <= f)%nat -> var_or_autovar (S f) script ts = var_or_autovar f script ts.
Proof. intros Hts Hb. unfold Parser.var_or_autovar. st. Qed.
Hint Resolve var_or_autovar_st : st.

Lemma value_parts_st : forall f vtok ts depth parts, eof_ended ts -> (5 * len ts <= f)%nat ->
  value_parts (S f) vtok ts depth parts = value_parts f vtok ts depth parts.
Proof.
  induction f as [|f IH]; intros vtok ts depth parts Hts Hb; [zero_case Hts|].
  unfold_both f ltac:(cbn [Parser.value_parts]). st.
Qed.
Hint Resolve value_parts_st : st.

Lemma cond_var_operator_st f ts : eof_ended ts -> (5 * len ts <= f)%nat -> cond_var_operator (S f) ts = cond_var_operator f ts.
Proof. intros Hts Hb. unfold Parser.cond_var_operator. st. Qed.
Hint Resolve cond_var_operator_st : st.

Lemma leaf_expr_st f script ts : eof_ended ts -> (5 * len ts + 1 <= f)%nat -> leaf_expr (S f) script ts = leaf_expr f script ts.
Proof. intros Hts Hb. unfold Parser.leaf_expr. destruct (peekis NOT ts) eqn:PN; st. Qed.
Hint Resolve leaf_expr_st : st.

Lemma bexp_st : forall f,
  (forall single negated script ts, eof_ended ts -> (5 * len ts + 2 <= f)%nat ->
     bool_expr (S f) single negated script ts = bool_expr f single negated script ts) /\
  (forall left single negated script ts, eof_ended ts -> (5 * len ts + 3 <= f)%nat ->
     right_side (S f) left single negated script ts = right_side f left single negated script ts).
Proof.
  induction f as [|f [IH1 IH2]]; (split; [intros single negated script ts Hts Hb|intros left single negated script ts Hts Hb]);
    try (exfalso; lia);
    pose proof (bexp_advs autovars switches parse_format consts parse_format_advs env_errors f) as [_ RS].
  - rewrite (bool_expr_unfold _ _ _ _ _ (S f)), (bool_expr_unfold _ _ _ _ _ f). st.
  - rewrite (right_side_unfold _ _ _ _ _ (S f)), (right_side_unfold _ _ _ _ _ f). st.
Qed.
Lemma bool_expr_st f single negated script ts : eof_ended ts -> (5 * len ts + 2 <= f)%nat ->
  bool_expr (S f) single negated script ts = bool_expr f single negated script ts.
Proof. apply (bexp_st f). Qed.
Hint Resolve bool_expr_st : st.

Notation switch_operand := (switch_operand consts).
Lemma switch_operand_st : forall f orig ts parts, eof_ended ts -> (5 * len ts <= f)%nat ->
  switch_operand (S f) orig ts parts = switch_operand f orig ts parts.
Proof.
  induction f as [|f IH]; intros orig ts parts Hts Hb; [zero_case Hts|].
  unfold_both f ltac:(cbn [Parser.switch_operand]). st.
Qed.
Hint Resolve switch_operand_st : st.
Notation parse_stmt := (parse_stmt autovars switches env_errors parse_format consts).
Notation parse_block := (parse_block autovars switches env_errors parse_format consts).
Notation parse_switch_block := (parse_switch_block autovars switches env_errors parse_format consts).
Notation parse_cond := (parse_cond autovars switches env_errors parse_format consts).
Notation parse_if := (parse_if autovars switches env_errors parse_format consts).
Notation parse_elifs := (parse_elifs autovars switches env_errors parse_format consts).
Notation parse_switch := (parse_switch autovars switches env_errors parse_format consts).
Notation parse_cases := (parse_cases autovars switches env_errors parse_format consts).
Notation parse_pory := (parse_pory autovars switches env_errors parse_format consts).
Notation parse_pory_cases := (parse_pory_cases autovars switches env_errors parse_format consts).
Notation parse_pory_stmts := (parse_pory_stmts autovars switches env_errors parse_format consts).

Definition STS (f : nat) : Prop :=
  (forall script bs cs ts, eof_ended ts -> (5 * len ts + 2 <= f)%nat -> parse_stmt (S f) script bs cs ts = parse_stmt f script bs cs ts) /\
  (forall script bs cs start ts acc imp, eof_ended ts -> (5 * len ts + 3 <= f)%nat ->
     parse_block (S f) script bs cs start ts acc imp = parse_block f script bs cs start ts acc imp) /\
  (forall script bs cs start ts acc imp, eof_ended ts -> (5 * len ts + 3 <= f)%nat ->
     parse_switch_block (S f) script bs cs start ts acc imp = parse_switch_block f script bs cs start ts acc imp) /\
  (forall req script bs cs ts, eof_ended ts -> (5 * len ts <= f)%nat -> parse_cond (S f) req script bs cs ts = parse_cond f req script bs cs ts) /\
  (forall script bs cs ts, eof_ended ts -> (5 * len ts + 1 <= f)%nat -> parse_if (S f) script bs cs ts = parse_if f script bs cs ts) /\
  (forall script bs cs ts acc imp, eof_ended ts -> (5 * len ts <= f)%nat ->
     parse_elifs (S f) script bs cs ts acc imp = parse_elifs f script bs cs ts acc imp) /\
  (forall script bs cs ts, eof_ended ts -> (5 * len ts <= f)%nat -> parse_switch (S f) script bs cs ts = parse_switch f script bs cs ts) /\
  (forall script bs cs brace ts acc seen hasdef imp, eof_ended ts -> (5 * len ts <= f)%nat ->
     parse_cases (S f) script bs cs brace ts acc seen hasdef imp = parse_cases f script bs cs brace ts acc seen hasdef imp) /\
  (forall script bs cs ts, eof_ended ts -> (5 * len ts <= f)%nat -> parse_pory (S f) script bs cs ts = parse_pory f script bs cs ts) /\
  (forall script bs cs start ts acc, eof_ended ts -> (5 * len ts <= f)%nat ->
     parse_pory_cases (S f) script bs cs start ts acc = parse_pory_cases f script bs cs start ts acc) /\
  (forall script bs cs multi ts acc imp, eof_ended ts -> (5 * len ts + 3 <= f)%nat ->
     parse_pory_stmts (S f) script bs cs multi ts acc imp = parse_pory_stmts f script bs cs multi ts acc imp).

Lemma sts_all : forall f, STS f.
Proof.
  induction f as [|f IH].
  - unfold STS.
    split; [|split; [|split; [|split; [|split; [|split; [|split; [|split; [|split; [|split]]]]]]]]];
      intros; match goal with Hts : eof_ended _ |- _ => zero_case Hts end.
  - destruct IH as (Istmt & Iblock & Iswb & Icond & Iif & Ielifs & Iswitch & Icases & Ipory & Ipcases & Ipstmts).
    destruct (adv_all autovars switches parse_format consts parse_format_advs env_errors f)
      as (Astmt & Ablock & Aswb & Acond & Aif & Aelifs & Aswitch & Acases & Apory & Apcases & Apstmts).
    unfold STS.
    split; [|split; [|split; [|split; [|split; [|split; [|split; [|split; [|split; [|split]]]]]]]]].
    + intros script bs cs ts Hts Hb. rewrite (parse_stmt_unfold _ _ _ _ _ (S f)), (parse_stmt_unfold _ _ _ _ _ f). st.
    + intros script bs cs start ts acc imp Hts Hb. rewrite (parse_block_unfold _ _ _ _ _ (S f)), (parse_block_unfold _ _ _ _ _ f). st.
    + intros script bs cs start ts acc imp Hts Hb. rewrite (parse_switch_block_unfold _ _ _ _ _ (S f)), (parse_switch_block_unfold _ _ _ _ _ f). st.
    + intros req script bs cs ts Hts Hb. rewrite (parse_cond_unfold _ _ _ _ _ (S f)), (parse_cond_unfold _ _ _ _ _ f). st.
    + intros script bs cs ts Hts Hb. rewrite (parse_if_unfold _ _ _ _ _ (S f)), (parse_if_unfold _ _ _ _ _ f). st.
    + intros script bs cs ts acc imp Hts Hb. rewrite (parse_elifs_unfold _ _ _ _ _ (S f)), (parse_elifs_unfold _ _ _ _ _ f). st.
    + intros script bs cs ts Hts Hb. rewrite (parse_switch_unfold _ _ _ _ _ (S f)), (parse_switch_unfold _ _ _ _ _ f). st.
    + intros script bs cs brace ts acc seen hasdef imp Hts Hb. rewrite (parse_cases_unfold _ _ _ _ _ (S f)), (parse_cases_unfold _ _ _ _ _ f). st.
    + intros script bs cs ts Hts Hb. rewrite (parse_pory_unfold _ _ _ _ _ (S f)), (parse_pory_unfold _ _ _ _ _ f). st.
    + intros script bs cs start ts acc Hts Hb. rewrite (parse_pory_cases_unfold _ _ _ _ _ (S f)), (parse_pory_cases_unfold _ _ _ _ _ f). st.
    + intros script bs cs multi ts acc imp Hts Hb. rewrite (parse_pory_stmts_unfold _ _ _ _ _ (S f)), (parse_pory_stmts_unfold _ _ _ _ _ f). st.
Qed.
Lemma parse_block_st f script bs cs start ts acc imp : eof_ended ts -> (5 * len ts + 3 <= f)%nat ->
  parse_block (S f) script bs cs start ts acc imp = parse_block f script bs cs start ts acc imp.
Proof. apply (sts_all f). Qed.
Hint Resolve parse_block_st : st.

Notation parse_script := (parse_script autovars switches env_errors parse_format consts).
Notation text_value := (text_value parse_format).
Notation pory_text_cases := (pory_text_cases parse_format).
Notation pory_text := (pory_text switches env_errors parse_format).
Notation parse_text := (parse_text switches env_errors parse_format).
Notation parse_movement := (parse_movement switches env_errors).
Notation parse_mart := (parse_mart switches env_errors consts).
Notation ms_collect := (ms_collect consts).
Notation ms_table := (ms_table autovars switches env_errors parse_format consts).
Notation ms_entries := (ms_entries autovars switches env_errors parse_format consts).
Notation parse_mapscripts := (parse_mapscripts autovars switches env_errors parse_format consts).

Lemma parse_script_st f ts : eof_ended ts -> (5 * len ts + 3 <= f)%nat -> parse_script (S f) ts = parse_script f ts.
Proof. intros Hts Hb. unfold Parser.parse_script. st. Qed.

Lemma pory_text_cases_st : forall f start ts acc, eof_ended ts -> (5 * len ts <= f)%nat ->
  pory_text_cases (S f) start ts acc = pory_text_cases f start ts acc.
Proof.
  induction f as [|f IH]; intros start ts acc Hts Hb; [zero_case Hts|].
  unfold_both f ltac:(cbn [Parser.pory_text_cases]). st.
Qed.
Hint Resolve pory_text_cases_st : st.

Lemma pory_text_st f ts : eof_ended ts -> (5 * len ts <= f)%nat -> pory_text (S f) ts = pory_text f ts.
Proof. intros Hts Hb. unfold Parser.pory_text. st. Qed.
Hint Resolve pory_text_st : st.

Lemma parse_text_st f ts : eof_ended ts -> (5 * len ts <= f)%nat -> parse_text (S f) ts = parse_text f ts.
Proof. intros Hts Hb. unfold Parser.parse_text. st. Qed.

Lemma parse_movement_st f ts : eof_ended ts -> (5 * len ts <= f)%nat -> parse_movement (S f) ts = parse_movement f ts.
Proof. intros Hts Hb. unfold Parser.parse_movement, movement_value. st. Qed.

Lemma parse_mart_st f ts : eof_ended ts -> (5 * len ts <= f)%nat -> parse_mart (S f) ts = parse_mart f ts.
Proof. intros Hts Hb. unfold Parser.parse_mart, mart_value. st. Qed.

Lemma ms_collect_st : forall f stop ts acc, eof_ended ts -> (len ts <= f)%nat ->
  ms_collect (S f) stop ts acc = ms_collect f stop ts acc.
Proof.
  induction f as [|f IH]; intros stop ts acc Hts Hb; [zero_case Hts|].
  unfold_both f ltac:(cbn [Parser.ms_collect]). st.
Qed.
Hint Resolve ms_collect_st : st.

Lemma ms_table_st : forall f mapname tyname ts i acc imp, eof_ended ts -> (5 * len ts + 4 <= f)%nat ->
  ms_table (S f) mapname tyname ts i acc imp = ms_table f mapname tyname ts i acc imp.
Proof.
  induction f as [|f IH]; intros mapname tyname ts i acc imp Hts Hb; [zero_case Hts|].
  unfold_both f ltac:(cbn [Parser.ms_table]). st.
  all: match goal with H : ms_collect _ _ (adv _) _ = Some _ |- _ => pose proof (ms_collect_stop _ _ _ _ _ _ _ H) as ST; cbv beta in ST end; st.
Qed.
Hint Resolve ms_table_st : st.

Lemma ms_entries_st : forall f mapname ts plain tables imp, eof_ended ts -> (5 * len ts <= f)%nat ->
  ms_entries (S f) mapname ts plain tables imp = ms_entries f mapname ts plain tables imp.
Proof.
  induction f as [|f IH]; intros mapname ts plain tables imp Hts Hb; [zero_case Hts|].
  unfold_both f ltac:(cbn [Parser.ms_entries]). st.
Qed.
Hint Resolve ms_entries_st : st.

Lemma parse_mapscripts_st f ts : eof_ended ts -> (5 * len ts <= f)%nat -> parse_mapscripts (S f) ts = parse_mapscripts f ts.
Proof. intros Hts Hb. unfold Parser.parse_mapscripts. st. Qed.
End ST.

Section ST2.
Variable autovars : list (text * autovar).
Variable switches : list (text * text).
Variable env_errors : bool.
Variable parse_format : toks -> res (token * text * text * toks).
Hypothesis parse_format_advs : forall ts tk v sty ts', parse_format ts = Ok (tk, v, sty, ts') -> forall a, advs a ts -> advs a ts'.
Hypothesis parse_format_lt : forall ts tk v sty ts', parse_format ts = Ok (tk, v, sty, ts') -> ltS ts ts'.

Lemma const_value_st : forall f c ts acc, eof_ended ts -> (len ts <= f)%nat -> const_value (S f) c ts acc = const_value f c ts acc.
Proof.
  induction f as [|f IH]; intros c ts acc Hts Hb; [zero_case Hts|].
  unfold_both f ltac:(cbn [const_value]). cbv zeta. apply if_st; intro H; [reflexivity|]. apply orb_false_elim in H. destruct H as [_ H]. st.
Qed.
Hint Resolve const_value_st : st.

Lemma parse_const_st f c ts : eof_ended ts -> (len ts <= f)%nat -> parse_const (S f) c ts = parse_const f c ts.
Proof. intros Hts Hb. unfold parse_const. st. Qed.

Lemma parse_tops_st : forall f st ts, eof_ended ts -> (5 * len ts + 4 <= f)%nat ->
  parse_tops autovars switches env_errors parse_format (S f) st ts = parse_tops autovars switches env_errors parse_format f st ts.
Proof.
  pose proof (fun c => parse_script_st autovars switches env_errors parse_format c parse_format_advs parse_format_lt) as H1.
  pose proof (parse_text_st switches env_errors parse_format parse_format_advs) as H2.
  pose proof (parse_movement_st switches env_errors) as H3.
  pose proof (parse_mart_st switches env_errors) as H4.
  pose proof (fun c => parse_mapscripts_st autovars switches env_errors parse_format c parse_format_advs parse_format_lt) as H5.
  pose proof parse_const_st as H7.
  induction f as [|f IH]; intros st0 ts Hts Hb; [exfalso; lia|].
  unfold_both f ltac:(cbn [parse_tops]). st.
Qed.
End ST2.

(* ---------- THE THEOREMS (fuel independence) ---------- *)
Lemma parse_tops_more_fuel autovars switches ee fc cli_font cli_maxlen (k fuel : nat) (st : pstate) (ts : toks) :
  eof_ended ts -> (5 * List.length ts + 4 <= fuel)%nat ->
  parse_tops autovars switches ee (parse_format fc cli_font cli_maxlen ee) (k + fuel) st ts =
  parse_tops autovars switches ee (parse_format fc cli_font cli_maxlen ee) fuel st ts.
Proof.
  intros Hts Hb. induction k as [|k IH]; [reflexivity|]. cbn [Nat.add]. rewrite <- IH.
  apply parse_tops_st; [apply ProgSrc.parse_format_advs|apply parse_format_lt|exact Hts|lia].
Qed.

(* above the bound the answer of the top-level loop does not depend on the fuel: the model defines a total function of the
   token list, and (parse_tops_enough_fuel) its value is never Fuel *)
Theorem parse_tops_fuel_independent :
  forall autovars switches ee fc cli_font cli_maxlen (fuel1 fuel2 : nat) (st : pstate) (ts : toks),
    eof_ended ts -> (5 * List.length ts + 4 <= fuel1)%nat -> (5 * List.length ts + 4 <= fuel2)%nat ->
    parse_tops autovars switches ee (parse_format fc cli_font cli_maxlen ee) fuel1 st ts =
    parse_tops autovars switches ee (parse_format fc cli_font cli_maxlen ee) fuel2 st ts.
Proof.
  intros autovars switches ee fc cli_font cli_maxlen fuel1 fuel2 st ts Hts H1 H2.
  assert (E : forall f, (5 * List.length ts + 4 <= f)%nat ->
            parse_tops autovars switches ee (parse_format fc cli_font cli_maxlen ee) f st ts =
            parse_tops autovars switches ee (parse_format fc cli_font cli_maxlen ee) (5 * List.length ts + 4) st ts).
  { intros f Hf. replace f with ((f - (5 * List.length ts + 4)) + (5 * List.length ts + 4))%nat at 1 by lia.
    apply parse_tops_more_fuel; [exact Hts|lia]. }
  rewrite (E fuel1 H1), (E fuel2 H2). reflexivity.
Qed.

Theorem parser_answer_fuel_independent :
  forall hl hd hs autovars switches ee fc cli_font cli_maxlen (src : text) (fuel1 fuel2 : nat) (st : pstate),
    (5 * List.length (lex hl hd hs src) + 4 <= fuel1)%nat -> (5 * List.length (lex hl hd hs src) + 4 <= fuel2)%nat ->
    parse_tops autovars switches ee (parse_format fc cli_font cli_maxlen ee) fuel1 st (lex hl hd hs src) =
    parse_tops autovars switches ee (parse_format fc cli_font cli_maxlen ee) fuel2 st (lex hl hd hs src).
Proof. intros. apply parse_tops_fuel_independent; [apply ProgSrc.lex_eof|assumption|assumption]. Qed.

(* Below the bound the fuel does change the answer, and not only into Fuel: collect_until (and ms_collect,
   const_value) answer "end of input" when they run out of fuel.  With the earlier fuel of the model, S (length ts), the input
   below is answered with the error "missing closing ')' for condition operator value" although the ')' is there; with
   enough fuel the answer is the error of the Go parser, "missing closing curly brace for block statement". *)
Definition starving_source : text := t "script X { while { while { while { while { while { while { if (flag(A)) {".
Example old_fuel_gave_a_wrong_error :
  let ts := lex no_hi no_hi no_hi starving_source in
  let st0 := {| pconsts := []; ph := hst0; ptops := []; ptexts := [] |} in
  match parse_tops [] [] false (parse_format fc_empty [] 0%Z false) (S (List.length ts)) st0 ts,
        parse_tops [] [] false (parse_format fc_empty [] 0%Z false) (5 * List.length ts + 4) st0 ts with
  | Err e1, Err e2 => emsg e1 = t "missing closing ')' for condition operator value" /\
                      emsg e2 = t "missing closing curly brace for block statement"
  | _, _ => False
  end.
Proof. vm_compute. split; reflexivity. Qed.
