(* C06 - hoisting of inline texts and moves() arguments.
   Everything is stated about the model's own functions (Parser.add_texts / add_movs / add_implicit / parse_tops /
   parse_program). Specification-side definitions: the two name formulas (text_label / mov_label), "number of labels
   a script owns" (owned), the list of first appearances (new_texts / new_movs, characterised by *_first / *_inv),
   the numbered definitions (text_defs / mov_defs, read declaratively by *_nth) and the invariant of the hoisting
   tables (text_table F h / mov_table G h: F, G = first appearances so far, over the whole file, in order).

   (1) numbering formula: add_implicit_new_text / add_implicit_new_mov / add_implicit_known_* (equations on
       add_implicit), add_implicit_labels (per occurrence), add_texts_table / add_movs_table / add_implicit_table.
   (2) identical content shares the label of its first appearance, across scripts: text_table_lookup /
       mov_table_lookup, hoist_all_labels (every patch of every script carries the label of the FINAL tables).
   (3) different content never shares a label: text_label_injective, mov_label_injective, text_label_not_mov_label
       (for ARBITRARY script names), hoisted_*_names_distinct, *_label_determines_content (counters below 10^40, the
       only place where the bound of nat_text matters); program_*_label_determines_content (no bound: enforced by the
       final check of parse_program).
   (4) defined exactly once with exactly that content: hoisted_text_defined_once / hoisted_mov_defined_once (tables),
       program_text_label_defined_once / program_mov_label_defined_once (among ALL texts / movements of the program).
   Clash with user names is a compile error: parse_program_outcome, text_name_clash_is_error, mov_name_clash_is_error.
   Link to the parser: parse_tops_hoists, program_hoisting.
   NOT covered here: that the occurrences recorded in impdata are exactly the inline strings / moves() of the source
   (CmdArgs.v covers commands), the application of the patches to the command arguments (CmdArgs.v), the emitter. *)
From Coq Require Import List String Ascii ZArith NArith Lia Bool Permutation.
From Pory Require Import Lexer Ast Parser.
Import ListNotations.
Open Scope list_scope.

(* ================================================================================================================ *)
(* 0. small tools                                                                                                    *)
(* ================================================================================================================ *)
Definition text_dec : forall a b : text, {a = b} + {a <> b} := list_eq_dec N.eq_dec.

Lemma text_eqb_refl x : text_eqb x x = true.
Proof. unfold text_eqb. destruct (list_eq_dec N.eq_dec x x); [reflexivity|congruence]. Qed.
Lemma text_eqb_true a b : text_eqb a b = true -> a = b.
Proof. unfold text_eqb. destruct (list_eq_dec N.eq_dec a b); [auto|discriminate]. Qed.
Lemma text_eqb_false a b : text_eqb a b = false -> a <> b.
Proof. unfold text_eqb. destruct (list_eq_dec N.eq_dec a b); [discriminate|auto]. Qed.
Lemma text_eqb_neq a b : a <> b -> text_eqb a b = false.
Proof. unfold text_eqb. destruct (list_eq_dec N.eq_dec a b); [congruence|auto]. Qed.

Lemma NoDup_app_iff {A} (a b : list A) :
  NoDup (a ++ b) <-> NoDup a /\ NoDup b /\ (forall x, In x a -> In x b -> False).
Proof.
  induction a as [|x a IH]; cbn.
  - split; [intros H; split; [constructor|split; [exact H|intros ? []]]|intros (_ & H & _); exact H].
  - split.
    + intros H. inversion H as [|? ? Hx Hn]; subst. apply IH in Hn. destruct Hn as (Ha & Hb & Hd).
      split; [constructor; [intros Hi; apply Hx, in_or_app; now left|exact Ha]|]. split; [exact Hb|].
      intros y [<-|Hy] Hyb; [apply Hx, in_or_app; now right|eapply Hd; eauto].
    + intros (Ha & Hb & Hd). inversion Ha as [|? ? Hx Hn]; subst. constructor.
      * intros Hi. apply in_app_or in Hi. destruct Hi as [Hi|Hi]; [auto|]. eapply Hd; [left; reflexivity|exact Hi].
      * apply IH. split; [exact Hn|]. split; [exact Hb|]. intros y Hy Hyb. eapply Hd; [right; exact Hy|exact Hyb].
Qed.

(* a ++ x :: d is split uniquely at the LAST occurrence of x *)
Lemma split_last_unique {A} (x : A) : forall a b d1 d2,
  ~ In x d1 -> ~ In x d2 -> a ++ x :: d1 = b ++ x :: d2 -> a = b /\ d1 = d2.
Proof.
  induction a as [|a0 a IH]; intros [|b0 b] d1 d2 N1 N2 E; cbn in E.
  - inversion E. auto.
  - inversion E; subst. exfalso. apply N1, in_or_app. right. now left.
  - inversion E; subst. exfalso. apply N2, in_or_app. right. now left.
  - inversion E; subst. destruct (IH b d1 d2 N1 N2 H1) as [-> ->]. auto.
Qed.

(* ================================================================================================================ *)
(* 1. the generated names                                                                                            *)
(* ================================================================================================================ *)
Definition text_label (script : text) (n : nat) : text := script ++ t "_Text_" ++ nat_text n.
Definition mov_label (script : text) (n : nat) : text := script ++ t "_Movement_" ++ nat_text n.

Fixpoint ntgo (fuel : nat) (n : N) (acc : text) : text :=
  match fuel with O => acc | S f =>
    let d := (48 + N.modulo n 10)%N in let q := N.div n 10 in
    if (q =? 0)%N then d :: acc else ntgo f q (d :: acc) end.
Lemma nat_text_ntgo n : nat_text n = ntgo 40 (N.of_nat n) [].
Proof. reflexivity. Qed.

Definition is_digit (c : N) : Prop := (48 <= c <= 57)%N.
Lemma ntgo_digits : forall f n acc, Forall is_digit acc -> Forall is_digit (ntgo f n acc).
Proof.
  induction f as [|f IH]; intros n acc H; cbn [ntgo]; [exact H|]. cbv zeta.
  assert (D : is_digit (48 + n mod 10)%N).
  { pose proof (N.mod_lt n 10 ltac:(discriminate)) as ML. unfold is_digit. generalize dependent (n mod 10)%N. intros; lia. }
  destruct (n / 10 =? 0)%N; [constructor; assumption|apply IH; constructor; assumption].
Qed.
Lemma nat_text_digits n : Forall is_digit (nat_text n).
Proof. rewrite nat_text_ntgo. apply ntgo_digits. constructor. Qed.
Lemma nat_text_no_underscore n : ~ In 95%N (nat_text n).
Proof.
  intros H. pose proof (nat_text_digits n) as D. rewrite Forall_forall in D. apply D in H. unfold is_digit in H. lia.
Qed.

Definition undec (l : text) (a : N) : N := fold_left (fun a d => (10 * a + (d - 48))%N) l a.
Lemma undec_ntgo : forall f n acc, (n < 10 ^ N.of_nat f)%N -> undec (ntgo f n acc) 0 = undec acc n.
Proof.
  induction f as [|f IH]; intros n acc Hn.
  - cbn in Hn. assert (n = 0%N) by lia. subst. reflexivity.
  - cbn [ntgo]. cbv zeta. pose proof (N.div_mod n 10 ltac:(discriminate)) as DM.
    pose proof (N.mod_lt n 10 ltac:(discriminate)) as ML.
    destruct (N.eqb_spec (n / 10) 0) as [Q|Q].
    + unfold undec. cbn [fold_left]. f_equal. lia.
    + rewrite IH.
      * unfold undec. cbn [fold_left]. f_equal. clear - DM ML. generalize dependent (n / 10)%N. generalize dependent (n mod 10)%N. intros; lia.
      * rewrite Nat2N.inj_succ, N.pow_succ_r' in Hn. apply N.div_lt_upper_bound; [discriminate|exact Hn].
Qed.
(* the model prints at most 40 digits: decimal printing is injective below 10^40 *)
Definition printable (n : nat) : Prop := (N.of_nat n < 10 ^ 40)%N.
Lemma nat_text_inj n m : printable n -> printable m -> nat_text n = nat_text m -> n = m.
Proof.
  unfold printable. intros Hn Hm E. rewrite !nat_text_ntgo in E. apply Nat2N.inj.
  assert (A : undec (ntgo 40 (N.of_nat n) []) 0 = N.of_nat n) by exact (undec_ntgo 40 (N.of_nat n) [] Hn).
  assert (B : undec (ntgo 40 (N.of_nat m) []) 0 = N.of_nat m) by exact (undec_ntgo 40 (N.of_nat m) [] Hm).
  rewrite <- A, <- B, E. reflexivity.
Qed.
Lemma printable_le n m : (n <= m)%nat -> printable m -> printable n.
Proof. unfold printable. lia. Qed.

Lemma label_shape (s mid : text) (n : nat) : s ++ (mid ++ [95%N]) ++ nat_text n = (s ++ mid) ++ 95%N :: nat_text n.
Proof. rewrite <- !app_assoc. reflexivity. Qed.
Lemma text_label_shape s n : text_label s n = (s ++ t "_Text") ++ 95%N :: nat_text n.
Proof. unfold text_label. change (t "_Text_") with (t "_Text" ++ [95%N]). apply label_shape. Qed.
Lemma mov_label_shape s n : mov_label s n = (s ++ t "_Movement") ++ 95%N :: nat_text n.
Proof. unfold mov_label. change (t "_Movement_") with (t "_Movement" ++ [95%N]). apply label_shape. Qed.

(* (3a) the generated names are injective in (script, number), for ANY two script names: the number is the maximal
   digit suffix because the character before it is '_' *)
Theorem text_label_injective s n s' m :
  printable n -> printable m -> text_label s n = text_label s' m -> s = s' /\ n = m.
Proof.
  intros Hn Hm E. rewrite !text_label_shape in E.
  apply split_last_unique in E; [|apply nat_text_no_underscore|apply nat_text_no_underscore].
  destruct E as [E1 E2]. apply app_inv_tail in E1. split; [exact E1|apply nat_text_inj; assumption].
Qed.
Theorem mov_label_injective s n s' m :
  printable n -> printable m -> mov_label s n = mov_label s' m -> s = s' /\ n = m.
Proof.
  intros Hn Hm E. rewrite !mov_label_shape in E.
  apply split_last_unique in E; [|apply nat_text_no_underscore|apply nat_text_no_underscore].
  destruct E as [E1 E2]. apply app_inv_tail in E1. split; [exact E1|apply nat_text_inj; assumption].
Qed.
(* (3b) a generated text name is never a generated movement name, whatever the script names and numbers *)
Theorem text_label_not_mov_label s n s' m : text_label s n <> mov_label s' m.
Proof.
  intros E. rewrite text_label_shape, mov_label_shape in E.
  apply split_last_unique in E; [|apply nat_text_no_underscore|apply nat_text_no_underscore].
  destruct E as [E _]. apply (f_equal (@rev N)) in E. rewrite !rev_app_distr in E.
  change (rev (t "_Text")) with [116; 120; 101; 84; 95]%N in E.
  change (rev (t "_Movement")) with [116; 110; 101; 109; 101; 118; 111; 77; 95]%N in E.
  cbn [app] in E. discriminate E.
Qed.

(* ================================================================================================================ *)
(* 2. inline texts                                                                                                   *)
(* ================================================================================================================ *)
(* the key under which an inline text is shared: (content after terminator / format() processing, string type) *)
Definition tkey (it : imptext) : text * text := (tlit (itTok it), itType it).
Definition key_dec : forall a b : text * text, {a = b} + {a <> b}.
Proof. decide equality; apply text_dec. Defined.

(* number of labels a script owns, given the list of the owners of all labels defined so far *)
Definition owned (script : text) (owners : list text) : nat := count_occ text_dec owners script.

Definition text_def (lbl : text) (it : imptext) : textdef :=
  {| xname := lbl; xvalue := tlit (itTok it); xtype := itType it; xglob := false; xtok := itTok it |}.

(* the definitions generated for a list F of first appearances (pre = the first appearances before F): the i-th one is
   named <script>_Text_<number of earlier first appearances owned by the same script> *)
Fixpoint text_defs (pre F : list imptext) : list textdef :=
  match F with
  | [] => []
  | it :: r => text_def (text_label (itScript it) (owned (itScript it) (map itScript pre))) it :: text_defs (pre ++ [it]) r
  end.

(* the occurrences of its that introduce a (content, type) pair seen neither before (seen) nor earlier in its *)
Fixpoint new_texts (seen : list (text * text)) (its : list imptext) : list imptext :=
  match its with
  | [] => []
  | it :: r => if in_dec key_dec (tkey it) seen then new_texts seen r else it :: new_texts (seen ++ [tkey it]) r
  end.

Definition text_entry (x : textdef) : text * text * text := (xvalue x, xtype x, xname x).

(* the text part of the hoisting state after the first appearances F (in order, over all scripts so far) *)
Record text_table (F : list imptext) (h : hst) : Prop := {
  tt_defs : htexts h = text_defs [] F;
  tt_set : hset h = rev (map text_entry (htexts h));
  tt_cnt : forall s, count_of (hcnt h) s = owned s (map itScript F);
  tt_keys : NoDup (map tkey F) }.

(* --- text_defs --- *)
Lemma text_defs_app : forall A pre B, text_defs pre (A ++ B) = text_defs pre A ++ text_defs (pre ++ A) B.
Proof.
  induction A as [|a A IH]; intros pre B; cbn [text_defs app]; [now rewrite app_nil_r|].
  rewrite IH, <- app_assoc. reflexivity.
Qed.
Lemma text_defs_length : forall F pre, List.length (text_defs pre F) = List.length F.
Proof. induction F as [|a F IH]; intros pre; cbn; [reflexivity|now rewrite IH]. Qed.
(* declarative reading: the i-th definition *)
Lemma text_defs_nth : forall F pre i it, nth_error F i = Some it ->
  nth_error (text_defs pre F) i =
  Some (text_def (text_label (itScript it) (owned (itScript it) (map itScript (pre ++ firstn i F)))) it).
Proof.
  induction F as [|a F IH]; intros pre [|i] it H; cbn in H; try discriminate.
  - inversion H; subst. cbn. now rewrite app_nil_r.
  - cbn [text_defs nth_error firstn]. rewrite (IH _ _ _ H), <- app_assoc. reflexivity.
Qed.
Lemma text_defs_keys : forall F pre, map fst (map text_entry (text_defs pre F)) = map tkey F.
Proof. induction F as [|a F IH]; intros pre; cbn; [reflexivity|now rewrite IH]. Qed.

(* --- find_text --- *)
Lemma find_text_app X L v ty :
  find_text (X ++ L) v ty = match find_text X v ty with Some l => Some l | None => find_text L v ty end.
Proof.
  induction X as [|[[v' ty'] l'] X IH]; cbn; [reflexivity|].
  destruct (text_eqb v v' && text_eqb ty ty'); [reflexivity|exact IH].
Qed.
Lemma find_text_none l v ty : ~ In (v, ty) (map fst l) -> find_text l v ty = None.
Proof.
  induction l as [|[[v' ty'] l'] r IH]; cbn; [reflexivity|]. intros N.
  destruct (text_eqb v v' && text_eqb ty ty') eqn:E.
  - apply andb_prop in E. destruct E as [E1 E2]. apply text_eqb_true in E1, E2. subst. exfalso. apply N. now left.
  - apply IH. intros H. apply N. now right.
Qed.
Lemma find_text_some_key l v ty x : find_text l v ty = Some x -> In (v, ty, x) l.
Proof.
  induction l as [|[[v' ty'] l'] r IH]; cbn; [discriminate|].
  destruct (text_eqb v v' && text_eqb ty ty') eqn:E.
  - intros H; inversion H; subst. apply andb_prop in E. destruct E as [E1 E2].
    apply text_eqb_true in E1, E2. subst. now left.
  - intros H. right. auto.
Qed.
Lemma find_text_head l v ty x : find_text ((v, ty, x) :: l) v ty = Some x.
Proof. cbn. now rewrite !text_eqb_refl. Qed.

Lemma count_of_bump l k s : count_of (bump l k) s = if text_eqb k s then S (count_of l k) else count_of l s.
Proof. unfold count_of, bump. cbn [assoc]. destruct (text_eqb k s); reflexivity. Qed.
Lemma owned_snoc s l k : owned s (l ++ [k]) = if text_eqb k s then S (owned s l) else owned s l.
Proof.
  unfold owned. rewrite count_occ_app. cbn [count_occ]. destruct (text_dec k s) as [->|N].
  - rewrite text_eqb_refl. lia.
  - rewrite (text_eqb_neq _ _ N). lia.
Qed.
Lemma owned_cons s k l : owned s (k :: l) = if text_eqb k s then S (owned s l) else owned s l.
Proof.
  unfold owned. cbn [count_occ]. destruct (text_dec k s) as [->|N]; [now rewrite text_eqb_refl|now rewrite (text_eqb_neq _ _ N)].
Qed.
Lemma owned_app s a b : owned s (a ++ b) = (owned s a + owned s b)%nat.
Proof. apply count_occ_app. Qed.
Lemma owned_le_length s : forall l, (owned s l <= List.length l)%nat.
Proof. unfold owned. induction l as [|a l IH]; cbn; [lia|]. destruct (text_dec a s); lia. Qed.

(* --- the state transformer of one fresh occurrence --- *)
Definition define_text (h : hst) (it : imptext) : hst :=
  let lbl := text_label (itScript it) (count_of (hcnt h) (itScript it)) in
  {| htexts := htexts h ++ [text_def lbl it];
     hset := (tlit (itTok it), itType it, lbl) :: hset h; hcnt := bump (hcnt h) (itScript it);
     hmovs := hmovs h; hmset := hmset h; hmcnt := hmcnt h |}.

(* (1) equations of add_texts: a known (content, type) gets the label stored in the table; a new one gets
   <script>_Text_<counter of the script> *)
Lemma add_texts_known it r h ps lbl :
  find_text (hset h) (tlit (itTok it)) (itType it) = Some lbl ->
  add_texts (it :: r) h ps = add_texts r h (ps ++ [(itCid it, itArg it, lbl)]).
Proof. intros F. cbn [add_texts]. rewrite F. reflexivity. Qed.
Lemma add_texts_fresh it r h ps :
  find_text (hset h) (tlit (itTok it)) (itType it) = None ->
  add_texts (it :: r) h ps =
  add_texts r (define_text h it) (ps ++ [(itCid it, itArg it, text_label (itScript it) (count_of (hcnt h) (itScript it)))]).
Proof. intros F. cbn [add_texts]. rewrite F. reflexivity. Qed.

Lemma table_keys F h : text_table F h -> map fst (hset h) = rev (map tkey F).
Proof. intros T. rewrite (tt_set _ _ T), (tt_defs _ _ T), map_rev, text_defs_keys. reflexivity. Qed.

Lemma table_find_none F h v ty : text_table F h -> (find_text (hset h) v ty = None <-> ~ In (v, ty) (map tkey F)).
Proof.
  intros T. split.
  - intros H I. rewrite in_rev, <- (table_keys _ _ T) in I.
    apply in_map_iff in I. destruct I as ([[v' ty'] l] & E & I). cbn in E. inversion E; subst.
    destruct (find_text (hset h) v ty) eqn:Q; [discriminate|].
    revert Q. clear - I. induction (hset h) as [|[[v2 ty2] l2] r IH]; [destruct I|]. cbn.
    destruct I as [I|I].
    + inversion I; subst. now rewrite !text_eqb_refl.
    + destruct (text_eqb v v2 && text_eqb ty ty2); [discriminate|auto].
  - intros N. apply find_text_none. rewrite (table_keys _ _ T), <- in_rev. exact N.
Qed.

Lemma define_text_table F h it :
  text_table F h -> ~ In (tkey it) (map tkey F) -> text_table (F ++ [it]) (define_text h it).
Proof.
  intros T N. constructor.
  - cbn [define_text htexts]. rewrite text_defs_app, (tt_defs _ _ T). cbn [text_defs app]. now rewrite (tt_cnt _ _ T).
  - cbn [define_text htexts hset]. rewrite map_app, rev_app_distr, (tt_set _ _ T). reflexivity.
  - intros s. cbn [define_text hcnt]. rewrite count_of_bump, map_app. cbn [map]. rewrite owned_snoc, !(tt_cnt _ _ T).
    destruct (text_eqb (itScript it) s) eqn:E; [apply text_eqb_true in E; subst|]; reflexivity.
  - rewrite map_app. apply NoDup_app_iff. split; [exact (tt_keys _ _ T)|]. split; [repeat constructor; intros []|].
    intros x Hx [<-|[]]. exact (N Hx).
Qed.

(* the label found for the occurrence that sits at position |A| of the first appearances *)
Lemma table_find_at A it B h :
  text_table (A ++ it :: B) h ->
  find_text (hset h) (tlit (itTok it)) (itType it) = Some (text_label (itScript it) (owned (itScript it) (map itScript A))).
Proof.
  intros T. rewrite (tt_set _ _ T), (tt_defs _ _ T), text_defs_app. cbn [text_defs app].
  rewrite map_app. cbn [map]. rewrite rev_app_distr. cbn [rev]. rewrite <- !app_assoc, find_text_app.
  rewrite find_text_none.
  - cbn [app]. apply find_text_head.
  - rewrite map_rev, text_defs_keys, <- in_rev. intros I.
    pose proof (tt_keys _ _ T) as ND. rewrite map_app in ND. apply NoDup_app_iff in ND. destruct ND as (_ & ND & _).
    cbn [map] in ND. inversion ND; subst. auto.
Qed.

(* labels given once are never changed by later first appearances *)
Lemma table_mono F N h h' v ty l :
  text_table F h -> text_table (F ++ N) h' -> find_text (hset h) v ty = Some l -> find_text (hset h') v ty = Some l.
Proof.
  intros T T' H. rewrite (tt_set _ _ T'), (tt_defs _ _ T'), text_defs_app, map_app, rev_app_distr, find_text_app.
  rewrite <- (tt_defs _ _ T), <- (tt_set _ _ T), H. rewrite find_text_none; [reflexivity|].
  rewrite map_rev, text_defs_keys, <- in_rev. intros I.
  pose proof (tt_keys _ _ T') as ND. rewrite map_app in ND. apply NoDup_app_iff in ND. destruct ND as (_ & _ & D).
  apply (D (v, ty)); [|exact I]. destruct (in_dec key_dec (v, ty) (map tkey F)) as [Y|Y]; [exact Y|].
  apply (table_find_none _ _ v ty T) in Y. congruence.
Qed.

Definition text_patch (it : imptext) (lbl : text) : patch := (itCid it, itArg it, lbl).

(* MAIN (texts): the table after add_texts is the table of F extended by the first appearances in its, in order;
   one patch per occurrence, carrying the label the final table holds for the occurrence's (content, type) *)
Theorem add_texts_table : forall its F h ps h' ps',
  text_table F h -> add_texts its h ps = (h', ps') ->
  text_table (F ++ new_texts (map tkey F) its) h' /\
  exists labels, ps' = ps ++ map (fun p => text_patch (fst p) (snd p)) (combine its labels) /\
    List.length labels = List.length its /\
    Forall2 (fun it l => find_text (hset h') (tlit (itTok it)) (itType it) = Some l) its labels.
Proof.
  induction its as [|it r IH]; intros F h ps h' ps' T H.
  - inversion H; subst. cbn [new_texts]. rewrite app_nil_r. split; [exact T|].
    exists []. cbn. rewrite app_nil_r. split; [reflexivity|]. split; [reflexivity|constructor].
  - destruct (find_text (hset h) (tlit (itTok it)) (itType it)) as [lbl|] eqn:Q.
    + rewrite (add_texts_known _ _ _ _ _ Q) in H.
      assert (I : In (tkey it) (map tkey F)).
      { destruct (in_dec key_dec (tkey it) (map tkey F)) as [Y|Y]; [exact Y|].
        apply (table_find_none _ _ (tlit (itTok it)) (itType it) T) in Y. congruence. }
      cbn [new_texts]. destruct (in_dec key_dec (tkey it) (map tkey F)) as [_|Y]; [|contradiction].
      destruct (IH _ _ _ _ _ T H) as (T' & labels & Hps & Hlen & Hall). split; [exact T'|].
      exists (lbl :: labels). cbn [combine map List.length]. rewrite Hps, <- app_assoc. split; [reflexivity|].
      split; [now rewrite Hlen|]. constructor; [|exact Hall]. exact (table_mono _ _ _ _ _ _ _ T T' Q).
    + rewrite (add_texts_fresh _ _ _ _ Q) in H.
      assert (N : ~ In (tkey it) (map tkey F)) by (apply (table_find_none _ _ _ _ T); exact Q).
      cbn [new_texts]. destruct (in_dec key_dec (tkey it) (map tkey F)) as [Y|_]; [contradiction|].
      pose proof (define_text_table _ _ _ T N) as T1.
      destruct (IH _ _ _ _ _ T1 H) as (T' & labels & Hps & Hlen & Hall).
      rewrite map_app in T'. cbn [map] in T'. rewrite <- app_assoc in T'. cbn [app] in T'.
      split; [exact T'|].
      exists (text_label (itScript it) (count_of (hcnt h) (itScript it)) :: labels). cbn [combine map List.length].
      rewrite Hps, <- app_assoc. split; [reflexivity|]. split; [now rewrite Hlen|]. constructor; [|exact Hall].
      rewrite (table_find_at _ _ _ _ T'), (tt_cnt _ _ T). reflexivity.
Qed.

(* declarative reading of the table: the label stored for (v, ty) is the label of the FIRST appearance of (v, ty):
   <its script>_Text_<number of earlier first appearances owned by that script> *)
Theorem text_table_lookup F h : text_table F h -> forall v ty l,
  find_text (hset h) v ty = Some l <->
  exists A it B, F = A ++ it :: B /\ tkey it = (v, ty) /\ l = text_label (itScript it) (owned (itScript it) (map itScript A)).
Proof.
  intros T v ty l. split.
  - intros H. destruct (in_dec key_dec (v, ty) (map tkey F)) as [Y|Y].
    + apply in_map_iff in Y. destruct Y as (it & E & I). apply in_split in I. destruct I as (A & B & ->).
      exists A, it, B. split; [reflexivity|]. split; [exact E|].
      pose proof (table_find_at _ _ _ _ T) as Q. unfold tkey in E. inversion E; subst. congruence.
    + apply (table_find_none _ _ v ty T) in Y. congruence.
  - intros (A & it & B & -> & E & ->). unfold tkey in E. inversion E; subst. exact (table_find_at _ _ _ _ T).
Qed.

(* --- (3) the generated text names are pairwise different --- *)
Lemma text_defs_names_range : forall F pre x, In x (text_defs pre F) ->
  exists s k, xname x = text_label s k /\ (owned s (map itScript pre) <= k < owned s (map itScript (pre ++ F)))%nat.
Proof.
  induction F as [|it F IH]; intros pre x H; [destruct H|]. cbn [text_defs] in H. destruct H as [<-|H].
  - exists (itScript it), (owned (itScript it) (map itScript pre)). split; [reflexivity|].
    rewrite map_app, owned_app. cbn [map]. rewrite owned_cons, text_eqb_refl. lia.
  - destruct (IH _ _ H) as (s & k & E & K). exists s, k. split; [exact E|].
    rewrite <- app_assoc in K. cbn [app] in K. rewrite map_app, owned_app in K. lia.
Qed.
Lemma text_defs_nodup : forall F pre, printable (List.length (pre ++ F)) -> NoDup (map xname (text_defs pre F)).
Proof.
  induction F as [|it F IH]; intros pre P; [constructor|]. cbn [text_defs map]. constructor.
  - intros H. apply in_map_iff in H. destruct H as (x & E & H). cbn [text_def xname] in E.
    destruct (text_defs_names_range _ _ _ H) as (s & k & Ex & K). rewrite <- app_assoc in K. cbn [app] in K.
    rewrite Ex in E. apply text_label_injective in E.
    + destruct E as [-> ->]. rewrite map_app in K. cbn [map] in K. rewrite owned_snoc, text_eqb_refl in K. lia.
    + eapply printable_le; [|exact P]. pose proof (owned_le_length s (map itScript (pre ++ it :: F))) as L.
      rewrite map_length in L. lia.
    + eapply printable_le; [|exact P]. pose proof (owned_le_length (itScript it) (map itScript pre)) as L.
      rewrite map_length in L. rewrite app_length. lia.
  - apply IH. rewrite <- app_assoc. exact P.
Qed.

Lemma NoDup_map_inj {A B} (f : A -> B) l x y : NoDup (map f l) -> In x l -> In y l -> f x = f y -> x = y.
Proof.
  induction l as [|a l IH]; intros ND Hx Hy E; [destruct Hx|]. cbn in ND. inversion ND as [|? ? Na ND']; subst.
  destruct Hx as [<-|Hx], Hy as [<-|Hy]; [reflexivity| | |auto].
  - exfalso. apply Na. rewrite E. now apply in_map.
  - exfalso. apply Na. rewrite <- E. now apply in_map.
Qed.
Lemma filter_nil {A} (p : A -> bool) l : (forall x, In x l -> p x = false) -> filter p l = [].
Proof. induction l as [|a l IH]; intros H; cbn; [reflexivity|]. rewrite (H a (or_introl eq_refl)). apply IH. intros; apply H; now right. Qed.
(* "defined exactly once": in a list with pairwise different names, a name that occurs is the name of one element *)
Lemma filter_once {A} (f : A -> text) l x : NoDup (map f l) -> In x l ->
  List.length (filter (fun y => text_eqb (f y) (f x)) l) = 1%nat.
Proof.
  induction l as [|a l IH]; intros ND Hx; [destruct Hx|]. cbn in ND. inversion ND as [|? ? Na ND']; subst. cbn [filter].
  destruct Hx as [<-|Hx].
  - rewrite text_eqb_refl. cbn [List.length]. rewrite filter_nil; [reflexivity|].
    intros y Hy. apply text_eqb_neq. intros E. apply Na. rewrite <- E. now apply in_map.
  - rewrite text_eqb_neq; [auto|]. intros E. apply Na. rewrite E. now apply in_map.
Qed.

Theorem hoisted_text_names_distinct F h :
  text_table F h -> printable (List.length (htexts h)) -> NoDup (map xname (htexts h)).
Proof.
  intros T P. rewrite (tt_defs _ _ T) in *. apply text_defs_nodup. cbn [app]. now rewrite text_defs_length in P.
Qed.

Lemma table_entry_def F h v ty l : text_table F h -> In (v, ty, l) (hset h) ->
  exists x, In x (htexts h) /\ xname x = l /\ xvalue x = v /\ xtype x = ty /\ xglob x = false.
Proof.
  intros T I. rewrite (tt_set _ _ T), <- in_rev in I. apply in_map_iff in I. destruct I as (x & E & I).
  unfold text_entry in E. inversion E; subst. exists x. split; [exact I|]. split; [reflexivity|]. split; [reflexivity|].
  split; [reflexivity|]. rewrite (tt_defs _ _ T) in I. clear - I. revert I. generalize (@nil imptext).
  induction F as [|it F IH]; intros pre I; [destruct I|]. destruct I as [<-|I]; [reflexivity|eauto].
Qed.

(* (3) different content never shares a label: the map label -> (content, type) is a function *)
Theorem text_label_determines_content F h v ty v' ty' l :
  text_table F h -> printable (List.length (htexts h)) ->
  In (v, ty, l) (hset h) -> In (v', ty', l) (hset h) -> v = v' /\ ty = ty'.
Proof.
  intros T P I I'. pose proof (hoisted_text_names_distinct _ _ T P) as ND.
  rewrite (tt_set _ _ T), <- in_rev in I, I'. apply in_map_iff in I, I'.
  destruct I as (x & E & I), I' as (x' & E' & I'). unfold text_entry in E, E'. inversion E; inversion E'; subst.
  assert (x = x') by (eapply NoDup_map_inj; eauto). subst. auto.
Qed.

(* (4) a label held by the table is defined exactly once in htexts, as a local text with exactly the content and
   string type it stands for *)
Theorem hoisted_text_defined_once F h v ty l :
  text_table F h -> printable (List.length (htexts h)) -> find_text (hset h) v ty = Some l ->
  List.length (filter (fun y => text_eqb (xname y) l) (htexts h)) = 1%nat /\
  exists x, In x (htexts h) /\ xname x = l /\ xvalue x = v /\ xtype x = ty /\ xglob x = false /\
            forall y, In y (htexts h) -> xname y = l -> y = x.
Proof.
  intros T P H. apply find_text_some_key in H. destruct (table_entry_def _ _ _ _ _ T H) as (x & I & <- & <- & <- & G).
  pose proof (hoisted_text_names_distinct _ _ T P) as ND. split; [apply filter_once; assumption|].
  exists x. repeat (split; [first [assumption|reflexivity]|]). intros y Iy E. eapply NoDup_map_inj; eauto.
Qed.

(* --- what new_texts computes --- *)
Lemma new_texts_app : forall a seen b,
  new_texts seen (a ++ b) = new_texts seen a ++ new_texts (seen ++ map tkey (new_texts seen a)) b.
Proof.
  induction a as [|it a IH]; intros seen b; cbn [new_texts app map]; [now rewrite app_nil_r|].
  destruct (in_dec key_dec (tkey it) seen); [apply IH|].
  cbn [app map]. rewrite IH, <- app_assoc. reflexivity.
Qed.
(* an occurrence is among the new ones iff its (content, type) occurs neither in seen nor earlier in the list *)
Lemma new_texts_first : forall its seen pre it post, its = pre ++ it :: post ->
  ~ In (tkey it) seen -> ~ In (tkey it) (map tkey pre) -> In it (new_texts seen its).
Proof.
  induction its as [|a its IH]; intros seen [|p pre] it post E N1 N2; cbn in E; inversion E; subst; cbn [new_texts].
  - destruct (in_dec key_dec (tkey it) seen); [contradiction|now left].
  - assert (D : tkey p <> tkey it) by (intros D; apply N2; now left).
    assert (N2' : ~ In (tkey it) (map tkey pre)) by (intros I; apply N2; now right).
    destruct (in_dec key_dec (tkey p) seen).
    + eapply IH; eauto.
    + right. eapply IH; eauto. intros I. apply in_app_or in I. destruct I as [I|[I|[]]]; [auto|congruence].
Qed.
Lemma new_texts_inv : forall its seen it, In it (new_texts seen its) ->
  exists pre post, its = pre ++ it :: post /\ ~ In (tkey it) seen /\ ~ In (tkey it) (map tkey pre).
Proof.
  induction its as [|a its IH]; intros seen it H; [destruct H|]. cbn [new_texts] in H.
  destruct (in_dec key_dec (tkey a) seen) as [Y|Y].
  - destruct (IH _ _ H) as (pre & post & -> & N1 & N2). exists (a :: pre), post. split; [reflexivity|]. split; [exact N1|].
    cbn [map]. intros [E|I]; [|auto]. apply N1. now rewrite <- E.
  - destruct H as [<-|H].
    + exists [], its. split; [reflexivity|]. split; [exact Y|intros []].
    + destruct (IH _ _ H) as (pre & post & -> & N1 & N2). exists (a :: pre), post. split; [reflexivity|].
      split; [intros I; apply N1, in_or_app; now left|]. cbn [map]. intros [E|I]; [|auto].
      apply N1, in_or_app. right. left. exact E.
Qed.
(* every occurrence's (content, type) is known afterwards *)
Lemma new_texts_cover : forall its seen it, In it its -> In (tkey it) (seen ++ map tkey (new_texts seen its)).
Proof.
  induction its as [|a its IH]; intros seen it H0; [destruct H0|]. destruct H0 as [<-|H]; cbn [new_texts].
  - destruct (in_dec key_dec (tkey a) seen); [apply in_or_app; now left|]. apply in_or_app. right. now left.
  - destruct (in_dec key_dec (tkey a) seen); [auto|]. cbn [map].
    specialize (IH (seen ++ [tkey a]) it H). rewrite <- app_assoc in IH. exact IH.
Qed.

(* ================================================================================================================ *)
(* 3. moves() arguments                                                                                              *)
(* ================================================================================================================ *)
(* the key under which a moves() argument is shared: the expanded step list (after '* n' and poryswitch expansion),
   as computed by getMovementsKey *)
Definition mkey (im : impmov) : text := mov_key (imToks im).
Definition mov_def (lbl : text) (im : impmov) : top := TMovement lbl false (imCmdTok im) (imToks im).

Fixpoint mov_defs (pre G : list impmov) : list top :=
  match G with
  | [] => []
  | im :: r => mov_def (mov_label (imScript im) (owned (imScript im) (map imScript pre))) im :: mov_defs (pre ++ [im]) r
  end.

Fixpoint new_movs (seen : list text) (ims : list impmov) : list impmov :=
  match ims with
  | [] => []
  | im :: r => if in_dec text_dec (mkey im) seen then new_movs seen r else im :: new_movs (seen ++ [mkey im]) r
  end.

Definition mov_entry (tp : top) : text * text :=
  match tp with TMovement n _ _ steps => (mov_key steps, n) | _ => ([], []) end.
(* the names of the movement statements of a list of top-level statements *)
Definition mov_names (l : list top) : list text :=
  flat_map (fun tp => match tp with TMovement n _ _ _ => [n] | _ => [] end) l.
Definition is_mov_named (l : text) (tp : top) : bool :=
  match tp with TMovement n _ _ _ => text_eqb n l | _ => false end.

Record mov_table (G : list impmov) (h : hst) : Prop := {
  mt_defs : hmovs h = mov_defs [] G;
  mt_set : hmset h = rev (map mov_entry (hmovs h));
  mt_cnt : forall s, count_of (hmcnt h) s = owned s (map imScript G);
  mt_keys : NoDup (map mkey G) }.

Lemma mov_defs_app : forall A pre B, mov_defs pre (A ++ B) = mov_defs pre A ++ mov_defs (pre ++ A) B.
Proof.
  induction A as [|a A IH]; intros pre B; cbn [mov_defs app]; [now rewrite app_nil_r|].
  rewrite IH, <- app_assoc. reflexivity.
Qed.
Lemma mov_defs_length : forall G pre, List.length (mov_defs pre G) = List.length G.
Proof. induction G as [|a G IH]; intros pre; cbn; [reflexivity|now rewrite IH]. Qed.
Lemma mov_defs_nth : forall G pre i im, nth_error G i = Some im ->
  nth_error (mov_defs pre G) i =
  Some (mov_def (mov_label (imScript im) (owned (imScript im) (map imScript (pre ++ firstn i G)))) im).
Proof.
  induction G as [|a G IH]; intros pre [|i] im H; cbn in H; try discriminate.
  - inversion H; subst. cbn. now rewrite app_nil_r.
  - cbn [mov_defs nth_error firstn]. rewrite (IH _ _ _ H), <- app_assoc. reflexivity.
Qed.
Lemma mov_defs_keys : forall G pre, map fst (map mov_entry (mov_defs pre G)) = map mkey G.
Proof. induction G as [|a G IH]; intros pre; cbn; [reflexivity|now rewrite IH]. Qed.
Lemma mov_defs_names : forall G pre, mov_names (mov_defs pre G) = map snd (map mov_entry (mov_defs pre G)).
Proof. induction G as [|a G IH]; intros pre; cbn; [reflexivity|now rewrite <- IH]. Qed.

Lemma assoc_app {B} (X L : list (text * B)) k :
  assoc (X ++ L) k = match assoc X k with Some l => Some l | None => assoc L k end.
Proof. induction X as [|[a b] X IH]; cbn; [reflexivity|]. destruct (text_eqb a k); [reflexivity|exact IH]. Qed.
Lemma assoc_none {B} (l : list (text * B)) k : ~ In k (map fst l) -> assoc l k = None.
Proof.
  induction l as [|[a b] r IH]; cbn; [reflexivity|]. intros N. destruct (text_eqb a k) eqn:E.
  - apply text_eqb_true in E. subst. exfalso. apply N. now left.
  - apply IH. intros H. apply N. now right.
Qed.
Lemma assoc_in {B} (l : list (text * B)) k : In k (map fst l) -> assoc l k <> None.
Proof.
  induction l as [|[a b] r IH]; cbn; [intros []|]. intros [->|I].
  - now rewrite text_eqb_refl.
  - destruct (text_eqb a k); [discriminate|auto].
Qed.
Lemma assoc_some_in {B} (l : list (text * B)) k x : assoc l k = Some x -> In (k, x) l.
Proof.
  induction l as [|[a b] r IH]; cbn; [discriminate|]. destruct (text_eqb a k) eqn:E.
  - intros H; inversion H; subst. apply text_eqb_true in E. subst. now left.
  - intros H. right. auto.
Qed.
Lemma assoc_head {B} (l : list (text * B)) k x : assoc ((k, x) :: l) k = Some x.
Proof. cbn. now rewrite text_eqb_refl. Qed.

Definition define_mov (h : hst) (im : impmov) : hst :=
  let lbl := mov_label (imScript im) (count_of (hmcnt h) (imScript im)) in
  {| htexts := htexts h; hset := hset h; hcnt := hcnt h;
     hmovs := hmovs h ++ [mov_def lbl im];
     hmset := (mov_key (imToks im), lbl) :: hmset h; hmcnt := bump (hmcnt h) (imScript im) |}.

(* (1) equations of add_movs *)
Lemma add_movs_known im r h ps lbl :
  assoc (hmset h) (mov_key (imToks im)) = Some lbl ->
  add_movs (im :: r) h ps = add_movs r h (ps ++ [(imCid im, imArg im, lbl)]).
Proof. intros F. cbn [add_movs]. rewrite F. reflexivity. Qed.
Lemma add_movs_fresh im r h ps :
  assoc (hmset h) (mov_key (imToks im)) = None ->
  add_movs (im :: r) h ps =
  add_movs r (define_mov h im) (ps ++ [(imCid im, imArg im, mov_label (imScript im) (count_of (hmcnt h) (imScript im)))]).
Proof. intros F. cbn [add_movs]. rewrite F. reflexivity. Qed.

Lemma mtable_keys G h : mov_table G h -> map fst (hmset h) = rev (map mkey G).
Proof. intros T. rewrite (mt_set _ _ T), (mt_defs _ _ T), map_rev, mov_defs_keys. reflexivity. Qed.

Lemma mtable_find_none G h k : mov_table G h -> (assoc (hmset h) k = None <-> ~ In k (map mkey G)).
Proof.
  intros T. split.
  - intros H I. rewrite in_rev, <- (mtable_keys _ _ T) in I. exact (assoc_in _ _ I H).
  - intros N. apply assoc_none. rewrite (mtable_keys _ _ T), <- in_rev. exact N.
Qed.

Lemma define_mov_table G h im :
  mov_table G h -> ~ In (mkey im) (map mkey G) -> mov_table (G ++ [im]) (define_mov h im).
Proof.
  intros T N. constructor.
  - cbn [define_mov hmovs]. rewrite mov_defs_app, (mt_defs _ _ T). cbn [mov_defs app]. now rewrite (mt_cnt _ _ T).
  - cbn [define_mov hmovs hmset]. rewrite map_app, rev_app_distr, (mt_set _ _ T). reflexivity.
  - intros s. cbn [define_mov hmcnt]. rewrite count_of_bump, map_app. cbn [map]. rewrite owned_snoc, !(mt_cnt _ _ T).
    destruct (text_eqb (imScript im) s) eqn:E; [apply text_eqb_true in E; subst|]; reflexivity.
  - rewrite map_app. apply NoDup_app_iff. split; [exact (mt_keys _ _ T)|]. split; [repeat constructor; intros []|].
    intros x Hx [<-|[]]. exact (N Hx).
Qed.

Lemma mtable_find_at A im B h :
  mov_table (A ++ im :: B) h ->
  assoc (hmset h) (mov_key (imToks im)) = Some (mov_label (imScript im) (owned (imScript im) (map imScript A))).
Proof.
  intros T. rewrite (mt_set _ _ T), (mt_defs _ _ T), mov_defs_app. cbn [mov_defs app].
  rewrite map_app. cbn [map]. rewrite rev_app_distr. cbn [rev]. rewrite <- !app_assoc, assoc_app.
  rewrite assoc_none.
  - cbn [app]. apply assoc_head.
  - rewrite map_rev, mov_defs_keys, <- in_rev. intros I.
    pose proof (mt_keys _ _ T) as ND. rewrite map_app in ND. apply NoDup_app_iff in ND. destruct ND as (_ & ND & _).
    cbn [map] in ND. inversion ND; subst. auto.
Qed.

Lemma mtable_mono G N h h' k l :
  mov_table G h -> mov_table (G ++ N) h' -> assoc (hmset h) k = Some l -> assoc (hmset h') k = Some l.
Proof.
  intros T T' H. rewrite (mt_set _ _ T'), (mt_defs _ _ T'), mov_defs_app, map_app, rev_app_distr, assoc_app.
  rewrite <- (mt_defs _ _ T), <- (mt_set _ _ T), H. rewrite assoc_none; [reflexivity|].
  rewrite map_rev, mov_defs_keys, <- in_rev. intros I.
  pose proof (mt_keys _ _ T') as ND. rewrite map_app in ND. apply NoDup_app_iff in ND. destruct ND as (_ & _ & D).
  apply (D k); [|exact I]. destruct (in_dec text_dec k (map mkey G)) as [Y|Y]; [exact Y|].
  apply (mtable_find_none _ _ k T) in Y. congruence.
Qed.

Definition mov_patch (im : impmov) (lbl : text) : patch := (imCid im, imArg im, lbl).

(* MAIN (movements) *)
Theorem add_movs_table : forall ims G h ps h' ps',
  mov_table G h -> add_movs ims h ps = (h', ps') ->
  mov_table (G ++ new_movs (map mkey G) ims) h' /\
  exists labels, ps' = ps ++ map (fun p => mov_patch (fst p) (snd p)) (combine ims labels) /\
    List.length labels = List.length ims /\
    Forall2 (fun im l => assoc (hmset h') (mov_key (imToks im)) = Some l) ims labels.
Proof.
  induction ims as [|im r IH]; intros G h ps h' ps' T H.
  - inversion H; subst. cbn [new_movs]. rewrite app_nil_r. split; [exact T|].
    exists []. cbn. rewrite app_nil_r. split; [reflexivity|]. split; [reflexivity|constructor].
  - destruct (assoc (hmset h) (mov_key (imToks im))) as [lbl|] eqn:Q.
    + rewrite (add_movs_known _ _ _ _ _ Q) in H.
      assert (I : In (mkey im) (map mkey G)).
      { destruct (in_dec text_dec (mkey im) (map mkey G)) as [Y|Y]; [exact Y|].
        apply (mtable_find_none _ _ (mkey im) T) in Y. unfold mkey in Y. congruence. }
      cbn [new_movs]. destruct (in_dec text_dec (mkey im) (map mkey G)) as [_|Y]; [|contradiction].
      destruct (IH _ _ _ _ _ T H) as (T' & labels & Hps & Hlen & Hall). split; [exact T'|].
      exists (lbl :: labels). cbn [combine map List.length]. rewrite Hps, <- app_assoc. split; [reflexivity|].
      split; [now rewrite Hlen|]. constructor; [|exact Hall]. exact (mtable_mono _ _ _ _ _ _ T T' Q).
    + rewrite (add_movs_fresh _ _ _ _ Q) in H.
      assert (N : ~ In (mkey im) (map mkey G)) by (apply (mtable_find_none _ _ _ T); exact Q).
      cbn [new_movs]. destruct (in_dec text_dec (mkey im) (map mkey G)) as [Y|_]; [contradiction|].
      pose proof (define_mov_table _ _ _ T N) as T1.
      destruct (IH _ _ _ _ _ T1 H) as (T' & labels & Hps & Hlen & Hall).
      rewrite map_app in T'. cbn [map] in T'. rewrite <- app_assoc in T'. cbn [app] in T'.
      split; [exact T'|].
      exists (mov_label (imScript im) (count_of (hmcnt h) (imScript im)) :: labels). cbn [combine map List.length].
      rewrite Hps, <- app_assoc. split; [reflexivity|]. split; [now rewrite Hlen|]. constructor; [|exact Hall].
      rewrite (mtable_find_at _ _ _ _ T'), (mt_cnt _ _ T). reflexivity.
Qed.

Theorem mov_table_lookup G h : mov_table G h -> forall k l,
  assoc (hmset h) k = Some l <->
  exists A im B, G = A ++ im :: B /\ mkey im = k /\ l = mov_label (imScript im) (owned (imScript im) (map imScript A)).
Proof.
  intros T k l. split.
  - intros H. destruct (in_dec text_dec k (map mkey G)) as [Y|Y].
    + apply in_map_iff in Y. destruct Y as (im & E & I). apply in_split in I. destruct I as (A & B & ->).
      exists A, im, B. split; [reflexivity|]. split; [exact E|].
      pose proof (mtable_find_at _ _ _ _ T) as Q. unfold mkey in E. subst k. congruence.
    + apply (mtable_find_none _ _ k T) in Y. congruence.
  - intros (A & im & B & -> & E & ->). unfold mkey in E. subst k. exact (mtable_find_at _ _ _ _ T).
Qed.

Lemma mov_defs_names_range : forall G pre n, In n (mov_names (mov_defs pre G)) ->
  exists s k, n = mov_label s k /\ (owned s (map imScript pre) <= k < owned s (map imScript (pre ++ G)))%nat.
Proof.
  induction G as [|im G IH]; intros pre x H; [destruct H|]. cbn [mov_defs mov_names flat_map mov_def app] in H.
  destruct H as [<-|H].
  - exists (imScript im), (owned (imScript im) (map imScript pre)). split; [reflexivity|].
    rewrite map_app, owned_app. cbn [map]. rewrite owned_cons, text_eqb_refl. lia.
  - destruct (IH _ _ H) as (s & k & E & K). exists s, k. split; [exact E|].
    rewrite <- app_assoc in K. cbn [app] in K. rewrite map_app, owned_app in K. lia.
Qed.
Lemma mov_defs_nodup : forall G pre, printable (List.length (pre ++ G)) -> NoDup (mov_names (mov_defs pre G)).
Proof.
  induction G as [|im G IH]; intros pre P; [constructor|]. cbn [mov_defs mov_names flat_map mov_def app]. constructor.
  - intros H. destruct (mov_defs_names_range _ _ _ H) as (s & k & E & K). rewrite <- app_assoc in K. cbn [app] in K.
    apply mov_label_injective in E.
    + destruct E as [<- <-]. rewrite map_app in K. cbn [map] in K. rewrite owned_snoc, text_eqb_refl in K. lia.
    + eapply printable_le; [|exact P]. pose proof (owned_le_length (imScript im) (map imScript pre)) as L.
      rewrite map_length in L. rewrite app_length. lia.
    + eapply printable_le; [|exact P]. pose proof (owned_le_length s (map imScript (pre ++ im :: G))) as L.
      rewrite map_length in L. lia.
  - apply IH. rewrite <- app_assoc. exact P.
Qed.

Lemma mov_names_app a b : mov_names (a ++ b) = mov_names a ++ mov_names b.
Proof. apply flat_map_app. Qed.
Lemma mov_names_in l n g tk st : In (TMovement n g tk st) l -> In n (mov_names l).
Proof. intros H. unfold mov_names. apply in_flat_map. eexists. split; [exact H|now left]. Qed.
Lemma mov_names_inv l n : In n (mov_names l) -> exists g tk st, In (TMovement n g tk st) l.
Proof.
  intros H. unfold mov_names in H. apply in_flat_map in H. destruct H as (tp & I & H).
  destruct tp; cbn in H; try contradiction. destruct H as [<-|[]]. eauto.
Qed.
(* "defined exactly once", for movement statements among arbitrary top-level statements *)
Lemma mov_once l : NoDup (mov_names l) -> forall n, In n (mov_names l) ->
  List.length (filter (is_mov_named n) l) = 1%nat /\
  forall g tk st g' tk' st', In (TMovement n g tk st) l -> In (TMovement n g' tk' st') l ->
     TMovement n g tk st = TMovement n g' tk' st'.
Proof.
  induction l as [|a l IH]; intros ND n H; [destruct H|].
  assert (Z : forall m, ~ In m (mov_names l) -> filter (is_mov_named m) l = []).
  { intros m N. apply filter_nil. intros y Hy. destruct y; try reflexivity. cbn. apply text_eqb_neq. intros ->.
    apply N. eapply mov_names_in; eauto. }
  destruct a as [| | |m g0 tk0 st0| |]; cbn [mov_names flat_map app] in ND, H; cbn [filter is_mov_named];
    try (destruct (IH ND n H) as [L U]; split; [exact L|];
         intros g1 tk1 st1 g2 tk2 st2 [D|I] [D'|I']; try discriminate; eauto).
  inversion ND as [|? ? Nm ND']; subst. fold (mov_names l) in *. destruct H as [<-|H].
  - rewrite text_eqb_refl. cbn [List.length]. rewrite (Z _ Nm). split; [reflexivity|].
    intros g tk st g' tk' st' [D|I] [D'|I'].
    + congruence.
    + exfalso. apply Nm. eapply mov_names_in; eauto.
    + exfalso. apply Nm. eapply mov_names_in; eauto.
    + exfalso. apply Nm. eapply mov_names_in; eauto.
  - assert (m <> n) by (intros ->; auto). rewrite text_eqb_neq by assumption.
    destruct (IH ND' n H) as [L U]. split; [exact L|].
    intros g tk st g' tk' st' [D|I] [D'|I']; try (inversion D; congruence); try (inversion D'; congruence); eauto.
Qed.

(* (3) the generated movement names are pairwise different *)
Theorem hoisted_mov_names_distinct G h :
  mov_table G h -> printable (List.length (hmovs h)) -> NoDup (mov_names (hmovs h)).
Proof.
  intros T P. rewrite (mt_defs _ _ T) in *. apply mov_defs_nodup. cbn [app]. now rewrite mov_defs_length in P.
Qed.

Lemma mtable_entry_def G h k l : mov_table G h -> In (k, l) (hmset h) ->
  exists tk steps, In (TMovement l false tk steps) (hmovs h) /\ mov_key steps = k.
Proof.
  intros T I. rewrite (mt_set _ _ T), <- in_rev in I. apply in_map_iff in I. destruct I as (x & E & I).
  rewrite (mt_defs _ _ T) in *. clear T. revert I. generalize (@nil impmov).
  induction G as [|im G IH]; intros pre I; [destruct I|]. cbn [mov_defs] in *. destruct I as [<-|I].
  - cbn in E. inversion E; subst. do 2 eexists. split; [left; reflexivity|reflexivity].
  - destruct (IH _ I) as (tk & st & I' & K). exists tk, st. split; [right; exact I'|exact K].
Qed.

(* (3) different step lists never share a label: the map label -> key is a function *)
Theorem mov_label_determines_content G h k k' l :
  mov_table G h -> printable (List.length (hmovs h)) -> In (k, l) (hmset h) -> In (k', l) (hmset h) -> k = k'.
Proof.
  intros T P I I'. pose proof (hoisted_mov_names_distinct _ _ T P) as ND.
  destruct (mtable_entry_def _ _ _ _ T I) as (tk & st & J & <-).
  destruct (mtable_entry_def _ _ _ _ T I') as (tk' & st' & J' & <-).
  destruct (mov_once _ ND l (mov_names_in _ _ _ _ _ J)) as [_ U]. specialize (U _ _ _ _ _ _ J J'). inversion U; subst. reflexivity.
Qed.

(* (4) a label held by the movement table is defined exactly once in hmovs, as a local movement whose step list has
   exactly the key it stands for *)
Theorem hoisted_mov_defined_once G h k l :
  mov_table G h -> printable (List.length (hmovs h)) -> assoc (hmset h) k = Some l ->
  List.length (filter (is_mov_named l) (hmovs h)) = 1%nat /\
  exists tk steps, In (TMovement l false tk steps) (hmovs h) /\ mov_key steps = k /\
     forall g' tk' steps', In (TMovement l g' tk' steps') (hmovs h) -> g' = false /\ tk' = tk /\ steps' = steps.
Proof.
  intros T P H. apply assoc_some_in in H. destruct (mtable_entry_def _ _ _ _ T H) as (tk & st & J & K).
  pose proof (hoisted_mov_names_distinct _ _ T P) as ND.
  destruct (mov_once _ ND l (mov_names_in _ _ _ _ _ J)) as [L U]. split; [exact L|].
  exists tk, st. split; [exact J|]. split; [exact K|]. intros g' tk' st' J'. specialize (U _ _ _ _ _ _ J J'). inversion U; auto.
Qed.

(* the key determines the step literals, as long as no literal contains ':' (movement steps are identifiers) *)
Lemma split_first_unique {A} (x : A) : forall a b r1 r2,
  ~ In x a -> ~ In x b -> a ++ x :: r1 = b ++ x :: r2 -> a = b /\ r1 = r2.
Proof.
  induction a as [|a0 a IH]; intros [|b0 b] r1 r2 N1 N2 E; cbn in E.
  - inversion E. auto.
  - inversion E; subst. exfalso. apply N2. now left.
  - inversion E; subst. exfalso. apply N1. now left.
  - inversion E; subst. destruct (IH b r1 r2) as [-> ->]; auto; intros I; [apply N1|apply N2]; now right.
Qed.
Definition no_colon (tk : token) : Prop := ~ In 58%N (tlit tk).
Theorem mov_key_injective : forall a b, Forall no_colon a -> Forall no_colon b ->
  mov_key a = mov_key b -> map tlit a = map tlit b.
Proof.
  unfold mov_key. induction a as [|x a IH]; intros [|y b] Fa Fb E; cbn [flat_map map] in *.
  - reflexivity.
  - change (t ":") with [58%N] in E. rewrite <- app_assoc in E. destruct (tlit y); discriminate E.
  - change (t ":") with [58%N] in E. rewrite <- app_assoc in E. destruct (tlit x); discriminate E.
  - change (t ":") with [58%N] in E. rewrite <- !app_assoc in E. cbn [app] in E.
    inversion Fa; inversion Fb; subst. apply split_first_unique in E; [|assumption|assumption].
    destruct E as [-> E]. f_equal. apply IH; assumption.
Qed.

Lemma new_movs_app : forall a seen b,
  new_movs seen (a ++ b) = new_movs seen a ++ new_movs (seen ++ map mkey (new_movs seen a)) b.
Proof.
  induction a as [|im a IH]; intros seen b; cbn [new_movs app map]; [now rewrite app_nil_r|].
  destruct (in_dec text_dec (mkey im) seen); [apply IH|].
  cbn [app map]. rewrite IH, <- app_assoc. reflexivity.
Qed.
Lemma new_movs_first : forall ims seen pre im post, ims = pre ++ im :: post ->
  ~ In (mkey im) seen -> ~ In (mkey im) (map mkey pre) -> In im (new_movs seen ims).
Proof.
  induction ims as [|a ims IH]; intros seen [|p pre] im post E N1 N2; cbn in E; inversion E; subst; cbn [new_movs].
  - destruct (in_dec text_dec (mkey im) seen); [contradiction|now left].
  - assert (D : mkey p <> mkey im) by (intros D; apply N2; now left).
    assert (N2' : ~ In (mkey im) (map mkey pre)) by (intros I; apply N2; now right).
    destruct (in_dec text_dec (mkey p) seen).
    + eapply IH; eauto.
    + right. eapply IH; eauto. intros I. apply in_app_or in I. destruct I as [I|[I|[]]]; [auto|congruence].
Qed.
Lemma new_movs_inv : forall ims seen im, In im (new_movs seen ims) ->
  exists pre post, ims = pre ++ im :: post /\ ~ In (mkey im) seen /\ ~ In (mkey im) (map mkey pre).
Proof.
  induction ims as [|a ims IH]; intros seen im H; [destruct H|]. cbn [new_movs] in H.
  destruct (in_dec text_dec (mkey a) seen) as [Y|Y].
  - destruct (IH _ _ H) as (pre & post & -> & N1 & N2). exists (a :: pre), post. split; [reflexivity|]. split; [exact N1|].
    cbn [map]. intros [E|I]; [|auto]. apply N1. now rewrite <- E.
  - destruct H as [<-|H].
    + exists [], ims. split; [reflexivity|]. split; [exact Y|intros []].
    + destruct (IH _ _ H) as (pre & post & -> & N1 & N2). exists (a :: pre), post. split; [reflexivity|].
      split; [intros I; apply N1, in_or_app; now left|]. cbn [map]. intros [E|I]; [|auto].
      apply N1, in_or_app. right. left. exact E.
Qed.

(* ================================================================================================================ *)
(* 4. add_implicit, a whole file, parse_program                                                                      *)
(* ================================================================================================================ *)
(* F / G: the first appearances of inline texts / moves() arguments of all scripts hoisted so far, in order *)
Definition hoist_table (F : list imptext) (G : list impmov) (h : hst) : Prop := text_table F h /\ mov_table G h.

Lemma hoist_table_0 : hoist_table [] [] hst0.
Proof. split; constructor; cbn; try reflexivity; constructor. Qed.

Lemma add_texts_frame : forall its h ps h' ps', add_texts its h ps = (h', ps') ->
  hmovs h' = hmovs h /\ hmset h' = hmset h /\ hmcnt h' = hmcnt h.
Proof.
  induction its as [|it r IH]; intros h ps h' ps' H; cbn [add_texts] in H; [inversion H; auto|].
  destruct (find_text (hset h) (tlit (itTok it)) (itType it)); [eauto|]. apply IH in H. cbn in H. exact H.
Qed.
Lemma add_movs_frame : forall ims h ps h' ps', add_movs ims h ps = (h', ps') ->
  htexts h' = htexts h /\ hset h' = hset h /\ hcnt h' = hcnt h.
Proof.
  induction ims as [|im r IH]; intros h ps h' ps' H; cbn [add_movs] in H; [inversion H; auto|].
  destruct (assoc (hmset h) (mov_key (imToks im))); [eauto|]. apply IH in H. cbn in H. exact H.
Qed.
Lemma text_table_ext F h h' : htexts h' = htexts h -> hset h' = hset h -> hcnt h' = hcnt h -> text_table F h -> text_table F h'.
Proof. intros E1 E2 E3 [A B C D]. constructor; rewrite ?E1, ?E2, ?E3; assumption. Qed.
Lemma mov_table_ext G h h' : hmovs h' = hmovs h -> hmset h' = hmset h -> hmcnt h' = hmcnt h -> mov_table G h -> mov_table G h'.
Proof. intros E1 E2 E3 [A B C D]. constructor; rewrite ?E1, ?E2, ?E3; assumption. Qed.

(* MAIN: one script (or one mapscripts statement). The tables are extended by the first appearances, numbered per
   owning script; every occurrence is patched with the label the resulting tables hold for its content. *)
Theorem add_implicit_table : forall imp F G h h' ps,
  hoist_table F G h -> add_implicit imp h = (h', ps) ->
  hoist_table (F ++ new_texts (map tkey F) (idT imp)) (G ++ new_movs (map mkey G) (idM imp)) h' /\
  exists tl ml,
    ps = map (fun p => text_patch (fst p) (snd p)) (combine (idT imp) tl) ++
         map (fun p => mov_patch (fst p) (snd p)) (combine (idM imp) ml) /\
    List.length tl = List.length (idT imp) /\ List.length ml = List.length (idM imp) /\
    Forall2 (fun it l => find_text (hset h') (tlit (itTok it)) (itType it) = Some l) (idT imp) tl /\
    Forall2 (fun im l => assoc (hmset h') (mov_key (imToks im)) = Some l) (idM imp) ml.
Proof.
  intros imp F G h h' ps [T M] H. unfold add_implicit in H.
  destruct (add_texts (idT imp) h []) as [h1 ps1] eqn:E1.
  destruct (add_texts_table _ _ _ _ _ _ T E1) as (T1 & tl & Hps1 & Ltl & Atl).
  destruct (add_texts_frame _ _ _ _ _ E1) as (Fa & Fb & Fc).
  assert (M1 : mov_table G h1) by (eapply mov_table_ext; eauto).
  destruct (add_movs_table _ _ _ _ _ _ M1 H) as (M' & ml & Hps & Lml & Aml).
  destruct (add_movs_frame _ _ _ _ _ H) as (Ga & Gb & Gc).
  split; [split; [eapply text_table_ext; eauto|exact M']|].
  exists tl, ml. cbn [app] in Hps1. subst ps1. split; [exact Hps|]. split; [exact Ltl|]. split; [exact Lml|].
  split; [rewrite Gb; exact Atl|exact Aml].
Qed.

Lemma Forall2_impl {A B} (P Q : A -> B -> Prop) l1 l2 : (forall a b, P a b -> Q a b) -> Forall2 P l1 l2 -> Forall2 Q l1 l2.
Proof. intros I H. induction H; constructor; auto. Qed.

(* (1) THE NUMBERING FORMULA, per occurrence: the label patched into the command is the label of the first
   appearance fo of the same content: <script of fo>_Text_<n> / <script of fo>_Movement_<n>, where n is the number of
   earlier first appearances (over the whole file so far) owned by the script of fo *)
Theorem add_implicit_labels : forall imp F G h h' ps,
  hoist_table F G h -> add_implicit imp h = (h', ps) ->
  let F' := F ++ new_texts (map tkey F) (idT imp) in
  let G' := G ++ new_movs (map mkey G) (idM imp) in
  exists tl ml,
    ps = map (fun p => text_patch (fst p) (snd p)) (combine (idT imp) tl) ++
         map (fun p => mov_patch (fst p) (snd p)) (combine (idM imp) ml) /\
    Forall2 (fun it l => exists A fo B, F' = A ++ fo :: B /\ tkey fo = tkey it /\
                         l = text_label (itScript fo) (owned (itScript fo) (map itScript A))) (idT imp) tl /\
    Forall2 (fun im l => exists A fo B, G' = A ++ fo :: B /\ mkey fo = mkey im /\
                         l = mov_label (imScript fo) (owned (imScript fo) (map imScript A))) (idM imp) ml.
Proof.
  intros imp F G h h' ps HT H F' G'. destruct (add_implicit_table _ _ _ _ _ _ HT H) as ([T' M'] & tl & ml & Hps & _ & _ & Atl & Aml).
  exists tl, ml. split; [exact Hps|]. split.
  - eapply Forall2_impl; [|exact Atl]. intros it l Q. apply (text_table_lookup _ _ T') in Q. exact Q.
  - eapply Forall2_impl; [|exact Aml]. intros im l Q. apply (mov_table_lookup _ _ M') in Q. exact Q.
Qed.

(* (1) as equations on add_implicit, for one inline text and for one moves() argument *)
Theorem add_implicit_new_text F G h it :
  hoist_table F G h -> ~ In (tkey it) (map tkey F) ->
  let lbl := text_label (itScript it) (owned (itScript it) (map itScript F)) in
  add_implicit {| idT := [it]; idM := [] |} h = (define_text h it, [(itCid it, itArg it, lbl)]) /\
  htexts (define_text h it) = htexts h ++ [text_def lbl it] /\
  hoist_table (F ++ [it]) G (define_text h it).
Proof.
  intros [T M] N lbl. pose proof (proj2 (table_find_none _ _ (tlit (itTok it)) (itType it) T) N) as Q.
  unfold add_implicit. cbn [idT idM]. rewrite (add_texts_fresh _ _ _ _ Q). cbn [add_texts add_movs app].
  unfold lbl. rewrite <- (tt_cnt _ _ T). split; [reflexivity|]. split; [reflexivity|].
  split; [apply define_text_table; assumption|]. eapply mov_table_ext; [| | |exact M]; reflexivity.
Qed.
Theorem add_implicit_known_text F G h it :
  hoist_table F G h -> In (tkey it) (map tkey F) ->
  exists A fo B, F = A ++ fo :: B /\ tkey fo = tkey it /\
    add_implicit {| idT := [it]; idM := [] |} h =
    (h, [(itCid it, itArg it, text_label (itScript fo) (owned (itScript fo) (map itScript A)))]).
Proof.
  intros [T M] I. destruct (find_text (hset h) (tlit (itTok it)) (itType it)) as [l|] eqn:Q.
  - destruct (proj1 (text_table_lookup _ _ T _ _ _) Q) as (A & fo & B & E & K & ->). exists A, fo, B.
    split; [exact E|]. split; [exact K|]. unfold add_implicit. cbn [idT idM]. rewrite (add_texts_known _ _ _ _ _ Q). reflexivity.
  - apply (table_find_none _ _ _ _ T) in Q. contradiction.
Qed.
Theorem add_implicit_new_mov F G h im :
  hoist_table F G h -> ~ In (mkey im) (map mkey G) ->
  let lbl := mov_label (imScript im) (owned (imScript im) (map imScript G)) in
  add_implicit {| idT := []; idM := [im] |} h = (define_mov h im, [(imCid im, imArg im, lbl)]) /\
  hmovs (define_mov h im) = hmovs h ++ [TMovement lbl false (imCmdTok im) (imToks im)] /\
  hoist_table F (G ++ [im]) (define_mov h im).
Proof.
  intros [T M] N lbl. pose proof (proj2 (mtable_find_none _ _ (mkey im) M) N) as Q. unfold mkey in Q.
  unfold add_implicit. cbn [idT idM add_texts]. rewrite (add_movs_fresh _ _ _ _ Q). cbn [add_movs app].
  unfold lbl. rewrite <- (mt_cnt _ _ M). split; [reflexivity|]. split; [reflexivity|].
  split; [|apply define_mov_table; assumption]. eapply text_table_ext; [| | |exact T]; reflexivity.
Qed.
Theorem add_implicit_known_mov F G h im :
  hoist_table F G h -> In (mkey im) (map mkey G) ->
  exists A fo B, G = A ++ fo :: B /\ mkey fo = mkey im /\
    add_implicit {| idT := []; idM := [im] |} h =
    (h, [(imCid im, imArg im, mov_label (imScript fo) (owned (imScript fo) (map imScript A)))]).
Proof.
  intros [T M] I. destruct (assoc (hmset h) (mov_key (imToks im))) as [l|] eqn:Q.
  - destruct (proj1 (mov_table_lookup _ _ M _ _) Q) as (A & fo & B & E & K & ->). exists A, fo, B.
    split; [exact E|]. split; [exact K|]. unfold add_implicit. cbn [idT idM add_texts]. rewrite (add_movs_known _ _ _ _ _ Q). reflexivity.
  - apply (mtable_find_none _ _ _ M) in Q. contradiction.
Qed.

(* --- a whole file: the hoisting state is threaded through all scripts and mapscripts statements --- *)
Fixpoint hoist_all (imps : list impdata) (h : hst) : hst * list (list patch) :=
  match imps with
  | [] => (h, [])
  | imp :: r => let '(h1, ps) := add_implicit imp h in let '(h2, pss) := hoist_all r h1 in (h2, ps :: pss)
  end.

Theorem hoist_all_table : forall imps F G h h' pss,
  hoist_table F G h -> hoist_all imps h = (h', pss) ->
  hoist_table (F ++ new_texts (map tkey F) (flat_map idT imps)) (G ++ new_movs (map mkey G) (flat_map idM imps)) h'.
Proof.
  induction imps as [|imp r IH]; intros F G h h' pss HT H; cbn [hoist_all flat_map] in *.
  - inversion H; subst. cbn [new_texts new_movs]. now rewrite !app_nil_r.
  - destruct (add_implicit imp h) as [h1 ps] eqn:A. destruct (hoist_all r h1) as [h2 pss2] eqn:R. inversion H; subst.
    destruct (add_implicit_table _ _ _ _ _ _ HT A) as (HT1 & _).
    pose proof (IH _ _ _ _ _ HT1 R) as HT2. rewrite !map_app, <- !app_assoc in HT2.
    rewrite new_texts_app, new_movs_app. exact HT2.
Qed.

(* (2) sharing across the whole file: EVERY patch of EVERY script carries the label that the FINAL tables hold for
   the content of its occurrence. Since the final table is a function of (content, string type) - respectively of the
   step list key - identical content gets the same label in all scripts, and this label is the one of the first
   appearance (text_table_lookup / mov_table_lookup applied to the final tables). *)
Theorem hoist_all_labels : forall imps F G h h' pss,
  hoist_table F G h -> hoist_all imps h = (h', pss) ->
  List.length pss = List.length imps /\
  forall i imp ps, nth_error imps i = Some imp -> nth_error pss i = Some ps ->
  exists tl ml,
    ps = map (fun p => text_patch (fst p) (snd p)) (combine (idT imp) tl) ++
         map (fun p => mov_patch (fst p) (snd p)) (combine (idM imp) ml) /\
    List.length tl = List.length (idT imp) /\ List.length ml = List.length (idM imp) /\
    Forall2 (fun it l => find_text (hset h') (tlit (itTok it)) (itType it) = Some l) (idT imp) tl /\
    Forall2 (fun im l => assoc (hmset h') (mov_key (imToks im)) = Some l) (idM imp) ml.
Proof.
  induction imps as [|imp r IH]; intros F G h h' pss HT H; cbn [hoist_all] in H.
  - inversion H; subst. split; [reflexivity|]. intros [|i] ? ? X; discriminate X.
  - destruct (add_implicit imp h) as [h1 ps] eqn:A. destruct (hoist_all r h1) as [h2 pss2] eqn:R. inversion H; subst.
    destruct (add_implicit_table _ _ _ _ _ _ HT A) as (HT1 & tl & ml & Hps & Ltl & Lml & Atl & Aml).
    destruct (IH _ _ _ _ _ HT1 R) as (Len & Rest). split; [cbn; now rewrite Len|].
    intros [|i] imp' ps' X Y; cbn [nth_error] in X, Y.
    + inversion X; inversion Y; subst. exists tl, ml. split; [reflexivity|]. split; [exact Ltl|]. split; [exact Lml|].
      destruct HT1 as [T1 M1]. destruct (hoist_all_table _ _ _ _ _ _ (conj T1 M1) R) as [T2 M2]. split.
      * eapply Forall2_impl; [|exact Atl]. intros it l Q. exact (table_mono _ _ _ _ _ _ _ T1 T2 Q).
      * eapply Forall2_impl; [|exact Aml]. intros im l Q. exact (mtable_mono _ _ _ _ _ _ M1 M2 Q).
    + eapply Rest; eauto.
Qed.

(* --- the parser: parse_tops threads the hoisting state through the scripts and mapscripts of the file --- *)
Section PROGRAM.
Variable autovars : list (text * autovar).
Variable switches : list (text * text).
Variable env_errors : bool.
Variable parse_format : toks -> Parser.res (token * text * text * toks).
Notation parse_tops := (Parser.parse_tops autovars switches env_errors parse_format).
Notation parse_program := (Parser.parse_program autovars switches env_errors parse_format).
Notation parse_script := (Parser.parse_script autovars switches env_errors parse_format).
Notation parse_mapscripts := (Parser.parse_mapscripts autovars switches env_errors parse_format).

(* the implicit data comes from a script or a mapscripts statement parsed by the model's parser *)
Definition parsed_imp (imp : impdata) : Prop :=
  exists c f ts,
    (exists name g b ts1, parse_script c f ts = Parser.Ok (name, g, b, imp, ts1)) \/
    (exists tp ts1, parse_mapscripts c f ts = Parser.Ok (tp, imp, ts1)).

Definition pstate0 : pstate := {| pconsts := []; ph := hst0; ptops := []; ptexts := [] |}.

Theorem parse_tops_hoists : forall f st ts st',
  parse_tops f st ts = Parser.Ok st' ->
  exists imps pss, hoist_all imps (ph st) = (ph st', pss) /\ Forall parsed_imp imps.
Proof.
  induction f as [|f IH]; intros st ts st' H; [discriminate H|]. cbn [Parser.parse_tops] in H.
  destruct (curis EOF ts).
  { inversion H; subst. exists [], []. split; [reflexivity|constructor]. }
  destruct (ttype (cur ts)); try discriminate H.
  - (* SCRIPT *)
    destruct (parse_script (pconsts st) f ts) as [[[[[name g] b] imp] ts1]| | |] eqn:E; try discriminate H.
    destruct (add_implicit imp (ph st)) as [h1 ps] eqn:A.
    destruct (IH _ _ _ H) as (imps & pss & R & P). cbn [ph] in R.
    exists (imp :: imps), (ps :: pss). split; [cbn [hoist_all]; rewrite A, R; reflexivity|].
    constructor; [|exact P]. exists (pconsts st), f, ts. left. eauto.
  - (* RAW *)
    match type of H with (match ?m with _ => _ end) = _ => destruct m as [[tp ts1]| | |]; try discriminate H end. destruct (IH _ _ _ H) as (imps & pss & R & P). eauto.
  - (* TEXT *)
    match type of H with (match ?m with _ => _ end) = _ => destruct m as [[tp ts1]| | |]; try discriminate H end. destruct (IH _ _ _ H) as (imps & pss & R & P). eauto.
  - (* MOVEMENT *)
    match type of H with (match ?m with _ => _ end) = _ => destruct m as [[tp ts1]| | |]; try discriminate H end. destruct (IH _ _ _ H) as (imps & pss & R & P). eauto.
  - (* MART *)
    match type of H with (match ?m with _ => _ end) = _ => destruct m as [[tp ts1]| | |]; try discriminate H end. destruct (IH _ _ _ H) as (imps & pss & R & P). eauto.
  - (* MAPSCRIPTS *)
    destruct (parse_mapscripts (pconsts st) f ts) as [[[tp imp] ts1]| | |] eqn:E; try discriminate H.
    destruct (add_implicit imp (ph st)) as [h1 ps] eqn:A.
    destruct (IH _ _ _ H) as (imps & pss & R & P). cbn [ph] in R.
    exists (imp :: imps), (ps :: pss). split; [cbn [hoist_all]; rewrite A, R; reflexivity|].
    constructor; [|exact P]. exists (pconsts st), f, ts. right. eauto.
  - (* CONST *)
    match type of H with (match ?m with _ => _ end) = _ => destruct m as [[tp ts1]| | |]; try discriminate H end. destruct (IH _ _ _ H) as (imps & pss & R & P). eauto.
Qed.

(* the final checks of parse_program are exactly "all text names are different" / "all movement names are different" *)
Lemma existsb_text_in x seen : existsb (text_eqb x) seen = true <-> In x seen.
Proof.
  rewrite existsb_exists. split.
  - intros (y & I & E). apply text_eqb_true in E. now subst.
  - intros I. exists x. split; [exact I|apply text_eqb_refl].
Qed.
Lemma dup_text_none : forall l seen,
  dup_text seen l = None <-> NoDup (map xname l) /\ (forall x, In x l -> ~ In (xname x) seen).
Proof.
  induction l as [|x r IH]; intros seen; cbn [dup_text map].
  - split; [intros _; split; [constructor|intros ? []]|reflexivity].
  - destruct (existsb (text_eqb (xname x)) seen) eqn:E.
    + apply existsb_text_in in E. split; [discriminate|]. intros (_ & N). exfalso. apply (N x); [now left|exact E].
    + assert (NE : ~ In (xname x) seen) by (intros I; apply existsb_text_in in I; congruence).
      rewrite IH. split.
      * intros (ND & N). split.
        -- constructor; [|exact ND]. intros I. apply in_map_iff in I. destruct I as (y & Ey & Iy).
           apply (N y Iy). left. now rewrite Ey.
        -- intros y [<-|Iy]; [exact NE|]. intros I. apply (N y Iy). now right.
      * intros (ND & N). inversion ND as [|? ? Nx ND']; subst. split; [exact ND'|].
        intros y Iy [Ey|I]; [apply Nx; rewrite Ey; now apply in_map|]. apply (N y); [now right|exact I].
Qed.
Lemma dup_mov_none : forall l seen,
  dup_mov seen l = None <-> NoDup (mov_names l) /\ (forall n, In n (mov_names l) -> ~ In n (map fst seen)).
Proof.
  induction l as [|a r IH]; intros seen; cbn [dup_mov].
  - split; [intros _; split; [constructor|intros ? []]|reflexivity].
  - destruct a as [| | |m g0 tk0 st0| |]; cbn [mov_names flat_map app]; fold (mov_names r); try apply IH.
    destruct (assoc seen m) as [tk1|] eqn:E.
    + split; [discriminate|]. intros (_ & N). exfalso. apply (N m); [now left|].
      apply assoc_some_in in E. apply in_map_iff. exists (m, tk1). split; [reflexivity|exact E].
    + assert (NE : ~ In m (map fst seen)) by (intros I; apply assoc_in in I; congruence).
      rewrite IH. cbn [map fst]. split.
      * intros (ND & N). split.
        -- constructor; [|exact ND]. intros I. apply (N m I). now left.
        -- intros y [<-|Iy]; [exact NE|]. intros I. apply (N y Iy). now right.
      * intros (ND & N). inversion ND as [|? ? Nx ND']; subst. split; [exact ND'|].
        intros y Iy [Ey|I]; [apply Nx; now rewrite Ey|]. apply (N y); [now right|exact I].
Qed.

(* the outcome of parse_program once the top-level statements are parsed: success iff all text names (hoisted and
   user-defined together) are pairwise different and all movement names (user-defined and hoisted together) are
   pairwise different; otherwise the compile error "duplicate text label" / "duplicate movement label" *)
(* the name check is that of a real compilation (in lint mode only the author's statements are compared: Parser.checked_texts) *)
Hypothesis EE : env_errors = true.
Theorem parse_program_outcome ts st :
  parse_tops (5 * List.length ts + 4) pstate0 ts = Parser.Ok st ->
  let texts := htexts (ph st) ++ ptexts st in
  let tops := ptops st ++ hmovs (ph st) in
  (NoDup (map xname texts) /\ NoDup (mov_names tops) /\ parse_program ts = Parser.Ok {| tops := tops; texts := texts |}) \/
  (~ NoDup (map xname texts) /\ exists x, In x texts /\ parse_program ts = err_tok (xtok x) "duplicate text label") \/
  (NoDup (map xname texts) /\ ~ NoDup (mov_names tops) /\ exists tk, parse_program ts = err_tok tk "duplicate movement label").
Proof.
  intros H texts tops. unfold Parser.parse_program, checked_texts, checked_tops. fold pstate0. rewrite H. rewrite EE. fold texts. fold tops.
  destruct (dup_text [] texts) as [x|] eqn:DT.
  - right. left. split.
    + intros ND. assert (Q : dup_text [] texts = None) by (apply dup_text_none; split; [exact ND|intros ? _ []]). congruence.
    + exists x. split; [|reflexivity]. clear - DT. revert DT. generalize (@nil text). induction texts as [|y r IH]; intros seen DT; [discriminate|].
      cbn [dup_text] in DT. destruct (existsb (text_eqb (xname y)) seen); [inversion DT; now left|right; eauto].
  - apply dup_text_none in DT. destruct DT as (NDT & _). destruct (dup_mov [] tops) as [tk|] eqn:DM.
    + right. right. split; [exact NDT|]. split; [|exists tk; reflexivity].
      intros ND. assert (Q : dup_mov [] tops = None) by (apply dup_mov_none; split; [exact ND|intros ? _ []]). congruence.
    + left. apply dup_mov_none in DM. destruct DM as (NDM & _). auto.
Qed.

Lemma parse_program_ok ts p : parse_program ts = Parser.Ok p ->
  exists st, parse_tops (5 * List.length ts + 4) pstate0 ts = Parser.Ok st /\
    texts p = htexts (ph st) ++ ptexts st /\ tops p = ptops st ++ hmovs (ph st) /\
    NoDup (map xname (texts p)) /\ NoDup (mov_names (tops p)).
Proof.
  intros H. destruct (parse_tops (5 * List.length ts + 4) pstate0 ts) as [st| | |] eqn:E;
    try (unfold Parser.parse_program in H; fold pstate0 in H; rewrite E in H; discriminate H).
  exists st. split; [reflexivity|].
  destruct (parse_program_outcome _ _ E) as [(A & B & C)|[(_ & x & _ & C)|(_ & _ & tk & C)]]; rewrite C in H; try discriminate H.
  inversion H; subst. cbn [texts tops]. auto.
Qed.

(* MAIN (whole program). If the program compiles, there are the inline data imps of its scripts and mapscripts
   statements (in source order) such that, with F / G the first appearances of inline texts / moves() over the whole
   file: the texts of the program are the numbered definitions of F followed by the user-defined texts; the hoisted
   movements are appended to the top-level statements; ALL text names are pairwise different and ALL movement names
   are pairwise different (no bound on the counters is needed here: the final check of parse_program enforces it). *)
Theorem program_hoisting ts p :
  parse_program ts = Parser.Ok p ->
  exists st imps pss,
    parse_tops (5 * List.length ts + 4) pstate0 ts = Parser.Ok st /\
    hoist_all imps hst0 = (ph st, pss) /\ Forall parsed_imp imps /\
    hoist_table (new_texts [] (flat_map idT imps)) (new_movs [] (flat_map idM imps)) (ph st) /\
    texts p = text_defs [] (new_texts [] (flat_map idT imps)) ++ ptexts st /\
    tops p = ptops st ++ mov_defs [] (new_movs [] (flat_map idM imps)) /\
    NoDup (map xname (texts p)) /\ NoDup (mov_names (tops p)).
Proof.
  intros H. destruct (parse_program_ok _ _ H) as (st & E & Tx & Tp & ND1 & ND2).
  destruct (parse_tops_hoists _ _ _ _ E) as (imps & pss & R & P). cbn [ph pstate0] in R.
  pose proof (hoist_all_table _ _ _ _ _ _ hoist_table_0 R) as HT. cbn [map app] in HT.
  exists st, imps, pss. split; [exact E|]. split; [exact R|]. split; [exact P|]. split; [exact HT|].
  destruct HT as [T M]. rewrite <- (tt_defs _ _ T), <- (mt_defs _ _ M). auto.
Qed.

(* (4) at program level: a label of the final text table is defined exactly once among ALL texts of the program
   (hoisted and user-defined), as a local text with exactly that content and string type *)
Theorem program_text_label_defined_once ts p st v ty l :
  parse_program ts = Parser.Ok p -> parse_tops (5 * List.length ts + 4) pstate0 ts = Parser.Ok st ->
  find_text (hset (ph st)) v ty = Some l ->
  List.length (filter (fun y => text_eqb (xname y) l) (texts p)) = 1%nat /\
  exists x, In x (texts p) /\ xname x = l /\ xvalue x = v /\ xtype x = ty /\ xglob x = false /\
            forall y, In y (texts p) -> xname y = l -> y = x.
Proof.
  intros H E Q. destruct (program_hoisting _ _ H) as (st' & imps & pss & E' & _ & _ & [T M] & _ & _ & ND & _).
  rewrite E in E'. inversion E'; subst st'. destruct (parse_program_ok _ _ H) as (st' & E'' & Tx & _).
  rewrite E in E''. inversion E''; subst st'.
  apply find_text_some_key in Q. destruct (table_entry_def _ _ _ _ _ T Q) as (x & I & <- & <- & <- & Gl).
  assert (Ix : In x (texts p)) by (rewrite Tx; apply in_or_app; now left).
  split; [apply filter_once; assumption|]. exists x. repeat (split; [first [assumption|reflexivity]|]).
  intros y Iy Ey. eapply NoDup_map_inj; eauto.
Qed.
(* ... and a label of the final movement table is defined exactly once among ALL movement statements of the program *)
Theorem program_mov_label_defined_once ts p st k l :
  parse_program ts = Parser.Ok p -> parse_tops (5 * List.length ts + 4) pstate0 ts = Parser.Ok st ->
  assoc (hmset (ph st)) k = Some l ->
  List.length (filter (is_mov_named l) (tops p)) = 1%nat /\
  exists tk steps, In (TMovement l false tk steps) (tops p) /\ mov_key steps = k /\
     forall g' tk' steps', In (TMovement l g' tk' steps') (tops p) -> g' = false /\ tk' = tk /\ steps' = steps.
Proof.
  intros H E Q. destruct (program_hoisting _ _ H) as (st' & imps & pss & E' & _ & _ & [T M] & _ & _ & _ & ND).
  rewrite E in E'. inversion E'; subst st'. destruct (parse_program_ok _ _ H) as (st' & E'' & _ & Tp & _).
  rewrite E in E''. inversion E''; subst st'.
  apply assoc_some_in in Q. destruct (mtable_entry_def _ _ _ _ M Q) as (tk & steps & J & K).
  assert (J' : In (TMovement l false tk steps) (tops p)) by (rewrite Tp; apply in_or_app; now right).
  destruct (mov_once _ ND l (mov_names_in _ _ _ _ _ J')) as [L U]. split; [exact L|].
  exists tk, steps. split; [exact J'|]. split; [exact K|]. intros g' tk' st' J2. specialize (U _ _ _ _ _ _ J' J2). inversion U; auto.
Qed.

(* (3) at program level, without any bound: in a program that compiles, a label stands for one content only *)
Theorem program_text_label_determines_content ts p st v ty v' ty' l :
  parse_program ts = Parser.Ok p -> parse_tops (5 * List.length ts + 4) pstate0 ts = Parser.Ok st ->
  In (v, ty, l) (hset (ph st)) -> In (v', ty', l) (hset (ph st)) -> v = v' /\ ty = ty'.
Proof.
  intros H E I I'. destruct (program_hoisting _ _ H) as (st' & imps & pss & E' & _ & _ & [T M] & _ & _ & ND & _).
  rewrite E in E'. inversion E'; subst st'. destruct (parse_program_ok _ _ H) as (st' & E'' & Tx & _).
  rewrite E in E''. inversion E''; subst st'. rewrite Tx, map_app in ND. apply NoDup_app_iff in ND. destruct ND as (ND & _).
  rewrite (tt_set _ _ T), <- in_rev in I, I'. apply in_map_iff in I, I'.
  destruct I as (x & Ex & I), I' as (x' & Ex' & I'). unfold text_entry in Ex, Ex'. inversion Ex; inversion Ex'; subst.
  assert (x = x') by (eapply NoDup_map_inj; eauto). subst. auto.
Qed.
Theorem program_mov_label_determines_content ts p st k k' l :
  parse_program ts = Parser.Ok p -> parse_tops (5 * List.length ts + 4) pstate0 ts = Parser.Ok st ->
  In (k, l) (hmset (ph st)) -> In (k', l) (hmset (ph st)) -> k = k'.
Proof.
  intros H E I I'. destruct (program_hoisting _ _ H) as (st' & imps & pss & E' & _ & _ & [T M] & _ & _ & _ & ND).
  rewrite E in E'. inversion E'; subst st'. destruct (parse_program_ok _ _ H) as (st' & E'' & _ & Tp & _).
  rewrite E in E''. inversion E''; subst st'. rewrite Tp, mov_names_app in ND. apply NoDup_app_iff in ND. destruct ND as (_ & ND & _).
  destruct (mtable_entry_def _ _ _ _ M I) as (tk & st1 & J & <-).
  destruct (mtable_entry_def _ _ _ _ M I') as (tk' & st2 & J' & <-).
  destruct (mov_once _ ND l (mov_names_in _ _ _ _ _ J)) as [_ U]. specialize (U _ _ _ _ _ _ J J'). inversion U; subst. reflexivity.
Qed.

(* a clash of a generated name with a user-defined text / movement name (or between two generated names) is a
   compile error, never a silent overwrite *)
Theorem text_name_clash_is_error ts st x y :
  parse_tops (5 * List.length ts + 4) pstate0 ts = Parser.Ok st ->
  In x (htexts (ph st)) -> In y (ptexts st) -> xname x = xname y ->
  exists z, parse_program ts = err_tok (xtok z) "duplicate text label".
Proof.
  intros E Ix Iy C. destruct (parse_program_outcome _ _ E) as [(ND & _)|[(_ & z & _ & R)|(ND & _)]]; [| eauto |].
  all: exfalso; rewrite map_app in ND; apply NoDup_app_iff in ND; destruct ND as (_ & _ & D);
    apply (D (xname x)); [now apply in_map|rewrite C; now apply in_map].
Qed.
Theorem mov_name_clash_is_error ts st n g tk steps g' tk' steps' :
  parse_tops (5 * List.length ts + 4) pstate0 ts = Parser.Ok st ->
  In (TMovement n g tk steps) (ptops st) -> In (TMovement n g' tk' steps') (hmovs (ph st)) ->
  exists e, parse_program ts = Parser.Err e.
Proof.
  intros E Ix Iy. destruct (parse_program_outcome _ _ E) as [(_ & ND & _)|[(_ & z & _ & R)|(_ & _ & tk0 & R)]].
  - exfalso. rewrite mov_names_app in ND. apply NoDup_app_iff in ND. destruct ND as (_ & _ & D).
    apply (D n); eapply mov_names_in; eauto.
  - rewrite R. unfold err_tok. eauto.
  - rewrite R. unfold err_tok. eauto.
Qed.
End PROGRAM.

(* ================================================================================================================ *)
(* 5. examples and counterexamples                                                                                   *)
(* ================================================================================================================ *)
Definition lex0 (s : string) : toks := lex (fun _ => false) (fun _ => false) (fun _ => false) (t s).
Definition pp0 (s : string) : Parser.res program := Parser.parse_program [] [] true (fun _ => Parser.Panic) (lex0 s).
Definition pt0 (s : string) : Parser.res pstate :=
  Parser.parse_tops [] [] true (fun _ => Parser.Panic) (5 * List.length (lex0 s) + 4) pstate0 (lex0 s).

(* two scripts and an inline map script, repeated and distinct contents, two string types, a control construct, a
   user-defined text whose name looks like a generated one but does not clash *)
Definition src1 : string :=
  "script A { msgbox(""Hi"") applymovement(1, moves(walk_up walk_down)) msgbox(""Hi"") msgbox(ascii""Hi"") }
   text A_Text_7 { ""user"" }
   script B { if (flag(1)) { msgbox(""Yo"") msgbox(""Hi"") } applymovement(2, moves(walk_up walk_down)) applymovement(2, moves(walk_left * 2)) }
   mapscripts M { MAP_SCRIPT_ON_LOAD { msgbox(""Yo"") msgbox(""new"") } }".

Example ex_program_names :
  match pp0 src1 with
  | Parser.Ok p =>
      map (fun x => (xname x, xvalue x, xtype x)) (texts p) =
        [(t "A_Text_0", t "Hi$", []); (t "A_Text_1", [72; 105; 92; 48]%N, t "ascii"); (t "B_Text_0", t "Yo$", []);
         (t "M_MAP_SCRIPT_ON_LOAD_Text_0", t "new$", []); (t "A_Text_7", t "user$", [])] /\
      mov_names (tops p) = [t "A_Movement_0"; t "B_Movement_0"]
  | _ => False
  end.
Proof. vm_compute. split; reflexivity. Qed.

(* the hypotheses of the program-level theorems are satisfiable on this input, and the tables hold what is expected:
   "Hi" of script B resolves to the label owned by script A, "Yo" of the map script to the label owned by script B *)
Example ex_program_tables :
  exists p st, pp0 src1 = Parser.Ok p /\ pt0 src1 = Parser.Ok st /\
    find_text (hset (ph st)) (t "Hi$") [] = Some (t "A_Text_0") /\
    find_text (hset (ph st)) (t "Yo$") [] = Some (t "B_Text_0") /\
    assoc (hmset (ph st)) (t "walk_up:walk_down:") = Some (t "A_Movement_0") /\
    assoc (hmset (ph st)) (t "walk_left:walk_left:") = Some (t "B_Movement_0") /\
    printable (List.length (htexts (ph st))) /\ printable (List.length (hmovs (ph st))).
Proof.
  destruct (pp0 src1) as [p| | |] eqn:P; try (vm_compute in P; discriminate P).
  destruct (pt0 src1) as [st| | |] eqn:S; try (vm_compute in S; discriminate S).
  exists p, st. split; [reflexivity|]. split; [reflexivity|].
  vm_compute in S. inversion S; subst st. vm_compute. repeat split; reflexivity.
Qed.

(* hoist_table is satisfiable by a non-trivial state: the state after the first script of a file *)
Example ex_hoist_table :
  let it1 := {| itCid := 5; itArg := 0; itTok := set_lit eof0 (t "Hi$"); itType := []; itScript := t "A" |} in
  let it2 := {| itCid := 6; itArg := 0; itTok := set_lit eof0 (t "Yo$"); itType := []; itScript := t "A" |} in
  let im1 := {| imCid := 7; imArg := 1; imToks := [set_lit eof0 (t "walk_up")]; imScript := t "A"; imCmdTok := eof0 |} in
  let imp := {| idT := [it1; it2; it1]; idM := [im1; im1] |} in
  hoist_table [it1; it2] [im1] (fst (add_implicit imp hst0)) /\
  snd (add_implicit imp hst0) =
    [(5, 0, t "A_Text_0"); (6, 0, t "A_Text_1"); (5, 0, t "A_Text_0"); (7, 1, t "A_Movement_0"); (7, 1, t "A_Movement_0")]%nat.
Proof.
  intros it1 it2 im1 imp. split; [|vm_compute; reflexivity].
  destruct (add_implicit imp hst0) as [h ps] eqn:E.
  destruct (add_implicit_table _ _ _ _ _ _ hoist_table_0 E) as (HT & _). exact HT.
Qed.

(* a user-defined text with the name of a generated one: compile error (not a silent overwrite) *)
Example ex_text_clash :
  exists e, pp0 "script A { msgbox(""Hi"") } text A_Text_0 { ""user"" }" = Parser.Err e /\ emsg e = t "duplicate text label".
Proof. eexists. split; vm_compute; reflexivity. Qed.
Example ex_mov_clash :
  exists e, pp0 "script A { applymovement(1, moves(walk_up)) } movement A_Movement_0 { walk_down }" = Parser.Err e /\
            emsg e = t "duplicate movement label".
Proof. eexists. split; vm_compute; reflexivity. Qed.

(* the collision suggested in the task description does NOT exist: script A, text 10 is A_Text_10, script A_Text_1,
   text 0 is A_Text_1_Text_0 (text_label_injective holds for arbitrary script names) *)
Example ex_no_cross_script_collision : text_label (t "A") 10 <> text_label (t "A_Text_1") 0.
Proof. vm_compute. discriminate. Qed.

(* COUNTEREXAMPLE for the movement key (model and Go agree: getMovementsKey joins the literals with ':'): if a step
   literal could contain ':', two different step lists would share a label. mov_key_injective therefore assumes
   no_colon; movement steps are IDENT tokens, whose literals contain no ':'. *)
Example ex_mov_key_collision :
  let a := [set_lit eof0 (t "x:y")] in let b := [set_lit eof0 (t "x"); set_lit eof0 (t "y")] in
  mov_key a = mov_key b /\ map tlit a <> map tlit b.
Proof. split; vm_compute; [reflexivity|discriminate]. Qed.
