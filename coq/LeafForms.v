(* C02: the leaf forms of a condition, all of them, against the model's leaf parser [leaf_expr].

   BexpParse.v proves that the condition parser builds the tree of the usual reading over an abstract leaf parser (hypothesis
   [leaf_spec]) and discharges the hypothesis for four leaf forms.  This file covers every leaf form:

     leaf  ::= head cmp          |  '!' head
     head  ::= var ( operand )   |  flag ( operand )  |  defeated ( operand )
            |  NAME              |  NAME ( arguments )            -- NAME an AutoVar command (grammar of CmdArgs.v)
     cmp   ::= (nothing)                                          -- set / non-zero
            |  ==|!= TRUE|FALSE                                   -- flag / defeated heads only
            |  OP value-tokens   |  OP value ( balanced tokens )  -- var / AutoVar heads only; OP one of == != < <= > >=

   [form_parses]: for every well-formed leaf form, followed by '&&', '||' or ')', [leaf_expr] consumes exactly the tokens of
   the form and returns the leaf record [form_leaf] (kind, operand, operator, value, strict flag, preamble) and the inline
   data [form_imp] of the AutoVar command.  The record of an AutoVar leaf contains the command, whose identity [cid] is the
   number of tokens from its name to the end of the stream; so the record depends on the number [k] of tokens that follow the
   leaf, and BexpParse.leaf_spec (one record for all continuations) cannot hold for AutoVar leaves: [leaf_spec] is proved
   for the forms without AutoVar head ([pure_form_leaf_spec], incl. the value( ) forms: [leaf_varcmp_value]), and the
   condition theorem is re-proved over the grammar of conditions whose leaves are forms, with no hypothesis on the leaf parser
   ([condition_parses_to_its_meaning_forms]); its operator and parenthesis tokens are arbitrary tokens of the right type.

   The meaning of the records (the manual's table): [value_leaf_meaning] (value(..) compares the raw value as written),
   [autovar_leaf_meaning] (the command runs first, then the configured variable is compared), [form_leaf_meaning]
   (evaluation of a record = [form_eval], the table written out), and the main theorem is stated with the evaluation
   [cev_expr] of the written condition: left to right, short-circuit, leaves by [form_eval].

   Converse (what the leaf parser accepts, on streams ending with EOF): [accepted_plain_leaf_is_a_form] - every accepted leaf
   without AutoVar command is a form of the grammar, consumed exactly, with the record of the form; [shape_wf] - the only gap
   to [wf_lform] is an EOF token in the middle of the stream and the EMPTY comparison value (see below);
   [accepted_autovar_leaf_partial] - an accepted AutoVar leaf is '[!] command comparison' (partial: the command's tokens are
   not related back to the argument grammar of CmdArgs.v).

   Observed in the model (and in parser.go:1893 parseConditionVarOperator): 'var(X) == && ...' / 'var(X) == || ...' is accepted
   with the empty comparison value (the value loop stops at once on '&&' / '||'; only ')' is rejected as "missing comparison
   value").  The grammar here requires a non-empty value ([value_ok]); [next_ok] records the exception exactly.

   Main statements: form_parses, pure_form_leaf_spec, leaf_varcmp_value, parser_builds_tree_forms,
   condition_parses_to_its_meaning_forms, condition_value_is_precedence_reading_forms, value_leaf_meaning, form_leaf_meaning,
   autovar_leaf_meaning, accepted_plain_leaf_is_a_form, shape_wf, accepted_autovar_leaf_partial; Examples.ex_* (a condition
   lexed from text with every kind of head and comparison: premises hold, the model run agrees). *)
From Coq Require Import List String Ascii ZArith NArith Lia Bool.
From Pory Require Import Lexer Ast Emitter Sem2 SpecLemmas Parser BexpParse CmdArgs.
From Pory Require ConstSites Consume.
Import ListNotations.
Open Scope list_scope.

Notation pdepth := ConstSites.pdepth.
Notation wrap_value := ConstSites.wrap_value.

(* ---------- small stream facts ---------- *)
Lemma lf_is_true ty x : ttype x = ty -> is ty x = true.
Proof. intros H. unfold is, tt_eqb. rewrite H. destruct (toktype_eq_dec ty ty); [reflexivity|congruence]. Qed.
Lemma lf_is_false ty x : ttype x <> ty -> is ty x = false.
Proof. intros H. unfold is, tt_eqb. destruct (toktype_eq_dec (ttype x) ty); [congruence|reflexivity]. Qed.
Lemma lf_is_spec ty x : is ty x = true <-> ttype x = ty.
Proof. unfold is, tt_eqb. destruct (toktype_eq_dec (ttype x) ty); split; congruence. Qed.
Lemma lf_peekis ty (a b : token) r : peekis ty (a :: b :: r) = is ty b. Proof. reflexivity. Qed.
Lemma lf_curis ty (a : token) r : curis ty (a :: r) = is ty a. Proof. reflexivity. Qed.
Lemma lf_cur (a : token) r : cur (a :: r) = a. Proof. reflexivity. Qed.
Lemma lf_pk1 (a b : token) r : pk 1 (a :: b :: r) = b. Proof. reflexivity. Qed.
Lemma lf_pk2 (a b c : token) r : pk 2 (a :: b :: c :: r) = c. Proof. reflexivity. Qed.
Lemma lf_adv2 (a b : token) r : adv (a :: b :: r) = b :: r. Proof. reflexivity. Qed.
Lemma lf_adv (a : token) l : l <> [] -> adv (a :: l) = l.
Proof. destruct l; [congruence|reflexivity]. Qed.
Lemma app_ne {A} (l : list A) x r : l ++ x :: r <> [].
Proof. destruct l; discriminate. Qed.

(* ====================================================================================================== *)
(*  the grammar of leaves                                                                                  *)
(* ====================================================================================================== *)
Inductive head :=
| HOp (k lp : token) (ops : list token) (rp : token)        (* var( X )  flag( X )  defeated( X ) *)
| HCmd0 (name : token)                                       (* AutoVar command without parentheses *)
| HCmd (name lp : token) (a : arglist) (rp : token).         (* AutoVar command with arguments *)

Inductive cmpv :=
| VPlain (vals : list token)                                 (* value tokens up to the next ')', '&&', '||' *)
| VValue (vt lp : token) (seg : list token) (rp : token).    (* value ( balanced tokens ) *)

Inductive ctail :=
| CNone                                                      (* no comparison *)
| CFlag (o v : token)                                        (* ==|!= TRUE|FALSE *)
| CVar (o : token) (v : cmpv).                               (* OP value *)

Inductive lform :=
| LPos (h : head) (c : ctail)
| LNeg (nt : token) (h : head).

Definition head_toks (h : head) : list token :=
  match h with
  | HOp k lp ops rp => k :: lp :: ops ++ [rp]
  | HCmd0 name => [name]
  | HCmd name lp a rp => name :: lp :: arg_tokens a ++ [rp]
  end.
Definition cmpv_toks (v : cmpv) : list token :=
  match v with VPlain vals => vals | VValue vt lp seg rp => vt :: lp :: seg ++ [rp] end.
Definition ctail_toks (c : ctail) : list token :=
  match c with CNone => [] | CFlag o v => [o; v] | CVar o v => o :: cmpv_toks v end.
Definition form_toks (lf : lform) : list token :=
  match lf with LPos h c => head_toks h ++ ctail_toks c | LNeg nt h => nt :: head_toks h end.

Section LEAF.
Variable autovars : list (text * autovar).
Variable switches : list (text * text).
Variable env_errors : bool.
Variable parse_format : toks -> res (token * text * text * toks).
Variable consts : list (text * text).
Variable script : text.

Notation leaf_expr := (leaf_expr autovars switches env_errors parse_format consts).
Notation command_stmt := (command_stmt switches env_errors parse_format consts).
Notation var_or_autovar := (var_or_autovar autovars switches env_errors parse_format consts).
Notation wf_args := (wf_args switches env_errors parse_format).
Notation cr := (cr consts).
Notation opnd := (opnd consts).
Notation mkleaf := (mkleaf consts).
Notation leaf_spec := (leaf_spec autovars switches env_errors parse_format consts script).

(* the AutoVar entry of a command name *)
Definition av_of (name : token) : autovar :=
  match assoc autovars (tlit name) with Some av => av | None => {| avName := []; avPos := None |} end.

(* ---------- well-formed forms: conditions on token types only (and the CmdArgs grammar for command arguments) ---------- *)
Definition wf_head (h : head) : Prop :=
  match h with
  | HOp k lp ops rp => kindtok k /\ ttype lp = LPAREN /\ operand_ok ops /\ ttype rp = RPAREN
  | HCmd0 name => ttype name = IDENT /\ exists av, assoc autovars (tlit name) = Some av /\ avPos av = None
  | HCmd name lp a rp =>
      ttype name = IDENT /\
      (exists av, assoc autovars (tlit name) = Some av /\
         match avPos av with
         | None => True
         | Some p => (0 <= p < Z.of_nat (List.length (strip_last_empty (groups_of a))))%Z     (* the configured argument exists *)
         end) /\
      ttype lp = LPAREN /\ ttype rp = RPAREN /\ wf_args a /\ balanced (flat a)
  end.
Definition head_kind (h : head) : lkind := match h with HOp k _ _ _ => kind_of k | _ => KVar end.

Definition wf_cmpv (v : cmpv) : Prop :=
  match v with
  | VPlain vals => value_ok vals
  | VValue vt lp seg rp => ttype vt = VALUE /\ ttype lp = LPAREN /\ ttype rp = RPAREN /\
                           pdepth 0 seg = Some 0%nat /\ Forall (fun k => ttype k <> EOF) seg
  end.
Definition wf_ctail (kind : lkind) (c : ctail) : Prop :=
  match c with
  | CNone => True
  | CFlag o v => kind <> KVar /\ (ttype o = EQ \/ ttype o = NEQ) /\ (ttype v = TRUE \/ ttype v = FALSE)
  | CVar o v => kind = KVar /\ (exists op, is_cmp_tok o = Some op) /\ wf_cmpv v
  end.
Definition wf_lform (lf : lform) : Prop :=
  match lf with
  | LPos h c => wf_head h /\ wf_ctail (head_kind h) c
  | LNeg nt h => ttype nt = NOT /\ wf_head h
  end.

(* ---------- the leaf record of a form; [m] = number of tokens after the head, [k] = number of tokens after the leaf ---------- *)
Definition head_args (h : head) : list text :=
  match h with HCmd _ _ a _ => map (render_group consts) (strip_last_empty (groups_of a)) | _ => [] end.
Definition head_cmd (h : head) (m : nat) : option cmd :=
  match h with
  | HOp _ _ _ _ => None
  | HCmd0 name | HCmd name _ _ _ =>
      Some {| cname := tlit name; cargs := head_args h; ctok := name; Ast.cid := List.length (head_toks h) + m |}
  end.
Definition head_operand (h : head) : text :=
  match h with
  | HOp _ _ ops _ => opnd ops
  | HCmd0 name | HCmd name _ _ _ =>
      match avPos (av_of name) with
      | Some p => nth (Z.to_nat p) (head_args h) []     (* the variable is the argument at the configured position *)
      | None => avName (av_of name)                      (* the variable configured for the command *)
      end
  end.
Definition head_line (h : head) : Z :=
  match h with HOp _ _ ops _ => tline (hd eof0 ops) | HCmd0 name | HCmd name _ _ _ => tline name end.
Definition head_imp (h : head) (m : nat) : impdata :=
  match h with
  | HCmd name _ a _ =>
      {| idT := groups_texts script (List.length (head_toks h) + m) 0 (groups_of a);
         idM := groups_movs script name (List.length (head_toks h) + m) 0 (groups_of a) |}
  | _ => imp0
  end.
Definition mk (h : head) (m : nat) (o : cmpop) (v : text) (strict : bool) : leaf :=
  {| lk := head_kind h; loperand := head_operand h; lline := head_line h; lop := o; lvalue := v; lstrict := strict;
     lpre := head_cmd h m |}.

Definition tail_op (kind : lkind) (c : ctail) : cmpop :=
  match c with
  | CNone => match kind with KVar => ONe | _ => OEq end
  | CFlag o _ => if is EQ o then OEq else ONe
  | CVar o _ => match is_cmp_tok o with Some op => op | None => OEq end
  end.
Definition cmpv_value (v : cmpv) : text :=
  match v with
  | VPlain vals => opnd vals                                      (* the tokens, constants replaced, joined by one space *)
  | VValue _ _ seg _ => join sp (wrap_value (map cr seg))         (* idem, in parentheses when more than one token *)
  end.
Definition tail_value (kind : lkind) (c : ctail) : text :=
  match c with
  | CNone => match kind with KVar => t "0" | _ => t "TRUE" end
  | CFlag _ v => if is TRUE v then t "TRUE" else t "FALSE"
  | CVar _ v => cmpv_value v
  end.
Definition tail_strict (c : ctail) : bool := match c with CVar _ (VValue _ _ _ _) => true | _ => false end.

Definition form_leaf (lf : lform) (k : nat) : leaf :=
  match lf with
  | LPos h c => mk h (List.length (ctail_toks c) + k) (tail_op (head_kind h) c) (tail_value (head_kind h) c) (tail_strict c)
  | LNeg _ h => mk h k OEq (match head_kind h with KVar => t "0" | _ => t "FALSE" end) false
  end.
Definition form_imp (lf : lform) (k : nat) : impdata :=
  match lf with LPos h c => head_imp h (List.length (ctail_toks c) + k) | LNeg _ h => head_imp h k end.

(* a form without AutoVar command *)
Definition pure_form (lf : lform) : Prop :=
  match lf with LPos (HOp _ _ _ _) _ | LNeg _ (HOp _ _ _ _) => True | _ => False end.

Lemma mk_op k lp ops rp m o v strict : mk (HOp k lp ops rp) m o v strict = mkleaf k ops o v strict.
Proof. reflexivity. Qed.
Lemma pure_form_leaf lf k : pure_form lf -> form_leaf lf k = form_leaf lf 0 /\ form_imp lf k = imp0.
Proof. destruct lf as [[k0 lp ops rp|name|name lp a rp] c|nt [k0 lp ops rp|name|name lp a rp]]; cbn; intros H; try contradiction; split; reflexivity. Qed.

(* ====================================================================================================== *)
(*  value( ... )                                                                                           *)
(* ====================================================================================================== *)
Lemma value_parts_unfold f vtok ts depth parts :
  value_parts consts (S f) vtok ts depth parts =
  let go d :=
      let ts1 := adv ts in
      if curis EOF ts1 then err_tok vtok "missing ')' when evaluating 'value'"
      else value_parts consts f vtok ts1 d (parts ++ [creplace consts (tlit (cur ts))]) in
  if curis LPAREN ts then go (S depth)
  else if curis RPAREN ts then
    match depth with
    | O => Ok (match parts with _ :: _ :: _ => [t "("] ++ parts ++ [t ")"] | _ => parts end, adv ts)
    | S d => go d
    end
  else go depth.
Proof. reflexivity. Qed.

(* the tokens between 'value (' and its closing parenthesis: balanced, each replaced by its constant, in order *)
Lemma value_parts_spec vtok rp R : ttype rp = RPAREN -> R <> [] -> forall seg depth parts f,
  pdepth depth seg = Some 0%nat -> Forall (fun k => ttype k <> EOF) seg -> (List.length seg < f)%nat ->
  value_parts consts f vtok (seg ++ rp :: R) depth parts = Ok (wrap_value (parts ++ map cr seg), R).
Proof.
  intros Hrp HR. induction seg as [|x seg IH]; intros depth parts f PD NE Hf.
  - cbn [pdepth ConstSites.pdepth] in PD. injection PD as ->. destruct f as [|f]; [cbn in Hf; lia|].
    rewrite value_parts_unfold. cbn zeta. cbn [app]. rewrite !lf_curis.
    rewrite (lf_is_false LPAREN rp) by (rewrite Hrp; discriminate). rewrite (lf_is_true RPAREN rp Hrp).
    rewrite (lf_adv rp R HR). cbn [map]. rewrite app_nil_r. reflexivity.
  - destruct f as [|f]; [cbn in Hf; lia|]. inversion NE as [|? ? NX NE']; subst.
    assert (NXT : curis EOF (seg ++ rp :: R) = false).
    { destruct seg as [|y seg']; cbn [app]; rewrite lf_curis; apply lf_is_false.
      - rewrite Hrp; discriminate.
      - inversion NE'; assumption. }
    assert (STEP : forall d, pdepth d seg = Some 0%nat ->
       (let ts1 := adv ((x :: seg) ++ rp :: R) in
        if curis EOF ts1 then err_tok vtok "missing ')' when evaluating 'value'"
        else value_parts consts f vtok ts1 d (parts ++ [creplace consts (tlit (cur ((x :: seg) ++ rp :: R)))])) =
       Ok (wrap_value (parts ++ map cr (x :: seg)), R)).
    { intros d PD'. cbn zeta. cbn [app]. rewrite (lf_adv x _ (app_ne seg rp R)). rewrite NXT. rewrite lf_cur.
      rewrite (IH d _ f PD' NE') by (cbn in Hf; lia). cbn [map]. rewrite <- app_assoc. reflexivity. }
    rewrite value_parts_unfold. cbn zeta. cbn [pdepth ConstSites.pdepth] in PD.
    change (curis LPAREN ((x :: seg) ++ rp :: R)) with (is LPAREN x).
    change (curis RPAREN ((x :: seg) ++ rp :: R)) with (is RPAREN x).
    destruct (is LPAREN x).
    + apply (STEP _ PD).
    + destruct (is RPAREN x).
      * destruct depth as [|d]; [discriminate|]. apply (STEP _ PD).
      * apply (STEP _ PD).
Qed.

(* ====================================================================================================== *)
(*  the comparison after the head                                                                          *)
(* ====================================================================================================== *)
Lemma follow_cur R : follow R -> exists x r, R = x :: r /\ (ttype x = AND \/ ttype x = OR \/ ttype x = RPAREN).
Proof. intros H; exact H. Qed.

Lemma var_tail_spec c R f : wf_ctail KVar c -> follow R -> (List.length (ctail_toks c) < f)%nat ->
  cond_var_operator consts f (ctail_toks c ++ R) = Ok (tail_op KVar c, tail_value KVar c, tail_strict c, R).
Proof.
  intros W (x & r & -> & Hx) Hf. destruct c as [|o v|o v].
  - cbn [ctail_toks app]. unfold cond_var_operator, is_cmp_tok. rewrite lf_cur. destruct Hx as [E|[E|E]]; rewrite E; reflexivity.
  - destruct W as [W _]. congruence.
  - destruct W as (_ & (op & Ho) & Wv). cbn [ctail_toks app tail_op tail_value tail_strict]. rewrite Ho.
    unfold cond_var_operator. rewrite lf_cur, Ho. cbn zeta.
    destruct v as [vals|vt lp seg rp].
    + destruct Wv as (VN & VH & VF). cbn [cmpv_toks cmpv_value].
      rewrite (lf_adv o _ (app_ne vals x r)).
      destruct vals as [|v1 vals']; [congruence|]. inversion VF as [|? ? (V1 & V2 & V3 & V4) VF']; subst. cbn [hd] in VH.
      cbn [app]. rewrite !lf_curis, (lf_is_false RPAREN v1 V1), (lf_is_false VALUE v1 VH).
      change (v1 :: vals' ++ x :: r) with ((v1 :: vals') ++ x :: r).
      rewrite (collect_until_spec consts (fun tk0 => is RPAREN tk0 || is AND tk0 || is OR tk0) (v1 :: vals') x r [] f).
      * reflexivity.
      * eapply Forall_impl; [|exact VF]. intros a (A1 & A2 & A3 & _). rewrite (lf_is_false _ a A1), (lf_is_false _ a A2), (lf_is_false _ a A3). reflexivity.
      * eapply Forall_impl; [|exact VF]. intros a (_ & _ & _ & A4). exact A4.
      * destruct Hx as [E|[E|E]]; unfold is; rewrite E; reflexivity.
      * destruct Hx as [E|[E|E]]; rewrite E; discriminate.
      * cbn [ctail_toks cmpv_toks List.length] in Hf. cbn [List.length]. lia.
    + destruct Wv as (Hvt & Hlp & Hrp & PD & NE). cbn [cmpv_toks cmpv_value app]. rewrite <- app_assoc. cbn [app].
      rewrite lf_adv2. rewrite !lf_curis. rewrite (lf_is_false RPAREN vt) by (rewrite Hvt; discriminate).
      rewrite (lf_is_true VALUE vt Hvt). unfold expect_peek. rewrite lf_peekis, (lf_is_true LPAREN lp Hlp). rewrite lf_adv2.
      rewrite (lf_adv lp _ (app_ne seg rp (x :: r))). rewrite lf_cur.
      rewrite (value_parts_spec vt rp (x :: r) Hrp ltac:(discriminate) seg 0%nat [] f PD NE).
      * reflexivity.
      * cbn [ctail_toks cmpv_toks List.length] in Hf. rewrite app_length in Hf. cbn [List.length] in Hf. lia.
Qed.

Lemma flag_tail_spec kind c R nm : wf_ctail kind c -> kind <> KVar -> follow R ->
  cond_flag_operator (ctail_toks c ++ R) nm = Ok (tail_op kind c, tail_value kind c, R).
Proof.
  intros W NK FR. pose proof (follow_nonempty _ FR) as NE. destruct c as [|o v|o v].
  - destruct FR as (x & r & -> & Hx). cbn [ctail_toks app tail_op tail_value]. unfold cond_flag_operator. rewrite lf_cur.
    destruct kind; [|congruence|]; destruct Hx as [E|[E|E]]; rewrite E; reflexivity.
  - destruct W as (_ & Ho & Hv). cbn [ctail_toks app tail_op tail_value]. unfold cond_flag_operator. rewrite lf_cur.
    rewrite lf_adv2, !lf_curis, (lf_adv v R NE).
    destruct Ho as [Eo|Eo], Hv as [Ev|Ev]; rewrite Eo; unfold is; rewrite ?Eo, ?Ev; reflexivity.
  - destruct W as [W _]. congruence.
Qed.

(* ====================================================================================================== *)
(*  the head                                                                                               *)
(* ====================================================================================================== *)
(* the token after a command without parentheses is not '(' *)
Definition head_ctx (h : head) (A : list token) : Prop :=
  A <> [] /\ match h with HCmd0 _ => ttype (hd eof0 A) <> LPAREN | _ => True end.

Definition after_head (f : nat) (h : head) (A : toks) : res (leaf * impdata * toks) :=
  match head_kind h with
  | KVar => do (o, v, strict, ts5) <- cond_var_operator consts f A; Ok (mk h (List.length A) o v strict, head_imp h (List.length A), ts5)
  | KFlag => do (o, v, ts5) <- cond_flag_operator A "flag"; Ok (mk h (List.length A) o v false, head_imp h (List.length A), ts5)
  | KDefeated => do (o, v, ts5) <- cond_flag_operator A "defeated"; Ok (mk h (List.length A) o v false, head_imp h (List.length A), ts5)
  end.

(* what [var_or_autovar] returns on a command head; the result stream starts at the last token of the command *)
Lemma autovar_head f pre h A : wf_head h -> head_kind h = KVar -> head_cmd h (List.length A) <> None -> head_ctx h A ->
  (List.length (head_toks h) <= f)%nat ->
  exists c last, head_cmd h (List.length A) = Some c /\
    var_or_autovar f script (pre :: head_toks h ++ A) = Ok (Some (head_operand h, c), head_imp h (List.length A), last :: A) /\
    ctok c = hd eof0 (head_toks h).
Proof.
  intros W _ NC [NE CTX] Hf. destruct h as [k lp ops rp|name|name lp a rp]; [cbn in NC; congruence| |].
  - destruct W as (Hn & av & Hav & Hp). cbn [head_toks app] in *. eexists _, name. split; [reflexivity|]. split; [|reflexivity].
    unfold Parser.var_or_autovar. rewrite lf_peekis, (lf_is_false VAR name) by (rewrite Hn; discriminate).
    rewrite lf_pk1, Hav. cbn zeta. rewrite lf_adv2.
    destruct A as [|x r]; [congruence|]. cbn [hd] in CTX.
    rewrite (command_without_parentheses switches env_errors parse_format consts f script (name :: x :: r))
      by (rewrite lf_peekis; apply lf_is_false; exact CTX).
    rewrite lf_cur. cbn beta iota. rewrite Hp. cbn [head_operand]. unfold av_of. rewrite Hav, Hp.
    cbn [head_args head_imp head_cmd head_toks List.length Nat.add]. reflexivity.
  - destruct W as (Hn & (av & Hav & Hp) & Hlp & Hrp & Wa & Ba). cbn [head_toks] in *.
    eexists _, rp. split; [reflexivity|]. split; [|reflexivity].
    unfold Parser.var_or_autovar. cbn [app]. rewrite lf_peekis, (lf_is_false VAR name) by (rewrite Hn; discriminate).
    rewrite lf_pk1, Hav. cbn zeta. rewrite lf_adv2. rewrite <- app_assoc. cbn [app].
    pose proof (command_with_arguments switches env_errors parse_format consts f script name lp a rp A Hlp Hrp Wa Ba) as CW.
    cbn zeta in CW. rewrite CW by (cbn [List.length] in Hf; rewrite app_length in Hf; cbn [List.length] in Hf; lia). clear CW.
    cbn beta iota. cbn [cargs].
    assert (LEN : List.length (name :: lp :: arg_tokens a ++ rp :: A) = (List.length (name :: lp :: arg_tokens a ++ [rp]) + List.length A)%nat).
    { cbn [List.length]. rewrite !app_length. cbn [List.length]. lia. }
    cbn [head_operand head_args head_imp head_cmd head_toks]. unfold av_of. rewrite Hav.
    destruct (avPos av) as [p|].
    + rewrite map_length.
      assert (G : ((p <? 0)%Z || (p >? Z.of_nat (List.length (strip_last_empty (groups_of a))) - 1)%Z) = false).
      { apply orb_false_iff. split; [apply Z.ltb_ge; lia|]. rewrite Z.gtb_ltb. apply Z.ltb_ge. lia. }
      rewrite G. rewrite LEN. reflexivity.
    + rewrite LEN. reflexivity.
Qed.

Lemma autovar_peek pre name r : ttype name = IDENT -> (exists av, assoc autovars (tlit name) = Some av) ->
  peek_is_autovar autovars (pre :: name :: r) = true.
Proof. intros Hn (av & Hav). unfold peek_is_autovar. rewrite lf_peekis, lf_pk1, (lf_is_true IDENT name Hn), Hav. reflexivity. Qed.

Lemma cmd_head_first h : wf_head h -> head_cmd h 0 <> None ->
  exists name r, head_toks h = name :: r /\ ttype name = IDENT /\ exists av, assoc autovars (tlit name) = Some av.
Proof.
  destruct h as [k lp ops rp|name|name lp a rp]; intros W NC; [cbn in NC; congruence| |].
  - destruct W as (Hn & av & Hav & _). exists name, []. split; [reflexivity|]. split; [exact Hn|]. exists av; exact Hav.
  - destruct W as (Hn & (av & Hav & _) & _). eexists name, _. split; [reflexivity|]. split; [exact Hn|]. exists av; exact Hav.
Qed.

Lemma head_cmd_some h m : head_cmd h m <> None <-> head_cmd h 0 <> None.
Proof. destruct h; cbn; split; intros H; congruence. Qed.

(* head, not negated: the leaf parser continues with the comparison on what follows the head *)
Lemma head_pos f pre h A : wf_head h -> head_ctx h A -> (List.length (head_toks h) <= f)%nat ->
  leaf_expr f script (pre :: head_toks h ++ A) = after_head f h A.
Proof.
  intros W CTX Hf. destruct (head_cmd h 0) as [c0|] eqn:HC.
  - (* AutoVar command *)
    assert (NC : head_cmd h (List.length A) <> None) by (apply head_cmd_some; congruence).
    assert (KV : head_kind h = KVar) by (destruct h; [discriminate HC|reflexivity|reflexivity]).
    destruct (cmd_head_first h W ltac:(congruence)) as (name & r & E & Hn & HA).
    destruct (autovar_head f pre h A W KV NC CTX Hf) as (c & last & E1 & E2 & E3).
    unfold Parser.leaf_expr. rewrite E. cbn [app]. rewrite (lf_peekis NOT pre name), (lf_is_false NOT name) by (rewrite Hn; discriminate).
    cbn beta iota zeta. rewrite (autovar_peek pre name (r ++ A) Hn HA).
    rewrite lf_peekis, (lf_is_false VAR name) by (rewrite Hn; discriminate). cbn [negb andb].
    change (pre :: name :: r ++ A) with (pre :: (name :: r) ++ A). rewrite <- E. rewrite E2. cbn beta iota.
    rewrite (lf_adv last A (proj1 CTX)). unfold after_head. rewrite KV. unfold mk. rewrite KV, E1, E3, E. cbn [hd head_line].
    assert (LL : head_line h = tline name) by (destruct h; [discriminate HC|cbn in E; injection E as -> _; reflexivity|cbn in E; injection E as -> _; reflexivity]).
    rewrite LL. reflexivity.
  - (* var( ) flag( ) defeated( ) *)
    destruct h as [k lp ops rp|name|name lp a rp]; try discriminate HC. destruct W as (Hk & Hlp & Hops & Hrp).
    cbn [head_toks app]. rewrite <- app_assoc. cbn [app].
    rewrite (leaf_head autovars switches env_errors parse_format consts script f pre k lp ops rp A Hk Hlp Hops Hrp (proj1 CTX))
      by (cbn [head_toks List.length] in Hf; rewrite app_length in Hf; cbn [List.length] in Hf; lia).
    unfold leaf_tail, after_head. cbn [head_kind head_imp]. destruct (kind_of k); reflexivity.
Qed.

(* '!' head *)
Lemma head_neg f pre nt h A : ttype nt = NOT -> wf_head h -> head_ctx h A -> (List.length (head_toks h) <= f)%nat ->
  leaf_expr f script (pre :: nt :: head_toks h ++ A) =
  Ok (mk h (List.length A) OEq (match head_kind h with KVar => t "0" | _ => t "FALSE" end) false, head_imp h (List.length A), A).
Proof.
  intros Hnt W CTX Hf. destruct (head_cmd h 0) as [c0|] eqn:HC.
  - assert (NC : head_cmd h (List.length A) <> None) by (apply head_cmd_some; congruence).
    assert (KV : head_kind h = KVar) by (destruct h; [discriminate HC|reflexivity|reflexivity]).
    destruct (cmd_head_first h W ltac:(congruence)) as (name & r & E & Hn & HA).
    destruct (autovar_head f nt h A W KV NC CTX Hf) as (c & last & E1 & E2 & E3).
    unfold Parser.leaf_expr. rewrite (lf_peekis NOT pre nt), (lf_is_true NOT nt Hnt). rewrite lf_adv2.
    cbn beta iota zeta. rewrite E. cbn [app]. rewrite (autovar_peek nt name (r ++ A) Hn HA).
    rewrite lf_peekis, (lf_is_false VAR name) by (rewrite Hn; discriminate). cbn [negb andb].
    change (nt :: name :: r ++ A) with (nt :: (name :: r) ++ A). rewrite <- E. rewrite E2. cbn beta iota.
    rewrite (lf_adv last A (proj1 CTX)). unfold mk. rewrite KV, E1, E3, E. cbn [hd].
    assert (LL : head_line h = tline name) by (destruct h; [discriminate HC|cbn in E; injection E as -> _; reflexivity|cbn in E; injection E as -> _; reflexivity]).
    rewrite LL. reflexivity.
  - destruct h as [k lp ops rp|name|name lp a rp]; try discriminate HC. destruct W as (Hk & Hlp & Hops & Hrp).
    cbn [head_toks app]. rewrite <- app_assoc. cbn [app].
    rewrite (leaf_head_not autovars switches env_errors parse_format consts script f pre nt k lp ops rp A Hnt Hk Hlp Hops Hrp (proj1 CTX))
      by (cbn [head_toks List.length] in Hf; rewrite app_length in Hf; cbn [List.length] in Hf; lia).
    reflexivity.
Qed.

(* ====================================================================================================== *)
(*  every form: tokens consumed, record returned                                                           *)
(* ====================================================================================================== *)
Lemma kindtok_not_var k : kindtok k -> kind_of k <> KVar -> ttype k = FLAG \/ ttype k = DEFEATED.
Proof.
  intros [E|[E|E]] N; [|auto|auto]. exfalso. apply N. unfold kind_of. rewrite (lf_is_true VAR k E). reflexivity.
Qed.

Lemma ctail_ctx h c R : wf_ctail (head_kind h) c -> follow R -> head_ctx h (ctail_toks c ++ R).
Proof.
  intros W (x & r & -> & Hx). split; [destruct (ctail_toks c); discriminate|]. destruct h as [| name |]; [exact I| |exact I].
  destruct c as [|o v|o v]; cbn [ctail_toks app hd].
  - destruct Hx as [E|[E|E]]; rewrite E; discriminate.
  - destruct W as [W _]. cbn in W. congruence.
  - destruct W as (_ & (op & Ho) & _). unfold is_cmp_tok in Ho. intros X. rewrite X in Ho. discriminate.
Qed.

Theorem form_parses lf R : wf_lform lf -> follow R -> forall f pre, (1 + List.length (form_toks lf) <= f)%nat ->
  leaf_expr f script (pre :: form_toks lf ++ R) = Ok (form_leaf lf (List.length R), form_imp lf (List.length R), R).
Proof.
  intros W FR f pre Hf. destruct lf as [h c|nt h].
  - destruct W as [Wh Wc]. cbn [form_toks form_leaf form_imp] in *. rewrite app_length in Hf. rewrite <- app_assoc.
    rewrite (head_pos f pre h (ctail_toks c ++ R) Wh (ctail_ctx h c R Wc FR) ltac:(lia)).
    unfold after_head. rewrite app_length. destruct (head_kind h) eqn:K.
    + rewrite (flag_tail_spec KFlag c R "flag" Wc ltac:(discriminate) FR).
      assert (S : tail_strict c = false) by (destruct c as [|o v|o v]; [reflexivity|reflexivity|destruct Wc as [X _]; discriminate X]).
      rewrite S. reflexivity.
    + rewrite (var_tail_spec c R f Wc FR ltac:(lia)). reflexivity.
    + rewrite (flag_tail_spec KDefeated c R "defeated" Wc ltac:(discriminate) FR).
      assert (S : tail_strict c = false) by (destruct c as [|o v|o v]; [reflexivity|reflexivity|destruct Wc as [X _]; discriminate X]).
      rewrite S. reflexivity.
  - destruct W as [Hnt Wh]. cbn [form_toks form_leaf form_imp app] in *.
    apply (head_neg f pre nt h R Hnt Wh); [|cbn [List.length] in Hf; lia]. apply (ctail_ctx h CNone R I FR).
Qed.

(* the first tokens of a form never look like '(' or '!(' : the condition parser takes the leaf branch *)
Lemma head_first h : wf_head h -> exists x r, head_toks h = x :: r /\ ttype x <> LPAREN /\ ttype x <> NOT.
Proof.
  destruct h as [k lp ops rp|name|name lp a rp]; intros W.
  - destruct W as (Hk & _). eexists k, _. split; [reflexivity|]. apply (kindtok_not_lparen k Hk).
  - destruct W as (Hn & _). exists name, []. split; [reflexivity|]. rewrite Hn. split; discriminate.
  - destruct W as (Hn & _). eexists name, _. split; [reflexivity|]. rewrite Hn. split; discriminate.
Qed.
Lemma form_guard lf : wf_lform lf ->
  exists x r, form_toks lf = x :: r /\ ttype x <> LPAREN /\ (ttype x = NOT -> exists y r', r = y :: r' /\ ttype y <> LPAREN).
Proof.
  destruct lf as [h c|nt h]; intros [W1 W2]; cbn [form_toks].
  - destruct (head_first h W1) as (x & r & E & A & B). rewrite E. eexists x, _. split; [reflexivity|]. split; [exact A|congruence].
  - destruct (head_first h W2) as (x & r & E & A & B). rewrite E. eexists nt, _. split; [reflexivity|]. split; [congruence|].
    intros _. eexists x, _. split; [reflexivity|exact A].
Qed.

(* BexpParse.leaf_spec for every form without AutoVar command: in particular the value( ) forms *)
Theorem pure_form_leaf_spec F0 lf : (1 <= F0)%nat -> wf_lform lf -> pure_form lf ->
  leaf_spec F0 (form_toks lf) (form_leaf lf 0) imp0.
Proof.
  intros HF W P. split; [exact (form_guard lf W)|]. intros f pre rest Hf FR.
  rewrite (form_parses lf rest W FR f pre ltac:(lia)). destruct (pure_form_leaf lf (List.length rest) P) as [-> ->]. reflexivity.
Qed.

(* var ( operand ) OP value ( tokens ) : strict comparison with the raw value *)
Corollary leaf_varcmp_value F0 k lp ops rp o op vt lp2 seg rp2 : (1 <= F0)%nat ->
  ttype k = VAR -> ttype lp = LPAREN -> operand_ok ops -> ttype rp = RPAREN -> is_cmp_tok o = Some op ->
  ttype vt = VALUE -> ttype lp2 = LPAREN -> ttype rp2 = RPAREN -> pdepth 0 seg = Some 0%nat -> Forall (fun x => ttype x <> EOF) seg ->
  leaf_spec F0 (k :: lp :: ops ++ rp :: o :: vt :: lp2 :: seg ++ [rp2])
               (mkleaf k ops op (join sp (wrap_value (map cr seg))) true) imp0.
Proof.
  intros HF Hk Hlp Hops Hrp Ho Hvt Hlp2 Hrp2 PD NE.
  pose proof (pure_form_leaf_spec F0 (LPos (HOp k lp ops rp) (CVar o (VValue vt lp2 seg rp2))) HF) as H.
  cbn [form_toks head_toks ctail_toks cmpv_toks form_leaf head_kind tail_op tail_value cmpv_value tail_strict app] in H.
  rewrite Ho in H. rewrite mk_op in H. rewrite <- app_assoc in H. cbn [app] in H. apply H; [|exact I].
  cbn. assert (KV : kind_of k = KVar) by (unfold kind_of; rewrite (lf_is_true VAR k Hk); reflexivity).
  split; [split; [left; exact Hk|auto]|]. split; [exact KV|]. split; [exists op; exact Ho|]. auto.
Qed.
End LEAF.

(* ====================================================================================================== *)
(*  conditions whose leaves are forms                                                                      *)
(* ====================================================================================================== *)
(*   expr ::= atom tail      tail ::= (empty) | && atom tail | || expr      atom ::= LEAF-FORM | ( expr ) | ! ( expr )
   every operator / parenthesis is an arbitrary token of the right type (literal and position free) *)
Inductive catom :=
| CLeaf (lf : lform)
| CPar (lp : token) (e : cexpr) (rp : token)
| CNot (nt lp : token) (e : cexpr) (rp : token)
with ctl :=
| CNil
| CAnd (op : token) (a : catom) (t : ctl)
| COr (op : token) (e : cexpr)
with cexpr :=
| CX (a : catom) (t : ctl).

Scheme catom_m := Induction for catom Sort Prop
  with ctl_m := Induction for ctl Sort Prop
  with cexpr_m := Induction for cexpr Sort Prop.
Combined Scheme cond_mutind from catom_m, ctl_m, cexpr_m.

Fixpoint toks_atom (a : catom) : list token :=
  match a with
  | CLeaf lf => form_toks lf
  | CPar lp e rp => lp :: toks_expr e ++ [rp]
  | CNot nt lp e rp => nt :: lp :: toks_expr e ++ [rp]
  end
with toks_tl (t : ctl) : list token :=
  match t with
  | CNil => []
  | CAnd op a t' => op :: toks_atom a ++ toks_tl t'
  | COr op e => op :: toks_expr e
  end
with toks_expr (e : cexpr) : list token :=
  match e with CX a t => toks_atom a ++ toks_tl t end.

(* fuel *)
Fixpoint needc_atom (a : catom) : nat :=
  match a with CLeaf lf => S (1 + List.length (form_toks lf)) | CPar _ e _ => S (needc_expr e) | CNot _ _ e _ => S (needc_expr e) end
with needc_tl (t : ctl) : nat :=
  match t with CNil => 1 | CAnd _ a t' => S (needc_atom a + needc_tl t') | COr _ e => S (needc_expr e) end
with needc_expr (e : cexpr) : nat :=
  match e with CX a t => S (needc_atom a + needc_tl t) end.

Section COND.
Variable autovars : list (text * autovar).
Variable switches : list (text * text).
Variable env_errors : bool.
Variable parse_format : toks -> res (token * text * text * toks).
Variable consts : list (text * text).
Variable script : text.

Notation bool_expr := (bool_expr autovars switches env_errors parse_format consts).
Notation right_side := (right_side autovars switches env_errors parse_format consts).
Notation leaf_expr := (leaf_expr autovars switches env_errors parse_format consts).
Notation wf_lform := (wf_lform autovars switches env_errors parse_format).
Notation form_leaf := (form_leaf autovars consts).
Notation form_imp := (form_imp script).

Fixpoint wfc_atom (a : catom) : Prop :=
  match a with
  | CLeaf lf => wf_lform lf
  | CPar lp e rp => ttype lp = LPAREN /\ wfc_expr e /\ ttype rp = RPAREN
  | CNot nt lp e rp => ttype nt = NOT /\ ttype lp = LPAREN /\ wfc_expr e /\ ttype rp = RPAREN
  end
with wfc_tl (t : ctl) : Prop :=
  match t with
  | CNil => True
  | CAnd op a t' => ttype op = AND /\ wfc_atom a /\ wfc_tl t'
  | COr op e => ttype op = OR /\ wfc_expr e
  end
with wfc_expr (e : cexpr) : Prop :=
  match e with CX a t => wfc_atom a /\ wfc_tl t end.

(* the written expression with the record of every leaf; [k] = number of tokens that follow in the stream
   (it only enters the identity [cid] of AutoVar commands) *)
Fixpoint el_atom (k : nat) (a : catom) : atom :=
  match a with
  | CLeaf lf => ALeaf (form_toks lf) (form_leaf lf k) (form_imp lf k)
  | CPar _ e _ => APar (el_expr (S k) e)
  | CNot _ _ e _ => ANot (el_expr (S k) e)
  end
with el_tl (k : nat) (t : ctl) : tail :=
  match t with
  | CNil => TNil
  | CAnd _ a t' => TAnd (el_atom (List.length (toks_tl t') + k) a) (el_tl k t')
  | COr _ e => TOr (el_expr k e)
  end
with el_expr (k : nat) (e : cexpr) : expr :=
  match e with CX a t => EX (el_atom (List.length (toks_tl t) + k) a) (el_tl k t) end.

Definition CPexpr (e : cexpr) : Prop := wfc_expr e -> forall n pre rest f, (needc_expr e <= f)%nat -> stop rest ->
  exists imp', bool_expr f false n script (pre :: toks_expr e ++ rest) = Ok (tree_expr n (el_expr (List.length rest) e), imp', rest) /\
               imp_eq imp' (imp_expr (el_expr (List.length rest) e)).
Definition CPatom (a : catom) : Prop :=
  (wfc_atom a -> forall n pre R f, (needc_atom a <= f)%nat -> follow R ->
     exists imp', bool_expr f true n script (pre :: toks_atom a ++ R) = Ok (tree_atom n (el_atom (List.length R) a), imp', R) /\
                  imp_eq imp' (imp_atom (el_atom (List.length R) a))) /\
  match a with CPar _ e _ | CNot _ _ e _ => CPexpr e | CLeaf _ => True end.
Definition CPtl (t : ctl) : Prop := wfc_tl t -> forall n L rest f, (needc_tl t <= f)%nat -> stop rest ->
  exists imp', right_side f L false n script (toks_tl t ++ rest) = Ok (tree_tail n L (el_tl (List.length rest) t), imp', rest) /\
               imp_eq imp' (imp_tail (el_tl (List.length rest) t)).

Lemma first_tok_tl t rest : wfc_tl t -> stop rest -> exists x r, toks_tl t ++ rest = x :: r /\
  match t with CNil => ttype x = RPAREN | CAnd _ _ _ => ttype x = AND | COr _ _ => ttype x = OR end.
Proof.
  intros W (x & r & -> & H1). destruct t as [|op a t'|op e]; cbn [toks_tl app].
  - exists x, r. auto.
  - destruct W as [W _]. eexists _, _. split; [reflexivity|exact W].
  - destruct W as [W _]. eexists _, _. split; [reflexivity|exact W].
Qed.
Lemma follow_tl t rest : wfc_tl t -> stop rest -> follow (toks_tl t ++ rest).
Proof. intros W ST. destruct (first_tok_tl t rest W ST) as (x & r & -> & H). exists x, r. split; [reflexivity|]. destruct t; auto. Qed.

Lemma form_guard_bools lf pre R : wf_lform lf ->
  peekis LPAREN (pre :: form_toks lf ++ R) = false /\
  peekis NOT (pre :: form_toks lf ++ R) && is LPAREN (pk 2 (pre :: form_toks lf ++ R)) = false.
Proof.
  intros W. destruct (form_guard autovars switches env_errors parse_format lf W) as (x & r & -> & NL & NN).
  cbn [app]. rewrite !lf_peekis. split; [apply lf_is_false; exact NL|].
  destruct (toktype_eq_dec (ttype x) NOT) as [E|E].
  - destruct (NN E) as (y & r' & -> & NY). cbn [app]. rewrite lf_pk2. rewrite (lf_is_false LPAREN y NY). apply andb_false_r.
  - rewrite (lf_is_false NOT x E). reflexivity.
Qed.

Lemma toks_par lp e rp R : toks_atom (CPar lp e rp) ++ R = lp :: toks_expr e ++ rp :: R.
Proof. cbn [toks_atom app]. rewrite <- app_assoc. reflexivity. Qed.
Lemma toks_not nt lp e rp R : toks_atom (CNot nt lp e rp) ++ R = nt :: lp :: toks_expr e ++ rp :: R.
Proof. cbn [toks_atom app]. rewrite <- app_assoc. reflexivity. Qed.

Lemma par_guards pre lp X : ttype lp = LPAREN -> peekis LPAREN (pre :: lp :: X) = true.
Proof. intros H. rewrite lf_peekis. apply lf_is_true; exact H. Qed.
Lemma not_guards pre nt lp X : ttype nt = NOT -> ttype lp = LPAREN ->
  peekis LPAREN (pre :: nt :: lp :: X) = false /\ peekis NOT (pre :: nt :: lp :: X) && is LPAREN (pk 2 (pre :: nt :: lp :: X)) = true.
Proof.
  intros H1 H2. rewrite !lf_peekis, lf_pk2. rewrite (lf_is_true NOT nt H1), (lf_is_true LPAREN lp H2).
  split; [apply lf_is_false; rewrite H1; discriminate|reflexivity].
Qed.

Theorem parser_builds_tree_forms :
  (forall a, CPatom a) /\ (forall t, CPtl t) /\ (forall e, CPexpr e).
Proof.
  apply cond_mutind.
  - (* leaf *)
    intros lf. split; [|exact I]. intros W n pre R f Hf HR. cbn [needc_atom] in Hf.
    destruct f as [|f]; [lia|]. rewrite bool_expr_unfold. cbn zeta. cbn [toks_atom].
    destruct (form_guard_bools lf pre R W) as [G1 G2]. rewrite G1, G2. cbn [orb].
    rewrite (form_parses autovars switches env_errors parse_format consts script lf R W HR f pre ltac:(lia)). cbn beta iota.
    eexists. split; [reflexivity|apply imp_eq_refl].
  - (* ( e ) *)
    intros lp e IHe rp. split; [|exact IHe]. intros (Hlp & W & Hrp) n pre R f Hf HR. cbn [needc_atom] in Hf. destruct f as [|f]; [lia|].
    rewrite bool_expr_unfold. cbn zeta. rewrite toks_par. rewrite (par_guards pre lp _ Hlp). cbn [orb].
    rewrite lf_adv2. rewrite lf_cur.
    destruct (IHe W n lp (rp :: R) f ltac:(lia)) as (imp' & E & IE).
    { exists rp, R. split; [reflexivity|exact Hrp]. }
    rewrite E. cbn beta iota. rewrite lf_curis, (lf_is_true RPAREN rp Hrp). cbn [negb andb].
    rewrite (lf_adv rp R (follow_nonempty _ HR)). eexists. split; [reflexivity|exact IE].
  - (* ! ( e ) *)
    intros nt lp e IHe rp. split; [|exact IHe]. intros (Hnt & Hlp & W & Hrp) n pre R f Hf HR. cbn [needc_atom] in Hf. destruct f as [|f]; [lia|].
    rewrite bool_expr_unfold. cbn zeta. rewrite toks_not. destruct (not_guards pre nt lp (toks_expr e ++ rp :: R) Hnt Hlp) as [G1 G2].
    rewrite G1, G2. cbn [orb]. rewrite !lf_adv2. rewrite lf_cur.
    destruct (IHe W (negb n) lp (rp :: R) f ltac:(lia)) as (imp' & E & IE).
    { exists rp, R. split; [reflexivity|exact Hrp]. }
    rewrite E. cbn beta iota. rewrite lf_curis, (lf_is_true RPAREN rp Hrp). cbn [negb andb].
    rewrite (lf_adv rp R (follow_nonempty _ HR)). eexists. split; [reflexivity|exact IE].
  - (* empty tail *)
    intros _ n L rest f Hf (x & r & -> & N0). cbn [needc_tl] in Hf. destruct f as [|f]; [lia|].
    assert (N1 : ttype x <> AND) by congruence. assert (N2 : ttype x <> OR) by congruence.
    rewrite right_side_unfold. cbn [toks_tl app]. rewrite !lf_curis. rewrite (lf_is_false AND x N1), (lf_is_false OR x N2).
    eexists. split; [reflexivity|apply imp_eq_refl].
  - (* && atom tail *)
    intros op a [IHa _] t IHt (Hop & Wa & Wt) n L rest f Hf ST. cbn [needc_tl] in Hf. destruct f as [|f]; [lia|].
    rewrite right_side_unfold. cbn [toks_tl app]. rewrite <- app_assoc. rewrite lf_curis, (lf_is_true AND op Hop).
    destruct (IHa Wa n op (toks_tl t ++ rest) f ltac:(lia)) as (imp1 & E1 & I1).
    { apply follow_tl; assumption. }
    rewrite E1. cbn beta iota. rewrite app_length in E1, I1 |- *.
    destruct (IHt Wt n (BBin (if n then BOr else BAnd) L (tree_atom n (el_atom (List.length (toks_tl t) + List.length rest) a))) rest f ltac:(lia) ST) as (imp2 & E2 & I2).
    rewrite E2. cbn beta iota. eexists. split; [reflexivity|]. cbn [el_tl imp_tail]. apply imp_eq_add; assumption.
  - (* || expr *)
    intros op e IHe (Hop & We) n L rest f Hf ST. cbn [needc_tl] in Hf. destruct f as [|f]; [lia|].
    rewrite right_side_unfold. cbn [toks_tl app]. rewrite !lf_curis.
    rewrite (lf_is_false AND op) by (rewrite Hop; discriminate). rewrite (lf_is_true OR op Hop).
    destruct (IHe We n op rest f ltac:(lia) ST) as (imp1 & E1 & I1). rewrite E1. cbn beta iota.
    eexists. split; [reflexivity|exact I1].
  - (* atom tail *)
    intros a [IHa IHin] t IHt [Wa Wt] n pre rest f Hf ST. cbn [needc_expr] in Hf. destruct f as [|f]; [lia|].
    pose proof (stop_nonempty _ ST) as NE.
    destruct (first_tok_tl t rest Wt ST) as (x & r & ER & HX).
    rewrite bool_expr_unfold. cbn zeta. cbn [toks_expr]. rewrite <- app_assoc.
    cbn [el_expr tree_expr imp_expr].
    destruct a as [lf|lp e rp|nt lp e rp].
    + (* leaf first *)
      cbn [toks_atom]. destruct (form_guard_bools lf pre (toks_tl t ++ rest) Wa) as [G1 G2]. rewrite G1, G2. cbn [orb].
      rewrite (form_parses autovars switches env_errors parse_format consts script lf (toks_tl t ++ rest) Wa (follow_tl t rest Wt ST) f pre
                 ltac:(cbn [needc_atom] in Hf; lia)).
      cbn beta iota. rewrite app_length.
      destruct (IHt Wt n (BLeaf (if n then neg_leaf (form_leaf lf (List.length (toks_tl t) + List.length rest)) else form_leaf lf (List.length (toks_tl t) + List.length rest))) rest f ltac:(lia) ST) as (imp2 & E2 & I2).
      rewrite E2. cbn beta iota. eexists. split; [reflexivity|]. cbn [el_atom imp_atom]. apply imp_eq_add; [apply imp_eq_refl|exact I2].
    + (* ( e ) first *)
      destruct Wa as (Hlp & We & Hrp). rewrite toks_par. rewrite (par_guards pre lp _ Hlp). cbn [orb].
      rewrite lf_adv2, lf_cur.
      destruct (IHin We n lp (rp :: toks_tl t ++ rest) f ltac:(cbn [needc_atom] in Hf; lia)) as (imp1 & E1 & I1).
      { exists rp, (toks_tl t ++ rest). split; [reflexivity|exact Hrp]. }
      cbn [List.length] in E1, I1. rewrite app_length in E1, I1.
      rewrite E1. cbn beta iota. rewrite lf_curis, (lf_is_true RPAREN rp Hrp). cbn [negb andb].
      rewrite ER. rewrite !lf_peekis, ?lf_adv2.
      destruct t as [|op a' t'|op e'].
      * assert (N1 : ttype x <> AND) by congruence. assert (N2 : ttype x <> OR) by congruence. rewrite (lf_is_false AND x N1), (lf_is_false OR x N2). cbn [orb].
        cbn [toks_tl app] in ER. subst rest. eexists. split; [reflexivity|].
        cbn [el_atom el_tl imp_atom imp_tail tree_atom tree_tail]. apply imp_eq_trans with (b := imp_expr (el_expr (S (List.length (toks_tl CNil) + List.length (x :: r))) e)); [exact I1|].
        split; cbn; now rewrite app_nil_r.
      * rewrite (lf_is_true AND x HX). cbn [orb]. rewrite <- ER.
        destruct (IHt Wt n (tree_expr n (el_expr (S (List.length (toks_tl (CAnd op a' t')) + List.length rest)) e)) rest f ltac:(lia) ST) as (imp2 & E2 & I2). rewrite E2. cbn beta iota.
        eexists. split; [reflexivity|]. apply imp_eq_add; assumption.
      * rewrite (lf_is_true OR x HX). rewrite orb_true_r. rewrite <- ER.
        destruct (IHt Wt n (tree_expr n (el_expr (S (List.length (toks_tl (COr op e')) + List.length rest)) e)) rest f ltac:(lia) ST) as (imp2 & E2 & I2). rewrite E2. cbn beta iota.
        eexists. split; [reflexivity|]. apply imp_eq_add; assumption.
    + (* ! ( e ) first *)
      destruct Wa as (Hnt & Hlp & We & Hrp). rewrite toks_not.
      destruct (not_guards pre nt lp (toks_expr e ++ rp :: toks_tl t ++ rest) Hnt Hlp) as [G1 G2]. rewrite G1, G2. cbn [orb].
      rewrite !lf_adv2, lf_cur.
      destruct (IHin We (negb n) lp (rp :: toks_tl t ++ rest) f ltac:(cbn [needc_atom] in Hf; lia)) as (imp1 & E1 & I1).
      { exists rp, (toks_tl t ++ rest). split; [reflexivity|exact Hrp]. }
      cbn [List.length] in E1, I1. rewrite app_length in E1, I1.
      rewrite E1. cbn beta iota. rewrite lf_curis, (lf_is_true RPAREN rp Hrp). cbn [negb andb].
      rewrite ER. rewrite !lf_peekis, ?lf_adv2.
      destruct t as [|op a' t'|op e'].
      * assert (N1 : ttype x <> AND) by congruence. assert (N2 : ttype x <> OR) by congruence. rewrite (lf_is_false AND x N1), (lf_is_false OR x N2). cbn [orb].
        cbn [toks_tl app] in ER. subst rest. eexists. split; [reflexivity|].
        cbn [el_atom el_tl imp_atom imp_tail tree_atom tree_tail]. apply imp_eq_trans with (b := imp_expr (el_expr (S (List.length (toks_tl CNil) + List.length (x :: r))) e)); [exact I1|].
        split; cbn; now rewrite app_nil_r.
      * rewrite (lf_is_true AND x HX). cbn [orb]. rewrite <- ER.
        destruct (IHt Wt n (tree_expr (negb n) (el_expr (S (List.length (toks_tl (CAnd op a' t')) + List.length rest)) e)) rest f ltac:(lia) ST) as (imp2 & E2 & I2). rewrite E2. cbn beta iota.
        eexists. split; [reflexivity|]. apply imp_eq_add; assumption.
      * rewrite (lf_is_true OR x HX). rewrite orb_true_r. rewrite <- ER.
        destruct (IHt Wt n (tree_expr (negb n) (el_expr (S (List.length (toks_tl (COr op e')) + List.length rest)) e)) rest f ltac:(lia) ST) as (imp2 & E2 & I2). rewrite E2. cbn beta iota.
        eexists. split; [reflexivity|]. apply imp_eq_add; assumption.
Qed.
End COND.

(* ====================================================================================================== *)
(*  fuel: three units per token are enough                                                                 *)
(* ====================================================================================================== *)
Section FUEL.
Variable autovars : list (text * autovar).
Variable switches : list (text * text).
Variable env_errors : bool.
Variable parse_format : toks -> res (token * text * text * toks).
Notation wfc_atom := (wfc_atom autovars switches env_errors parse_format).
Notation wfc_tl := (wfc_tl autovars switches env_errors parse_format).
Notation wfc_expr := (wfc_expr autovars switches env_errors parse_format).

Lemma need_bound :
  (forall a, wfc_atom a -> (needc_atom a <= 3 * List.length (toks_atom a))%nat) /\
  (forall t, wfc_tl t -> (needc_tl t <= 3 * List.length (toks_tl t) + 1)%nat) /\
  (forall e, wfc_expr e -> (needc_expr e <= 3 * List.length (toks_expr e) + 2)%nat).
Proof.
  apply cond_mutind.
  - intros lf W. cbn [needc_atom toks_atom]. destruct (form_guard autovars switches env_errors parse_format lf W) as (x & r & -> & _).
    cbn [List.length]. lia.
  - intros lp e IH rp (_ & W & _). specialize (IH W). cbn [needc_atom toks_atom List.length]. rewrite app_length. cbn [List.length]. lia.
  - intros nt lp e IH rp (_ & _ & W & _). specialize (IH W). cbn [needc_atom toks_atom List.length]. rewrite app_length. cbn [List.length]. lia.
  - intros _. cbn. lia.
  - intros op a IHa t IHt (_ & Wa & Wt). specialize (IHa Wa). specialize (IHt Wt). cbn [needc_tl toks_tl List.length]. rewrite app_length. lia.
  - intros op e IH (_ & W). specialize (IH W). cbn [needc_tl toks_tl List.length]. lia.
  - intros a IHa t IHt (Wa & Wt). specialize (IHa Wa). specialize (IHt Wt). cbn [needc_expr toks_expr]. rewrite app_length. lia.
Qed.
End FUEL.

(* ====================================================================================================== *)
(*  what the leaf records mean (the manual's table)                                                        *)
(* ====================================================================================================== *)
Section MEANING.
Variable autovars : list (text * autovar).
Variable switches : list (text * text).
Variable env_errors : bool.
Variable parse_format : toks -> res (token * text * text * toks).
Variable consts : list (text * text).
Variable script : text.
Variable St : Type.
Variable exec : cmd -> St -> stepres St.
Variable flag_set trainer_beaten : text -> St -> bool.
Variable cmp_var cmp_var_value : text -> text -> St -> comparison.
Notation ev := (eval_bexp St exec flag_set trainer_beaten cmp_var cmp_var_value).
Notation evl := (eval_leaf St exec flag_set trainer_beaten cmp_var cmp_var_value).
Notation lh := (leaf_holds St flag_set trainer_beaten cmp_var cmp_var_value).
Notation wf_lform := (wf_lform autovars switches env_errors parse_format).
Notation wf_head := (wf_head autovars switches env_errors parse_format).
Notation form_leaf := (form_leaf autovars consts).
Notation head_operand := (head_operand autovars consts).
Notation head_cmd := (head_cmd consts).
Notation mk := (mk autovars consts).
Notation tail_value := (tail_value consts).
Notation cmpv_value := (cmpv_value consts).

(* var(X) OP value(V): the raw-value comparison of X with V as written *)
Theorem value_leaf_meaning k ops o v s : ttype k = VAR ->
  lh (mkleaf consts k ops o v true) s = cmp_holds o (cmp_var_value (opnd consts ops) v s).
Proof. intros E. unfold leaf_holds, mkleaf. cbn. rewrite (kind_var k E). reflexivity. Qed.

(* the truth value a flag-like comparison asks for: flag(X) -> set; flag(X) == TRUE / != FALSE -> set; == FALSE / != TRUE -> unset *)
Definition flag_want (c : ctail) : bool := match c with CFlag o v => Bool.eqb (is EQ o) (is TRUE v) | _ => true end.

(* the test of a leaf form, on a given state *)
Definition form_test (lf : lform) (s : St) : bool :=
  match lf with
  | LPos h c =>
      match head_kind h with
      | KFlag => Bool.eqb (flag_set (head_operand h) s) (flag_want c)
      | KDefeated => Bool.eqb (trainer_beaten (head_operand h) s) (flag_want c)
      | KVar =>
          match c with
          | CVar o (VPlain vals) => cmp_holds (tail_op KVar c) (cmp_var (head_operand h) (opnd consts vals) s)      (* written operator *)
          | CVar o (VValue vt lp seg rp) =>
              cmp_holds (tail_op KVar c) (cmp_var_value (head_operand h) (cmpv_value (VValue vt lp seg rp)) s)       (* raw value *)
          | _ => cmp_holds ONe (cmp_var (head_operand h) (t "0") s)                                                  (* non-zero *)
          end
      end
  | LNeg _ h =>
      match head_kind h with
      | KFlag => negb (flag_set (head_operand h) s)                                                                  (* unset *)
      | KDefeated => negb (trainer_beaten (head_operand h) s)
      | KVar => cmp_holds OEq (cmp_var (head_operand h) (t "0") s)                                                   (* zero *)
      end
  end.
Definition form_head (lf : lform) : head := match lf with LPos h _ | LNeg _ h => h end.
Definition form_after (lf : lform) : nat := match lf with LPos _ c => List.length (ctail_toks c) | LNeg _ _ => 0%nat end.

(* evaluation of a leaf form: an AutoVar head first runs its command (one event; the script may end there), then tests *)
Definition form_eval (lf : lform) (k : nat) (s : St) : result St :=
  match head_cmd (form_head lf) (form_after lf + k) with
  | None => ([], s, Some (form_test lf s))
  | Some c => match exec c s with
              | Continue _ s' => ([c], s', Some (form_test lf s'))
              | Stop _ => ([c], s, None)
              end
  end.

Lemma eqb_true_r b : Bool.eqb b true = b. Proof. destruct b; reflexivity. Qed.
Lemma eqb_false_r b : Bool.eqb b false = negb b. Proof. destruct b; reflexivity. Qed.

Lemma form_holds lf k s : wf_lform lf -> lh (form_leaf lf k) s = form_test lf s.
Proof.
  destruct lf as [h c|nt h]; intros [W1 W2]; unfold leaf_holds, form_leaf, form_test, LeafForms.mk; cbn [lk loperand lop lvalue lstrict].
  - destruct (head_kind h) eqn:K.
    + f_equal. unfold flag_truthy. cbn [lop lvalue]. destruct c as [|o v|o v]; cbn [tail_op LeafForms.tail_value flag_want].
      * reflexivity.
      * destruct W2 as (_ & [Eo|Eo] & [Ev|Ev]); unfold is; rewrite Eo, Ev; reflexivity.
      * destruct W2 as [X _]; discriminate X.
    + destruct c as [|o v|o v]; cbn [tail_op LeafForms.tail_value tail_strict].
      * reflexivity.
      * destruct W2 as [X _]; congruence.
      * destruct v; reflexivity.
    + f_equal. unfold flag_truthy. cbn [lop lvalue]. destruct c as [|o v|o v]; cbn [tail_op LeafForms.tail_value flag_want].
      * reflexivity.
      * destruct W2 as (_ & [Eo|Eo] & [Ev|Ev]); unfold is; rewrite Eo, Ev; reflexivity.
      * destruct W2 as [X _]; discriminate X.
  - destruct (head_kind h); unfold flag_truthy; cbn [lop lvalue]; [apply eqb_false_r|reflexivity|apply eqb_false_r].
Qed.

Theorem form_leaf_meaning lf k s : wf_lform lf -> evl (form_leaf lf k) s = form_eval lf k s.
Proof.
  intros W. unfold eval_leaf, form_eval.
  assert (P : lpre (form_leaf lf k) = head_cmd (form_head lf) (form_after lf + k)) by (destruct lf; reflexivity).
  rewrite P. destruct (head_cmd (form_head lf) (form_after lf + k)) as [c|].
  - destruct (exec c s) as [s'|]; [rewrite (form_holds lf k s' W)|]; reflexivity.
  - rewrite (form_holds lf k s W). reflexivity.
Qed.

(* an AutoVar leaf  NAME(args) OP v : the command NAME(args) runs, then the variable configured for NAME is compared *)
Theorem autovar_leaf_meaning h c k s cm : wf_lform (LPos h c) -> head_cmd h (List.length (ctail_toks c) + k) = Some cm ->
  evl (form_leaf (LPos h c) k) s =
  match exec cm s with
  | Continue _ s' =>
      ([cm], s', Some (cmp_holds (tail_op KVar c)
                        ((if tail_strict c then cmp_var_value else cmp_var) (head_operand h) (tail_value KVar c) s')))
  | Stop _ => ([cm], s, None)
  end.
Proof.
  intros W HC. unfold eval_leaf. cbn [form_leaf LeafForms.form_leaf LeafForms.mk lpre]. rewrite HC.
  assert (K : head_kind h = KVar) by (destruct h; [discriminate HC|reflexivity|reflexivity]).
  destruct (exec cm s) as [s'|]; [|reflexivity]. unfold leaf_holds. cbn [LeafForms.mk lk loperand lop lvalue lstrict]. rewrite K. reflexivity.
Qed.

(* ---------- the written condition, evaluated left to right with short-circuit, leaves by the table above ---------- *)
Notation and_then := (and_then St).
Notation or_else := (or_else St).
Fixpoint cev_atom (k : nat) (a : catom) (s : St) : result St :=
  match a with
  | CLeaf lf => form_eval lf k s
  | CPar _ e _ => cev_expr (S k) e s
  | CNot _ _ e _ => negif St true (cev_expr (S k) e s)
  end
with cev_tl (k : nat) (t : ctl) (acc : result St) : result St :=
  match t with
  | CNil => acc
  | CAnd _ a t' => cev_tl k t' (and_then acc (cev_atom (List.length (toks_tl t') + k) a))
  | COr _ e => or_else acc (cev_expr k e)
  end
with cev_expr (k : nat) (e : cexpr) (s : St) : result St :=
  match e with CX a t => cev_tl k t (cev_atom (List.length (toks_tl t) + k) a s) end.

Notation wfc_atom := (wfc_atom autovars switches env_errors parse_format).
Notation wfc_tl := (wfc_tl autovars switches env_errors parse_format).
Notation wfc_expr := (wfc_expr autovars switches env_errors parse_format).
Notation el_atom := (el_atom autovars consts script).
Notation el_tl := (el_tl autovars consts script).
Notation el_expr := (el_expr autovars consts script).
Notation sev_atom := (sev_atom St exec flag_set trainer_beaten cmp_var cmp_var_value).
Notation sev_tail := (sev_tail St exec flag_set trainer_beaten cmp_var cmp_var_value).
Notation sev_expr := (sev_expr St exec flag_set trainer_beaten cmp_var cmp_var_value).

Lemma and_then_ext acc g g' : (forall s, g s = g' s) -> and_then acc g = and_then acc g'.
Proof. intros H. destruct acc as [[e s] [[|]|]]; cbn; try reflexivity. rewrite H. reflexivity. Qed.
Lemma or_else_ext acc g g' : (forall s, g s = g' s) -> or_else acc g = or_else acc g'.
Proof. intros H. destruct acc as [[e s] [[|]|]]; cbn; try reflexivity. rewrite H. reflexivity. Qed.

Lemma sev_is_cev :
  (forall a, wfc_atom a -> forall k s, sev_atom (el_atom k a) s = cev_atom k a s) /\
  (forall t, wfc_tl t -> forall k acc, sev_tail (el_tl k t) acc = cev_tl k t acc) /\
  (forall e, wfc_expr e -> forall k s, sev_expr (el_expr k e) s = cev_expr k e s).
Proof.
  apply cond_mutind.
  - intros lf W k s. cbn [LeafForms.el_atom BexpParse.sev_atom cev_atom]. apply form_leaf_meaning; exact W.
  - intros lp e IH rp (_ & W & _) k s. cbn [LeafForms.el_atom BexpParse.sev_atom cev_atom]. apply IH; exact W.
  - intros nt lp e IH rp (_ & _ & W & _) k s. cbn [LeafForms.el_atom BexpParse.sev_atom cev_atom]. rewrite IH by exact W. reflexivity.
  - intros _ k acc. reflexivity.
  - intros op a IHa t IHt (_ & Wa & Wt) k acc. cbn [LeafForms.el_tl BexpParse.sev_tail cev_tl]. rewrite IHt by exact Wt.
    f_equal. apply and_then_ext. intros s. apply IHa; exact Wa.
  - intros op e IH (_ & W) k acc. cbn [LeafForms.el_tl BexpParse.sev_tail cev_tl]. apply or_else_ext. intros s. apply IH; exact W.
  - intros a IHa t IHt (Wa & Wt) k s. cbn [LeafForms.el_expr BexpParse.sev_expr cev_expr]. rewrite IHt by exact Wt. f_equal. apply IHa; exact Wa.
Qed.

(* flag-like leaves of forms compare ==/!= with TRUE/FALSE, so '!( )' can be pushed to them *)
Lemma form_leaf_ok lf k : wf_lform lf -> leaf_ok (form_leaf lf k).
Proof.
  destruct lf as [h c|nt h]; intros [W1 W2]; unfold leaf_ok, form_leaf, LeafForms.form_leaf, LeafForms.mk; cbn [lk lop lvalue].
  - destruct (head_kind h) eqn:K; [|exact I|]; (destruct c as [|o v|o v]; cbn [tail_op LeafForms.tail_value];
      [split; left; reflexivity
      |split; [destruct (is EQ o); auto|destruct (is TRUE v); auto]
      |destruct W2 as [X _]; discriminate X]).
  - destruct (head_kind h); [|exact I|]; (split; [left; reflexivity|right; reflexivity]).
Qed.
Lemma el_lok :
  (forall a, wfc_atom a -> forall k, lok_atom (el_atom k a)) /\
  (forall t, wfc_tl t -> forall k, lok_tail (el_tl k t)) /\
  (forall e, wfc_expr e -> forall k, lok_expr (el_expr k e)).
Proof.
  apply cond_mutind.
  - intros lf W k. apply form_leaf_ok; exact W.
  - intros lp e IH rp (_ & W & _) k. apply IH; exact W.
  - intros nt lp e IH rp (_ & _ & W & _) k. apply IH; exact W.
  - intros _ k. exact I.
  - intros op a IHa t IHt (_ & Wa & Wt) k. split; [apply IHa; exact Wa|apply IHt; exact Wt].
  - intros op e IH (_ & W) k. apply IH; exact W.
  - intros a IHa t IHt (Wa & Wt) k. split; [apply IHa; exact Wa|apply IHt; exact Wt].
Qed.

Notation bool_expr := (bool_expr autovars switches env_errors parse_format consts).

(* MAIN THEOREM.  A condition '( e )' as it stands after if / elif / while / do-while, e any expression of the grammar above with
   any leaf forms.  The parser consumes exactly the tokens of e and stops at the closing parenthesis; the tree it returns evaluates
   (commands run, final state, value, short-circuit) like the written expression: '!' tightest, then '&&', then '||',
   parentheses override, left to right, leaves by [form_eval].  No hypothesis on the leaf parser. *)
Theorem condition_parses_to_its_meaning_forms e lp rest f :
  wfc_expr e -> stop rest -> (3 * List.length (toks_expr e) + 2 <= f)%nat ->
  exists T imp', bool_expr f false false script (lp :: toks_expr e ++ rest) = Ok (T, imp', rest) /\
    T = tree_expr false (el_expr (List.length rest) e) /\
    imp_eq imp' (imp_expr (el_expr (List.length rest) e)) /\
    forall s, ev T s = cev_expr (List.length rest) e s.
Proof.
  intros W ST Hf.
  pose proof (proj2 (proj2 (need_bound autovars switches env_errors parse_format)) e W) as NB.
  destruct (proj2 (proj2 (parser_builds_tree_forms autovars switches env_errors parse_format consts script)) e W false lp rest f ltac:(lia) ST)
    as (imp' & E & I).
  eexists _, imp'. split; [exact E|]. split; [reflexivity|]. split; [exact I|]. intros s.
  rewrite (proj2 (proj2 (tree_means_written St exec flag_set trainer_beaten cmp_var cmp_var_value)) _ (proj2 (proj2 el_lok) e W _) false s).
  rewrite (proj2 (proj2 sev_is_cev) e W). unfold negif. destruct (cev_expr _ e s) as [[ev0 s0] r]. reflexivity.
Qed.

(* ---------- without AutoVar leaves: a plain boolean value, the precedence reading ---------- *)
Fixpoint purec_atom (a : catom) : Prop :=
  match a with CLeaf lf => pure_form lf | CPar _ e _ => purec_expr e | CNot _ _ e _ => purec_expr e end
with purec_tl (t : ctl) : Prop :=
  match t with CNil => True | CAnd _ a t' => purec_atom a /\ purec_tl t' | COr _ e => purec_expr e end
with purec_expr (e : cexpr) : Prop :=
  match e with CX a t => purec_atom a /\ purec_tl t end.

(* value of an atom / a tail / an expression on a state *)
Fixpoint cden_atom (s : St) (a : catom) : bool :=
  match a with CLeaf lf => form_test lf s | CPar _ e _ => cden_expr s e | CNot _ _ e _ => negb (cden_expr s e) end
with cden_tl (s : St) (acc : bool) (t : ctl) : bool :=
  match t with CNil => acc | CAnd _ a t' => cden_tl s (acc && cden_atom s a) t' | COr _ e => acc || cden_expr s e end
with cden_expr (s : St) (e : cexpr) : bool :=
  match e with CX a t => cden_tl s (cden_atom s a) t end.
(* the '||'-separated groups of '&&'-separated atoms *)
Fixpoint cflat_tl (cur : list catom) (t : ctl) : list (list catom) :=
  match t with CNil => [cur] | CAnd _ a t' => cflat_tl (cur ++ [a]) t' | COr _ e => cur :: cflat_expr e end
with cflat_expr (e : cexpr) : list (list catom) :=
  match e with CX a t => cflat_tl [a] t end.

Lemma cden_is_or_of_ands s :
  (forall a : catom, True) /\
  (forall t cur, cden_tl s (forallb (cden_atom s) cur) t = existsb (forallb (cden_atom s)) (cflat_tl cur t)) /\
  (forall e, cden_expr s e = existsb (forallb (cden_atom s)) (cflat_expr e)).
Proof.
  apply cond_mutind; try (intros; exact I).
  - intros cur. cbn. now rewrite orb_false_r.
  - intros op a _ t IH cur. cbn [cden_tl cflat_tl]. rewrite <- IH. rewrite forallb_app. cbn. now rewrite andb_true_r.
  - intros op e IH cur. cbn [cden_tl cflat_tl existsb]. now rewrite IH.
  - intros a _ t IH. cbn [cden_expr cflat_expr]. rewrite <- IH. cbn. now rewrite andb_true_r.
Qed.

Lemma pure_form_eval lf k s : pure_form lf -> form_eval lf k s = ([], s, Some (form_test lf s)).
Proof. destruct lf as [[| |] c|nt [| |]]; cbn; intros H; try contradiction; reflexivity. Qed.

Lemma cev_pure :
  (forall a, purec_atom a -> forall k s, cev_atom k a s = ([], s, Some (cden_atom s a))) /\
  (forall t, purec_tl t -> forall k s b, cev_tl k t ([], s, Some b) = ([], s, Some (cden_tl s b t))) /\
  (forall e, purec_expr e -> forall k s, cev_expr k e s = ([], s, Some (cden_expr s e))).
Proof.
  apply cond_mutind.
  - intros lf H k s. cbn [cev_atom cden_atom]. apply pure_form_eval; exact H.
  - intros lp e IH rp H k s. exact (IH H (S k) s).
  - intros nt lp e IH rp H k s. cbn [cev_atom cden_atom]. rewrite (IH H (S k) s). reflexivity.
  - intros _ k s b. reflexivity.
  - intros op a IHa t IHt [Ha Ht] k s b. cbn [cev_tl cden_tl]. destruct b; cbn [BexpParse.and_then andb].
    + rewrite (IHa Ha _ s). cbn [app]. apply (IHt Ht).
    + apply (IHt Ht).
  - intros op e IH H k s b. cbn [cev_tl cden_tl]. destruct b; cbn [BexpParse.or_else orb]; [reflexivity|]. rewrite (IH H k s). reflexivity.
  - intros a IHa t IHt [Ha Ht] k s. cbn [cev_expr cden_expr]. rewrite (IHa Ha _ s). apply (IHt Ht).
Qed.

Corollary condition_value_is_precedence_reading_forms e lp rest f :
  wfc_expr e -> purec_expr e -> stop rest -> (3 * List.length (toks_expr e) + 2 <= f)%nat ->
  exists T imp', bool_expr f false false script (lp :: toks_expr e ++ rest) = Ok (T, imp', rest) /\
    forall s, ev T s = ([], s, Some (existsb (forallb (cden_atom s)) (cflat_expr e))).
Proof.
  intros W P ST Hf. destruct (condition_parses_to_its_meaning_forms e lp rest f W ST Hf) as (T & imp' & E & _ & _ & H).
  exists T, imp'. split; [exact E|]. intros s. rewrite H. rewrite (proj2 (proj2 cev_pure) e P).
  rewrite (proj2 (proj2 (cden_is_or_of_ands s)) e). reflexivity.
Qed.
End MEANING.

(* ====================================================================================================== *)
(*  the converse: what the leaf parser accepts                                                             *)
(* ====================================================================================================== *)
(* the shape of a form without AutoVar command: token types only; nothing is said of the tokens inside operand / values *)
Definition shape_cmpv (v : cmpv) : Prop :=
  match v with
  | VPlain vals => Forall (fun x => ttype x <> RPAREN /\ ttype x <> AND /\ ttype x <> OR) vals /\ ttype (hd eof0 vals) <> VALUE
  | VValue vt lp seg rp => ttype vt = VALUE /\ ttype lp = LPAREN /\ ttype rp = RPAREN /\ pdepth 0 seg = Some 0%nat
  end.
Definition shape_ctail (kind : lkind) (c : ctail) : Prop :=
  match c with
  | CNone => True
  | CFlag o v => kind <> KVar /\ (ttype o = EQ \/ ttype o = NEQ) /\ (ttype v = TRUE \/ ttype v = FALSE)
  | CVar o v => kind = KVar /\ (exists op, is_cmp_tok o = Some op) /\ shape_cmpv v
  end.
Definition shape_head (h : head) : Prop :=
  match h with
  | HOp k lp ops rp => kindtok k /\ ttype lp = LPAREN /\ ops <> [] /\ Forall (fun x => ttype x <> RPAREN) ops /\ ttype rp = RPAREN
  | _ => False
  end.
Definition shape_form (lf : lform) : Prop :=
  match lf with
  | LPos h c => shape_head h /\ shape_ctail (head_kind h) c
  | LNeg nt h => ttype nt = NOT /\ shape_head h
  end.
(* what separates a shape from a well-formed form: no EOF token inside, and a written comparison value is not empty *)
Definition inner_toks (lf : lform) : list token :=
  match lf with
  | LPos (HOp _ _ ops _) (CVar _ (VPlain vals)) => ops ++ vals
  | LPos (HOp _ _ ops _) (CVar _ (VValue _ _ seg _)) => ops ++ seg
  | LPos (HOp _ _ ops _) _ | LNeg _ (HOp _ _ ops _) => ops
  | _ => []
  end.
Definition value_written (lf : lform) : Prop := match lf with LPos _ (CVar _ (VPlain [])) => False | _ => True end.
(* the token after the leaf *)
Definition next_ok (lf : lform) (x : token) : Prop :=
  match lf with
  | LPos h CNone => match head_kind h with KVar => is_cmp_tok x = None | _ => ttype x <> EQ /\ ttype x <> NEQ end
  | LPos h (CVar _ (VPlain vals)) => (ttype x = RPAREN \/ ttype x = AND \/ ttype x = OR) /\ (vals = [] -> ttype x <> RPAREN)
  | _ => True
  end.

Section COMPLETE.
Variable autovars : list (text * autovar).
Variable switches : list (text * text).
Variable env_errors : bool.
Variable parse_format : toks -> res (token * text * text * toks).
Variable consts : list (text * text).
Variable script : text.
Notation leaf_expr := (leaf_expr autovars switches env_errors parse_format consts).
Notation eof_ended := Consume.eof_ended.

Lemma map_subst_cr l : map (ConstSites.subst consts) l = map (cr consts) l.
Proof. reflexivity. Qed.

(* the head of an accepted leaf without AutoVar command *)
Lemma plain_leaf_inv f ts0 l imp ts' : leaf_expr f script ts0 = Ok (l, imp, ts') -> eof_ended ts0 -> lpre l = None ->
  exists k lp ops rp rest,
    kindtok k /\ ttype lp = LPAREN /\ ops <> [] /\ Forall (fun x => ttype x <> RPAREN) ops /\ ttype rp = RPAREN /\ eof_ended rest /\
    ((exists nt, ttype nt = NOT /\ ts0 = cur ts0 :: nt :: k :: lp :: ops ++ rp :: rest /\ ts' = rest /\ imp = imp0 /\
          l = mkleaf consts k ops OEq (match kind_of k with KVar => t "0" | _ => t "FALSE" end) false) \/
     (ts0 = cur ts0 :: k :: lp :: ops ++ rp :: rest /\ leaf_tail consts f k ops rest = Ok (l, imp, ts'))).
Proof.
  intros H EO LP. unfold Parser.leaf_expr in H.
  remember (if peekis NOT ts0 then (true, adv ts0) else (false, ts0)) as p eqn:Ep. destruct p as [used_not ts].
  assert (EOts : eof_ended ts).
  { destruct (peekis NOT ts0); inversion Ep; subst; [eapply Consume.advs_eof; [apply Consume.advs_step, Consume.advs_refl|exact EO]|exact EO]. }
  cbv zeta in H.
  destruct (negb (peekis VAR ts) && negb (peek_is_autovar autovars ts) && negb (peekis FLAG ts) && negb (peekis DEFEATED ts)) eqn:G; [discriminate|].
  destruct (negb (peek_is_autovar autovars ts)) eqn:IA.
  2:{ exfalso. destruct (var_or_autovar autovars switches env_errors parse_format consts f script ts) as [[[r imp1] ts1]| | |]; try discriminate.
      destruct r as [[v c]|]; [|discriminate]. cbv beta iota zeta in H. destruct used_not.
      - injection H as Hl _ _. subst l. discriminate LP.
      - destruct (cond_var_operator consts f (adv ts1)) as [[[[o v0] st] ts5]| | |]; try discriminate. injection H as Hl _ _. subst l. discriminate LP. }
  rewrite andb_true_r in G.
  assert (OP : ts = cur ts :: adv ts /\ eof_ended (adv ts) /\ kindtok (cur (adv ts))).
  { destruct (peekis VAR ts) eqn:P1.
    { destruct (ConstSites.peekis_step VAR ts EOts P1 ltac:(discriminate)) as (E1 & C1 & EO1). split; [exact E1|]. split; [exact EO1|]. left. apply ConstSites.is_spec. exact C1. }
    destruct (peekis FLAG ts) eqn:P2.
    { destruct (ConstSites.peekis_step FLAG ts EOts P2 ltac:(discriminate)) as (E1 & C1 & EO1). split; [exact E1|]. split; [exact EO1|]. right; left. apply ConstSites.is_spec. exact C1. }
    destruct (peekis DEFEATED ts) eqn:P3; [|discriminate].
    destruct (ConstSites.peekis_step DEFEATED ts EOts P3 ltac:(discriminate)) as (E1 & C1 & EO1). split; [exact E1|]. split; [exact EO1|]. right; right. apply ConstSites.is_spec. exact C1. }
  destruct OP as (E1 & EO1 & KT).
  destruct (expect_peek LPAREN (adv ts)) as [ts2|] eqn:P1; [|discriminate].
  destruct (ConstSites.peek_step _ _ _ EO1 P1 ltac:(discriminate)) as (E2 & C2 & EO2).
  destruct (peekis RPAREN ts2) eqn:PR; [discriminate|].
  assert (E3 : ts2 = cur ts2 :: adv ts2 /\ eof_ended (adv ts2)).
  { destruct (ConstSites.step_nonEOF LPAREN ts2 EO2 C2 ltac:(discriminate)) as (r & E & A & EOr). rewrite A. auto. }
  destruct E3 as [E3 EO3].
  destruct (collect_until consts f (is RPAREN) (adv ts2) []) as [[parts ts4]|] eqn:CU; [|discriminate].
  destruct (ConstSites.collect_until_site _ _ _ _ _ _ _ CU EO3) as (seg & E4 & F & ST & EO4 & PA).
  destruct (ConstSites.step_nonEOF RPAREN ts4 EO4 ST ltac:(discriminate)) as (rest & E5 & A5 & EO5).
  cbv beta iota zeta in H. rewrite A5 in H.
  assert (STRUCT : ts = cur ts :: cur (adv ts) :: cur ts2 :: seg ++ cur ts4 :: rest).
  { rewrite E1 at 1. rewrite E2 at 1. rewrite E3 at 1. rewrite E4 at 1. now rewrite E5 at 1. }
  assert (SEGNE : seg <> []).
  { intros X. subst seg. cbn [app] in E4. rewrite <- E4 in ST. unfold peekis in PR. rewrite E3 in PR. unfold pk in PR.
    destruct (adv ts2) as [|y r]; [destruct EO3; congruence|]. cbn in PR, ST. congruence. }
  assert (LINE : cur (adv ts2) = hd eof0 seg).
  { rewrite E4. destruct seg; [congruence|reflexivity]. }
  exists (cur (adv ts)), (cur ts2), seg, (cur ts4), rest.
  split; [exact KT|]. split; [apply ConstSites.is_spec; exact C2|]. split; [exact SEGNE|].
  split; [eapply Forall_impl; [|exact F]; intros a Ha X; apply (ConstSites.is_spec RPAREN a) in X; congruence|].
  split; [apply ConstSites.is_spec; exact ST|]. split; [exact EO5|].
  rewrite PA in H. cbn [app] in H. rewrite LINE in H. fold (kind_of (cur (adv ts))) in H.
  change (join sp (map (ConstSites.subst consts) seg)) with (opnd consts seg) in H.
  destruct (peekis NOT ts0) eqn:PN; injection Ep as -> ->.
  - left. destruct (ConstSites.peekis_step NOT ts0 EO PN ltac:(discriminate)) as (Ea & Ca & _).
    exists (cur (adv ts0)). split; [apply ConstSites.is_spec; exact Ca|]. split; [rewrite Ea at 1; now rewrite STRUCT at 1|].
    injection H as Hl Hi Ht. subst l imp ts'. split; [reflexivity|]. split; [reflexivity|]. reflexivity.
  - right. split; [exact STRUCT|]. unfold leaf_tail. unfold mkleaf.
    destruct (kind_of (cur (adv ts0))); exact H.
Qed.

(* the comparison after var( ) *)
Lemma var_tail_inv f ts o v strict ts' : cond_var_operator consts f ts = Ok (o, v, strict, ts') -> eof_ended ts ->
  (is_cmp_tok (cur ts) = None /\ o = ONe /\ v = t "0" /\ strict = false /\ ts' = ts) \/
  (exists otk vals, ts = otk :: vals ++ ts' /\ is_cmp_tok otk = Some o /\ strict = false /\ v = opnd consts vals /\
      Forall (fun x => ttype x <> RPAREN /\ ttype x <> AND /\ ttype x <> OR) vals /\ ttype (hd eof0 vals) <> VALUE /\
      (ttype (cur ts') = RPAREN \/ ttype (cur ts') = AND \/ ttype (cur ts') = OR) /\ (vals = [] -> ttype (cur ts') <> RPAREN)) \/
  (exists otk vt lp seg rp, ts = otk :: vt :: lp :: seg ++ rp :: ts' /\ is_cmp_tok otk = Some o /\ strict = true /\
      ttype vt = VALUE /\ ttype lp = LPAREN /\ ttype rp = RPAREN /\ pdepth 0 seg = Some 0%nat /\
      v = join sp (wrap_value (map (cr consts) seg))).
Proof.
  intros H EO. unfold cond_var_operator in H. destruct (is_cmp_tok (cur ts)) as [o0|] eqn:CT.
  2:{ inversion H; subst. left. auto. }
  right. cbv zeta in H.
  assert (NE : curis EOF ts = false).
  { unfold curis. apply ConstSites.is_f. unfold is_cmp_tok in CT. intros X. rewrite X in CT. discriminate. }
  destruct (ConstSites.step_stream ts EO NE) as (r & E & A & EO1). rewrite A in H.
  destruct (curis RPAREN r) eqn:C1; [discriminate|].
  destruct (curis VALUE r) eqn:C2.
  - right. destruct (expect_peek LPAREN r) as [ts2|] eqn:P; [|discriminate].
    destruct (ConstSites.peek_step _ _ _ EO1 P ltac:(discriminate)) as (E1 & C3 & EO2).
    destruct (ConstSites.step_nonEOF LPAREN ts2 EO2 C3 ltac:(discriminate)) as (r2 & E2 & A2 & EO3). rewrite A2 in H.
    destruct (value_parts consts f (cur r) r2 0 []) as [[parts ts3]| | |] eqn:VP; try discriminate. injection H as Ho Hv Hs Ht; subst o v strict ts'.
    destruct (ConstSites.value_parts_site _ _ _ _ _ _ _ _ VP EO3) as (seg & rp & E3 & PD & RP & _ & PR).
    exists (cur ts), (cur r), (cur ts2), seg, rp.
    split; [rewrite E at 1; rewrite E1 at 1; rewrite E2 at 1; now rewrite E3|]. split; [exact CT|]. split; [reflexivity|].
    split; [apply ConstSites.is_spec; exact C2|]. split; [apply ConstSites.is_spec; exact C3|]. split; [apply ConstSites.is_spec; exact RP|].
    split; [exact PD|]. rewrite PR. reflexivity.
  - left. destruct (collect_until consts f (fun tk => is RPAREN tk || is AND tk || is OR tk) r []) as [[parts ts2]|] eqn:CU; [|discriminate].
    injection H as Ho Hv Hs Ht; subst o v strict ts'. destruct (ConstSites.collect_until_site _ _ _ _ _ _ _ CU EO1) as (seg & E1 & F & ST & _ & PR).
    exists (cur ts), seg. split; [rewrite E at 1; now rewrite E1|]. split; [exact CT|]. split; [reflexivity|]. split; [rewrite PR; reflexivity|].
    assert (STOPF : forall a, (is RPAREN a || is AND a || is OR a) = false -> ttype a <> RPAREN /\ ttype a <> AND /\ ttype a <> OR).
    { intros a Ha. apply orb_false_iff in Ha. destruct Ha as [Ha H3]. apply orb_false_iff in Ha. destruct Ha as [H1 H2].
      split; [|split]; intros X; apply ConstSites.is_spec in X; congruence. }
    split; [eapply Forall_impl; [|exact F]; exact STOPF|].
    assert (STOPT : ttype (cur ts2) = RPAREN \/ ttype (cur ts2) = AND \/ ttype (cur ts2) = OR).
    { apply orb_true_iff in ST. destruct ST as [ST|ST]; [apply orb_true_iff in ST; destruct ST as [ST|ST]|]; apply ConstSites.is_spec in ST; auto. }
    split; [|split; [exact STOPT|]].
    + destruct seg as [|y seg']; [cbn; discriminate|]. cbn [hd]. rewrite E1 in C2. cbn in C2. intros X. apply ConstSites.is_spec in X. unfold curis in C2. cbn in C2. congruence.
    + intros ->. cbn [app] in E1. subst r. intros X. apply ConstSites.is_spec in X. unfold curis in C1. congruence.
Qed.

(* the comparison after flag( ) / defeated( ) *)
Lemma flag_tail_inv ts nm o v ts' : cond_flag_operator ts nm = Ok (o, v, ts') -> eof_ended ts ->
  (ttype (cur ts) <> EQ /\ ttype (cur ts) <> NEQ /\ o = OEq /\ v = t "TRUE" /\ ts' = ts) \/
  (exists otk vtk, ts = otk :: vtk :: ts' /\ (ttype otk = EQ \/ ttype otk = NEQ) /\ (ttype vtk = TRUE \/ ttype vtk = FALSE) /\
      o = (if is EQ otk then OEq else ONe) /\ v = (if is TRUE vtk then t "TRUE" else t "FALSE")).
Proof.
  intros H EO. unfold cond_flag_operator in H.
  assert (CMP : (ttype (cur ts) = EQ \/ ttype (cur ts) = NEQ) ->
     exists otk vtk, ts = otk :: vtk :: ts' /\ (ttype otk = EQ \/ ttype otk = NEQ) /\ (ttype vtk = TRUE \/ ttype vtk = FALSE) /\
      o = (if is EQ otk then OEq else ONe) /\ v = (if is TRUE vtk then t "TRUE" else t "FALSE")).
  { intros HT.
    assert (H' : (let o0 := if curis EQ ts then OEq else ONe in let ts1 := adv ts in
                  if curis RPAREN ts1 then err_range (cur ts) (cur ts1) "missing comparison value for flag-like operator"
                  else if curis TRUE ts1 then Ok (o0, t "TRUE", adv ts1)
                  else if curis FALSE ts1 then Ok (o0, t "FALSE", adv ts1)
                  else err_tok (cur ts1) "invalid comparison value. Only TRUE and FALSE are allowed") = Ok (o, v, ts')).
    { destruct HT as [X|X]; rewrite X in H; exact H. }
    clear H. cbv zeta in H'.
    assert (NE : curis EOF ts = false) by (unfold curis; apply ConstSites.is_f; destruct HT as [X|X]; rewrite X; discriminate).
    destruct (ConstSites.step_stream ts EO NE) as (r & E & A & EO1). rewrite A in H'.
    destruct (curis RPAREN r) eqn:C1; [discriminate|].
    destruct (curis TRUE r) eqn:C2.
    - destruct (ConstSites.step_nonEOF TRUE r EO1 C2 ltac:(discriminate)) as (r2 & E2 & A2 & _). rewrite A2 in H'. injection H' as <- <- <-.
      exists (cur ts), (cur r). split; [rewrite E at 1; now rewrite E2 at 1|]. split; [exact HT|]. split; [left; apply ConstSites.is_spec; exact C2|].
      split; [reflexivity|]. unfold curis in C2. rewrite C2. reflexivity.
    - destruct (curis FALSE r) eqn:C3; [|discriminate].
      destruct (ConstSites.step_nonEOF FALSE r EO1 C3 ltac:(discriminate)) as (r2 & E2 & A2 & _). rewrite A2 in H'. injection H' as <- <- <-.
      exists (cur ts), (cur r). split; [rewrite E at 1; now rewrite E2 at 1|]. split; [exact HT|]. split; [right; apply ConstSites.is_spec; exact C3|].
      split; [reflexivity|]. unfold curis in C2. rewrite C2. reflexivity. }
  destruct (toktype_eq_dec (ttype (cur ts)) EQ) as [X|X]; [right; apply CMP; auto|].
  destruct (toktype_eq_dec (ttype (cur ts)) NEQ) as [Y|Y]; [right; apply CMP; auto|].
  left. destruct (ttype (cur ts)); try congruence; injection H as <- <- <-; auto.
Qed.

Notation wf_lform := (wf_lform autovars switches env_errors parse_format).
Notation form_leaf := (form_leaf autovars consts).

Lemma shape_wf lf : shape_form lf -> Forall (fun x => ttype x <> EOF) (inner_toks lf) -> value_written lf -> wf_lform lf.
Proof.
  assert (OK : forall ops, ops <> [] -> Forall (fun x => ttype x <> RPAREN) ops -> Forall (fun x => ttype x <> EOF) ops -> operand_ok ops).
  { intros ops N A B. split; [exact N|]. apply Forall_forall. intros x Hx. rewrite Forall_forall in A, B. auto. }
  destruct lf as [[k lp ops rp|name|name lp a rp] c|nt [k lp ops rp|name|name lp a rp]]; cbn [shape_form shape_head]; try tauto.
  - intros [(Hk & Hlp & N & A & Hrp) SC] NE VW. cbn [LeafForms.wf_lform LeafForms.wf_head].
    assert (NEops : Forall (fun x => ttype x <> EOF) ops).
    { destruct c as [|o v|o [vals|vt lp2 seg rp2]]; cbn [inner_toks] in NE; try exact NE; apply Forall_app in NE; tauto. }
    split; [split; [exact Hk|split; [exact Hlp|split; [apply OK; assumption|exact Hrp]]]|].
    destruct c as [|o v|o [vals|vt lp2 seg rp2]]; cbn [shape_ctail wf_ctail shape_cmpv wf_cmpv] in *.
    + exact I.
    + exact SC.
    + destruct SC as (K & O & F & V). split; [exact K|]. split; [exact O|]. cbn [inner_toks] in NE. apply Forall_app in NE. destruct NE as [_ NE].
      split; [destruct vals; [contradiction|discriminate]|]. split; [exact V|].
      apply Forall_forall. intros x Hx. rewrite Forall_forall in F, NE. destruct (F x Hx) as (A1 & A2 & A3). auto.
    + destruct SC as (K & O & V1 & V2 & V3 & V4). split; [exact K|]. split; [exact O|]. cbn [inner_toks] in NE. apply Forall_app in NE. tauto.
  - intros (Hnt & Hk & Hlp & N & A & Hrp) NE _. cbn [inner_toks] in NE. cbn [LeafForms.wf_lform LeafForms.wf_head].
    split; [exact Hnt|]. split; [exact Hk|split; [exact Hlp|split; [apply OK; assumption|exact Hrp]]].
Qed.

(* COMPLETENESS for leaves without AutoVar command: whatever [leaf_expr] accepts (on a stream that ends with EOF) is one of the
   forms, the tokens consumed are exactly the tokens of the form, and the record returned is the record of the form *)
Theorem accepted_plain_leaf_is_a_form f ts0 l imp ts' :
  leaf_expr f script ts0 = Ok (l, imp, ts') -> eof_ended ts0 -> lpre l = None ->
  exists lf, pure_form lf /\ shape_form lf /\ ts0 = cur ts0 :: form_toks lf ++ ts' /\
             l = form_leaf lf 0 /\ imp = imp0 /\ next_ok lf (cur ts').
Proof.
  intros H EO LP. destruct (plain_leaf_inv f ts0 l imp ts' H EO LP) as (k & lp & ops & rp & rest & Hk & Hlp & N & A & Hrp & EOr & C).
  assert (SH : shape_head (HOp k lp ops rp)) by (cbn; auto).
  destruct C as [(nt & Hnt & E & -> & -> & ->)|[E T]].
  - exists (LNeg nt (HOp k lp ops rp)). split; [exact I|]. split; [split; assumption|]. split; [|split; [reflexivity|split; [reflexivity|exact I]]].
    rewrite E at 1. cbn [form_toks head_toks app]. rewrite <- app_assoc. reflexivity.
  - unfold leaf_tail in T. destruct (kind_of k) eqn:K.
    + destruct (cond_flag_operator rest "flag") as [[[o v] ts5]| | |] eqn:CF; try discriminate. injection T as <- <- <-.
      destruct (flag_tail_inv rest _ o v ts5 CF EOr) as [(N1 & N2 & -> & -> & ->)|(otk & vtk & ER & Ho & Hv & -> & ->)].
      * exists (LPos (HOp k lp ops rp) CNone). split; [exact I|]. split; [split; [exact SH|exact I]|]. split; [|split; [|split; [reflexivity|]]].
        -- rewrite E at 1. cbn [form_toks head_toks ctail_toks app]. rewrite app_nil_r, <- app_assoc. reflexivity.
        -- cbn [LeafForms.form_leaf]. rewrite mk_op. cbn [head_kind]. rewrite K. reflexivity.
        -- cbn [next_ok head_kind]. rewrite K. auto.
      * exists (LPos (HOp k lp ops rp) (CFlag otk vtk)). split; [exact I|]. split; [split; [exact SH|]|]. 2: split; [|split; [|split; [reflexivity|exact I]]].
        -- cbn [shape_ctail head_kind]. rewrite K. split; [discriminate|auto].
        -- rewrite E at 1. rewrite ER. cbn [form_toks head_toks ctail_toks app]. rewrite <- !app_assoc. reflexivity.
        -- cbn [LeafForms.form_leaf]. rewrite mk_op. cbn [head_kind]. rewrite K. reflexivity.
    + destruct (cond_var_operator consts f rest) as [[[[o v] st] ts5]| | |] eqn:CV; try discriminate. injection T as <- <- <-.
      destruct (var_tail_inv f rest o v st ts5 CV EOr) as [(N1 & -> & -> & -> & ->)|[(otk & vals & ER & Ho & -> & -> & F & V & ST & VE)|(otk & vt & lp2 & seg & rp2 & ER & Ho & -> & Hvt & Hlp2 & Hrp2 & PD & ->)]].
      * exists (LPos (HOp k lp ops rp) CNone). split; [exact I|]. split; [split; [exact SH|exact I]|]. split; [|split; [|split; [reflexivity|]]].
        -- rewrite E at 1. cbn [form_toks head_toks ctail_toks app]. rewrite app_nil_r, <- app_assoc. reflexivity.
        -- cbn [LeafForms.form_leaf]. rewrite mk_op. cbn [head_kind]. rewrite K. reflexivity.
        -- cbn [next_ok head_kind]. rewrite K. exact N1.
      * exists (LPos (HOp k lp ops rp) (CVar otk (VPlain vals))). split; [exact I|]. split; [split; [exact SH|]|]. 2: split; [|split; [|split; [reflexivity|]]].
        -- cbn [shape_ctail shape_cmpv head_kind]. rewrite K. split; [reflexivity|]. split; [exists o; exact Ho|]. split; assumption.
        -- rewrite E at 1. rewrite ER. cbn [form_toks head_toks ctail_toks cmpv_toks app]. rewrite <- !app_assoc. reflexivity.
        -- cbn [LeafForms.form_leaf]. rewrite mk_op. cbn [head_kind]. rewrite K. cbn [tail_op LeafForms.tail_value LeafForms.cmpv_value tail_strict]. rewrite Ho. reflexivity.
        -- cbn [next_ok]. split; assumption.
      * exists (LPos (HOp k lp ops rp) (CVar otk (VValue vt lp2 seg rp2))). split; [exact I|]. split; [split; [exact SH|]|]. 2: split; [|split; [|split; [reflexivity|exact I]]].
        -- cbn [shape_ctail shape_cmpv head_kind]. rewrite K. split; [reflexivity|]. split; [exists o; exact Ho|]. auto.
        -- rewrite E at 1. rewrite ER. cbn [form_toks head_toks ctail_toks cmpv_toks app]. rewrite <- !app_assoc. cbn [app]. rewrite <- ?app_assoc. reflexivity.
        -- cbn [LeafForms.form_leaf]. rewrite mk_op. cbn [head_kind]. rewrite K. cbn [tail_op LeafForms.tail_value LeafForms.cmpv_value tail_strict]. rewrite Ho. reflexivity.
    + destruct (cond_flag_operator rest "defeated") as [[[o v] ts5]| | |] eqn:CF; try discriminate. injection T as <- <- <-.
      destruct (flag_tail_inv rest _ o v ts5 CF EOr) as [(N1 & N2 & -> & -> & ->)|(otk & vtk & ER & Ho & Hv & -> & ->)].
      * exists (LPos (HOp k lp ops rp) CNone). split; [exact I|]. split; [split; [exact SH|exact I]|]. split; [|split; [|split; [reflexivity|]]].
        -- rewrite E at 1. cbn [form_toks head_toks ctail_toks app]. rewrite app_nil_r, <- app_assoc. reflexivity.
        -- cbn [LeafForms.form_leaf]. rewrite mk_op. cbn [head_kind]. rewrite K. reflexivity.
        -- cbn [next_ok head_kind]. rewrite K. auto.
      * exists (LPos (HOp k lp ops rp) (CFlag otk vtk)). split; [exact I|]. split; [split; [exact SH|]|]. 2: split; [|split; [|split; [reflexivity|exact I]]].
        -- cbn [shape_ctail head_kind]. rewrite K. split; [discriminate|auto].
        -- rewrite E at 1. rewrite ER. cbn [form_toks head_toks ctail_toks app]. rewrite <- !app_assoc. reflexivity.
        -- cbn [LeafForms.form_leaf]. rewrite mk_op. cbn [head_kind]. rewrite K. reflexivity.
Qed.

(* PARTIAL completeness for AutoVar leaves: an accepted leaf with a preamble is '[!] COMMAND comparison' where COMMAND is what the
   command parser [command_stmt] accepts after a name configured as AutoVar, and the comparison is parsed like after var( ).
   Missing for a full converse: that the tokens [command_stmt] consumes are an [arglist] of CmdArgs.v (CmdArgs.v proves only the
   direction grammar -> parser, and format( ) arguments are parsed by an abstract function). *)
Theorem accepted_autovar_leaf_partial f ts0 l imp ts' c :
  leaf_expr f script ts0 = Ok (l, imp, ts') -> lpre l = Some c ->
  let ts := if peekis NOT ts0 then adv ts0 else ts0 in
  exists av ts2,
    peekis IDENT ts = true /\ assoc autovars (tlit (pk 1 ts)) = Some av /\
    command_stmt switches env_errors parse_format consts f script (adv ts) = Ok (c, imp, ts2) /\
    lk l = KVar /\ lline l = tline (ctok c) /\
    loperand l = match avPos av with Some p => nth (Z.to_nat p) (cargs c) [] | None => avName av end /\
    match avPos av with Some p => (0 <= p < Z.of_nat (List.length (cargs c)))%Z | None => True end /\
    (if peekis NOT ts0 then lop l = OEq /\ lvalue l = t "0" /\ lstrict l = false /\ ts' = adv ts2
     else cond_var_operator consts f (adv ts2) = Ok (lop l, lvalue l, lstrict l, ts')).
Proof.
  intros H LP. unfold Parser.leaf_expr in H.
  destruct (peekis NOT ts0) eqn:PN; cbv beta iota zeta in *.
  - set (ts := adv ts0) in *.
    destruct (negb (peekis VAR ts) && negb (peek_is_autovar autovars ts) && negb (peekis FLAG ts) && negb (peekis DEFEATED ts)) eqn:G; [discriminate|].
    destruct (negb (peek_is_autovar autovars ts)) eqn:IA.
    { exfalso. destruct (expect_peek LPAREN (adv ts)) as [ts2|]; [|discriminate]. destruct (peekis RPAREN ts2); [discriminate|].
      destruct (collect_until consts f (is RPAREN) (adv ts2) []) as [[parts ts4]|]; [|discriminate]. cbv beta iota zeta in H.
      injection H as <- _ _. discriminate LP. }
    apply negb_false_iff in IA. unfold peek_is_autovar in IA. apply andb_true_iff in IA. destruct IA as [ID IA].
    unfold var_or_autovar in H. destruct (peekis VAR ts) eqn:PV.
    { destruct (expect_peek LPAREN (adv ts)); discriminate. }
    destruct (assoc autovars (tlit (pk 1 ts))) as [av|] eqn:AV; [|discriminate].
    destruct (command_stmt switches env_errors parse_format consts f script (adv ts)) as [[[c0 imp0'] ts2]| | |] eqn:CS; try discriminate.
    cbv beta iota zeta in H. exists av, ts2. destruct (avPos av) as [p|] eqn:AP.
    + destruct ((p <? 0)%Z || (p >? Z.of_nat (List.length (cargs c0)) - 1)%Z) eqn:RG; [discriminate|]. cbv beta iota zeta in H.
      injection H as <- <- <-. cbn in LP. injection LP as <-. cbn [lk lline loperand lop lvalue lstrict].
      apply orb_false_iff in RG. destruct RG as [R1 R2]. apply Z.ltb_ge in R1. rewrite Z.gtb_ltb in R2. apply Z.ltb_ge in R2.
      repeat (split; [first [exact ID|reflexivity|lia]|]). auto.
    + cbv beta iota zeta in H. injection H as <- <- <-. cbn in LP. injection LP as <-. cbn [lk lline loperand lop lvalue lstrict].
      repeat (split; [first [exact ID|reflexivity|exact I]|]). auto.
  - set (ts := ts0) in *.
    destruct (negb (peekis VAR ts) && negb (peek_is_autovar autovars ts) && negb (peekis FLAG ts) && negb (peekis DEFEATED ts)) eqn:G; [discriminate|].
    destruct (negb (peek_is_autovar autovars ts)) eqn:IA.
    { exfalso. destruct (expect_peek LPAREN (adv ts)) as [ts2|]; [|discriminate]. destruct (peekis RPAREN ts2); [discriminate|].
      destruct (collect_until consts f (is RPAREN) (adv ts2) []) as [[parts ts4]|]; [|discriminate]. cbv beta iota zeta in H.
      destruct (if is VAR (cur (adv ts)) then KVar else if is FLAG (cur (adv ts)) then KFlag else KDefeated).
      - destruct (cond_flag_operator (adv ts4) "flag") as [[[o v] ts5]| | |]; try discriminate. injection H as <- _ _. discriminate LP.
      - destruct (cond_var_operator consts f (adv ts4)) as [[[[o v] st] ts5]| | |]; try discriminate. injection H as <- _ _. discriminate LP.
      - destruct (cond_flag_operator (adv ts4) "defeated") as [[[o v] ts5]| | |]; try discriminate. injection H as <- _ _. discriminate LP. }
    apply negb_false_iff in IA. unfold peek_is_autovar in IA. apply andb_true_iff in IA. destruct IA as [ID IA].
    unfold var_or_autovar in H. destruct (peekis VAR ts) eqn:PV.
    { destruct (expect_peek LPAREN (adv ts)); discriminate. }
    destruct (assoc autovars (tlit (pk 1 ts))) as [av|] eqn:AV; [|discriminate].
    destruct (command_stmt switches env_errors parse_format consts f script (adv ts)) as [[[c0 imp0'] ts2]| | |] eqn:CS; try discriminate.
    cbv beta iota zeta in H. exists av, ts2. destruct (avPos av) as [p|] eqn:AP.
    + destruct ((p <? 0)%Z || (p >? Z.of_nat (List.length (cargs c0)) - 1)%Z) eqn:RG; [discriminate|]. cbv beta iota zeta in H.
      destruct (cond_var_operator consts f (adv ts2)) as [[[[o v] st] ts5]| | |] eqn:CV; try discriminate.
      injection H as <- <- <-. cbn in LP. injection LP as <-. cbn [lk lline loperand lop lvalue lstrict].
      apply orb_false_iff in RG. destruct RG as [R1 R2]. apply Z.ltb_ge in R1. rewrite Z.gtb_ltb in R2. apply Z.ltb_ge in R2.
      repeat (split; [first [exact ID|reflexivity|lia]|]). reflexivity.
    + cbv beta iota zeta in H. destruct (cond_var_operator consts f (adv ts2)) as [[[[o v] st] ts5]| | |] eqn:CV; try discriminate.
      injection H as <- <- <-. cbn in LP. injection LP as <-. cbn [lk lline loperand lop lvalue lstrict].
      repeat (split; [first [exact ID|reflexivity|exact I]|]). reflexivity.
Qed.
End COMPLETE.


(* ====================================================================================================== *)
(*  the premises are satisfiable: a condition lexed from text, with every kind of head and comparison       *)
(* ====================================================================================================== *)
Module Examples.
Definition lex0 (s : string) : toks := lex (fun _ => false) (fun _ => false) (fun _ => false) (t s).
Definition pf0 : toks -> res (token * text * text * toks) := fun _ => Panic.
Definition consts0 : list (text * text) := [(t "FOO", t "5")].
Definition autovars0 : list (text * autovar) :=
  [ (t "checkitem", {| avName := t "VAR_RESULT"; avPos := None |});
    (t "specialvar", {| avName := []; avPos := Some 0%Z |});
    (t "getpartysize", {| avName := t "VAR_RESULT"; avPos := None |}) ].
Definition src : string := "(flag(A) && !(checkitem(ITEM_X, 2) >= value((FOO * 2)) || !specialvar(VAR_TEMP, 7)) || getpartysize == FOO) {".
Definition ts0 : toks := Eval vm_compute in lex0 src.
Definition tok (i : nat) : token := nth i ts0 eof0.
Arguments tok : simpl never.

Definition lf_flag := LPos (HOp (tok 1) (tok 2) [tok 3] (tok 4)) CNone.
Definition lf_check := LPos (HCmd (tok 8) (tok 9) ([PTok (tok 10)], [(tok 11, [PTok (tok 12)])]) (tok 13))
                            (CVar (tok 14) (VValue (tok 15) (tok 16) [tok 17; tok 18; tok 19; tok 20; tok 21] (tok 22))).
Definition lf_special := LNeg (tok 24) (HCmd (tok 25) (tok 26) ([PTok (tok 27)], [(tok 28, [PTok (tok 29)])]) (tok 30)).
Definition lf_party := LPos (HCmd0 (tok 33)) (CVar (tok 34) (VPlain [tok 35])).
Definition ex : cexpr :=
  CX (CLeaf lf_flag)
     (CAnd (tok 5) (CNot (tok 6) (tok 7) (CX (CLeaf lf_check) (COr (tok 23) (CX (CLeaf lf_special) CNil))) (tok 31))
           (COr (tok 32) (CX (CLeaf lf_party) CNil))).
Definition rest0 : list token := skipn 36 ts0.

Example ex_tokens : ts0 = tok 0 :: toks_expr ex ++ rest0 /\ stop rest0.
Proof. split; [vm_compute; reflexivity|]. eexists _, _. split; vm_compute; reflexivity. Qed.

Ltac tt := vm_compute; first [reflexivity | discriminate].
Example ex_wf : wfc_expr autovars0 [] false pf0 ex.
Proof.
  unfold ex. cbn [wfc_expr wfc_atom wfc_tl].
  repeat match goal with |- _ /\ _ => split | |- True => exact I end; try (match goal with |- ttype _ = _ => tt end).
  - (* flag(A) *) cbn. split; [split; [right; left; tt|split; [tt|split; [split; [discriminate|repeat constructor; tt]|tt]]]|exact I].
  - (* checkitem(ITEM_X, 2) >= value((FOO * 2)) *)
    cbn [lf_check wf_lform wf_head head_kind wf_ctail wf_cmpv]. split; [split; [tt|split; [|split; [tt|split; [tt|split]]]]|].
    + eexists. split; [vm_compute; reflexivity|exact I].
    + split; cbn; repeat constructor; tt.
    + cbn. repeat (apply bal_other; [reflexivity|]). apply bal_nil.
    + split; [reflexivity|]. split; [eexists; vm_compute; reflexivity|]. split; [tt|split; [tt|split; [tt|split; [vm_compute; reflexivity|repeat constructor; tt]]]].
  - (* !specialvar(VAR_TEMP, 7) *)
    cbn [lf_special wf_lform wf_head]. split; [tt|]. split; [tt|split; [|split; [tt|split; [tt|split]]]].
    + eexists. split; [vm_compute; reflexivity|]. cbn. lia.
    + split; cbn; repeat constructor; tt.
    + cbn. repeat (apply bal_other; [reflexivity|]). apply bal_nil.
  - (* getpartysize == FOO *)
    cbn [lf_party wf_lform wf_head head_kind wf_ctail wf_cmpv]. split; [split; [tt|eexists; split; vm_compute; reflexivity]|].
    split; [reflexivity|]. split; [eexists; vm_compute; reflexivity|]. split; [discriminate|split; [tt|repeat constructor; tt]].
Qed.

(* the model, run on the lexed text, returns the tree of the theorem *)
Example ex_run :
  exists imp', bool_expr autovars0 [] false pf0 consts0 200 false false (t "S") ts0 =
                 Ok (tree_expr false (el_expr autovars0 consts0 (t "S") (List.length rest0) ex), imp', rest0).
Proof. eexists. vm_compute. reflexivity. Qed.

(* the records of the four leaves *)
Example ex_leaf_check :
  let l := form_leaf autovars0 consts0 lf_check 16 in
  lk l = KVar /\ loperand l = t "VAR_RESULT" /\ lop l = OGe /\ lvalue l = t "( ( 5 * 2 ) )" /\ lstrict l = true /\
  option_map (fun c => (cname c, cargs c, Ast.cid c)) (lpre l) = Some (t "checkitem", [t "ITEM_X"; t "2"], 31%nat).
Proof. vm_compute. repeat split; reflexivity. Qed.
Example ex_leaf_special :
  let l := form_leaf autovars0 consts0 lf_special 8 in
  lk l = KVar /\ loperand l = t "VAR_TEMP" /\ lop l = OEq /\ lvalue l = t "0" /\ lstrict l = false /\
  option_map (fun c => (cname c, cargs c)) (lpre l) = Some (t "specialvar", [t "VAR_TEMP"; t "7"]).
Proof. vm_compute. repeat split; reflexivity. Qed.
Example ex_leaf_party :
  let l := form_leaf autovars0 consts0 lf_party 3 in
  lk l = KVar /\ loperand l = t "VAR_RESULT" /\ lop l = OEq /\ lvalue l = t "5" /\ lstrict l = false /\
  option_map (fun c => (cname c, cargs c)) (lpre l) = Some (t "getpartysize", []).
Proof. vm_compute. repeat split; reflexivity. Qed.

(* the main theorem applied: the condition of the text evaluates like the written expression *)
Example ex_meaning (St : Type) (exec : cmd -> St -> stepres St) (flag_set trainer_beaten : text -> St -> bool)
        (cmp_var cmp_var_value : text -> text -> St -> comparison) :
  exists T imp', bool_expr autovars0 [] false pf0 consts0 200 false false (t "S") ts0 = Ok (T, imp', rest0) /\
    forall s, eval_bexp St exec flag_set trainer_beaten cmp_var cmp_var_value T s =
              cev_expr autovars0 consts0 St exec flag_set trainer_beaten cmp_var cmp_var_value (List.length rest0) ex s.
Proof.
  destruct ex_tokens as [E ST].
  destruct (condition_parses_to_its_meaning_forms autovars0 [] false pf0 consts0 (t "S") St exec flag_set trainer_beaten cmp_var cmp_var_value
              ex (tok 0) rest0 200 ex_wf ST ltac:(vm_compute; lia)) as (T & imp' & E1 & _ & _ & H).
  exists T, imp'. split; [rewrite E at 1; exact E1|exact H].
Qed.

(* the hypotheses of leaf_varcmp_value are satisfiable:  var(VAR_X) != value((FOO * 2))  *)
Definition ts1 : toks := Eval vm_compute in lex0 "var(VAR_X) != value((FOO * 2)) )".
Definition tk1 (i : nat) : token := nth i ts1 eof0.
Arguments tk1 : simpl never.
Example ex_value_leaf :
  leaf_spec autovars0 [] false pf0 consts0 (t "S") 1
    (tk1 0 :: tk1 1 :: [tk1 2] ++ tk1 3 :: tk1 4 :: tk1 5 :: tk1 6 :: [tk1 7; tk1 8; tk1 9; tk1 10; tk1 11] ++ [tk1 12])
    (mkleaf consts0 (tk1 0) [tk1 2] ONe (t "( ( 5 * 2 ) )") true) imp0.
Proof.
  apply (leaf_varcmp_value autovars0 [] false pf0 consts0 (t "S") 1 (tk1 0) (tk1 1) [tk1 2] (tk1 3) (tk1 4) ONe (tk1 5) (tk1 6)
           [tk1 7; tk1 8; tk1 9; tk1 10; tk1 11] (tk1 12)); try tt; try lia.
  - split; [discriminate|repeat constructor; tt].
  - repeat constructor; tt.
Qed.
End Examples.

