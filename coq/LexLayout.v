(* C19: the sequence of token types and literals does not depend on positions (T1), nor on layout - whitespace and
   comments - in front of a token (T2). *)
From Coq Require Import List String Ascii ZArith NArith Lia Bool.
From Pory Require Import Lexer.
Import ListNotations.
Open Scope list_scope.

Definition shape (tk : token) : toktype * text := (ttype tk, tlit tk).

Section L.
Variable is_letter_hi is_digit_hi is_space_hi : N -> bool.
Notation is_letter := (is_letter is_letter_hi).
Notation is_digit := (is_digit is_digit_hi).
Notation is_space := (is_space is_space_hi).
Notation read_ident := (read_ident is_letter_hi is_digit_hi).
Notation next_token_aux := (next_token_aux is_letter_hi is_digit_hi is_space_hi).
Notation lex_all := (lex_all is_letter_hi is_digit_hi is_space_hi).
Notation lex := (lex is_letter_hi is_digit_hi is_space_hi).

(* ---------- T1: everything but the position fields is a function of the remaining characters ---------- *)
Definition sim (l l' : lx) : Prop := chs l = chs l'.

Lemma sim_ch l l' : sim l l' -> ch l = ch l'.
Proof. unfold sim, ch. now intros ->. Qed.
Lemma sim_peek l l' : sim l l' -> peek l = peek l'.
Proof. unfold sim, peek. now intros ->. Qed.
Lemma sim_read_char l l' : sim l l' -> sim (read_char l) (read_char l').
Proof.
  unfold sim, read_char, ch. intros E. rewrite E. destruct (chs l') as [|c r]; cbn; [reflexivity|].
  destruct (c =? 10)%N; reflexivity.
Qed.
Lemma chs_read_char l : chs (read_char l) = tl (chs l).
Proof. unfold read_char, ch. destruct (chs l) as [|c r]; cbn; [reflexivity|]. destruct (c =? 10)%N; reflexivity. Qed.

Lemma sim_skip_ws : forall f l l', sim l l' -> sim (skip_ws f l) (skip_ws f l').
Proof.
  induction f as [|f IH]; intros l l' E; cbn [skip_ws]; [exact E|]. rewrite (sim_ch _ _ E). unfold sim in E. rewrite E.
  destruct (is_ws (ch l') && _); [apply IH, sim_read_char; exact E|exact E].
Qed.
Lemma sim_skip_line : forall f l l', sim l l' -> sim (skip_line f l) (skip_line f l').
Proof.
  induction f as [|f IH]; intros l l' E; cbn [skip_line]; [exact E|]. rewrite (sim_ch _ _ E).
  destruct (negb _ && negb _); [apply IH|]; apply sim_read_char; exact E.
Qed.
Lemma sim_at_comment l l' : sim l l' -> at_comment l = at_comment l'.
Proof. intros E. unfold at_comment. now rewrite (sim_ch _ _ E), (sim_peek _ _ E). Qed.
Lemma sim_skip_comments : forall f l l', sim l l' -> sim (skip_comments f l) (skip_comments f l').
Proof.
  induction f as [|f IH]; intros l l' E; cbn [skip_comments]; [exact E|]. rewrite (sim_at_comment _ _ E).
  destruct (at_comment l'); [|exact E]. apply IH.
  pose proof E as E0. unfold sim in E0. rewrite E0.
  pose proof (sim_skip_line (S (List.length (chs l'))) _ _ E) as E1. pose proof E1 as E2. unfold sim in E2. rewrite E2.
  apply sim_skip_ws. exact E1.
Qed.
Lemma sim_read_while : forall f p l l' acc, sim l l' ->
  fst (read_while f p l acc) = fst (read_while f p l' acc) /\ sim (snd (read_while f p l acc)) (snd (read_while f p l' acc)).
Proof.
  induction f as [|f IH]; intros p l l' acc E; cbn [read_while]; [split; [reflexivity|exact E]|].
  pose proof E as E0. unfold sim in E0. rewrite E0. destruct (chs l') as [|c r]; [split; [reflexivity|exact E]|].
  destruct (p c); [apply IH, sim_read_char; exact E|split; [reflexivity|exact E]].
Qed.
Lemma sim_fuel l l' : sim l l' -> fuel_of l = fuel_of l'.
Proof. unfold sim, fuel_of. now intros ->. Qed.
Lemma sim_read_ident l l' : sim l l' -> fst (read_ident l) = fst (read_ident l') /\ sim (snd (read_ident l)) (snd (read_ident l')).
Proof.
  intros E. unfold Lexer.read_ident. rewrite (sim_fuel _ _ E). pose proof E as E0. unfold sim in E0. rewrite E0.
  destruct (chs l') as [|c r]; [split; [reflexivity|exact E]|]. destruct (is_letter c); [|split; [reflexivity|exact E]].
  destruct (sim_read_while (fuel_of l') (fun x => is_letter x || is_digit x) _ _ [] (sim_read_char _ _ E)) as [A B].
  destruct (read_while _ _ (read_char l) []) as [r1 l1]. destruct (read_while _ _ (read_char l') []) as [r2 l2]. cbn in *. subst. split; [reflexivity|exact B].
Qed.
Lemma sim_skip_nl : forall f l l' sk, sim l l' -> snd (skip_nl f l sk) = snd (skip_nl f l' sk) /\ sim (fst (skip_nl f l sk)) (fst (skip_nl f l' sk)).
Proof.
  induction f as [|f IH]; intros l l' sk E; cbn [skip_nl]; [split; [reflexivity|exact E]|]. rewrite (sim_ch _ _ E).
  pose proof E as E0. unfold sim in E0. rewrite E0.
  destruct (((ch l' =? 10) || (ch l' =? 13))%N && _); [apply IH, sim_read_char; exact E|split; [reflexivity|exact E]].
Qed.
Lemma sim_read_str_part : forall f l l' acc, sim l l' ->
  fst (read_str_part f l acc) = fst (read_str_part f l' acc) /\ sim (snd (read_str_part f l acc)) (snd (read_str_part f l' acc)).
Proof.
  induction f as [|f IH]; intros l l' acc E; cbn [read_str_part]; [split; [reflexivity|exact E]|]. rewrite (sim_ch _ _ E).
  destruct ((ch l' =? 34) || (ch l' =? 0))%N; [split; [reflexivity|exact E]|].
  rewrite (sim_fuel _ _ E). destruct (sim_skip_nl (fuel_of l') _ _ false E) as [A B].
  destruct (skip_nl (fuel_of l') l false) as [l1 sk1]. destruct (skip_nl (fuel_of l') l' false) as [l1' sk1']. cbn in A, B. subst sk1'.
  destruct sk1.
  - rewrite (sim_fuel _ _ B). pose proof (sim_skip_ws (fuel_of l1') _ _ B) as C. rewrite (sim_ch _ _ C).
    destruct ((ch (skip_ws (fuel_of l1') l1') =? 34) || (ch (skip_ws (fuel_of l1') l1') =? 0))%N; [split; [reflexivity|exact C]|].
    apply IH, sim_read_char. exact C.
  - apply IH, sim_read_char. exact E.
Qed.
Lemma sim_read_string' : forall f l l' acc e e', sim l l' ->
  fst (fst (read_string' f l acc e)) = fst (fst (read_string' f l' acc e')) /\ sim (snd (read_string' f l acc e)) (snd (read_string' f l' acc e')).
Proof.
  induction f as [|f IH]; intros l l' acc e e' E; cbn [read_string']; [split; [reflexivity|exact E]|]. rewrite (sim_ch _ _ E).
  pose proof E as E0. unfold sim in E0. rewrite E0.
  destruct ((ch l' =? 34)%N && _); [|split; [reflexivity|exact E]].
  pose proof (sim_read_char _ _ E) as E1. rewrite (sim_fuel _ _ E1).
  destruct (sim_read_str_part (fuel_of (read_char l')) _ _ (match acc with [] => acc | _ => acc ++ [10%N] end) E1) as [A B].
  destruct (read_str_part (fuel_of (read_char l')) (read_char l) _) as [a1 l2]. destruct (read_str_part (fuel_of (read_char l')) (read_char l') _) as [a1' l2']. cbn in A, B. subst a1'.
  pose proof (sim_read_char _ _ B) as E3. rewrite (sim_fuel _ _ E3). pose proof (sim_skip_ws (fuel_of (read_char l2')) _ _ E3) as E4.
  rewrite (sim_fuel _ _ E4). pose proof (sim_skip_comments (fuel_of (skip_ws (fuel_of (read_char l2')) (read_char l2'))) _ _ E4) as E5.
  apply IH. exact E5.
Qed.

Definition skipall (l : lx) : lx := let l1 := skip_ws (fuel_of l) l in skip_comments (fuel_of l1) l1.
Lemma sim_skipall l l' : sim l l' -> sim (skipall l) (skipall l').
Proof.
  intros E. unfold skipall. rewrite (sim_fuel _ _ E). pose proof (sim_skip_ws (fuel_of l') _ _ E) as E1. rewrite (sim_fuel _ _ E1).
  apply sim_skip_comments. exact E1.
Qed.

(* the token reader proper, after layout has been skipped (next_token_aux = nt_core . skipall) *)
Definition nt_core (l : lx) : list token * lx * bool :=
  let c := ch l in
  let eofp := match chs l with [] => true | _ => false end in
  let one ty := ([single ty l], read_char l) in
  let two ty := let '(tk, l') := double ty l in ([tk], l') in
  let r : list token * lx :=
  if eofp || (c =? 0)%N then
    ([{| ttype := EOF; tlit := []; tline := line l; tsb := cn l; tsu := un l; teline := line l; teb := cn l; teu := un l |}], read_char l)
  else if (c =? 42)%N then one MUL
  else if (c =? 61)%N then (if (peek l =? 61)%N then two EQ else one ASSIGN)
  else if (c =? 33)%N then (if (peek l =? 61)%N then two NEQ else one NOT)
  else if (c =? 60)%N then (if (peek l =? 61)%N then two LTE else one LT)
  else if (c =? 62)%N then (if (peek l =? 61)%N then two GTE else one GT)
  else if (c =? 38)%N then (if (peek l =? 38)%N then two AND else one ILLEGAL)
  else if (c =? 124)%N then (if (peek l =? 124)%N then two OR else one ILLEGAL)
  else if (c =? 40)%N then one LPAREN
  else if (c =? 41)%N then one RPAREN
  else if (c =? 91)%N then one LBRACKET
  else if (c =? 93)%N then one RBRACKET
  else if (c =? 44)%N then one COMMA
  else if (c =? 58)%N then one COLON
  else if (c =? 123)%N then one LBRACE
  else if (c =? 125)%N then one RBRACE
  else if (c =? 34)%N then let '(tk, l') := read_string_token l in ([tk], l')
  else if (c =? 96)%N then
    let l2 := read_char l in
    let '(body, l3) := read_while (fuel_of l2) (fun x => negb ((x =? 96)%N) && negb ((x =? 0)%N)) l2 [] in
    let l4 := read_char l3 in
    ([{| ttype := RAWSTRING; tlit := rev (trim_right is_space_hi (rev body)); tline := line l; tsb := (cn l - 1)%Z; tsu := (un l - 1)%Z;
         teline := line l4; teb := cn l4; teu := un l4 |}], l4)
  else if (c =? 48)%N then
    if (peek l =? 120)%N then
      let l2 := read_char (read_char l) in
      let '(h, l3) := read_while (fuel_of l2) is_hex l2 [] in
      ([{| ttype := INT; tlit := t "0x" ++ h; tline := line l; tsb := (cn l - 1)%Z; tsu := (un l - 1)%Z;
           teline := line l3; teb := pcn l3; teu := pun l3 |}], l3)
    else
      let '(d, l3) := read_while (fuel_of l) is_digit l [] in
      ([{| ttype := INT; tlit := d; tline := line l; tsb := (cn l - 1)%Z; tsu := (un l - 1)%Z;
           teline := line l3; teb := pcn l3; teu := pun l3 |}], l3)
  else if is_letter c then
    let '(id, l3) := read_ident l in
    let base := {| ttype := lookup_kw keywords id; tlit := id; tline := line l; tsb := pcn l; tsu := pun l;
                   teline := line l3; teb := pcn l3; teu := pun l3 |} in
    if (ch l3 =? 34)%N && negb (match chs l3 with [] => true | _ => false end) then
      let '(stk, l4) := read_string_token l3 in
      ([{| ttype := STRINGTYPE; tlit := id; tline := line l; tsb := pcn l; tsu := pun l;
           teline := line l3; teb := pcn l3; teu := pun l3 |}; stk], l4)
    else ([base], l3)
  else if is_digit c || (c =? 45)%N && is_digit (peek l) then
    let neg := (c =? 45)%N in
    let l2 := if neg then read_char l else l in
    let '(d, l3) := read_while (fuel_of l2) is_digit l2 [] in
    ([{| ttype := INT; tlit := (if neg then [45%N] else []) ++ d; tline := line l; tsb := pcn l; tsu := pun l;
         teline := line l3; teb := pcn l3; teu := pun l3 |}], l3)
  else
    ([{| ttype := ILLEGAL; tlit := [c]; tline := line l; tsb := pcn l; tsu := (un l - 1)%Z; teline := line l; teb := cn l; teu := un l |}],
     read_char l) in
  (fst r, snd r, eofp).

Lemma next_token_aux_core l : next_token_aux l = nt_core (skipall l).
Proof. reflexivity. Qed.

Lemma sim_read_string_token l l' : sim l l' ->
  shape (fst (read_string_token l)) = shape (fst (read_string_token l')) /\ sim (snd (read_string_token l)) (snd (read_string_token l')).
Proof.
  intros E. unfold read_string_token. rewrite (sim_fuel _ _ E).
  destruct (sim_read_string' (fuel_of l') _ _ [] (0, 0, 0)%Z (0, 0, 0)%Z E) as [A B].
  destruct (read_string' (fuel_of l') l [] (0, 0, 0)%Z) as [[lit [[el eb] eu]] l1].
  destruct (read_string' (fuel_of l') l' [] (0, 0, 0)%Z) as [[lit' [[el' eb'] eu']] l1']. cbn in *. subst lit'. split; [reflexivity|exact B].
Qed.

Definition res_sim (r r' : list token * lx * bool) : Prop :=
  map shape (fst (fst r)) = map shape (fst (fst r')) /\ sim (snd (fst r)) (snd (fst r')) /\ snd r = snd r'.

Lemma sim_nt_core l l' : sim l l' -> res_sim (nt_core l) (nt_core l').
Proof.
  intros E. pose proof (sim_ch _ _ E) as EC. pose proof (sim_peek _ _ E) as EP. pose proof (sim_read_char _ _ E) as ER.
  unfold nt_core. rewrite EC, EP. pose proof E as E0. unfold sim in E0. rewrite E0.
  set (c := ch l'). set (eofp := match chs l' with [] => true | _ => false end).
  assert (ONE : forall ty, res_sim ([single ty l], read_char l, eofp) ([single ty l'], read_char l', eofp)).
  { intros ty. unfold res_sim, single, shape. cbn. rewrite EC. auto. }
  assert (TWO : forall ty, res_sim (let '(tk, l2) := double ty l in ([tk], l2), eofp) (let '(tk, l2) := double ty l' in ([tk], l2), eofp)).
  { intros ty. unfold res_sim, double, shape. cbn. rewrite EC, (sim_ch _ _ ER). split; [reflexivity|]. split; [apply sim_read_char; exact ER|reflexivity]. }
  assert (PAIR : forall (a : list token) (b : lx) (a' : list token) (b' : lx), res_sim (a, b, eofp) (a', b', eofp) ->
            res_sim (fst (a, b), snd (a, b), eofp) (fst (a', b'), snd (a', b'), eofp)) by (intros; assumption).
  destruct (eofp || (c =? 0)%N).
  { unfold res_sim, shape. cbn. auto. }
  repeat match goal with
         | |- res_sim (fst (if ?b then _ else _), _, _) _ => destruct b
         end;
  try (match goal with |- res_sim (fst (?a, ?b), _, _) _ => apply (ONE _) end).
  all: try (match goal with |- res_sim (fst (let '(tk, l2) := double ?ty _ in _), _, _) _ =>
              specialize (TWO ty); unfold double in *; cbn in *; exact TWO end).
  - (* string *)
    destruct (sim_read_string_token _ _ E) as [A B]. destruct (read_string_token l) as [tk l1]. destruct (read_string_token l') as [tk' l1']. cbn in *.
    unfold res_sim. cbn. rewrite A. auto.
  - (* raw string *)
    rewrite (sim_fuel _ _ ER). destruct (sim_read_while (fuel_of (read_char l')) (fun x => negb (x =? 96)%N && negb (x =? 0)%N) _ _ [] ER) as [A B].
    destruct (read_while _ _ (read_char l) []) as [b1 l3]. destruct (read_while _ _ (read_char l') []) as [b1' l3']. cbn in A, B. subst b1'.
    unfold res_sim, shape. cbn. split; [reflexivity|]. split; [apply sim_read_char; exact B|reflexivity].
  - (* hex *)
    pose proof (sim_read_char _ _ ER) as ER2. rewrite (sim_fuel _ _ ER2). destruct (sim_read_while (fuel_of (read_char (read_char l'))) is_hex _ _ [] ER2) as [A B].
    destruct (read_while _ _ (read_char (read_char l)) []) as [b1 l3]. destruct (read_while _ _ (read_char (read_char l')) []) as [b1' l3']. cbn in A, B. subst b1'.
    unfold res_sim, shape. cbn. auto.
  - (* number starting with 0 *)
    rewrite (sim_fuel _ _ E). destruct (sim_read_while (fuel_of l') is_digit _ _ [] E) as [A B].
    destruct (read_while _ _ l []) as [b1 l3]. destruct (read_while _ _ l' []) as [b1' l3']. cbn in A, B. subst b1'.
    unfold res_sim, shape. cbn. auto.
  - (* identifier / keyword / string type *)
    destruct (sim_read_ident _ _ E) as [A B]. destruct (read_ident l) as [id l3]. destruct (read_ident l') as [id' l3']. cbn in A, B. subst id'.
    rewrite (sim_ch _ _ B). pose proof B as B0. unfold sim in B0. rewrite B0.
    destruct ((ch l3' =? 34)%N && _).
    + destruct (sim_read_string_token _ _ B) as [A2 B2]. destruct (read_string_token l3) as [tk l4]. destruct (read_string_token l3') as [tk' l4']. cbn in *.
      unfold res_sim. cbn. rewrite A2. auto.
    + unfold res_sim, shape. cbn. auto.
  - (* number *)
    assert (E2 : sim (if (c =? 45)%N then read_char l else l) (if (c =? 45)%N then read_char l' else l')) by (destruct (c =? 45)%N; assumption).
    rewrite (sim_fuel _ _ E2). destruct (sim_read_while (fuel_of (if (c =? 45)%N then read_char l' else l')) is_digit _ _ [] E2) as [A B].
    destruct (read_while _ _ (if (c =? 45)%N then read_char l else l) []) as [b1 l3]. destruct (read_while _ _ (if (c =? 45)%N then read_char l' else l') []) as [b1' l3']. cbn in A, B. subst b1'.
    unfold res_sim, shape. cbn. auto.
  - (* illegal *)
    unfold res_sim, shape. cbn. auto.
Qed.

Lemma sim_next_token_aux l l' : sim (skipall l) (skipall l') -> res_sim (next_token_aux l) (next_token_aux l').
Proof. intros E. rewrite !next_token_aux_core. apply sim_nt_core. exact E. Qed.

(* two states are layout-equivalent when they agree after skipping leading whitespace and comments *)
Definition leq (l l' : lx) : Prop := sim (skipall l) (skipall l').
Lemma sim_leq l l' : sim l l' -> leq l l'.
Proof. apply sim_skipall. Qed.

Theorem lex_all_leq : forall f l l', leq l l' -> map shape (lex_all f l) = map shape (lex_all f l').
Proof.
  induction f as [|f IH]; intros l l' E; [reflexivity|]. cbn [Lexer.lex_all].
  destruct (sim_next_token_aux _ _ E) as (A & B & C).
  destruct (next_token_aux l) as [[ts l1] en]. destruct (next_token_aux l') as [[ts' l1'] en']. cbn in A, B, C. subst en'.
  destruct en; [exact A|]. rewrite !map_app, A. f_equal. apply IH. apply sim_leq. exact B.
Qed.

(* ---------- T2: what skipping layout does to the remaining characters ---------- *)
Fixpoint dropws (s : list N) : list N := match s with c :: r => if is_ws c then dropws r else s | [] => [] end.
Fixpoint dropline (s : list N) : list N :=
  match s with [] => [] | c :: r => if negb (c =? 10)%N && negb (c =? 0)%N then dropline r else r end.
Definition atc (s : list N) : bool :=
  match s with c :: r => ((c =? 35) || (c =? 47) && (match r with d :: _ => d | [] => 0 end =? 47))%N | [] => false end.
Fixpoint dropcom (n : nat) (s : list N) : list N :=
  match n with O => s | S n' => if atc s then dropcom n' (dropws (dropline s)) else s end.
Definition skipped (s : list N) : list N := dropcom (S (List.length (dropws s))) (dropws s).

Lemma chs_skip_ws : forall f l, (List.length (chs l) < f)%nat -> chs (skip_ws f l) = dropws (chs l).
Proof.
  induction f as [|f IH]; intros l L; [lia|]. cbn [skip_ws]. unfold ch. destruct (chs l) as [|c r] eqn:E; cbn [dropws].
  - rewrite andb_false_r. exact E.
  - cbn [negb]. rewrite andb_true_r. destruct (is_ws c); [|exact E]. rewrite IH; rewrite chs_read_char, E; cbn [tl]; [reflexivity|cbn in L; lia].
Qed.
Lemma chs_skip_line : forall f l, (List.length (chs l) < f)%nat -> chs (skip_line f l) = dropline (chs l).
Proof.
  induction f as [|f IH]; intros l L; [lia|]. cbn [skip_line]. unfold ch. destruct (chs l) as [|c r] eqn:E; cbn [dropline].
  - cbn. rewrite chs_read_char, E. reflexivity.
  - destruct (negb (c =? 10)%N && negb (c =? 0)%N).
    + rewrite IH; rewrite chs_read_char, E; cbn [tl]; [reflexivity|cbn in L; lia].
    + rewrite chs_read_char, E. reflexivity.
Qed.
Lemma at_comment_atc l : at_comment l = atc (chs l).
Proof. unfold at_comment, atc, ch, peek. destruct (chs l) as [|c [|d r]]; cbn; reflexivity. Qed.
Lemma chs_skip_comments : forall f l, chs (skip_comments f l) = dropcom f (chs l).
Proof.
  induction f as [|f IH]; intros l; [reflexivity|]. cbn [skip_comments dropcom]. rewrite at_comment_atc. destruct (atc (chs l)); [|reflexivity].
  rewrite IH. f_equal. rewrite chs_skip_ws by lia. f_equal. apply chs_skip_line. lia.
Qed.
Lemma chs_skipall l : chs (skipall l) = skipped (chs l).
Proof. unfold skipall, skipped. rewrite chs_skip_comments. unfold fuel_of. rewrite chs_skip_ws by lia. reflexivity. Qed.

Lemma dropws_len s : (List.length (dropws s) <= List.length s)%nat.
Proof. induction s as [|c r IH]; cbn; [lia|]. destruct (is_ws c); cbn; lia. Qed.
Lemma dropline_len s : s <> [] -> (List.length (dropline s) < List.length s)%nat.
Proof. induction s as [|c r IH]; intros N; [congruence|]. cbn. destruct (negb _ && negb _); [|lia]. destruct r; [cbn; lia|]. specialize (IH ltac:(discriminate)). cbn in *. lia. Qed.
Lemma dropcom_enough : forall n m s, (List.length s < n)%nat -> (List.length s < m)%nat -> dropcom n s = dropcom m s.
Proof.
  induction n as [|n IH]; intros m s Ln Lm; [lia|]. destruct m as [|m]; [lia|]. cbn [dropcom]. destruct (atc s) eqn:A; [|reflexivity].
  assert (NE : s <> []) by (intros ->; discriminate A).
  pose proof (dropline_len s NE). pose proof (dropws_len (dropline s)). apply IH; lia.
Qed.

(* layout: whitespace characters and comments that end with their newline (the lexer also ends a comment at a NUL character) *)
Inductive gap : list N -> Prop :=
| gap_nil : gap []
| gap_ws c g : is_ws c = true -> gap g -> gap (c :: g)
| gap_hash body t g : Forall (fun c => c <> 10%N /\ c <> 0%N) body -> t = 10%N \/ t = 0%N -> gap g -> gap (35%N :: body ++ t :: g)
| gap_slash body t g : Forall (fun c => c <> 10%N /\ c <> 0%N) body -> t = 10%N \/ t = 0%N -> gap g -> gap (47%N :: 47%N :: body ++ t :: g).

Lemma dropline_body body t r : Forall (fun c => c <> 10%N /\ c <> 0%N) body -> t = 10%N \/ t = 0%N -> dropline (body ++ t :: r) = r.
Proof.
  intros H T. induction H as [|c b [H1 H2] _ IH]; cbn; [destruct T; subst; reflexivity|]. apply N.eqb_neq in H1, H2. rewrite H1, H2. cbn. exact IH.
Qed.
Lemma skipped_dropws s : skipped (dropws s) = skipped s.
Proof. unfold skipped. assert (E : dropws (dropws s) = dropws s). { induction s as [|c r IH]; cbn; [reflexivity|]. destruct (is_ws c) eqn:W; [exact IH|]. cbn. now rewrite W. } now rewrite E. Qed.

Theorem gap_skipped g : gap g -> forall r, skipped (g ++ r) = skipped r.
Proof.
  induction 1 as [|c g W _ IH|body t g HB HT _ IH|body t g HB HT _ IH]; intros r.
  - reflexivity.
  - rewrite <- (IH r). unfold skipped. cbn [app dropws]. rewrite W. reflexivity.
  - rewrite <- (IH r). unfold skipped at 1. cbn [app dropws]. change (is_ws 35) with false. cbn iota.
    cbn [dropcom]. change (atc (35%N :: (body ++ t :: g) ++ r)) with true. cbn iota.
    cbn [dropline]. change (negb (35 =? 10)%N && negb (35 =? 0)%N) with true. cbn iota. rewrite <- app_assoc. cbn [app]. rewrite (dropline_body body t (g ++ r) HB HT).
    unfold skipped. apply dropcom_enough.
    + pose proof (dropws_len (g ++ r)) as HL. cbn [List.length]. rewrite (app_length body). cbn [List.length]. lia.
    + lia.
  - rewrite <- (IH r). unfold skipped at 1. cbn [app dropws]. change (is_ws 47) with false. cbn iota.
    cbn [dropcom]. change (atc (47%N :: 47%N :: (body ++ t :: g) ++ r)) with true. cbn iota.
    cbn [dropline]. change (negb (47 =? 10)%N && negb (47 =? 0)%N) with true. cbn iota. rewrite <- app_assoc. cbn [app]. rewrite (dropline_body body t (g ++ r) HB HT).
    unfold skipped. apply dropcom_enough.
    + pose proof (dropws_len (g ++ r)) as HL. cbn [List.length]. rewrite (app_length body). cbn [List.length]. lia.
    + lia.
Qed.

(* layout in front of the next token is ignored, whatever the lexer's position counters are *)
Theorem gap_leq g l l' : gap g -> chs l = g ++ chs l' -> leq l l'.
Proof. intros G E. unfold leq, sim. rewrite !chs_skipall, E. apply gap_skipped. exact G. Qed.

(* ---------- progress: every token that is not the final EOF consumes at least one character ---------- *)
Definition len (l : lx) : nat := List.length (chs l).
Lemma len_read_char l : len (read_char l) = pred (len l).
Proof. unfold len. rewrite chs_read_char. destruct (chs l); reflexivity. Qed.
Lemma dropcom_len : forall n s, (List.length (dropcom n s) <= List.length s)%nat.
Proof.
  induction n as [|n IH]; intros s; cbn; [lia|]. destruct (atc s) eqn:A; [|lia].
  assert (NE : s <> []) by (intros ->; discriminate A). pose proof (dropline_len s NE). pose proof (dropws_len (dropline s)). pose proof (IH (dropws (dropline s))). lia.
Qed.
Lemma len_skipall l : (len (skipall l) <= len l)%nat.
Proof. unfold len. rewrite chs_skipall. unfold skipped. pose proof (dropcom_len (S (List.length (dropws (chs l)))) (dropws (chs l))). pose proof (dropws_len (chs l)). lia. Qed.
Lemma len_skip_ws f l : (len (skip_ws f l) <= len l)%nat.
Proof. revert l. induction f as [|f IH]; intros l; cbn [skip_ws]; [lia|]. destruct (is_ws (ch l) && _); [|lia]. pose proof (IH (read_char l)). rewrite len_read_char in H. lia. Qed.
Lemma len_skip_line f l : (len (skip_line f l) <= len l)%nat.
Proof. revert l. induction f as [|f IH]; intros l; cbn [skip_line]; [lia|]. destruct (negb _ && negb _); [pose proof (IH (read_char l)) as H; rewrite len_read_char in H; lia|rewrite len_read_char; lia]. Qed.
Lemma len_skip_comments f l : (len (skip_comments f l) <= len l)%nat.
Proof.
  revert l. induction f as [|f IH]; intros l; cbn [skip_comments]; [lia|]. destruct (at_comment l); [|lia].
  pose proof (IH (skip_ws (S (List.length (chs (skip_line (S (List.length (chs l))) l)))) (skip_line (S (List.length (chs l))) l))) as H.
  pose proof (len_skip_ws (S (List.length (chs (skip_line (S (List.length (chs l))) l)))) (skip_line (S (List.length (chs l))) l)).
  pose proof (len_skip_line (S (List.length (chs l))) l). lia.
Qed.
Lemma len_read_while : forall f p l acc, (len (snd (read_while f p l acc)) <= len l)%nat.
Proof.
  induction f as [|f IH]; intros p l acc; cbn [read_while]; [cbn [snd fst]; lia|]. destruct (chs l) as [|c r] eqn:E; [cbn [snd fst]; lia|].
  destruct (p c); [|cbn [snd fst]; lia]. pose proof (IH p (read_char l) (c :: acc)) as H. rewrite len_read_char in H. lia.
Qed.
Lemma len_skip_nl : forall f l sk, (len (fst (skip_nl f l sk)) <= len l)%nat.
Proof.
  induction f as [|f IH]; intros l sk; cbn [skip_nl]; [cbn [snd fst]; lia|]. destruct (((ch l =? 10) || (ch l =? 13))%N && _); [|cbn [snd fst]; lia].
  pose proof (IH (read_char l) true) as H. rewrite len_read_char in H. lia.
Qed.
Lemma len_read_str_part : forall f l acc, (len (snd (read_str_part f l acc)) <= len l)%nat.
Proof.
  induction f as [|f IH]; intros l acc; cbn [read_str_part]; [cbn [snd fst]; lia|]. destruct ((ch l =? 34) || (ch l =? 0))%N; [cbn [snd fst]; lia|].
  pose proof (len_skip_nl (fuel_of l) l false) as H1. destruct (skip_nl (fuel_of l) l false) as [l1 sk]. cbn in H1. destruct sk.
  - pose proof (len_skip_ws (fuel_of l1) l1) as H2. destruct ((ch (skip_ws (fuel_of l1) l1) =? 34) || (ch (skip_ws (fuel_of l1) l1) =? 0))%N; [cbn [snd fst]; lia|].
    pose proof (IH (read_char (skip_ws (fuel_of l1) l1)) ((acc ++ [32%N]) ++ [ch (skip_ws (fuel_of l1) l1)])) as H3. rewrite len_read_char in H3. lia.
  - pose proof (IH (read_char l) (acc ++ [ch l])) as H3. rewrite len_read_char in H3. lia.
Qed.
Lemma len_read_string' : forall f l acc e, (len (snd (read_string' f l acc e)) <= len l)%nat.
Proof.
  induction f as [|f IH]; intros l acc e; cbn [read_string']; [cbn [snd fst]; lia|]. destruct ((ch l =? 34)%N && _); [|cbn [snd fst]; lia].
  pose proof (len_read_str_part (fuel_of (read_char l)) (read_char l) (match acc with [] => acc | _ => acc ++ [10%N] end)) as H1.
  destruct (read_str_part (fuel_of (read_char l)) (read_char l) _) as [a1 l2]. cbn in H1.
  set (l3 := read_char l2). set (l4 := skip_ws (fuel_of l3) l3). set (l5 := skip_comments (fuel_of l4) l4).
  pose proof (IH l5 a1 (line l3, pcn l3, pun l3)) as H2. pose proof (len_skip_comments (fuel_of l4) l4). pose proof (len_skip_ws (fuel_of l3) l3).
  subst l3 l4 l5. rewrite len_read_char in *. lia.
Qed.
Lemma len_read_string_strict l : ch l = 34%N -> chs l <> [] -> (len (snd (read_string_token l)) < len l)%nat.
Proof.
  intros C NE. unfold read_string_token, fuel_of. cbn [read_string']. rewrite C. destruct (chs l) as [|c r] eqn:E; [congruence|].
  change ((34 =? 34)%N && negb false) with true. cbv iota.
  pose proof (len_read_str_part (fuel_of (read_char l)) (read_char l) []) as H1.
  destruct (read_str_part (fuel_of (read_char l)) (read_char l) []) as [a1 l2]. cbn [snd] in H1.
  pose proof (len_read_char l2) as R3. set (l3 := read_char l2) in *.
  pose proof (len_skip_ws (fuel_of l3) l3) as R4. set (l4 := skip_ws (fuel_of l3) l3) in *.
  pose proof (len_skip_comments (fuel_of l4) l4) as R5. set (l5 := skip_comments (fuel_of l4) l4) in *.
  pose proof (len_read_string' (List.length (c :: r)) l5 a1 (line l3, pcn l3, pun l3)) as H2.
  destruct (read_string' (List.length (c :: r)) l5 a1 (line l3, pcn l3, pun l3)) as [[lit [[el eb] eu]] l6]. cbn [snd] in *.
  pose proof (len_read_char l) as R1. assert (LL : len l = S (List.length r)) by (unfold len; rewrite E; reflexivity). lia.
Qed.

Lemma len_pos l : chs l <> [] -> (0 < len l)%nat.
Proof. unfold len. destruct (chs l); [congruence|cbn; lia]. Qed.
Lemma len_read_while_first f p l : (len l < f)%nat -> chs l <> [] -> p (ch l) = true -> (len (snd (read_while f p l [])) < len l)%nat.
Proof.
  intros L NE P. destruct f as [|f]; [lia|]. cbn [read_while]. unfold ch in P. destruct (chs l) as [|c r] eqn:E; [congruence|]. rewrite P.
  pose proof (len_read_while f p (read_char l) [c]) as H. rewrite len_read_char in H. pose proof (len_pos l ltac:(rewrite E; discriminate)). lia.
Qed.

Lemma nt_core_progress l : chs l <> [] -> (len (snd (fst (nt_core l))) < len l)%nat.
Proof.
  intros NE. pose proof (len_pos l NE) as LP. pose proof (len_read_char l) as RC.
  unfold nt_core. destruct (chs l) as [|c0 r0] eqn:E; [congruence|]. cbn [orb].
  set (c := ch l).
  assert (ONE : forall ty, (len (snd ([single ty l], read_char l)) < len l)%nat) by (intros; cbn [snd]; lia).
  assert (TWO : forall ty, (len (snd (let '(tk, l2) := double ty l in ([tk], l2))) < len l)%nat).
  { intros ty. unfold double. cbn [snd]. rewrite len_read_char. lia. }
  cbv zeta. cbn [fst snd]. destruct (c =? 0)%N; [cbn [fst snd]; lia|].
  repeat match goal with
         | |- (len (snd (if ?b then _ else _)) < _)%nat => destruct b eqn:?
         end;
  try (match goal with |- (len (snd ([single ?ty _], _)) < _)%nat => apply (ONE ty) end);
  try (match goal with |- (len (snd (let '(tk, l2) := double ?ty _ in _)) < _)%nat => apply (TWO ty) end).
  - (* string *)
    pose proof (len_read_string_strict l) as H. destruct (read_string_token l) as [tk l1]. cbn [snd] in *. apply H; [|rewrite E; discriminate].
    apply N.eqb_eq. assumption.
  - (* raw *)
    pose proof (len_read_while (fuel_of (read_char l)) (fun x => negb (x =? 96)%N && negb (x =? 0)%N) (read_char l) []) as H.
    destruct (read_while _ _ (read_char l) []) as [b1 l3]. cbn [snd] in *. rewrite len_read_char. lia.
  - (* hex *)
    pose proof (len_read_while (fuel_of (read_char (read_char l))) is_hex (read_char (read_char l)) []) as H.
    destruct (read_while _ _ (read_char (read_char l)) []) as [b1 l3]. cbn [snd] in *. rewrite !len_read_char in H. lia.
  - (* 0... *)
    pose proof (len_read_while_first (fuel_of l) is_digit l) as H. destruct (read_while (fuel_of l) is_digit l []) as [b1 l3]. cbn [snd] in *.
    apply H; [unfold fuel_of, len; lia|rewrite E; discriminate|].
    match goal with K : (c =? 48)%N = true |- _ => apply N.eqb_eq in K; fold c; rewrite K; reflexivity end.
  - (* identifier *)
    unfold Lexer.read_ident. rewrite E. assert (IL : is_letter c0 = true) by (unfold c, ch in *; rewrite E in *; assumption). rewrite IL.
    pose proof (len_read_while (fuel_of l) (fun x => is_letter x || is_digit x) (read_char l) []) as H.
    destruct (read_while (fuel_of l) _ (read_char l) []) as [r1 l3]. cbn [snd] in H.
    assert (G : (len l3 < len l)%nat) by lia.
    destruct ((ch l3 =? 34)%N && _) eqn:Q.
    + apply andb_prop in Q. destruct Q as [Q1 Q2]. pose proof (len_read_string_strict l3) as H2.
      destruct (read_string_token l3) as [tk l4]. cbn [snd] in *.
      assert ((len l4 < len l3)%nat); [|lia]. apply H2; [apply N.eqb_eq; exact Q1|]. destruct (chs l3); [discriminate|discriminate].
    + cbn [snd]. exact G.
  - (* number *)
    match goal with K : is_digit c || _ = true |- _ => rename K into D end.
    destruct (c =? 45)%N eqn:NEG.
    + pose proof (len_read_while (fuel_of (read_char l)) is_digit (read_char l) []) as H.
      destruct (read_while _ _ (read_char l) []) as [b1 l3]. cbn [snd] in *. lia.
    + rewrite orb_false_r in D. pose proof (len_read_while_first (fuel_of l) is_digit l) as H.
      destruct (read_while (fuel_of l) is_digit l []) as [b1 l3]. cbn [snd] in *.
      apply H; [unfold fuel_of, len; lia|rewrite E; discriminate|exact D].
  - cbn [snd]. lia.
Qed.

Lemma next_token_progress l ts l' : next_token_aux l = (ts, l', false) -> (len l' < len l)%nat.
Proof.
  rewrite next_token_aux_core. intros H. pose proof (len_skipall l).
  assert (NE : chs (skipall l) <> []). { unfold nt_core in H. inversion H as [[A B C]]. destruct (chs (skipall l)); [discriminate|discriminate]. }
  pose proof (nt_core_progress _ NE) as P. rewrite H in P. cbn [fst snd] in P. lia.
Qed.

Theorem lex_all_enough : forall f f' l, (len l < f)%nat -> (len l < f')%nat -> lex_all f l = lex_all f' l.
Proof.
  induction f as [|f IH]; intros f' l L L'; [lia|]. destruct f' as [|f']; [lia|]. cbn [Lexer.lex_all].
  destruct (next_token_aux l) as [[ts l1] en] eqn:E. destruct en; [reflexivity|]. f_equal.
  pose proof (next_token_progress _ _ _ E). apply IH; lia.
Qed.

(* ---------- C19, first half: layout at the start of a source, or in front of any token the lexer is about to read ---------- *)
Theorem lex_leading_layout g s : gap g -> map shape (lex (g ++ s)) = map shape (lex s).
Proof.
  intros G. unfold Lexer.lex.
  rewrite (lex_all_leq (S (S (List.length (g ++ s)))) (init (g ++ s)) (init s)).
  - apply (f_equal (map shape)). apply lex_all_enough; unfold len, init; cbn [chs]; rewrite ?app_length; lia.
  - apply (gap_leq g); [exact G|]. reflexivity.
Qed.

(* ---------- the remaining characters are always a suffix of the earlier remaining characters ---------- *)
Definition suf (a b : list N) : Prop := exists x, b = x ++ a.     (* a is a suffix of b *)
Lemma suf_refl a : suf a a. Proof. exists []. reflexivity. Qed.
Lemma suf_trans a b c : suf a b -> suf b c -> suf a c.
Proof. intros [x ->] [y ->]. exists (y ++ x). now rewrite app_assoc. Qed.
Lemma suf_tl a : suf (tl a) a. Proof. destruct a as [|c r]; [apply suf_refl|exists [c]; reflexivity]. Qed.
Lemma suf_len a b : suf a b -> (List.length a <= List.length b)%nat.
Proof. intros [x ->]. rewrite app_length. lia. Qed.
Lemma suf_read_char l : suf (chs (read_char l)) (chs l).
Proof. rewrite chs_read_char. apply suf_tl. Qed.
Lemma suf_dropws s : suf (dropws s) s.
Proof. induction s as [|c r IH]; cbn; [apply suf_refl|]. destruct (is_ws c); [|apply suf_refl]. eapply suf_trans; [exact IH|exists [c]; reflexivity]. Qed.
Lemma suf_dropline s : suf (dropline s) s.
Proof. induction s as [|c r IH]; cbn; [apply suf_refl|]. destruct (negb _ && negb _); [eapply suf_trans; [exact IH|]|]; exists [c]; reflexivity. Qed.
Lemma suf_dropcom : forall n s, suf (dropcom n s) s.
Proof. induction n as [|n IH]; intros s; cbn; [apply suf_refl|]. destruct (atc s); [|apply suf_refl]. eapply suf_trans; [apply IH|]. eapply suf_trans; [apply suf_dropws|apply suf_dropline]. Qed.
Lemma suf_skipped s : suf (skipped s) s.
Proof. unfold skipped. eapply suf_trans; [apply suf_dropcom|apply suf_dropws]. Qed.
Lemma suf_skipall l : suf (chs (skipall l)) (chs l).
Proof. rewrite chs_skipall. apply suf_skipped. Qed.
Lemma suf_skip_ws f l : suf (chs (skip_ws f l)) (chs l).
Proof. revert l. induction f as [|f IH]; intros l; cbn [skip_ws]; [apply suf_refl|]. destruct (is_ws (ch l) && _); [|apply suf_refl]. eapply suf_trans; [apply IH|apply suf_read_char]. Qed.
Lemma suf_skip_comments f l : suf (chs (skip_comments f l)) (chs l).
Proof. rewrite chs_skip_comments. apply suf_dropcom. Qed.
Lemma suf_read_while : forall f p l acc, suf (chs (snd (read_while f p l acc))) (chs l).
Proof.
  induction f as [|f IH]; intros p l acc; cbn [read_while]; [apply suf_refl|]. destruct (chs l) as [|c r] eqn:E; [cbn [snd]; rewrite E; apply suf_refl|].
  destruct (p c); [|cbn [snd]; rewrite E; apply suf_refl]. eapply suf_trans; [apply IH|]. rewrite <- E. apply suf_read_char.
Qed.
Lemma suf_skip_nl : forall f l sk, suf (chs (fst (skip_nl f l sk))) (chs l).
Proof.
  induction f as [|f IH]; intros l sk; cbn [skip_nl]; [apply suf_refl|]. destruct (((ch l =? 10) || (ch l =? 13))%N && _); [|apply suf_refl].
  eapply suf_trans; [apply IH|apply suf_read_char].
Qed.
Lemma suf_read_str_part : forall f l acc, suf (chs (snd (read_str_part f l acc))) (chs l).
Proof.
  induction f as [|f IH]; intros l acc; cbn [read_str_part]; [apply suf_refl|]. destruct ((ch l =? 34) || (ch l =? 0))%N; [apply suf_refl|].
  pose proof (suf_skip_nl (fuel_of l) l false) as H1. destruct (skip_nl (fuel_of l) l false) as [l1 sk]. cbn [fst] in H1. destruct sk.
  - pose proof (suf_skip_ws (fuel_of l1) l1) as H2. destruct ((ch (skip_ws (fuel_of l1) l1) =? 34) || (ch (skip_ws (fuel_of l1) l1) =? 0))%N.
    + cbn [snd]. eapply suf_trans; eassumption.
    + eapply suf_trans; [apply IH|]. eapply suf_trans; [apply suf_read_char|]. eapply suf_trans; eassumption.
  - eapply suf_trans; [apply IH|apply suf_read_char].
Qed.
Lemma suf_read_string' : forall f l acc e, suf (chs (snd (read_string' f l acc e))) (chs l).
Proof.
  induction f as [|f IH]; intros l acc e; cbn [read_string']; [apply suf_refl|]. destruct ((ch l =? 34)%N && _); [|apply suf_refl].
  pose proof (suf_read_str_part (fuel_of (read_char l)) (read_char l) (match acc with [] => acc | _ => acc ++ [10%N] end)) as H1.
  destruct (read_str_part (fuel_of (read_char l)) (read_char l) _) as [a1 l2]. cbn [snd] in H1.
  eapply suf_trans; [apply IH|]. eapply suf_trans; [apply suf_skip_comments|]. eapply suf_trans; [apply suf_skip_ws|]. eapply suf_trans; [apply suf_read_char|].
  eapply suf_trans; [exact H1|apply suf_read_char].
Qed.
Lemma suf_read_string_token l : suf (chs (snd (read_string_token l))) (chs l).
Proof.
  unfold read_string_token. pose proof (suf_read_string' (fuel_of l) l [] (0, 0, 0)%Z) as H.
  destruct (read_string' (fuel_of l) l [] (0, 0, 0)%Z) as [[lit [[el eb] eu]] l1]. exact H.
Qed.
Lemma suf_read_ident l : suf (chs (snd (read_ident l))) (chs l).
Proof.
  unfold Lexer.read_ident. destruct (chs l) as [|c r] eqn:E; [cbn [snd]; rewrite E; apply suf_refl|]. destruct (is_letter c); [|cbn [snd]; rewrite E; apply suf_refl].
  pose proof (suf_read_while (fuel_of l) (fun x => is_letter x || is_digit x) (read_char l) []) as H.
  destruct (read_while (fuel_of l) _ (read_char l) []) as [r1 l3]. cbn [snd] in *. rewrite <- E. eapply suf_trans; [exact H|apply suf_read_char].
Qed.
Lemma suf_nt_core l : suf (chs (snd (fst (nt_core l)))) (chs l).
Proof.
  pose proof (suf_read_char l) as RC. unfold nt_core. cbv zeta. cbn [fst snd].
  set (c := ch l). destruct ((match chs l with [] => true | _ => false end) || (c =? 0)%N); [exact RC|].
  repeat match goal with |- suf (chs (snd (if ?b then _ else _))) _ => destruct b end;
  try (cbn [snd]; exact RC);
  try (unfold double; cbn [snd]; eapply suf_trans; [apply suf_read_char|exact RC]).
  - pose proof (suf_read_string_token l) as H. destruct (read_string_token l) as [tk l1]. exact H.
  - pose proof (suf_read_while (fuel_of (read_char l)) (fun x => negb (x =? 96)%N && negb (x =? 0)%N) (read_char l) []) as H.
    destruct (read_while _ _ (read_char l) []) as [b1 l3]. cbn [snd] in *. eapply suf_trans; [apply suf_read_char|]. eapply suf_trans; [exact H|exact RC].
  - pose proof (suf_read_while (fuel_of (read_char (read_char l))) is_hex (read_char (read_char l)) []) as H.
    destruct (read_while _ _ (read_char (read_char l)) []) as [b1 l3]. cbn [snd] in *. eapply suf_trans; [exact H|]. eapply suf_trans; [apply suf_read_char|exact RC].
  - pose proof (suf_read_while (fuel_of l) is_digit l []) as H. destruct (read_while (fuel_of l) is_digit l []) as [b1 l3]. exact H.
  - pose proof (suf_read_ident l) as H. destruct (read_ident l) as [id l3]. cbn [snd] in H.
    destruct ((ch l3 =? 34)%N && _); [|exact H].
    pose proof (suf_read_string_token l3) as H2. destruct (read_string_token l3) as [tk l4]. cbn [snd] in *. eapply suf_trans; eassumption.
  - destruct (c =? 45)%N.
    + pose proof (suf_read_while (fuel_of (read_char l)) is_digit (read_char l) []) as H. destruct (read_while _ _ (read_char l) []) as [b1 l3]. cbn [snd] in *.
      eapply suf_trans; [exact H|exact RC].
    + pose proof (suf_read_while (fuel_of l) is_digit l []) as H. destruct (read_while _ _ l []) as [b1 l3]. exact H.
Qed.
Lemma suf_next_token l : suf (chs (snd (fst (next_token_aux l)))) (chs l).
Proof. rewrite next_token_aux_core. eapply suf_trans; [apply suf_nt_core|apply suf_skipall]. Qed.
End L.
