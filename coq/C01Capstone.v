(* C01, the statement a reader of the property text recognises, with every premise about the compiler's own work discharged:
   from the source text, for every script body of every accepted program, whenever the emitter produces code for it, the
   structured source and the emitted code perform the same commands and finish the same way (both simulation directions, both
   -optimize settings, any abstract game) - the only premise left is the executable condition src_names_ok on the names the
   AUTHOR chose (labels pairwise distinct, gotos name a label of the script or no generated-looking name, no AutoVar command
   called end / return / goto: each clause shown necessary in NamesOk.v).
   Pieces: NamesOk.compiled_scripts_correct_src_names (C01Top + RenderFromSource + names from the source), the chunk graph exists
   whenever emit_script answers (emit_script is emit_graph followed by rendering), ProgramClosed.graph_size (a chunk graph never
   has 10^40 chunks). With EmitTotal.compile_total_tokens the emitter does answer for every source below 10000 tokens. *)
From Coq Require Import List ZArith NArith Bool.
From Pory Require Import Lexer Ast Parser Format Emitter Sem2 SemTgt ProgWf NameClash.
From Pory Require ProgramClosed NamesOk.
Import ListNotations.
Local Opaque emit_graph order_of.

Lemma emit_script_has_graph mp tl name glob optimize body code :
  emit_script mp tl name glob optimize body = Emitter.Ok code -> exists w, emit_graph body = Emitter.Ok w.
Proof.
  rewrite emit_script_eq. destruct (emit_graph body) as [w| | | |tk b] eqn:E; try discriminate. intros _. now exists w.
Qed.

Section C.
Variable St : Type.
Variable exec : cmd -> St -> stepres St.
Variable flag_set trainer_beaten : text -> St -> bool.
Variable cmp_var cmp_var_value : text -> text -> St -> comparison.
Variable case_matches : text -> text -> St -> bool.

Theorem compiled_scripts_correct_final hl hd hs autovars switches ee fc cli_font cli_maxlen (src : text) (p : program) :
  parse_program autovars switches ee (parse_format fc cli_font cli_maxlen ee) (lex hl hd hs src) = Parser.Ok p ->
  forall body, In body (bodies_of (tops p)) ->
  forall mp tl name glob optimize code,
  NamesOk.src_names_ok name body = true ->
  emit_script mp tl name glob optimize body = Emitter.Ok code ->
  (forall n s, exists m,
     run (@sfinal) (sstep St exec flag_set trainer_beaten cmp_var cmp_var_value case_matches (fun l => fl_body l body Kstop)) n (enter body Kstop) s =
     run (@tfinal) (tstep St exec flag_set trainer_beaten cmp_var cmp_var_value case_matches code) m (jump code name) s) /\
  (forall m s, exists n,
     res_le (run (@tfinal) (tstep St exec flag_set trainer_beaten cmp_var cmp_var_value case_matches code) m (jump code name) s)
            (run (@sfinal) (sstep St exec flag_set trainer_beaten cmp_var cmp_var_value case_matches (fun l => fl_body l body Kstop)) n (enter body Kstop) s)).
Proof.
  intros HP body HB mp tl name glob optimize code HN HE.
  destruct (emit_script_has_graph _ _ _ _ _ _ _ HE) as [w HW].
  exact (NamesOk.compiled_scripts_correct_src_names St exec flag_set trainer_beaten cmp_var cmp_var_value case_matches hl hd hs autovars switches ee fc
           cli_font cli_maxlen src p HP body HB mp tl name glob optimize w code HN HW HE (ProgramClosed.graph_size body w HW)).
Qed.
End C.
