(* C14 - moves( steps ) inside a command, for WHOLE PROGRAMS: source tokens -> argument of the final command -> exactly
   one hoisted movement statement -> emitted block, in ONE statement; on source texts without any hypothesis about ':'.

   ListsParse.v proves the two halves (moves_argument_becomes_label: per-script table;  hoisted_moves_block: final table)
   and movement_table_grows; HoistProgram.v has the program-level machinery for arbitrary commands
   (program_inline_arguments, inline_moves_label).  Here they are composed, from the command side, and the "identifiers
   contain no ':'" hypotheses of ListsParse.hoisted_moves_block are proved (sections 5, 8).

   Vocabulary (all from the existing files)
     named_cmds (tops p)     the pairs (script, c): c a command - at any depth, also the commands in front of conditions -
                             of a body of the final program p, script the name of the script statement / generated name of
                             the inline map script owning the body (HoistProgram.v)
     Ast.cid c               the id of a command = the number of tokens of the program's stream T that remained when the
                             command parser was entered, i.e. c was parsed at the suffix ts of T (T = pre ++ ts) with
                             List.length ts = Ast.cid c (command_position).  A suffix is determined by its length.
     written_moves c name k src mv   "argument k of the command c was written  g1 moves( src ) g2":
                             T = pre ++ name :: lp :: arg_tokens a ++ rp :: rest,  Ast.cid c = length of that suffix,
                             a an argument list in the grammar of CmdArgs.v (wf_args, balanced), group k of a is
                             g1 ++ PMoves (mvtok :: lp' :: src ++ [clo]) clo mv :: g2, no moves() piece in g2 (the last
                             moves() of an argument wins; g1 is arbitrary), src in the grammar step_list with mults_ok
     step_list / mults_ok / expand / steps_out / not_end     ListsParse.v, Props1.v

   MAIN THEOREMS (real compilation: env_errors = true; every accepted program; every command of every body)
     command_position           every command of the final program was parsed by the model's command parser at the suffix
                                of T of length [Ast.cid c]
     command_written_inline_data   if that suffix reads  name ( a )  in the grammar of CmdArgs.v, the command has name [name],
                                token [name], one argument per group, and its recorded inline data are those of the groups
     program_moves_argument_label  (= moves_argument_becomes_label + movement_table_grows + the SCRIPT / MAPSCRIPTS case of
                                parse_tops) the argument is the label of the FINAL movement table for the key of expand src
     program_moves_argument     argument k is a label l; exactly one movement statement of the program is named l
                                (filter length = 1, and every TMovement named l IS that one), it is local; its steps have
                                the key of expand src (same literals under the no-colon facts); for every optimize /
                                marker setting the block  marker ++ ILabel l false :: emit_steps mp steps  is in the output
     program_moves_argument_lines, program_moves_arguments_share     without line markers, in the words of the property;
                                same label iff same key
     program_movement_steps_from_stream   (sections 5) the steps of EVERY movement of an accepted program - statement of the
                                author or hoisted moves() - are IDENT tokens of the program's token stream (a traversal of
                                the whole statement parser, map scripts and parse_tops)
     program_moves_argument_compiled   (MAIN for token streams) under the single premise "no IDENT token of T contains ':'":
                                argument k IS a label l; exactly one movement statement named l, local, whose step literals
                                are EXACTLY those of expand src; its block is in the output for every setting; without line
                                markers the block is the label line and one tab-indented line per element of
                                steps_out (expand src) = every expanded step in source order and then exactly one step_end,
                                or the expanded steps up to and including the FIRST written step_end and nothing after it
     lex_idents_no_colon        (section 8) no IDENT token of any lexer output contains ':'
     compiled_movement_steps, compiled_moves_argument, compiled_moves_arguments_share
                                (MAIN on source texts, section 9) the same for  lex hl hd hs s  and
                                Format.parse_format fc cli_font cli_maxlen true: NO hypothesis about ':' is left; two
                                such arguments anywhere in the file are the same label iff their expanded step LITERALS
                                are the same
     program_every_moves_argument, compiled_every_moves_argument   (section 10; THE CONVERSE-FREE FORM, no grammar premise,
                                poryswitch inside the list included)  EVERY command of EVERY body of an accepted program has
                                no arguments or was written  name ( a )  for an argument list a of the in-place grammar
                                (CmdConverse.wf_args_at, balanced) at the suffix of length [Ast.cid c], with name, token and
                                argument count of c; and for EVERY argument k whose group contains a moves() block
                                PMoves lt clo mv (the last of the group) [moves_block_compiled] holds: the block stands in the
                                stream (T = pre' ++ lt ++ R, lt ++ R = moves ( body), the erased source list src of body
                                (PorySwitchLists.list_erase: poryswitch cases selected) is in the grammar step_list with
                                multipliers in 1..9999, stops on ')', mv = expand src; argument k IS a label l; exactly one
                                movement statement named l, local, step literals = those of mv; its block is in the output
                                for every setting; without markers: label line, then one line per element of steps_out mv
                                (all steps and exactly one step_end / up to and including the first written step_end).
                                compiled_... : for  lex hl hd hs s  and Format.parse_format - the only premise is that the
                                program is accepted.
   Examples (module Examples): a whole program text with  applymovement(2, moves(a * 2 b step_end c))  in an if body of a
   script: [written_moves] holds of its command (ex_written), the main theorems apply (ex_main_applies,
   ex_compiled_applies), and the conclusion is what the model computes (ex_output).

   NOT PROVED
     - the converse direction (every position of T where the command parser ran yields a command of the final AST; the
       'coverage' clause of HoistProgram.v) - the theorems here start from a command of the final AST and do not need it.
     - [written_moves] (sections 3-9) is about plain lists; poryswitch inside moves( ... ) is covered by section 10 only.
     - several moves() in ONE argument: the theorems speak about the last one (the one that wins); g1 may contain others.
     - in sections 3-9 the grammar decomposition (wf_args / balanced) is a hypothesis (inside written_moves), as in
       CmdArgs.command_with_arguments (ex_written: satisfiable on lexed input); section 10 derives the decomposition. *)
From Coq Require Import List String Ascii ZArith NArith Lia Bool Permutation.
From Pory Require Import Lexer Ast Emitter Consume Props1 PorySwitchLists ListsParse AutoVarParse ProgWf Hoisting HoistProgram ConstSites.
From Pory Require CmdArgs CmdConverse ProgSrc Format.
From Pory Require Import Parser.
Import ListNotations.
Open Scope list_scope.

(* ====================================================================================================== *)
(*  1. small facts                                                                                         *)
(* ====================================================================================================== *)
Definition is_moves (q : CmdArgs.piece) : bool := match q with CmdArgs.PMoves _ _ _ => true | _ => false end.

Lemma no_moves_movs script cmdtok c k g :
  Forall (fun q => is_moves q = false) g -> flat_map (CmdArgs.piece_movs script cmdtok c k) g = [].
Proof. induction 1 as [|q g Hq _ IH]; [reflexivity|]. cbn [flat_map]. rewrite IH. destruct q; try discriminate; reflexivity. Qed.

Lemma suffix_unique {A} (p1 p2 s1 s2 : list A) : p1 ++ s1 = p2 ++ s2 -> List.length s1 = List.length s2 -> s1 = s2.
Proof.
  revert p2. induction p1 as [|x p1 IH]; intros [|y p2] E L; cbn [app] in E.
  - exact E.
  - exfalso. subst s1. cbn [List.length] in L. rewrite app_length in L. lia.
  - exfalso. subst s2. cbn [List.length] in L. rewrite app_length in L. lia.
  - injection E as _ E. exact (IH p2 E L).
Qed.

Lemma command_stmt_cid sw ee pf consts f script ts c imp ts' :
  command_stmt sw ee pf consts f script ts = Ok (c, imp, ts') -> Ast.cid c = List.length ts.
Proof.
  intros H. unfold Parser.command_stmt in H. destruct (peekis LPAREN ts).
  - destruct (command_args sw ee pf consts f script (cur ts) (List.length ts) (adv (adv ts)) 0 [] [] imp0)
      as [[[args i] ts1]| | |]; try discriminate.
    inversion H; subst. reflexivity.
  - inversion H; subst. reflexivity.
Qed.

(* the inline movements recorded for argument k of a command written  name ( a ) *)
Lemma filter_argM_groups script cmdtok n gs k :
  filter (argM k) (CmdArgs.groups_movs script cmdtok n 0 gs) =
  match nth_error gs k with Some g => flat_map (CmdArgs.piece_movs script cmdtok n k) g | None => [] end.
Proof.
  pose proof (CmdArgs.filter_groups_movs script cmdtok n gs 0 k) as X. cbn [Nat.add] in X. rewrite <- X.
  rewrite filter_addr_M. f_equal. symmetry. apply CmdArgs.filter_all.
  intros im H. destruct (CmdArgs.groups_movs_in _ _ _ _ _ _ H) as [H1 _]. unfold cidM. rewrite H1. apply Nat.eqb_refl.
Qed.

(* ====================================================================================================== *)
(*  2. a command of the final program and its place in the token stream                                    *)
(* ====================================================================================================== *)
Section MP.
Variable autovars : list (text * autovar).
Variable switches : list (text * text).
Variable parse_format : toks -> res (token * text * text * toks).
Hypothesis parse_format_advs : forall ts tk v sty ts', parse_format ts = Ok (tk, v, sty, ts') -> forall a, advs a ts -> advs a ts'.
Variable T : toks.
Notation parse_program := (parse_program autovars switches true parse_format).
Notation parse_tops := (parse_tops autovars switches true parse_format).

(* P0. every command of every body of the final program was parsed by the model's command parser at THE suffix of T whose
   length is the command's id; what the parser returned there (c0, impc) has the same name, token, id and number of
   arguments, and c is c0 with the inline arguments replaced by labels (program_inline_arguments). *)
Theorem command_position p :
  parse_program T = Ok p ->
  forall script c, In (script, c) (named_cmds (tops p)) ->
  exists pre ts, T = pre ++ ts /\ List.length ts = Ast.cid c /\
  exists consts f c0 impc ts1,
    command_stmt switches true parse_format consts f script ts = Ok (c0, impc, ts1) /\
    cname c = cname c0 /\ ctok c = ctok c0 /\ Ast.cid c = Ast.cid c0 /\ List.length (cargs c) = List.length (cargs c0).
Proof.
  intros HP script c Hin.
  destruct (program_inline_arguments autovars switches true parse_format parse_format_advs T p HP) as (st & HT & K).
  destruct (K _ _ Hin) as (c0 & impc & (consts & f & ts & ts1 & A & HC) & E1 & E2 & E3 & E4 & _).
  destruct (PorySwitchLists.advs_suffix _ _ A) as (pre & ->).
  exists pre, ts. split; [reflexivity|]. split; [rewrite E3; symmetry; eapply command_stmt_cid; exact HC|].
  exists consts, f, c0, impc, ts1. auto.
Qed.

(* P1. ... and when that suffix reads  name ( a )  in the grammar of CmdArgs.v, the data are those of the groups of a *)
Lemma orig_written script c0 impc pre name lp (a : CmdArgs.arglist) rp rest :
  orig switches true parse_format T script c0 impc ->
  T = pre ++ name :: lp :: CmdArgs.arg_tokens a ++ rp :: rest ->
  Ast.cid c0 = List.length (name :: lp :: CmdArgs.arg_tokens a ++ rp :: rest) ->
  ttype lp = LPAREN -> ttype rp = RPAREN ->
  CmdArgs.wf_args switches true parse_format a -> CmdArgs.balanced (CmdArgs.flat a) ->
  cname c0 = tlit name /\ ctok c0 = name /\
  List.length (cargs c0) = List.length (CmdArgs.strip_last_empty (CmdArgs.groups_of a)) /\
  idT impc = CmdArgs.groups_texts script (Ast.cid c0) 0 (CmdArgs.groups_of a) /\
  idM impc = CmdArgs.groups_movs script name (Ast.cid c0) 0 (CmdArgs.groups_of a).
Proof.
  intros (consts & f & ts & ts1 & A & HC) ET EC Hlp Hrp W Hb.
  destruct (PorySwitchLists.advs_suffix _ _ A) as (pre0 & E0).
  assert (ts = name :: lp :: CmdArgs.arg_tokens a ++ rp :: rest) as ->.
  { eapply suffix_unique; [rewrite <- E0; exact ET|]. rewrite <- EC. symmetry. eapply command_stmt_cid; exact HC. }
  set (F := Nat.max f (S (List.length (CmdArgs.arg_tokens a)))).
  pose proof (AutoVarParse.command_stmt_mono switches true parse_format consts f F script _ _ (Nat.le_max_l _ _) HC) as H1.
  pose proof (CmdArgs.command_with_arguments switches true parse_format consts F script name lp a rp rest Hlp Hrp W Hb
                ltac:(unfold F; lia)) as H2. cbv zeta in H2.
  rewrite H2 in H1. injection H1 as <- <- _. cbn [cname ctok cargs idT idM Ast.cid].
  rewrite map_length. auto.
Qed.

Theorem command_written_inline_data p :
  parse_program T = Ok p ->
  forall script c, In (script, c) (named_cmds (tops p)) ->
  forall pre name lp (a : CmdArgs.arglist) rp rest,
    T = pre ++ name :: lp :: CmdArgs.arg_tokens a ++ rp :: rest ->
    Ast.cid c = List.length (name :: lp :: CmdArgs.arg_tokens a ++ rp :: rest) ->
    ttype lp = LPAREN -> ttype rp = RPAREN ->
    CmdArgs.wf_args switches true parse_format a -> CmdArgs.balanced (CmdArgs.flat a) ->
  cname c = tlit name /\ ctok c = name /\
  List.length (cargs c) = List.length (CmdArgs.strip_last_empty (CmdArgs.groups_of a)) /\
  exists c0 impc, orig switches true parse_format T script c0 impc /\ Ast.cid c = Ast.cid c0 /\
    idT impc = CmdArgs.groups_texts script (Ast.cid c) 0 (CmdArgs.groups_of a) /\
    idM impc = CmdArgs.groups_movs script name (Ast.cid c) 0 (CmdArgs.groups_of a).
Proof.
  intros HP script c Hin pre name lp a rp rest ET EC Hlp Hrp W Hb.
  destruct (program_inline_arguments autovars switches true parse_format parse_format_advs T p HP) as (st & HT & K).
  destruct (K _ _ Hin) as (c0 & impc & O & E1 & E2 & E3 & E4 & _).
  rewrite E3 in EC. destruct (orig_written script c0 impc pre name lp a rp rest O ET EC Hlp Hrp W Hb) as (X1 & X2 & X3 & X4 & X5).
  split; [congruence|]. split; [congruence|]. split; [congruence|].
  exists c0, impc. rewrite E3. auto.
Qed.

(* ====================================================================================================== *)
(*  3. MAIN: moves( src ) written as (the last moves() of) argument k of a command of the program            *)
(* ====================================================================================================== *)
(* "argument k of the command c of the final program was written  g1 moves( src ) g2":  c was parsed at the suffix
   name ( a ) of T, group k of a is  g1 ++ moves(src) :: g2,  no further moves() in g2, src a list of the grammar with
   legal multipliers *)
Definition written_moves (c : cmd) (name : token) (k : nat) (src : list token) (mv : list token) : Prop :=
  exists pre lp (a : CmdArgs.arglist) rp rest g1 mvtok lp' clo g2,
    T = pre ++ name :: lp :: CmdArgs.arg_tokens a ++ rp :: rest /\
    Ast.cid c = List.length (name :: lp :: CmdArgs.arg_tokens a ++ rp :: rest) /\
    ttype lp = LPAREN /\ ttype rp = RPAREN /\
    CmdArgs.wf_args switches true parse_format a /\ CmdArgs.balanced (CmdArgs.flat a) /\
    nth_error (CmdArgs.groups_of a) k = Some (g1 ++ CmdArgs.PMoves (mvtok :: lp' :: src ++ [clo]) clo mv :: g2) /\
    Forall (fun q => is_moves q = false) g2 /\
    ttype lp' = LPAREN /\ ttype clo = RPAREN /\ step_list src /\ mults_ok src.

(* M0 (= ListsParse.moves_argument_becomes_label + movement_table_grows + the SCRIPT / MAPSCRIPTS case of parse_tops, for
   every command at every depth): the argument is the label under which the FINAL movement table knows the expansion *)
Theorem program_moves_argument_label p :
  parse_program T = Ok p ->
  forall script c, In (script, c) (named_cmds (tops p)) ->
  forall name k src mv, written_moves c name k src mv ->
  mv = expand src /\ cname c = tlit name /\ ctok c = name /\
  exists st l, parse_tops (5 * List.length T + 4) pstate0 T = Ok st /\
    nth_error (cargs c) k = Some l /\ assoc (hmset (ph st)) (mov_key (expand src)) = Some l.
Proof.
  intros HP script c Hin name k src mv
    (pre & lp & a & rp & rest & g1 & mvtok & lp' & clo & g2 & ET & EC & Hlp & Hrp & W & Hb & Hk & NM & Hlp' & Hclo & SL & MO).
  (* the piece is well formed, so its list is the expansion *)
  assert (EM : mv = expand src).
  { assert (WP : CmdArgs.wf_piece switches true parse_format (CmdArgs.PMoves (mvtok :: lp' :: src ++ [clo]) clo mv)).
    { assert (WG : Forall (CmdArgs.wf_piece switches true parse_format) (g1 ++ CmdArgs.PMoves (mvtok :: lp' :: src ++ [clo]) clo mv :: g2)).
      { destruct a as [g0 more]. destruct W as [W0 Wm]. unfold CmdArgs.groups_of in Hk. cbn [Datatypes.fst Datatypes.snd] in *.
        destruct k as [|k]; cbn [nth_error] in Hk; [injection Hk as <-; exact W0|].
        apply nth_error_In in Hk. apply in_map_iff in Hk. destruct Hk as ([cm g] & <- & Hi). rewrite Forall_forall in Wm.
        exact (proj2 (Wm _ Hi)). }
      apply Forall_app in WG. destruct WG as [_ WG]. exact (Forall_inv WG). }
    destruct WP as [_ WP]. specialize (WP (S (List.length (mvtok :: lp' :: src ++ [clo]))) [eof0] ltac:(lia) ltac:(discriminate)).
    cbn [app] in WP. rewrite <- app_assoc in WP. cbn [app] in WP.
    rewrite (moves_operator_accepted switches true _ mvtok lp' src clo [eof0] Hlp' SL MO Hclo) in WP.
    - injection WP as <-. reflexivity.
    - cbn [List.length]. rewrite app_length. cbn [List.length]. pose proof (nelems_le src). lia. }
  split; [exact EM|].
  destruct (program_inline_arguments autovars switches true parse_format parse_format_advs T p HP) as (st & HT & K).
  destruct (K _ _ Hin) as (c0 & impc & O & E1 & E2 & E3 & E4 & _ & _ & KM & _).
  rewrite E3 in EC. destruct (orig_written script c0 impc pre name lp a rp rest O ET EC Hlp Hrp W Hb) as (X1 & X2 & _ & _ & X5).
  split; [congruence|]. split; [congruence|].
  set (im := {| imCid := Ast.cid c0; imArg := k; imToks := mv; imScript := script; imCmdTok := name |}).
  assert (FM : filter (argM k) (idM impc) = flat_map (CmdArgs.piece_movs script name (Ast.cid c0) k) g1 ++ [im]).
  { rewrite X5, filter_argM_groups, Hk, flat_map_app. cbn [flat_map CmdArgs.piece_movs]. rewrite (no_moves_movs _ _ _ _ _ NM). reflexivity. }
  destruct (KM _ _ _ FM) as (l & N & HL). unfold mlabel in HL. cbn [imToks im] in HL. rewrite EM in HL.
  exists st, l. auto.
Qed.

(* M1 (MAIN). source tokens -> argument -> exactly one movement statement -> emitted block *)
Theorem program_moves_argument p :
  parse_program T = Ok p ->
  forall script c, In (script, c) (named_cmds (tops p)) ->
  forall name k src mv, written_moves c name k src mv ->
  mv = expand src /\ cname c = tlit name /\ ctok c = name /\
  exists l tk steps,
    nth_error (cargs c) k = Some l /\
    In (TMovement l false tk steps) (tops p) /\
    (forall g' tk' steps', In (TMovement l g' tk' steps') (tops p) -> g' = false /\ tk' = tk /\ steps' = steps) /\
    List.length (filter (is_mov_named l) (tops p)) = 1%nat /\
    mov_key steps = mov_key (expand src) /\
    ((forall x, In x src -> ttype x = IDENT -> no_colon x) -> Forall no_colon steps -> map tlit steps = map tlit (expand src)) /\
    forall optimize mp out, emit_program_instrs optimize mp p = Emitter.Ok out ->
      exists x y, out = x ++ (marker mp (tline tk) ++ ILabel l false :: emit_steps mp steps) ++ y.
Proof.
  intros HP script c Hin name k src mv HW.
  destruct (program_moves_argument_label p HP script c Hin name k src mv HW) as (EM & C1 & C2 & st & l & HT & N & HL).
  split; [exact EM|]. split; [exact C1|]. split; [exact C2|].
  set (im := {| imCid := 0%nat; imArg := k; imToks := expand src; imScript := script; imCmdTok := name |}).
  destruct (inline_moves_label autovars switches true parse_format eq_refl T p st im l HP HT HL)
    as ((tk & steps & I1 & K1 & K2 & U & ONE & EMIT) & _ & _).
  cbn [imToks im] in K1, K2.
  assert (SL : step_list src) by (destruct HW as (? & ? & ? & ? & ? & ? & ? & ? & ? & ? & ? & ? & ? & ? & ? & ? & ? & ? & ? & ? & SL & ?); exact SL).
  exists l, tk, steps. split; [exact N|]. split; [exact I1|]. split; [exact U|]. split; [exact ONE|]. split; [exact K1|]. split.
  - intros NC1 NC2. apply K2; [exact NC2|].
    eapply Forall_impl; [|apply expand_idents; exact SL]. intros x [H1 H2]. exact (NC1 x H2 H1).
  - intros optimize mp out HO. destruct (EMIT optimize mp out HO) as (x & y & ->). exists x, y. reflexivity.
Qed.

(* M2. the same without line markers, in the words of the property: label line, then one tab-indented line per element of
   steps_out (expand src); that list is all expanded literals and exactly one step_end, or the expanded literals up to the
   first written step_end and nothing after it *)
Theorem program_moves_argument_lines p :
  parse_program T = Ok p ->
  forall script c, In (script, c) (named_cmds (tops p)) ->
  forall name k src mv, written_moves c name k src mv ->
  (forall x, In x src -> ttype x = IDENT -> no_colon x) ->
  (forall l tk steps, nth_error (cargs c) k = Some l -> In (TMovement l false tk steps) (tops p) -> Forall no_colon steps) ->
  exists l,
    nth_error (cargs c) k = Some l /\ List.length (filter (is_mov_named l) (tops p)) = 1%nat /\
    (forall optimize out, emit_program_instrs optimize None p = Emitter.Ok out ->
       exists x y, out = x ++ (ILabel l false :: map (fun s => ILine (tab ++ s)) (steps_out (expand src))) ++ y) /\
    (Forall not_end (expand src) -> steps_out (expand src) = map tlit (expand src) ++ [t "step_end"]) /\
    (forall b e post, expand src = b ++ e :: post -> Forall not_end b -> tlit e = t "step_end" ->
       steps_out (expand src) = map tlit b ++ [t "step_end"]).
Proof.
  intros HP script c Hin name k src mv HW NC1 NC2.
  destruct (program_moves_argument p HP script c Hin name k src mv HW) as (_ & _ & _ & l & tk & steps & N & I1 & _ & ONE & _ & EQ & EMIT).
  specialize (EQ NC1 (NC2 l tk steps N I1)).
  exists l. split; [exact N|]. split; [exact ONE|]. split; [|split].
  - intros optimize out HO. destruct (EMIT optimize None out HO) as (x & y & ->). exists x, y. cbn [marker app].
    rewrite (Props1.emit_steps_lines None steps eq_refl), (steps_out_ext _ _ EQ). reflexivity.
  - apply steps_out_unterminated.
  - intros b e post -> F He. apply steps_out_terminated; assumption.
Qed.

(* M3. sharing: two such arguments anywhere in the program (same or different commands, scripts, depths) are the same
   label iff their expansions have the same key *)
Theorem program_moves_arguments_share p :
  parse_program T = Ok p ->
  forall s1 c1 s2 c2, In (s1, c1) (named_cmds (tops p)) -> In (s2, c2) (named_cmds (tops p)) ->
  forall n1 k1 src1 mv1 n2 k2 src2 mv2, written_moves c1 n1 k1 src1 mv1 -> written_moves c2 n2 k2 src2 mv2 ->
  (nth_error (cargs c1) k1 = nth_error (cargs c2) k2 <-> mov_key (expand src1) = mov_key (expand src2)).
Proof.
  intros HP s1 c1 s2 c2 H1 H2 n1 k1 src1 mv1 n2 k2 src2 mv2 W1 W2.
  destruct (program_moves_argument_label p HP s1 c1 H1 n1 k1 src1 mv1 W1) as (_ & _ & _ & st & l1 & HT & N1 & L1).
  destruct (program_moves_argument_label p HP s2 c2 H2 n2 k2 src2 mv2 W2) as (_ & _ & _ & st' & l2 & HT' & N2 & L2).
  rewrite HT in HT'. injection HT' as <-. rewrite N1, N2.
  set (im1 := {| imCid := 0%nat; imArg := k1; imToks := expand src1; imScript := s1; imCmdTok := n1 |}).
  set (im2 := {| imCid := 0%nat; imArg := k2; imToks := expand src2; imScript := s2; imCmdTok := n2 |}).
  destruct (inline_moves_label autovars switches true parse_format eq_refl T p st im1 l1 HP HT L1) as (_ & SH & _).
  specialize (SH im2 l2 L2). unfold mkey in SH. cbn [imToks im1 im2] in SH. rewrite SH.
  split; [intros E; congruence|intros ->; reflexivity].
Qed.
End MP.


(* ====================================================================================================== *)
(*  5. the steps of EVERY movement of the final program - statements and hoisted moves() - are IDENT tokens  *)
(*     of the program's token stream; hence the no-colon hypotheses follow from one fact about the stream    *)
(* ====================================================================================================== *)
Tactic Notation "bind" hyp(H) "as" simple_intropattern(p) "eqn" ident(E) :=
  apply AutoVarProgram.bind_inv in H; destruct H as (p & E & H); cbn beta iota in H.

Definition qimp (base : toks) (imp : impdata) : Prop := Forall (fun im => Forall (src_ident base) (imToks im)) (idM imp).
Lemma qimp0 base : qimp base imp0. Proof. constructor. Qed.
Lemma qimp_add base a b : qimp base a -> qimp base b -> qimp base (impadd a b).
Proof. intros A B. unfold qimp. cbn [impadd idM]. apply Forall_app. split; assumption. Qed.

Section STEPS.
Variable autovars : list (text * autovar).
Variable switches : list (text * text).
Variable env_errors : bool.
Variable parse_format : toks -> res (token * text * text * toks).
Hypothesis parse_format_advs : forall ts tk v sty ts', parse_format ts = Ok (tk, v, sty, ts') -> forall a, advs a ts -> advs a ts'.

Section WITHCONSTS.
Variable consts : list (text * text).
Notation command_args := (command_args switches env_errors parse_format consts).
Notation command_stmt := (command_stmt switches env_errors parse_format consts).
Notation var_or_autovar := (var_or_autovar autovars switches env_errors parse_format consts).
Notation leaf_expr := (leaf_expr autovars switches env_errors parse_format consts).
Notation bool_expr := (bool_expr autovars switches env_errors parse_format consts).
Notation right_side := (right_side autovars switches env_errors parse_format consts).
Notation parse_stmt := (parse_stmt autovars switches env_errors parse_format consts).
Notation parse_block := (parse_block autovars switches env_errors parse_format consts).
Notation parse_switch_block := (parse_switch_block autovars switches env_errors parse_format consts).
Notation parse_cond := (parse_cond autovars switches env_errors parse_format consts).
Notation parse_if := (parse_if autovars switches env_errors parse_format consts).
Notation parse_elifs := (parse_elifs autovars switches env_errors parse_format consts).
Notation parse_switch := (parse_switch autovars switches env_errors parse_format consts).
Notation parse_cases := (parse_cases autovars switches env_errors parse_format consts).
Notation parse_pory := (parse_pory autovars switches env_errors parse_format consts).
Notation parse_pory_cases := (parse_pory_cases autovars switches env_errors parse_format consts).
Notation parse_pory_stmts := (parse_pory_stmts autovars switches env_errors parse_format consts).

Lemma command_stmt_Q f script ts c imp ts' base :
  command_stmt f script ts = Ok (c, imp, ts') -> advs base ts -> qimp base imp.
Proof.
  intros H A. unfold Parser.command_stmt in H. cbv zeta in H. destruct (peekis LPAREN ts).
  - bind H as [[args imp1] ts1] eqn CA. injection H as _ <- _.
    destruct (command_args_implicit switches env_errors parse_format consts parse_format_advs _ _ _ _ _ _ _ _ _ _ _ _ base CA
                (advs_adv_r _ _ (advs_adv_r _ _ A))) as (nt & nm & _ & E & _ & F). unfold qimp. rewrite E. exact F.
  - injection H as _ <- _. apply qimp0.
Qed.

Lemma var_or_autovar_Q f script ts r imp ts' base :
  var_or_autovar f script ts = Ok (r, imp, ts') -> advs base ts -> qimp base imp.
Proof.
  intros H A. unfold Parser.var_or_autovar in H. destruct (peekis VAR ts).
  { cbv zeta in H. destruct (expect_peek LPAREN (adv ts)); [|discriminate]. injection H as _ <- _. apply qimp0. }
  destruct (assoc autovars (tlit (pk 1 ts))) as [av|]; [|discriminate]. cbv zeta in H.
  bind H as [[c0 imp1] ts2] eqn CS. pose proof (command_stmt_Q _ _ _ _ _ _ base CS (advs_adv_r _ _ A)) as V.
  destruct (avPos av) as [p|].
  - destruct ((p <? 0)%Z || (p >? Z.of_nat (List.length (cargs c0)) - 1)%Z); [discriminate|]. injection H as _ <- _. exact V.
  - injection H as _ <- _. exact V.
Qed.

Lemma leaf_expr_Q f script ts l imp ts' base :
  leaf_expr f script ts = Ok (l, imp, ts') -> advs base ts -> qimp base imp.
Proof.
  intros H A. unfold Parser.leaf_expr in H.
  remember (if peekis NOT ts then (true, adv ts) else (false, ts)) as p eqn:Ep. destruct p as [used_not ts0].
  assert (A0 : advs base ts0) by (destruct (peekis NOT ts); injection Ep as _ ->; [apply advs_adv_r, A|exact A]).
  cbv zeta in H.
  destruct (negb (peekis VAR ts0) && negb (peek_is_autovar autovars ts0) && negb (peekis FLAG ts0) && negb (peekis DEFEATED ts0)); [discriminate|].
  destruct (negb (peek_is_autovar autovars ts0)).
  - destruct (expect_peek LPAREN (adv ts0)) as [ts2|] eqn:P1; [|discriminate]. destruct (peekis RPAREN ts2); [discriminate|].
    destruct (collect_until consts f (is RPAREN) (adv ts2) []) as [[parts ts4]|]; [|discriminate]. cbv beta iota zeta in H.
    destruct used_not; [injection H as _ <- _; apply qimp0|].
    destruct (if is VAR (cur (adv ts0)) then KVar else if is FLAG (cur (adv ts0)) then KFlag else KDefeated).
    + destruct (cond_flag_operator (adv ts4) "flag") as [[[o v] ts5]| | |]; try discriminate. injection H as _ <- _; apply qimp0.
    + destruct (cond_var_operator consts f (adv ts4)) as [[[[o v] st] ts5]| | |]; try discriminate. injection H as _ <- _; apply qimp0.
    + destruct (cond_flag_operator (adv ts4) "defeated") as [[[o v] ts5]| | |]; try discriminate. injection H as _ <- _; apply qimp0.
  - bind H as [[[[[kind opnd] opline] pre] imp1] ts3] eqn IN. bind IN as [[r imp2] ts1] eqn VA.
    destruct r as [[v c0]|]; [|discriminate]. injection IN as <- <- <- <- <- <-. cbv beta iota zeta in H.
    pose proof (var_or_autovar_Q _ _ _ _ _ _ base VA A0) as V1.
    destruct used_not; [injection H as _ <- _; exact V1|].
    destruct (cond_var_operator consts f (adv ts1)) as [[[[o v0] st] ts5]| | |]; try discriminate.
    injection H as _ <- _; exact V1.
Qed.

Lemma bexp_Q : forall f,
  (forall single negated script ts e imp ts' base, bool_expr f single negated script ts = Ok (e, imp, ts') -> advs base ts -> qimp base imp) /\
  (forall left single negated script ts e imp ts' base, right_side f left single negated script ts = Ok (e, imp, ts') -> advs base ts -> qimp base imp).
Proof.
  induction f as [|f [IH1 IH2]]; [split; intros; discriminate|].
  destruct (bexp_advs autovars switches parse_format consts parse_format_advs env_errors f) as [AB1 AB2]. split.
  - intros single negated script ts e imp ts' base H A. rewrite bool_expr_unfold in H. cbv zeta in H.
    destruct (peekis LPAREN ts || peekis NOT ts && is LPAREN (pk 2 ts)).
    + remember (if peekis LPAREN ts then (adv ts, negated) else (adv (adv ts), negb negated)) as p eqn:Ep. destruct p as [ts2 nn].
      assert (A2 : advs base ts2) by (destruct (peekis LPAREN ts); injection Ep as -> _; [apply advs_adv_r, A|apply advs_adv_r, advs_adv_r, A]).
      bind H as [[e1 imp1] ts3] eqn B1. pose proof (IH1 _ _ _ _ _ _ _ base B1 A2) as W1.
      destruct (negb (curis RPAREN ts3)); [discriminate|].
      destruct (negb single && (peekis AND ts3 || peekis OR ts3)).
      * bind H as [[e2 imp2] ts4] eqn R2. injection H as _ <- _.
        pose proof (IH2 _ _ _ _ _ _ _ _ base R2 (advs_adv_r _ _ (AB1 _ _ _ _ _ _ _ B1 _ A2))) as W2.
        apply qimp_add; assumption.
      * injection H as _ <- _. exact W1.
    + bind H as [[l imp1] ts1] eqn L1. pose proof (leaf_expr_Q _ _ _ _ _ _ base L1 A) as W1.
      destruct single; [injection H as _ <- _; exact W1|].
      bind H as [[e2 imp2] ts2] eqn R2. injection H as _ <- _.
      pose proof (IH2 _ _ _ _ _ _ _ _ base R2 (leaf_expr_advs _ _ _ _ parse_format_advs _ _ _ _ _ _ _ L1 _ A)) as W3.
      apply qimp_add; assumption.
  - intros left single negated script ts e imp ts' base H A. rewrite right_side_unfold in H.
    destruct (curis AND ts).
    + bind H as [[r imp1] ts1] eqn B1. cbv zeta in H. bind H as [[e2 imp2] ts2] eqn R2. injection H as _ <- _.
      pose proof (IH1 _ _ _ _ _ _ _ base B1 A) as W1.
      pose proof (IH2 _ _ _ _ _ _ _ _ base R2 (AB1 _ _ _ _ _ _ _ B1 _ A)) as W2.
      apply qimp_add; assumption.
    + destruct (curis OR ts); [|injection H as _ <- _; apply qimp0].
      bind H as [[r imp1] ts1] eqn B1. injection H as _ <- _. exact (IH1 _ _ _ _ _ _ _ base B1 A).
Qed.

Definition QP (base : toks) (l : list (text * (list stmt * impdata))) : Prop :=
  Forall (fun c : text * (list stmt * impdata) => qimp base (Datatypes.snd (Datatypes.snd c))) l.

Definition QW (f : nat) : Prop :=
  (forall script bs cs ts ss imp ts' base, parse_stmt f script bs cs ts = Ok (ss, imp, ts') -> advs base ts -> qimp base imp) /\
  (forall script bs cs start ts acc imp ss imp' ts' base, parse_block f script bs cs start ts acc imp = Ok (ss, imp', ts') -> advs base ts ->
      qimp base imp -> qimp base imp') /\
  (forall script bs cs start ts acc imp ss imp' ts' base, parse_switch_block f script bs cs start ts acc imp = Ok (ss, imp', ts') -> advs base ts ->
      qimp base imp -> qimp base imp') /\
  (forall req script bs cs ts e b imp ts' base, parse_cond f req script bs cs ts = Ok (e, b, imp, ts') -> advs base ts -> qimp base imp) /\
  (forall script bs cs ts ss imp ts' base, parse_if f script bs cs ts = Ok (ss, imp, ts') -> advs base ts -> qimp base imp) /\
  (forall script bs cs ts acc imp l imp' ts' base, parse_elifs f script bs cs ts acc imp = Ok (l, imp', ts') -> advs base ts ->
      qimp base imp -> qimp base imp') /\
  (forall script bs cs ts ss imp ts' base, parse_switch f script bs cs ts = Ok (ss, imp, ts') -> advs base ts -> qimp base imp) /\
  (forall script bs cs brace ts acc seen hasdef imp l imp' ts' base,
      parse_cases f script bs cs brace ts acc seen hasdef imp = Ok (l, imp', ts') -> advs base ts -> qimp base imp -> qimp base imp') /\
  (forall script bs cs ts ss imp ts' base, parse_pory f script bs cs ts = Ok (ss, imp, ts') -> advs base ts -> qimp base imp) /\
  (forall script bs cs start ts acc l ts' base, parse_pory_cases f script bs cs start ts acc = Ok (l, ts') -> advs base ts ->
      QP base acc -> QP base l) /\
  (forall script bs cs multi ts acc imp ss imp' ts' base, parse_pory_stmts f script bs cs multi ts acc imp = Ok (ss, imp', ts') -> advs base ts ->
      qimp base imp -> qimp base imp').

Lemma qw_all : forall f, QW f.
Proof.
  induction f as [|f IH].
  - unfold QW. split; [|split; [|split; [|split; [|split; [|split; [|split; [|split; [|split; [|split]]]]]]]]]; intros; discriminate.
  - destruct IH as (Istmt & Iblock & Iswb & Icond & Iif & Ielifs & Iswitch & Icases & Ipory & Ipcases & Ipstmts).
    destruct (adv_all autovars switches parse_format consts parse_format_advs env_errors f) as (Astmt & Ablock & Aswb & Acond & Aif & Aelifs & Aswitch & Acases & Apory & Apcases & Apstmts).
    unfold QW. split; [|split; [|split; [|split; [|split; [|split; [|split; [|split; [|split; [|split]]]]]]]]].
    + (* parse_stmt *)
      intros script bs cs ts ss imp ts' base H A. rewrite parse_stmt_unfold in H.
      destruct (ttype (cur ts)) eqn:TY; try discriminate.
      * destruct (try_label ts) as [[l ts1]|] eqn:TL.
        -- injection H as _ <- _. apply qimp0.
        -- bind H as [[c imp1] ts1] eqn E1. injection H as _ <- _. eapply command_stmt_Q; eassumption.
      * eapply Iif; eassumption.
      * (* do *)
        destruct (expect_peek LBRACE ts) as [ts1|] eqn:P1; [|discriminate]. bind H as [[b imp1] ts2] eqn E2.
        destruct (expect_peek WHILE ts2) as [ts3|] eqn:P3; [|discriminate].
        destruct (expect_peek LPAREN ts3) as [ts4|] eqn:P4; [|discriminate]. bind H as [[e imp2] ts5] eqn E5. injection H as _ <- _.
        assert (A1 : advs base (adv ts1)) by (apply advs_adv_r; eapply advs_k_peek; [exact P1|exact A]).
        assert (A4 : advs base ts4) by (eapply advs_k_peek; [exact P4|]; eapply advs_k_peek; [exact P3|]; eapply Ablock; [exact E2|exact A1]).
        pose proof (Iblock _ _ _ _ _ _ _ _ _ _ base E2 A1 (qimp0 _)) as W1.
        pose proof (proj1 (bexp_Q f) _ _ _ _ _ _ _ base E5 A4) as W2.
        apply qimp_add; assumption.
      * (* while *)
        bind H as [[[c b] imp1] ts1] eqn E1. injection H as _ <- _. exact (Icond _ _ _ _ _ _ _ _ _ base E1 A).
      * destruct bs as [|tg bs]; [discriminate|]. injection H as _ <- _. apply qimp0.
      * destruct cs as [|tg cs]; [discriminate|]. destruct (peekis RBRACE ts); [|discriminate]. injection H as _ <- _. apply qimp0.
      * eapply Iswitch; eassumption.
      * eapply Ipory; eassumption.
    + (* parse_block *)
      intros script bs cs start ts acc imp ss imp' ts' base H A Hacc. rewrite parse_block_unfold in H.
      destruct (curis RBRACE ts); [injection H as _ <- _; exact Hacc|].
      destruct (curis EOF ts); [discriminate|]. bind H as [[ss1 imp1] ts1] eqn E1.
      eapply Iblock; [exact H|apply advs_adv_r; eapply Astmt; [exact E1|exact A]|].
      apply qimp_add; [exact Hacc|eapply Istmt; eassumption].
    + (* parse_switch_block *)
      intros script bs cs start ts acc imp ss imp' ts' base H A Hacc. rewrite parse_switch_block_unfold in H.
      destruct (curis RBRACE ts || curis CASE ts || curis DEFAULT ts); [injection H as _ <- _; exact Hacc|].
      destruct (curis EOF ts); [discriminate|]. bind H as [[ss1 imp1] ts1] eqn E1.
      eapply Iswb; [exact H|apply advs_adv_r; eapply Astmt; [exact E1|exact A]|].
      apply qimp_add; [exact Hacc|eapply Istmt; eassumption].
    + (* parse_cond *)
      intros req script bs cs ts e b imp ts' base H A. rewrite parse_cond_unfold in H. bind H as [[e1 imp1] ts1] eqn E1.
      destruct (expect_peek LBRACE ts1) as [ts2|] eqn:P2; [|discriminate]. bind H as [[b1 imp2] ts3] eqn E3. injection H as _ _ <- _.
      assert (X : advs base ts1 /\ qimp base imp1).
      { destruct (req || negb (peekis LBRACE ts)).
        - destruct (expect_peek LPAREN ts) as [tsa|] eqn:PA; [|discriminate]. bind E1 as [[e0 imp0'] tsb] eqn EB. injection E1 as _ <- <-.
          assert (Aa : advs base tsa) by (eapply advs_k_peek; [exact PA|exact A]).
          split; [eapply bool_expr_advs; [exact parse_format_advs|exact EB|exact Aa]|]. eapply (proj1 (bexp_Q f)); eassumption.
        - injection E1 as _ <- <-. split; [exact A|apply qimp0]. }
      destruct X as (A1 & W1).
      pose proof (Iblock _ _ _ _ _ _ _ _ _ _ base E3 (advs_adv_r _ _ (advs_k_peek _ _ _ _ P2 A1)) (qimp0 _)) as W2.
      apply qimp_add; assumption.
    + (* parse_if *)
      intros script bs cs ts ss imp ts' base H A. rewrite parse_if_unfold in H. bind H as [[[o l] imp1] ts1] eqn E1.
      destruct o as [e1|]; [|discriminate]. bind H as [[l0 imp2] t0] eqn E2.
      pose proof (Icond _ _ _ _ _ _ _ _ _ base E1 A) as W2.
      assert (A1 : advs base ts1) by (eapply Acond; [exact E1|exact A]).
      pose proof (Ielifs _ _ _ _ _ _ _ _ _ base E2 A1 W2) as C2.
      assert (A2 : advs base t0) by (eapply Aelifs; [exact E2|exact A1]).
      destruct (peekis ELSE t0).
      * cbv zeta in H. destruct (expect_peek LBRACE (adv t0)) as [ts4|] eqn:P4; [|discriminate]. bind H as [[eb imp3] ts5] eqn E5. injection H as _ <- _.
        pose proof (Iblock _ _ _ _ _ _ _ _ _ _ base E5 (advs_adv_r _ _ (advs_k_peek _ _ _ _ P4 (advs_adv_r _ _ A2))) (qimp0 _)) as W3.
        apply qimp_add; assumption.
      * injection H as _ <- _. exact C2.
    + (* parse_elifs *)
      intros script bs cs ts acc imp l imp' ts' base H A Himp. rewrite parse_elifs_unfold in H.
      destruct (peekis ELSEIF ts); [|injection H as _ <- _; assumption]. bind H as [[[o b1] imp1] ts1] eqn E1.
      destruct o as [e1|]; [|discriminate].
      pose proof (Icond _ _ _ _ _ _ _ _ _ base E1 (advs_adv_r _ _ A)) as W2.
      eapply Ielifs; [exact H|eapply Acond; [exact E1|apply advs_adv_r, A]|apply qimp_add; assumption].
    + (* parse_switch *)
      intros script bs cs ts ss imp ts' base H A. rewrite parse_switch_unfold in H. cbv zeta in H.
      destruct (expect_peek LPAREN ts) as [ts1|] eqn:P1; [|discriminate]. bind H as [[r0 imp1] ts2] eqn E2. bind H as [[[operand oline] pre] ts3] eqn E3.
      destruct (expect_peek LBRACE ts3) as [ts4|] eqn:P4; [|discriminate]. bind H as [[l imp2] ts5] eqn E5.
      destruct l as [|c0 l]; [discriminate|]. injection H as _ <- _.
      assert (A1 : advs base ts1) by (eapply advs_k_peek; [exact P1|exact A]).
      assert (A2 : advs base ts2) by (eapply var_or_autovar_advs; [exact parse_format_advs|exact E2|exact A1]).
      pose proof (var_or_autovar_Q _ _ _ _ _ _ base E2 A1) as W1.
      assert (A3 : advs base ts3).
      { destruct r0 as [[v c]|].
        - destruct (expect_peek RPAREN ts2) as [tsx|] eqn:PX; [|discriminate]. injection E3 as _ _ _ <-.
          eapply advs_k_peek; [exact PX|exact A2].
        - bind E3 as [parts tsx] eqn EX. injection E3 as _ _ _ <-.
          apply advs_adv_r. eapply switch_operand_advs; [exact EX|apply advs_adv_r, A2]. }
      pose proof (Icases _ _ _ _ _ _ _ _ _ _ _ _ base E5 (advs_adv_r _ _ (advs_k_peek _ _ _ _ P4 A3)) (qimp0 _)) as WC.
      apply qimp_add; assumption.
    + (* parse_cases *)
      intros script bs cs brace ts acc seen hasdef imp l imp' ts' base H A Himp. rewrite parse_cases_unfold in H.
      destruct (curis RBRACE ts); [injection H as _ <- _; assumption|].
      destruct (curis CASE ts).
      * cbv zeta in H. destruct (collect_until consts f (is COLON) (adv ts) []) as [[parts ts2]|] eqn:CU; [|discriminate].
        destruct (existsb _ seen); [discriminate|]. bind H as [[b1 imp1] ts3] eqn E3.
        assert (A2 : advs base (adv ts2)) by (apply advs_adv_r; eapply collect_until_advs; [exact CU|apply advs_adv_r, A]).
        pose proof (Iswb _ _ _ _ _ _ _ _ _ _ base E3 A2 (qimp0 _)) as W3.
        eapply Icases; [exact H|eapply Aswb; [exact E3|exact A2]|apply qimp_add; assumption].
      * destruct (curis DEFAULT ts); [|discriminate]. destruct hasdef; [discriminate|].
        destruct (expect_peek COLON ts) as [ts1|] eqn:P1; [|discriminate]. bind H as [[b1 imp1] ts2] eqn E2.
        assert (A2 : advs base (adv ts1)) by (apply advs_adv_r; eapply advs_k_peek; [exact P1|exact A]).
        pose proof (Iswb _ _ _ _ _ _ _ _ _ _ base E2 A2 (qimp0 _)) as W3.
        eapply Icases; [exact H|eapply Aswb; [exact E2|exact A2]|apply qimp_add; assumption].
    + (* parse_pory *)
      intros script bs cs ts ss imp ts' base H A. rewrite parse_pory_unfold in H. cbv zeta in H. bind H as [[sc o] ts1] eqn E1. bind H as [l ts2] eqn E2.
      assert (A1 : advs base ts1) by (eapply poryswitch_header_advs; [exact E1|exact A]).
      assert (PC : QP base l) by (eapply Ipcases; [exact E2|exact A1|constructor]).
      assert (SEL : forall key ss0 imp0', assoc l key = Some (ss0, imp0') -> qimp base imp0').
      { intros key ss0 imp0' AS. destruct (ConstSites.assoc_in _ _ _ AS) as [k' IN]. unfold QP in PC. rewrite Forall_forall in PC. exact (PC _ IN). }
      destruct (assoc l (sval o)) as [[ss0 imp0']|] eqn:AS1.
      * injection H as _ <- _. eapply SEL; exact AS1.
      * destruct (assoc l (t "_")) as [[ss0 imp0']|] eqn:AS2.
        -- injection H as _ <- _. eapply SEL; exact AS2.
        -- destruct env_errors; [discriminate|]. injection H as _ <- _. apply qimp0.
    + (* parse_pory_cases *)
      intros script bs cs start ts acc l ts' base H A Hacc. rewrite parse_pory_cases_unfold in H.
      destruct (curis RBRACE ts); [injection H as <- _; exact Hacc|].
      destruct (curis EOF ts); [discriminate|].
      destruct (negb (curis IDENT ts) && negb (curis INT ts)); [discriminate|]. cbv zeta in H.
      destruct (curis COLON (adv ts) || curis LBRACE (adv ts)); [|discriminate]. bind H as [[l0 i] t0] eqn E0.
      assert (A0 : advs base (adv (adv ts))) by (apply advs_adv_r, advs_adv_r, A).
      assert (V0 : qimp base i) by (eapply Ipstmts; [exact E0|exact A0|apply qimp0]).
      assert (A1 : advs base t0) by (eapply Apstmts; [exact E0|exact A0]).
      assert (PC : QP base ((tlit (cur ts), (l0, i)) :: acc)) by (constructor; [exact V0|exact Hacc]).
      destruct (curis LBRACE (adv ts)).
      * destruct (negb (curis RBRACE t0)); [discriminate|]. eapply Ipcases; [exact H|apply advs_adv_r, A1|exact PC].
      * eapply Ipcases; [exact H|exact A1|exact PC].
    + (* parse_pory_stmts *)
      intros script bs cs multi ts acc imp ss imp' ts' base H A Hacc. rewrite parse_pory_stmts_unfold in H.
      destruct (curis RBRACE ts); [injection H as _ <- _; exact Hacc|]. bind H as [[l imp1] ts1] eqn E1.
      assert (S1 : qimp base imp1 /\ advs base ts1).
      { destruct (curis PORYSWITCH ts); [split; [eapply Ipory; eassumption|eapply Apory; [exact E1|exact A]]|split; [eapply Istmt; eassumption|eapply Astmt; [exact E1|exact A]]]. }
      destruct S1 as [V1 A1]. cbv zeta in H.
      pose proof (qimp_add _ _ _ Hacc V1) as GA.
      destruct multi.
      * eapply Ipstmts; [exact H|apply advs_adv_r, A1|exact GA].
      * injection H as _ <- _. exact GA.
Qed.

Lemma parse_block_Q f script bs cs start ts ss imp ts' base :
  parse_block f script bs cs start ts [] imp0 = Ok (ss, imp, ts') -> advs base ts -> qimp base imp.
Proof. intros H A. destruct (qw_all f) as (_ & Iblock & _). eapply Iblock; [exact H|exact A|apply qimp0]. Qed.
End WITHCONSTS.

(* ---------- mapscripts ---------- *)
Notation parse_block_c c := (parse_block autovars switches env_errors parse_format c).
Notation ms_table_c c := (ms_table autovars switches env_errors parse_format c).
Notation ms_entries_c c := (ms_entries autovars switches env_errors parse_format c).

Ltac adv_ex H := first [eapply parse_block_advs; [exact parse_format_advs|exact H|] | eapply ms_collect_advs; [exact H|]
                       | eapply ms_table_advs; [exact parse_format_advs|exact H|] | eapply ms_entries_advs; [exact parse_format_advs|exact H|]
                       | eapply scope_modifier_advs; [exact H|]].
Ltac advs_now := advs_gox ltac:(fun K => adv_ex K).

Lemma ms_table_Q c : forall f mapname tyname ts i acc imp es imp' ts' base,
  ms_table_c c f mapname tyname ts i acc imp = Ok (es, imp', ts') -> advs base ts -> qimp base imp -> qimp base imp'.
Proof.
  induction f as [|f IH]; intros mapname tyname ts i acc imp es imp' ts' base H A Himp; [discriminate|].
  cbn [Parser.ms_table] in H. destruct (curis RBRACKET ts); [injection H as _ <- _; assumption|]. cbv zeta in H.
  destruct (ms_collect c f (is COMMA) ts []) as [[cond ts1]|] eqn:C1; [|discriminate].
  destruct cond as [|c0 cond]; [discriminate|].
  destruct (ms_collect c f _ (adv ts1) []) as [[cmp ts3]|] eqn:C3; [|discriminate].
  destruct cmp as [|c1 cmp]; [discriminate|].
  assert (A3 : advs base ts3) by advs_now.
  destruct (curis COLON ts3).
  - destruct (expect_peek IDENT ts3) as [ts4|] eqn:P4; [|discriminate].
    eapply IH; [exact H|advs_now|exact Himp].
  - bind H as [[b imp1] ts4] eqn E4.
    pose proof (parse_block_Q c _ _ _ _ _ _ _ _ _ base E4 ltac:(advs_now)) as W.
    eapply IH; [exact H|advs_now|apply qimp_add; assumption].
Qed.

Lemma ms_entries_Q c : forall f mapname ts plain tables imp plain' tables' imp' ts' base,
  ms_entries_c c f mapname ts plain tables imp = Ok (plain', tables', imp', ts') -> advs base ts -> qimp base imp -> qimp base imp'.
Proof.
  induction f as [|f IH]; intros mapname ts plain tables imp plain' tables' imp' ts' base H A Himp; [discriminate|].
  cbn [Parser.ms_entries] in H. destruct (curis RBRACE ts); [injection H as _ _ <- _; assumption|].
  destruct (negb (curis IDENT ts)); [discriminate|]. cbv zeta in H.
  destruct (curis COLON (adv ts)).
  - destruct (expect_peek IDENT (adv ts)) as [ts2|] eqn:P2; [|discriminate].
    eapply IH; [exact H|advs_now|exact Himp].
  - destruct (curis LBRACE (adv ts)).
    + bind H as [[b imp1] ts2] eqn E2.
      pose proof (parse_block_Q c _ _ _ _ _ _ _ _ _ base E2 ltac:(advs_now)) as W.
      eapply IH; [exact H|advs_now|apply qimp_add; assumption].
    + destruct (curis LBRACKET (adv ts)); [|discriminate]. bind H as [[es imp1] ts2] eqn E2.
      pose proof (ms_table_Q c _ _ _ _ _ _ _ _ _ _ base E2 ltac:(advs_now) (qimp0 _)) as W.
      eapply IH; [exact H|advs_now|apply qimp_add; assumption].
Qed.

(* ---------- ParseProgram ---------- *)
Notation parse_tops := (parse_tops autovars switches env_errors parse_format).
Notation parse_program := (parse_program autovars switches env_errors parse_format).

Definition mov_ok (base : toks) (tp : top) : Prop :=
  match tp with TMovement _ _ _ steps => Forall (src_ident base) steps | _ => True end.
Definition SInv (base : toks) (st : pstate) : Prop := Forall (mov_ok base) (ptops st) /\ Forall (mov_ok base) (hmovs (ph st)).

Lemma add_texts_hmovs : forall its h ps, hmovs (Datatypes.fst (add_texts its h ps)) = hmovs h.
Proof.
  induction its as [|it r IH]; intros h ps; [reflexivity|]. cbn [add_texts].
  destruct (find_text (hset h) (tlit (itTok it)) (itType it)); [apply IH|]. rewrite IH. reflexivity.
Qed.
Lemma add_movs_Q base : forall ims h ps h' ps', add_movs ims h ps = (h', ps') ->
  Forall (fun im => Forall (src_ident base) (imToks im)) ims -> Forall (mov_ok base) (hmovs h) -> Forall (mov_ok base) (hmovs h').
Proof.
  induction ims as [|im r IH]; intros h ps h' ps' H F L; cbn [add_movs] in H; [injection H as <- _; exact L|].
  inversion F as [|? ? F1 F2]; subst. destruct (assoc (hmset h) (mov_key (imToks im))); [eapply IH; eassumption|].
  eapply IH; [exact H|exact F2|]. cbn [hmovs]. apply Forall_app. split; [exact L|]. constructor; [exact F1|constructor].
Qed.
Lemma add_implicit_Q base imp h h' ps : add_implicit imp h = (h', ps) -> qimp base imp -> Forall (mov_ok base) (hmovs h) -> Forall (mov_ok base) (hmovs h').
Proof.
  unfold add_implicit. intros H I2 L. destruct (add_texts (idT imp) h []) as [h1 ps1] eqn:E1.
  eapply add_movs_Q; [exact H|exact I2|]. pose proof (add_texts_hmovs (idT imp) h []) as X. rewrite E1 in X. cbn [Datatypes.fst] in X. rewrite X. exact L.
Qed.

Lemma src_ident_base base ts l : advs base ts -> Forall (src_ident ts) l -> Forall (src_ident base) l.
Proof. intros A. apply Forall_impl. intros tk. apply src_ident_advs, A. Qed.

Lemma parse_tops_Q base : forall f st ts st', parse_tops f st ts = Ok st' -> advs base ts -> SInv base st -> SInv base st'.
Proof.
  induction f as [|f IH]; intros st ts st' H A (P1 & P3); [discriminate|].
  cbn [Parser.parse_tops] in H. destruct (curis EOF ts); [injection H as <-; split; assumption|]. cbv zeta in H.
  destruct (ttype (cur ts)); try discriminate.
  - (* script *)
    bind H as [[[[name g] b] imp] ts1] eqn E. destruct (add_implicit imp (ph st)) as [h' ps] eqn:AI.
    assert (A1 : advs base ts1) by (eapply parse_script_advs; [exact parse_format_advs|exact E|exact A]).
    unfold Parser.parse_script in E. cbv zeta in E. bind E as [g0 ts0] eqn E0.
    destruct (expect_peek IDENT ts0) as [ts2|] eqn:P2'; [|discriminate].
    destruct (expect_peek LBRACE ts2) as [ts3|] eqn:P3'; [|discriminate]. bind E as [[b0 imp1] ts4] eqn E4. injection E as <- <- <- <- <-.
    pose proof (parse_block_Q _ _ _ _ _ _ _ _ _ _ base E4 ltac:(advs_now)) as W.
    eapply IH; [exact H|apply advs_adv_r, A1|]. split; cbn [ptops ph]; [|eapply add_implicit_Q; eassumption].
    apply Forall_app. split; [exact P1|]. constructor; [exact I|constructor].
  - (* raw *)
    bind H as [tp ts1] eqn E.
    assert (A1 : advs base ts1) by (eapply parse_raw_advs; [exact E|exact A]).
    eapply IH; [exact H|apply advs_adv_r, A1|]. split; cbn [ptops ph]; [|exact P3].
    apply Forall_app. split; [exact P1|]. constructor; [|constructor].
    unfold parse_raw in E. destruct (expect_peek RAWSTRING ts); [|discriminate]. injection E as <- _. exact I.
  - (* text *)
    bind H as [td ts1] eqn E.
    assert (A1 : advs base ts1) by (eapply parse_text_advs; [exact parse_format_advs|exact E|exact A]).
    eapply IH; [exact H|apply advs_adv_r, A1|]. split; cbn [ptops ph]; [|exact P3].
    apply Forall_app. split; [exact P1|]. constructor; [exact I|constructor].
  - (* movement *)
    bind H as [tp ts1] eqn E.
    assert (A1 : advs base ts1) by (eapply parse_movement_advs; [exact E|exact A]).
    eapply IH; [exact H|apply advs_adv_r, A1|]. split; cbn [ptops ph]; [|exact P3].
    apply Forall_app. split; [exact P1|]. constructor; [|constructor].
    destruct (movement_steps_verbatim _ _ _ _ _ _ E) as (name & g & tk & steps & -> & F). cbn [mov_ok]. exact (src_ident_base _ _ _ A F).
  - (* mart *)
    bind H as [tp ts1] eqn E.
    assert (A1 : advs base ts1) by (eapply parse_mart_advs; [exact E|exact A]).
    eapply IH; [exact H|apply advs_adv_r, A1|]. split; cbn [ptops ph]; [|exact P3].
    apply Forall_app. split; [exact P1|]. constructor; [|constructor].
    unfold parse_mart in E. cbv zeta in E. bind E as [g0 ts0] eqn E0.
    destruct (expect_peek IDENT ts0) as [ts2|]; [|discriminate].
    destruct (expect_peek LBRACE ts2) as [ts3|]; [|discriminate]. bind E as [items ts4] eqn E4. injection E as <- _. exact I.
  - (* mapscripts *)
    bind H as [[tp imp] ts1] eqn E. destruct (add_implicit imp (ph st)) as [h' ps] eqn:AI.
    assert (A1 : advs base ts1) by (eapply parse_mapscripts_advs; [exact parse_format_advs|exact E|exact A]).
    unfold Parser.parse_mapscripts in E. bind E as [g0 ts0] eqn E0. cbv zeta in E.
    destruct (expect_peek IDENT ts0) as [ts2|] eqn:P2'; [|discriminate].
    destruct (expect_peek LBRACE ts2) as [ts3|] eqn:P3'; [|discriminate]. bind E as [[[plain tables] imp1] ts4] eqn E4. injection E as <- <- <-.
    pose proof (ms_entries_Q _ _ _ _ _ _ _ _ _ _ _ base E4 ltac:(advs_now) (qimp0 _)) as W.
    eapply IH; [exact H|apply advs_adv_r, A1|]. split; cbn [ptops ph]; [|eapply add_implicit_Q; eassumption].
    apply Forall_app. split; [exact P1|]. constructor; [exact I|constructor].
  - (* const *)
    bind H as [c' ts1] eqn E.
    eapply IH; [exact H|apply advs_adv_r; eapply parse_const_advs; [exact E|exact A]|]. split; assumption.
Qed.

(* S1. the steps of every movement of an accepted program - a movement statement of the author or a hoisted moves() - are
   IDENT tokens of the program's token stream *)
Theorem program_movement_steps_from_stream ts p :
  parse_program ts = Ok p ->
  forall n g tk steps, In (TMovement n g tk steps) (tops p) -> Forall (fun x => In x ts /\ ttype x = IDENT) steps.
Proof.
  intros HP n g tk steps Hin. unfold Parser.parse_program in HP. fold pstate0 in HP.
  destruct (parse_tops (5 * List.length ts + 4) pstate0 ts) as [st| | |] eqn:E; try discriminate HP. cbn beta iota zeta in HP.
  destruct (dup_text [] _); [discriminate|]. destruct (dup_mov [] _); [discriminate|]. injection HP as <-. cbn [tops] in Hin.
  destruct (parse_tops_Q ts _ _ _ _ E (advs_refl _)) as [P1 P3]; [split; constructor|].
  assert (F : Forall (mov_ok ts) (ptops st ++ hmovs (ph st))) by (apply Forall_app; split; assumption).
  rewrite Forall_forall in F. specialize (F _ Hin). cbn [mov_ok] in F.
  eapply Forall_impl; [|exact F]. intros x [H1 H2]. split; [exact H1|apply ListsParse.is_inv, H2].
Qed.
End STEPS.

(* ====================================================================================================== *)
(*  6. MAIN, with the no-colon facts reduced to ONE fact about the token stream                             *)
(* ====================================================================================================== *)
Lemma group_in_arg_tokens (a : CmdArgs.arglist) k g x :
  nth_error (CmdArgs.groups_of a) k = Some g -> In x (CmdArgs.group_toks g) -> In x (CmdArgs.arg_tokens a).
Proof.
  destruct a as [g0 more]. unfold CmdArgs.groups_of, CmdArgs.arg_tokens. cbn [Datatypes.fst Datatypes.snd].
  intros Hk Hx. apply in_or_app. destruct k as [|k]; cbn [nth_error] in Hk.
  - injection Hk as <-. left. exact Hx.
  - right. apply nth_error_In in Hk. apply in_map_iff in Hk. destruct Hk as ([cm g'] & E & Hi). cbn [Datatypes.snd] in E. subst g'.
    unfold CmdArgs.more_toks. apply in_flat_map. exists (cm, g). split; [exact Hi|]. right. exact Hx.
Qed.

Section MP2.
Variable autovars : list (text * autovar).
Variable switches : list (text * text).
Variable parse_format : toks -> res (token * text * text * toks).
Hypothesis parse_format_advs : forall ts tk v sty ts', parse_format ts = Ok (tk, v, sty, ts') -> forall a, advs a ts -> advs a ts'.
Variable T : toks.
Notation parse_program := (parse_program autovars switches true parse_format).

Lemma written_moves_src_in_stream c name k src mv x :
  written_moves switches parse_format T c name k src mv -> In x src -> In x T.
Proof.
  intros (pre & lp & a & rp & rest & g1 & mvtok & lp' & clo & g2 & ET & _ & _ & _ & _ & _ & Hk & _) Hx.
  rewrite ET. apply in_or_app. right. right. right. apply in_or_app. left.
  eapply group_in_arg_tokens; [exact Hk|]. unfold CmdArgs.group_toks. rewrite flat_map_app. apply in_or_app. right.
  cbn [flat_map CmdArgs.piece_toks]. apply in_or_app. left. right. right. apply in_or_app. left. exact Hx.
Qed.

(* M4 (MAIN, final form).  For a token stream whose identifiers contain no ':' (true of every lexer output: ':' is not an
   identifier character): argument k written  moves( src )  IS a label l; exactly one movement statement of the program is
   named l; it is local and its step literals are EXACTLY those of expand src; for every optimize / line-marker setting
   its block is in the output, and without line markers the block is the label line followed by one tab-indented line
   per element of steps_out (expand src): every expanded step in source order and then exactly one step_end, or the
   expanded steps up to and including the FIRST written step_end and nothing after it. *)
Theorem program_moves_argument_compiled p :
  parse_program T = Ok p ->
  (forall x, In x T -> ttype x = IDENT -> no_colon x) ->
  forall script c, In (script, c) (named_cmds (tops p)) ->
  forall name k src mv, written_moves switches parse_format T c name k src mv ->
  exists l tk steps,
    nth_error (cargs c) k = Some l /\
    In (TMovement l false tk steps) (tops p) /\
    (forall g' tk' steps', In (TMovement l g' tk' steps') (tops p) -> g' = false /\ tk' = tk /\ steps' = steps) /\
    List.length (filter (is_mov_named l) (tops p)) = 1%nat /\
    map tlit steps = map tlit (expand src) /\
    (forall optimize mp out, emit_program_instrs optimize mp p = Emitter.Ok out ->
       exists x y, out = x ++ (marker mp (tline tk) ++ ILabel l false :: emit_steps mp steps) ++ y) /\
    (forall optimize out, emit_program_instrs optimize None p = Emitter.Ok out ->
       exists x y, out = x ++ (ILabel l false :: map (fun s => ILine (tab ++ s)) (steps_out (expand src))) ++ y) /\
    (Forall not_end (expand src) -> steps_out (expand src) = map tlit (expand src) ++ [t "step_end"]) /\
    (forall b e post, expand src = b ++ e :: post -> Forall not_end b -> tlit e = t "step_end" ->
       steps_out (expand src) = map tlit b ++ [t "step_end"]).
Proof.
  intros HP NC script c Hin name k src mv HW.
  destruct (program_moves_argument autovars switches parse_format parse_format_advs T p HP script c Hin name k src mv HW)
    as (_ & _ & _ & l & tk & steps & N & I1 & U & ONE & _ & EQ & EMIT).
  assert (EQ' : map tlit steps = map tlit (expand src)).
  { apply EQ.
    - intros x Hx Tx. apply NC; [eapply written_moves_src_in_stream; eassumption|exact Tx].
    - pose proof (program_movement_steps_from_stream autovars switches true parse_format parse_format_advs T p HP _ _ _ _ I1) as F.
      eapply Forall_impl; [|exact F]. intros x [H1 H2]. exact (NC x H1 H2). }
  exists l, tk, steps. split; [exact N|]. split; [exact I1|]. split; [exact U|]. split; [exact ONE|]. split; [exact EQ'|].
  split; [exact EMIT|]. split; [|split].
  - intros optimize out HO. destruct (EMIT optimize None out HO) as (x & y & ->). exists x, y. cbn [marker app].
    rewrite (Props1.emit_steps_lines None steps eq_refl), (steps_out_ext _ _ EQ'). reflexivity.
  - apply steps_out_unterminated.
  - intros b e post -> F He. apply steps_out_terminated; assumption.
Qed.
End MP2.


(* ====================================================================================================== *)
(*  8. the lexer never produces an identifier that contains ':'                                            *)
(* ====================================================================================================== *)
Section LEXNC.
Variable hl hd hs : N -> bool.

Definition tok_nc (tk : token) : Prop := ttype tk = IDENT -> no_colon tk.

Lemma read_while_all p : forall f l acc, Forall (fun c => p c = true) acc ->
  Forall (fun c => p c = true) (Datatypes.fst (read_while f p l acc)).
Proof.
  induction f as [|f IH]; intros l acc F; cbn [read_while Datatypes.fst]; [apply Forall_rev, F|].
  destruct (chs l) as [|c r]; [apply Forall_rev, F|]. destruct (p c) eqn:E; [|apply Forall_rev, F].
  apply IH. constructor; assumption.
Qed.

Lemma read_ident_chars l : Forall (fun c => Lexer.is_letter hl c || Lexer.is_digit hd c = true) (Datatypes.fst (read_ident hl hd l)).
Proof.
  unfold read_ident. destruct (chs l) as [|c r]; [constructor|]. destruct (Lexer.is_letter hl c) eqn:E; [|constructor].
  pose proof (read_while_all (fun x => Lexer.is_letter hl x || Lexer.is_digit hd x) (fuel_of l) (read_char l) [] (Forall_nil _)) as K.
  destruct (read_while _ _ _ _) as [x l']. cbn [Datatypes.fst] in *. constructor; [rewrite E; reflexivity|exact K].
Qed.

Lemma ident_no_colon id : Forall (fun c => Lexer.is_letter hl c || Lexer.is_digit hd c = true) id -> ~ In 58%N id.
Proof. intros F I0. rewrite Forall_forall in F. specialize (F _ I0). vm_compute in F. discriminate F. Qed.

Ltac nc_fin := repeat (apply Forall_cons; [intros X; discriminate X|]); apply Forall_nil.

Lemma next_token_nc l0 : Forall tok_nc (Datatypes.fst (Datatypes.fst (next_token_aux hl hd hs l0))).
Proof.
  unfold next_token_aux.
  set (l1 := skip_ws (fuel_of l0) l0). set (l := skip_comments (fuel_of l1) l1). clearbody l. clear l1 l0. cbn zeta.
  cbn [Datatypes.fst Datatypes.snd]. unfold double, read_string_token, single.
  destruct (match chs l with [] => true | _ => false end || (ch l =? 0)%N) eqn:EOFQ; [cbn [Datatypes.fst Datatypes.snd]; nc_fin|].
  repeat match goal with
  | |- context [if (ch l =? ?k)%N then _ else _] => destruct (ch l =? k)%N eqn:?; cbn [Datatypes.fst Datatypes.snd]
  | |- context [if (peek l =? ?k)%N then _ else _] => destruct (peek l =? k)%N eqn:?; cbn [Datatypes.fst Datatypes.snd]
  end.
  all: try (repeat match goal with
            | |- context [read_string' ?a ?b ?c ?d] => destruct (read_string' a b c d) as [[? [[? ?] ?]] ?]
            | |- context [read_while ?a ?b ?c ?d] => destruct (read_while a b c d) as [? ?]
            end; cbn [Datatypes.fst Datatypes.snd]; nc_fin).
  all: destruct (Lexer.is_letter hl (ch l));
         [|match goal with |- context [if ?b then _ else _] => destruct b end;
           try match goal with |- context [read_while ?a ?b ?c ?d] => destruct (read_while a b c d) as [? ?] end;
           cbn [Datatypes.fst Datatypes.snd]; nc_fin].
  all: pose proof (read_ident_chars l) as K; destruct (read_ident hl hd l) as [id l3]; cbn [Datatypes.fst] in K.
  all: destruct ((ch l3 =? 34)%N && _); [destruct (read_string' _ _ _ _) as [[? [[? ?] ?]] ?]; cbn [Datatypes.fst]; nc_fin|].
  all: cbn [Datatypes.fst]; apply Forall_cons; [|apply Forall_nil]; intros _; unfold no_colon; cbn [tlit]; apply ident_no_colon, K.
Qed.

Lemma lex_all_nc : forall f l, Forall tok_nc (lex_all hl hd hs f l).
Proof.
  induction f as [|f IH]; intros l; cbn [lex_all]; [constructor|].
  pose proof (next_token_nc l) as K. destruct (next_token_aux hl hd hs l) as [[ts l'] e]. cbn [Datatypes.fst] in K.
  destruct e; [exact K|]. apply Forall_app. split; [exact K|apply IH].
Qed.

(* L1. ':' is not an identifier character: no IDENT token of any lexer output contains it *)
Theorem lex_idents_no_colon (s : text) : forall x, In x (lex hl hd hs s) -> ttype x = IDENT -> no_colon x.
Proof. intros x Hx. pose proof (lex_all_nc (S (S (List.length s))) (init s)) as F. rewrite Forall_forall in F. exact (F x Hx). Qed.
End LEXNC.

(* ====================================================================================================== *)
(*  9. THE THEOREM ON SOURCE TEXTS (real compilation): any source text, any classification of non-ASCII      *)
(*     code points, any command configuration, switches and fonts - no hypothesis about ':' is left          *)
(* ====================================================================================================== *)
Lemma mov_key_map ms : mov_key ms = flat_map (fun x => x ++ t ":") (map tlit ms).
Proof. unfold mov_key. induction ms as [|m r IH]; [reflexivity|]. cbn [flat_map map]. rewrite IH. reflexivity. Qed.

Section SOURCE.
Variables (hl hd hs : N -> bool) (autovars : list (text * autovar)) (switches : list (text * text))
          (fc : Format.fontcfg) (cli_font : text) (cli_maxlen : Z) (s : text).
Notation pf := (Format.parse_format fc cli_font cli_maxlen true).
Notation TS := (lex hl hd hs s).
Notation parse_program := (parse_program autovars switches true pf).

(* every movement of a compiled program - statement or hoisted moves() - consists of identifiers of the source, none of
   which contains ':' : the key of the hoisting table (literals joined with ':') is injective on them *)
Theorem compiled_movement_steps p :
  parse_program TS = Ok p ->
  forall n g tk steps, In (TMovement n g tk steps) (tops p) ->
  Forall (fun x => In x TS /\ ttype x = IDENT /\ no_colon x) steps.
Proof.
  intros HP n g tk steps Hin.
  pose proof (program_movement_steps_from_stream autovars switches true pf (ProgSrc.parse_format_advs fc cli_font cli_maxlen true) TS p HP _ _ _ _ Hin) as F.
  eapply Forall_impl; [|exact F]. intros x [H1 H2]. split; [exact H1|]. split; [exact H2|]. exact (lex_idents_no_colon hl hd hs s x H1 H2).
Qed.

Theorem compiled_moves_argument p :
  parse_program TS = Ok p ->
  forall script c, In (script, c) (named_cmds (tops p)) ->
  forall name k src mv, written_moves switches pf TS c name k src mv ->
  exists l tk steps,
    nth_error (cargs c) k = Some l /\
    In (TMovement l false tk steps) (tops p) /\
    (forall g' tk' steps', In (TMovement l g' tk' steps') (tops p) -> g' = false /\ tk' = tk /\ steps' = steps) /\
    List.length (filter (is_mov_named l) (tops p)) = 1%nat /\
    map tlit steps = map tlit (expand src) /\
    (forall optimize mp out, emit_program_instrs optimize mp p = Emitter.Ok out ->
       exists x y, out = x ++ (marker mp (tline tk) ++ ILabel l false :: emit_steps mp steps) ++ y) /\
    (forall optimize out, emit_program_instrs optimize None p = Emitter.Ok out ->
       exists x y, out = x ++ (ILabel l false :: map (fun s => ILine (tab ++ s)) (steps_out (expand src))) ++ y) /\
    (Forall not_end (expand src) -> steps_out (expand src) = map tlit (expand src) ++ [t "step_end"]) /\
    (forall b e post, expand src = b ++ e :: post -> Forall not_end b -> tlit e = t "step_end" ->
       steps_out (expand src) = map tlit b ++ [t "step_end"]).
Proof.
  intros HP. apply (program_moves_argument_compiled autovars switches pf (ProgSrc.parse_format_advs fc cli_font cli_maxlen true) TS p HP).
  apply lex_idents_no_colon.
Qed.

(* sharing, on source texts: two such arguments are the same label iff their expanded step literals are the same *)
Theorem compiled_moves_arguments_share p :
  parse_program TS = Ok p ->
  forall s1 c1 s2 c2, In (s1, c1) (named_cmds (tops p)) -> In (s2, c2) (named_cmds (tops p)) ->
  forall n1 k1 src1 mv1 n2 k2 src2 mv2,
    written_moves switches pf TS c1 n1 k1 src1 mv1 -> written_moves switches pf TS c2 n2 k2 src2 mv2 ->
  (nth_error (cargs c1) k1 = nth_error (cargs c2) k2 <-> map tlit (expand src1) = map tlit (expand src2)).
Proof.
  intros HP s1 c1 s2 c2 H1 H2 n1 k1 src1 mv1 n2 k2 src2 mv2 W1 W2.
  rewrite (program_moves_arguments_share autovars switches pf (ProgSrc.parse_format_advs fc cli_font cli_maxlen true) TS p HP
             s1 c1 s2 c2 H1 H2 n1 k1 src1 mv1 n2 k2 src2 mv2 W1 W2).
  assert (NC : forall c n k src mv, written_moves switches pf TS c n k src mv -> Forall no_colon (expand src)).
  { intros c n k src mv W.
    assert (SL : step_list src) by (destruct W as (? & ? & ? & ? & ? & ? & ? & ? & ? & ? & ? & ? & ? & ? & ? & ? & ? & ? & ? & ? & SL & ?); exact SL).
    eapply Forall_impl; [|apply expand_idents; exact SL]. intros x [Hx1 Hx2].
    apply (lex_idents_no_colon hl hd hs s); [eapply written_moves_src_in_stream; eassumption|exact Hx1]. }
  split.
  - intros E. apply mov_key_injective; [eapply NC; exact W1|eapply NC; exact W2|exact E].
  - intros E. rewrite !mov_key_map, E. reflexivity.
Qed.
End SOURCE.

(* ====================================================================================================== *)
(* 10. EVERY moves( ... ) of EVERY command, without a grammar premise and with poryswitch inside the list     *)
(*     (CmdConverse.command_stmt_accepted gives the argument list; ListsParse.moves_operator_sound the list)  *)
(* ====================================================================================================== *)
Section INPLACE.
Variable switches : list (text * text).
Variable ee : bool.
Variable parse_format : toks -> res (token * text * text * toks).
Notation wf_piece_at := (CmdConverse.wf_piece_at switches ee parse_format).
Notation wf_group_at := (CmdConverse.wf_group_at switches ee parse_format).
Notation wf_more_at := (CmdConverse.wf_more_at switches ee parse_format).
Notation wf_args_at := (CmdConverse.wf_args_at switches ee parse_format).

Lemma wf_group_at_piece : forall g1 q g2 R, wf_group_at (g1 ++ q :: g2) R -> wf_piece_at q (CmdArgs.group_toks g2 ++ R).
Proof.
  induction g1 as [|x g1 IH]; intros q g2 R W; cbn [app CmdConverse.wf_group_at] in W; destruct W as [W1 W2]; [exact W1|].
  exact (IH q g2 R W2).
Qed.

Lemma wf_more_at_nth : forall more R k g, wf_more_at more R -> nth_error (map (@Datatypes.snd _ _) more) k = Some g ->
  exists pre' R', wf_group_at g R' /\ CmdArgs.more_toks more ++ R = pre' ++ CmdArgs.group_toks g ++ R'.
Proof.
  induction more as [|[c g'] m IH]; intros R k g W Hk; [destruct k; discriminate|].
  cbn [CmdConverse.wf_more_at] in W. destruct W as (Hc & Wg & Wm).
  change (CmdArgs.more_toks ((c, g') :: m)) with ((c :: CmdArgs.group_toks g') ++ CmdArgs.more_toks m).
  destruct k as [|k]; cbn [map nth_error Datatypes.snd] in Hk.
  - injection Hk as <-. exists [c], (CmdArgs.more_toks m ++ R). split; [exact Wg|]. cbn [app]. rewrite <- !app_assoc. reflexivity.
  - destruct (IH R k g Wm Hk) as (pre' & R' & WG & E). exists ((c :: CmdArgs.group_toks g') ++ pre'), R'. split; [exact WG|].
    rewrite <- !app_assoc. rewrite E. reflexivity.
Qed.

Lemma wf_args_at_nth (a : CmdArgs.arglist) R k g : wf_args_at a R -> nth_error (CmdArgs.groups_of a) k = Some g ->
  exists pre' R', wf_group_at g R' /\ CmdArgs.arg_tokens a ++ R = pre' ++ CmdArgs.group_toks g ++ R'.
Proof.
  destruct a as [g0 more]. unfold CmdConverse.wf_args_at, CmdArgs.groups_of, CmdArgs.arg_tokens. cbn [Datatypes.fst Datatypes.snd].
  intros [W0 Wm] Hk. destruct k as [|k]; cbn [nth_error] in Hk.
  - injection Hk as <-. exists [], (CmdArgs.more_toks more ++ R). split; [exact W0|]. cbn [app]. rewrite <- app_assoc. reflexivity.
  - destruct (wf_more_at_nth more R k g Wm Hk) as (pre' & R' & WG & E). exists (CmdArgs.group_toks g0 ++ pre'), R'. split; [exact WG|].
    rewrite <- !app_assoc. rewrite E. reflexivity.
Qed.
End INPLACE.

Section EVERY.
Variable autovars : list (text * autovar).
Variable switches : list (text * text).
Variable parse_format : toks -> res (token * text * text * toks).
Hypothesis parse_format_advs : forall ts tk v sty ts', parse_format ts = Ok (tk, v, sty, ts') -> forall a, advs a ts -> advs a ts'.
Variable T : toks.
Notation parse_program := (parse_program autovars switches true parse_format).

(* what is said about one moves( ... ) block [lt] (closing token [clo], list [mv] returned by the model's operator) that
   is the last moves() of argument k of the command c *)
Definition moves_block_compiled (p : program) (c : cmd) (k : nat) (lt : list token) (clo : token) (mv : list token) : Prop :=
  (* the block in the stream, and its list: the expansion of the (poryswitch-erased) source list of the grammar *)
  (exists pre' R f m lp' body src,
     T = pre' ++ lt ++ R /\ lt ++ R = m :: lp' :: body /\ ttype m = MOVES /\ ttype lp' = LPAREN /\
     list_erase switches true f (LMov RPAREN) true body [] = Ok (src, clo :: R) /\ ttype clo = RPAREN /\
     step_list src /\ mults_ok src /\ mv = expand src) /\
  (* the argument, the movement statement, the output *)
  exists l tk steps,
    nth_error (cargs c) k = Some l /\
    In (TMovement l false tk steps) (tops p) /\
    (forall g' tk' steps', In (TMovement l g' tk' steps') (tops p) -> g' = false /\ tk' = tk /\ steps' = steps) /\
    List.length (filter (is_mov_named l) (tops p)) = 1%nat /\
    map tlit steps = map tlit mv /\
    (forall optimize mp out, emit_program_instrs optimize mp p = Emitter.Ok out ->
       exists x y, out = x ++ (marker mp (tline tk) ++ ILabel l false :: emit_steps mp steps) ++ y) /\
    (forall optimize out, emit_program_instrs optimize None p = Emitter.Ok out ->
       exists x y, out = x ++ (ILabel l false :: map (fun s => ILine (tab ++ s)) (steps_out mv)) ++ y) /\
    (Forall not_end mv -> steps_out mv = map tlit mv ++ [t "step_end"]) /\
    (forall b e post, mv = b ++ e :: post -> Forall not_end b -> tlit e = t "step_end" -> steps_out mv = map tlit b ++ [t "step_end"]).

Theorem program_every_moves_argument p :
  parse_program T = Ok p -> eof_ended T ->
  (forall x, In x T -> ttype x = IDENT -> no_colon x) ->
  forall script c, In (script, c) (named_cmds (tops p)) ->
  cargs c = [] \/
  exists pre name lp (a : CmdArgs.arglist) rp rest,
    T = pre ++ name :: lp :: CmdArgs.arg_tokens a ++ rp :: rest /\
    Ast.cid c = List.length (name :: lp :: CmdArgs.arg_tokens a ++ rp :: rest) /\
    ttype lp = LPAREN /\ ttype rp = RPAREN /\
    CmdConverse.wf_args_at switches true parse_format a (rp :: rest) /\ CmdArgs.balanced (CmdArgs.flat a) /\
    cname c = tlit name /\ ctok c = name /\
    List.length (cargs c) = List.length (CmdArgs.strip_last_empty (CmdArgs.groups_of a)) /\
    forall k g1 lt clo mv g2,
      nth_error (CmdArgs.groups_of a) k = Some (g1 ++ CmdArgs.PMoves lt clo mv :: g2) ->
      Forall (fun q => is_moves q = false) g2 ->
      moves_block_compiled p c k lt clo mv.
Proof.
  intros HP EOT NC script c Hin.
  destruct (program_inline_arguments autovars switches true parse_format parse_format_advs T p HP) as (st & HT & K).
  destruct (K _ _ Hin) as (c0 & impc & (consts & f & ts0 & ts1 & A & HC) & E1 & E2 & E3 & E4 & _ & _ & KM & _).
  assert (EO0 : eof_ended ts0) by (eapply advs_eof; eassumption).
  destruct (CmdConverse.command_stmt_accepted switches true parse_format consts parse_format_advs f script ts0 c0 impc ts1 EO0 HC)
    as [(_ & _ & _ & ->)|(name & lp & a & rp & rest & Ets & Ets' & Hlp & Hrp & WA & Hb & Ec & Ei)].
  { left. cbn [cargs List.length] in E4. destruct (cargs c); [reflexivity|discriminate]. }
  right. destruct (PorySwitchLists.advs_suffix _ _ A) as (pre & ET).
  exists pre, name, lp, a, rp, rest. rewrite <- Ets.
  split; [exact ET|]. split; [rewrite E3; eapply command_stmt_cid; exact HC|]. split; [exact Hlp|]. split; [exact Hrp|].
  split; [exact WA|]. split; [exact Hb|].
  assert (Xc : cname c0 = tlit name /\ ctok c0 = name /\ List.length (cargs c0) = List.length (CmdArgs.strip_last_empty (CmdArgs.groups_of a))).
  { rewrite Ec. unfold CmdConverse.cmd_of. cbn [cname ctok cargs]. rewrite map_length. auto. }
  destruct Xc as (X1 & X2 & X3).
  split; [congruence|]. split; [congruence|]. split; [congruence|].
  intros k g1 lt clo mv g2 Hk NM.
  assert (X5 : idM impc = CmdArgs.groups_movs script name (List.length ts0) 0 (CmdArgs.groups_of a)) by (rewrite Ei; reflexivity).
  set (im := {| imCid := List.length ts0; imArg := k; imToks := mv; imScript := script; imCmdTok := name |}).
  assert (FM : filter (argM k) (idM impc) = flat_map (CmdArgs.piece_movs script name (List.length ts0) k) g1 ++ [im]).
  { rewrite X5, filter_argM_groups, Hk, flat_map_app. cbn [flat_map CmdArgs.piece_movs]. rewrite (no_moves_movs _ _ _ _ _ NM). reflexivity. }
  destruct (KM _ _ _ FM) as (l & N & HL).
  destruct (inline_moves_label autovars switches true parse_format eq_refl T p st im l HP HT HL)
    as ((tk & steps & I1 & K1 & K2 & U & ONE & EMIT) & _ & _).
  cbn [imToks im] in K1, K2.
  (* no colon: the steps of the movement (section 5) and the list of this block (both are IDENT tokens of T) *)
  assert (EQ : map tlit steps = map tlit mv).
  { apply K2.
    - pose proof (program_movement_steps_from_stream autovars switches true parse_format parse_format_advs T p HP _ _ _ _ I1) as F.
      eapply Forall_impl; [|exact F]. intros x [H1 H2]. exact (NC x H1 H2).
    - pose proof (command_stmt_Q switches true parse_format parse_format_advs consts f script ts0 c0 impc ts1 T HC A) as Q.
      unfold qimp in Q. rewrite Forall_forall in Q.
      assert (Iim : In im (idM impc)).
      { assert (I0 : In im (filter (argM k) (idM impc))) by (rewrite FM; apply in_or_app; right; now left). apply filter_In in I0. tauto. }
      specialize (Q _ Iim). cbn [imToks im] in Q. eapply Forall_impl; [|exact Q]. intros x [H1 H2]. apply NC; [exact H1|apply ListsParse.is_inv, H2]. }
  split.
  - (* the block in place *)
    destruct (wf_args_at_nth switches true parse_format a (rp :: rest) k _ WA Hk) as (pre' & R' & WG & EA).
    pose proof (wf_group_at_piece switches true parse_format _ _ _ _ WG) as WP. cbn [CmdConverse.wf_piece_at] in WP.
    destruct WP as [(x0 & r0 & Elt & Hx0) (f' & PM)].
    set (RR := CmdArgs.group_toks g2 ++ R') in *.
    assert (ETT : T = (pre ++ name :: lp :: pre' ++ CmdArgs.group_toks g1) ++ lt ++ RR).
    { rewrite ET, Ets. unfold RR. rewrite <- !app_assoc. cbn [app]. do 3 f_equal. rewrite <- !app_assoc. 
      rewrite EA. f_equal. unfold CmdArgs.group_toks. rewrite flat_map_app. cbn [flat_map CmdArgs.piece_toks]. rewrite <- !app_assoc. reflexivity. }
    assert (EOB : eof_ended (lt ++ RR)).
    { eapply CmdConverse.eof_ended_app; [rewrite <- ETT; exact EOT|]. rewrite Elt. discriminate. }
    destruct (moves_operator_sound switches true f' (lt ++ RR) mv (clo :: RR) EOB PM) as (m & lp' & body & src & Eb & Tlp & ER & SL & MO & CL & EM).
    exists (pre ++ name :: lp :: pre' ++ CmdArgs.group_toks g1), RR, f', m, lp', body, src.
    split; [exact ETT|]. split; [exact Eb|]. split; [rewrite Elt in Eb; cbn [app] in Eb; injection Eb as <- _; exact Hx0|].
    split; [exact Tlp|]. split; [exact ER|]. split; [exact CL|]. auto.
  - exists l, tk, steps. split; [exact N|]. split; [exact I1|]. split; [exact U|]. split; [exact ONE|]. split; [exact EQ|].
    split; [intros optimize mp out HO; destruct (EMIT optimize mp out HO) as (x & y & ->); exists x, y; reflexivity|]. split; [|split].
    + intros optimize out HO. destruct (EMIT optimize None out HO) as (x & y & ->). exists x, y. unfold emit_movement. cbn [marker app].
      rewrite (Props1.emit_steps_lines None steps eq_refl), (steps_out_ext _ _ EQ). reflexivity.
    + apply steps_out_unterminated.
    + intros b e post -> F He. apply steps_out_terminated; assumption.
Qed.
End EVERY.

(* on source texts: no premise at all besides "the program is accepted" *)
Theorem compiled_every_moves_argument (hl hd hs : N -> bool) autovars switches fc cli_font cli_maxlen (s : text) p :
  parse_program autovars switches true (Format.parse_format fc cli_font cli_maxlen true) (lex hl hd hs s) = Ok p ->
  forall script c, In (script, c) (named_cmds (tops p)) ->
  cargs c = [] \/
  exists pre name lp (a : CmdArgs.arglist) rp rest,
    lex hl hd hs s = pre ++ name :: lp :: CmdArgs.arg_tokens a ++ rp :: rest /\
    Ast.cid c = List.length (name :: lp :: CmdArgs.arg_tokens a ++ rp :: rest) /\
    ttype lp = LPAREN /\ ttype rp = RPAREN /\
    CmdConverse.wf_args_at switches true (Format.parse_format fc cli_font cli_maxlen true) a (rp :: rest) /\ CmdArgs.balanced (CmdArgs.flat a) /\
    cname c = tlit name /\ ctok c = name /\
    List.length (cargs c) = List.length (CmdArgs.strip_last_empty (CmdArgs.groups_of a)) /\
    forall k g1 lt clo mv g2,
      nth_error (CmdArgs.groups_of a) k = Some (g1 ++ CmdArgs.PMoves lt clo mv :: g2) ->
      Forall (fun q => is_moves q = false) g2 ->
      moves_block_compiled switches (lex hl hd hs s) p c k lt clo mv.
Proof.
  intros HP. apply (program_every_moves_argument autovars switches _ (ProgSrc.parse_format_advs fc cli_font cli_maxlen true) _ p HP).
  - apply ProgSrc.lex_eof.
  - apply lex_idents_no_colon.
Qed.

(* ====================================================================================================== *)
(* 11. Example: the hypotheses are satisfiable on a lexed program; the conclusion is what the model computes  *)
(* ====================================================================================================== *)
Module Examples.
Open Scope string_scope.
Definition nf (_ : N) : bool := false.
Definition pf0 : toks -> res (token * text * text * toks) := fun _ => Panic.
Lemma pf0_advs : forall ts tk v sty ts', pf0 ts = Ok (tk, v, sty, ts') -> forall a, advs a ts -> advs a ts'.
Proof. intros ts tk v sty ts' H. discriminate H. Qed.

(*  0 script 1 S 2 { 3 if 4 ( 5 flag 6 ( 7 F 8 ) 9 ) 10 { 11 applymovement 12 ( 13 2 14 , 15 moves 16 ( 17 a 18 * 19 2 20 b
    21 step_end 22 c 23 ) 24 ) 25 } 26 } 27 EOF  *)
Definition ex_T : toks := Eval vm_compute in lex nf nf nf (t "script S { if (flag(F)) { applymovement(2, moves(a * 2 b step_end c)) } }").
Definition ex_parse := parse_program [] [] true pf0 ex_T.
Definition ex_p : program := Eval vm_compute in match ex_parse with Ok p => p | _ => {| tops := []; texts := [] |} end.
Definition ex_sc : text * cmd := Eval vm_compute in nth 0 (named_cmds (tops ex_p)) ([], {| cname := []; cargs := []; ctok := eof0; Ast.cid := 0 |}).
Definition ex_src : list token := firstn 6 (skipn 17 ex_T).       (* a * 2 b step_end c *)
Definition ex_name : token := nth 11 ex_T eof0.

Example ex_accepted : parse_program [] [] true pf0 ex_T = Ok ex_p.
Proof. vm_compute. reflexivity. Qed.
Example ex_command : In ex_sc (named_cmds (tops ex_p)) /\ fst ex_sc = t "S" /\ cargs (snd ex_sc) = [t "2"; t "S_Movement_0"].
Proof. split; [vm_compute; left; reflexivity|]. split; vm_compute; reflexivity. Qed.

(* the hypothesis [written_moves] of the main theorems holds for that command: argument 1 was written moves( ex_src ) *)
Example ex_written pf : written_moves [] pf ex_T (snd ex_sc) ex_name 1 ex_src (expand ex_src).
Proof.
  exists (firstn 11 ex_T), (nth 12 ex_T eof0),
    ([CmdArgs.PTok (nth 13 ex_T eof0)],
     [(nth 14 ex_T eof0, [CmdArgs.PMoves (nth 15 ex_T eof0 :: nth 16 ex_T eof0 :: ex_src ++ [nth 23 ex_T eof0]) (nth 23 ex_T eof0) (expand ex_src)])]),
    (nth 24 ex_T eof0), (skipn 25 ex_T), [], (nth 15 ex_T eof0), (nth 16 ex_T eof0), (nth 23 ex_T eof0), [].
  assert (SL : step_list ex_src).
  { unfold ex_src, ex_T. cbn [firstn skipn].
    apply sl_mul; [reflexivity|reflexivity|reflexivity|]. repeat (apply sl_step; [reflexivity|]). apply sl_nil. }
  assert (MO : mults_ok ex_src).
  { unfold mults_ok, ex_src, ex_T. cbn [firstn skipn]. vm_compute multipliers.
    apply Forall_cons; [eexists; split; [vm_compute; reflexivity|lia]|apply Forall_nil]. }
  split; [reflexivity|]. split; [reflexivity|]. split; [reflexivity|]. split; [reflexivity|]. split; [|split; [|split; [|split]]].
  - split; cbn [Datatypes.fst Datatypes.snd].
    + apply Forall_cons; [reflexivity|apply Forall_nil].
    + apply Forall_cons; [|apply Forall_nil]. split; [reflexivity|]. cbn [Datatypes.snd]. apply Forall_cons; [|apply Forall_nil].
      apply moves_piece_wf; try reflexivity; assumption.
  - unfold CmdArgs.flat. cbn [Datatypes.fst Datatypes.snd map flat_map app].
    repeat (apply CmdArgs.bal_other; [reflexivity|]). apply CmdArgs.bal_nil.
  - reflexivity.
  - apply Forall_nil.
  - split; [reflexivity|]. split; [reflexivity|]. split; assumption.
Qed.

(* what the main theorem then says, computed by the model: label S_Movement_0, the block a a b step_end (c, written behind
   the step_end, is parsed but not emitted), nothing else named S_Movement_0 *)
Example ex_expansion : map tlit (expand ex_src) = [t "a"; t "a"; t "b"; t "step_end"; t "c"] /\
                       steps_out (expand ex_src) = [t "a"; t "a"; t "b"; t "step_end"].
Proof. split; vm_compute; reflexivity. Qed.
Fixpoint from_label (l : text) (out : list instr) : list instr :=
  match out with [] => [] | i :: r => if is_label l i then i :: r else from_label l r end.
Example ex_output :
  match emit_program_instrs false None ex_p with
  | Emitter.Ok out => Some (from_label (t "S_Movement_0") out)
  | _ => None
  end = Some (ILabel (t "S_Movement_0") false :: map (fun s => ILine (tab ++ s)%list) (steps_out (expand ex_src))).
Proof. vm_compute. reflexivity. Qed.
Example ex_main_applies :
  exists l, nth_error (cargs (snd ex_sc)) 1 = Some l /\ List.length (filter (is_mov_named l) (tops ex_p)) = 1%nat.
Proof.
  destruct (program_moves_argument [] [] pf0 pf0_advs ex_T ex_p ex_accepted (fst ex_sc) (snd ex_sc) (proj1 ex_command)
              ex_name 1 ex_src (expand ex_src) (ex_written pf0)) as (_ & _ & _ & l & tk & steps & N & _ & _ & ONE & _).
  exists l. auto.
Qed.
(* the theorem on source texts applies to the same text with the real format() parser: no hypothesis is left *)
Definition fc0 : Format.fontcfg := {| Format.fcDefault := []; Format.fcFonts := [] |}.
Definition ex_text : text := t "script S { if (flag(F)) { applymovement(2, moves(a * 2 b step_end c)) } }".
Example ex_lexed : lex nf nf nf ex_text = ex_T.
Proof. vm_compute. reflexivity. Qed.
Example ex_accepted_src : parse_program [] [] true (Format.parse_format fc0 [] 0%Z true) (lex nf nf nf ex_text) = Ok ex_p.
Proof. vm_compute. reflexivity. Qed.
Example ex_compiled_applies :
  exists l tk steps, nth_error (cargs (snd ex_sc)) 1 = Some l /\ In (TMovement l false tk steps) (tops ex_p) /\
    map tlit steps = [t "a"; t "a"; t "b"; t "step_end"; t "c"] /\
    forall optimize out, emit_program_instrs optimize None ex_p = Emitter.Ok out ->
      exists x y, out = (x ++ (ILabel l false :: map (fun s => ILine (tab ++ s)%list) [t "a"; t "a"; t "b"; t "step_end"]) ++ y)%list.
Proof.
  assert (W : written_moves [] (Format.parse_format fc0 [] 0%Z true) (lex nf nf nf ex_text) (snd ex_sc) ex_name 1 ex_src (expand ex_src)).
  { rewrite ex_lexed. apply ex_written. }
  destruct (compiled_moves_argument nf nf nf [] [] fc0 [] 0%Z ex_text ex_p ex_accepted_src (fst ex_sc) (snd ex_sc) (proj1 ex_command)
              ex_name 1 ex_src (expand ex_src) W) as (l & tk & steps & N & I1 & _ & _ & EQ & _ & LINES & _).
  exists l, tk, steps. split; [exact N|]. split; [exact I1|]. split; [rewrite EQ; apply (proj1 ex_expansion)|].
  intros optimize out HO. destruct (LINES optimize out HO) as (x & y & ->). exists x, y. rewrite (proj2 ex_expansion). reflexivity.
Qed.

(* poryswitch inside moves( ... ): section 10 applies.  The model run: with V = X the list  a poryswitch(V) { X { b * 2 } _: c } d
   is the list a b b d; the theorem says that the command was written name ( a ) and describes every moves() block of it *)
Definition ps_text : text := t "script S { applymovement(2, moves(a poryswitch(V) { X { b * 2 } _: c } d)) }".
Definition ps_parse := parse_program [] [(t "V", t "X")] true (Format.parse_format fc0 [] 0%Z true) (lex nf nf nf ps_text).
Definition ps_p : program := Eval vm_compute in match ps_parse with Ok p => p | _ => {| tops := []; texts := [] |} end.
Definition ps_sc : text * cmd := Eval vm_compute in nth 0 (named_cmds (tops ps_p)) ([], {| cname := []; cargs := []; ctok := eof0; Ast.cid := 0 |}).
Example ps_accepted : parse_program [] [(t "V", t "X")] true (Format.parse_format fc0 [] 0%Z true) (lex nf nf nf ps_text) = Ok ps_p.
Proof. vm_compute. reflexivity. Qed.
Example ps_run :
  cargs (snd ps_sc) = [t "2"; t "S_Movement_0"] /\
  exists tk steps, In (TMovement (t "S_Movement_0") false tk steps) (tops ps_p) /\ map tlit steps = [t "a"; t "b"; t "b"; t "d"].
Proof. split; [vm_compute; reflexivity|]. eexists _, _. split; [vm_compute; right; left; reflexivity|vm_compute; reflexivity]. Qed.
Example ps_every_applies :
  exists pre name lp (a : CmdArgs.arglist) rp rest,
    lex nf nf nf ps_text = (pre ++ name :: lp :: CmdArgs.arg_tokens a ++ rp :: rest)%list /\ cname (snd ps_sc) = tlit name /\
    forall k g1 lt clo mv g2,
      nth_error (CmdArgs.groups_of a) k = Some (g1 ++ CmdArgs.PMoves lt clo mv :: g2)%list -> Forall (fun q => is_moves q = false) g2 ->
      moves_block_compiled [(t "V", t "X")] (lex nf nf nf ps_text) ps_p (snd ps_sc) k lt clo mv.
Proof.
  assert (In (fst ps_sc, snd ps_sc) (named_cmds (tops ps_p))) as Hin by (vm_compute; left; reflexivity).
  destruct (compiled_every_moves_argument nf nf nf [] [(t "V", t "X")] fc0 [] 0%Z ps_text ps_p ps_accepted (fst ps_sc) (snd ps_sc) Hin)
    as [E|(pre & name & lp & a & rp & rest & ET & _ & _ & _ & _ & _ & EN & _ & _ & ALL)]; [discriminate E|].
  exists pre, name, lp, a, rp, rest. split; [exact ET|]. split; [exact EN|exact ALL].
Qed.
End Examples.
