(* The executable well-formedness check used by lemma 3, and its soundness: wf_render = true gives every hypothesis of
   RenderSim.SIM.  The driver runs the extracted check on the model's chunk graph, order and code of every generated script. *)
From Coq Require Import List String Ascii ZArith NArith Lia Bool.
From Pory Require Import Lexer Ast Emitter Sem2 SemTgt EmitProps RenderSim.
Import ListNotations.
Open Scope list_scope.

Fixpoint nodupz (l : list Z) : bool := match l with [] => true | x :: r => negb (zmem x r) && nodupz r end.
Fixpoint nodupt (l : list text) : bool := match l with [] => true | x :: r => negb (existsb (text_eqb x) r) && nodupt r end.

Lemma zmem_in x l : zmem x l = true <-> In x l.
Proof.
  unfold zmem. rewrite existsb_exists. split.
  - intros (y & Hy & E). apply Z.eqb_eq in E. now subst.
  - intros H. exists x. split; [exact H|apply Z.eqb_refl].
Qed.
Lemma nodupz_sound l : nodupz l = true -> NoDup l.
Proof.
  induction l as [|x r IH]; cbn; intros H; [constructor|]. apply andb_prop in H. destruct H as [H1 H2].
  constructor; [|auto]. intros X. apply zmem_in in X. rewrite X in H1. discriminate.
Qed.
Lemma text_eqb_iff a b : text_eqb a b = true <-> a = b.
Proof. unfold text_eqb. destruct (list_eq_dec N.eq_dec a b); split; auto; discriminate. Qed.
Lemma nodupt_sound l : nodupt l = true -> NoDup l.
Proof.
  induction l as [|x r IH]; cbn; intros H; [constructor|]. apply andb_prop in H. destruct H as [H1 H2].
  constructor; [|auto]. intros X. assert (E : existsb (text_eqb x) r = true) by (apply existsb_exists; exists x; split; [exact X|apply text_eqb_iff; reflexivity]).
  rewrite E in H1. discriminate.
Qed.

Section CHK.
Variable mp : option text.
Variable name : text.
Variable G : list chunk.
Variable order : list Z.
Variable code : list instr.

Definition realb (d : Z) : bool := zmem d order.
Definition real_or_retb (d : Z) : bool := (d =? -1)%Z || zmem d order.
Definition targets_okb (c : chunk) : bool :=
  match cbr c with
  | Some (BrJump d) => realb d
  | Some (BrBreak d) => real_or_retb d
  | Some (BrLeaf _ tr fa) => realb tr && real_or_retb fa
  | Some (BrSwitch _ _ cases def dest) =>
      forallb (fun '(_, _, d) => realb d) cases && match def with Some dd => realb dd | None => real_or_retb dest end
  | None => real_or_retb (cret c)
  end.

Definition pre_okb (c : chunk) : bool :=
  match cbr c with
  | Some (BrLeaf l _ _) => match lpre l with
                           | Some p => negb (is_name p "end") && negb (is_name p "return") && negb (is_name p "goto")
                           | None => true
                           end
  | _ => true
  end.

Definition goto_okb (c : chunk) : bool :=
  forallb (fun st => match st with
                     | SCmd cm => if is_name cm "goto" then
                                    match cargs cm with
                                    | [l] => match graph_find_label l G with
                                             | Some _ => true
                                             | None => negb (existsb (text_eqb l) (lnames code))
                                             end
                                    | _ => true
                                    end
                                  else true
                     | _ => true
                     end) (cstmts c).

(* the last chunk of the order does not fall through *)
Definition last_okb : bool :=
  match rev order with
  | [] => true
  | d :: _ => match get_chunk G d with Some c => negb (snd (render_branch mp name c (-1)%Z)) | None => true end
  end.

Definition wf_render : bool :=
  nodupz order && nodupz (map cid G) &&
  forallb (fun d => (0 <=? d)%Z && match get_chunk G d with Some c => (cid c =? d)%Z | None => false end) order &&
  forallb (fun c => zmem (cid c) order) G &&
  nodupt (lnames code) &&
  forallb targets_okb G && forallb pre_okb G && forallb goto_okb G &&
  forallb (fun c => forallb is_simple (cstmts c)) G &&
  negb (zmem 0%Z (all_regs mp name G order (-1))) && last_okb && zmem 0%Z order.

Lemma get_chunk_cid c i : get_chunk G i = Some c -> cid c = i.
Proof. induction G as [|x r IH]; cbn; [discriminate|]. destruct (cid x =? i)%Z eqn:E; [intros H; inversion H; subst; now apply Z.eqb_eq|auto]. Qed.

Lemma get_chunk_nodup : NoDup (map cid G) -> forall c, In c G -> get_chunk G (cid c) = Some c.
Proof.
  induction G as [|x r IH]; intros ND c Hc; [destruct Hc|]. cbn in *. inversion ND as [|? ? N1 N2]; subst.
  destruct Hc as [->|Hc]; [now rewrite Z.eqb_refl|].
  destruct (cid x =? cid c)%Z eqn:E; [|apply IH; assumption].
  exfalso. apply Z.eqb_eq in E. apply N1. rewrite E. apply in_map. exact Hc.
Qed.

Lemma all_regs_in : forall l1 c l2 y nx, get_chunk G (cid c) = Some c ->
  In y (snd (fst (render_branch mp name c (hd nx l2)))) -> In y (all_regs mp name G (l1 ++ cid c :: l2) nx).
Proof.
  induction l1 as [|x l1 IH]; intros c l2 y nx Hc Hy; cbn [app all_regs].
  - rewrite Hc. apply in_or_app. now left.
  - apply in_or_app. right. apply IH; assumption.
Qed.
End CHK.

Ltac andb H := repeat (apply andb_prop in H; let H2 := fresh "W" in destruct H as [H H2]).

Section SOUND.
Variable St : Type.
Variable exec : cmd -> St -> stepres St.
Variable flag_set trainer_beaten : text -> St -> bool.
Variable cmp_var cmp_var_value : text -> text -> St -> comparison.
Variable case_matches : text -> text -> St -> bool.

(* lemma 3 with its hypotheses replaced by the executable check *)
Theorem render_sim_checked mp tl name glob G order code :
  render_chunks mp tl name glob G order = Ok code ->
  wf_render mp name G order code = true ->
  (forall n s, exists m,
      run (@gfinal) (gstep St exec flag_set trainer_beaten cmp_var cmp_var_value case_matches G) n (ggoto G 0) s =
      run (@tfinal) (tstep St exec flag_set trainer_beaten cmp_var cmp_var_value case_matches code) m (jump code name) s) /\
  (forall m s, exists n,
      res_le (run (@tfinal) (tstep St exec flag_set trainer_beaten cmp_var cmp_var_value case_matches code) m (jump code name) s)
             (run (@gfinal) (gstep St exec flag_set trainer_beaten cmp_var cmp_var_value case_matches G) n (ggoto G 0) s)).
Proof.
  intros HR W. unfold wf_render in W. andb W.
  rename W into K1, W0 into K12, W1 into K11, W2 into K10, W3 into K9, W4 into K8, W5 into K7, W6 into K6, W7 into K5, W8 into K4, W9 into K3, W10 into K2.
  (* K1: nodup order; K2: nodup ids; K3: ids of order; K4: chunks in order; K5: labels; K6: targets; K7: preambles; K8: gotos;
     K9: simple; K10: 0 not registered; K11: last; K12: 0 in order *)
  pose proof (render_chunks_blocks _ _ _ _ _ _ _ HR) as HC.
  pose proof (nodupz_sound _ K1) as ND. pose proof (nodupz_sound _ K2) as NDG.
  rewrite forallb_forall in K3, K4, K6, K7, K8, K9.
  eapply (render_sim_entry St exec flag_set trainer_beaten cmp_var cmp_var_value case_matches mp name glob G (all_regs mp name G order (-1)) order code).
  - exact HC.
  - exact ND.
  - intros d Hd. specialize (K3 d Hd). apply andb_prop in K3. destruct K3 as [P1 P2]. split; [apply Z.leb_le; exact P1|].
    destruct (get_chunk G d) as [c|]; [|discriminate]. exists c. split; [reflexivity|apply Z.eqb_eq; exact P2].
  - intros c Hc. split; [apply zmem_in, K4, Hc|apply get_chunk_nodup; assumption].
  - apply nodupt_sound. exact K5.
  - intros c Hc. specialize (K6 c Hc). unfold targets_okb in K6. unfold targets_ok, real, real_or_ret.
    assert (RB : forall d, realb order d = true -> In d order) by (intros d; apply zmem_in).
    assert (RR : forall d, real_or_retb order d = true -> d = (-1)%Z \/ In d order).
    { intros d H. unfold real_or_retb in H. apply orb_prop in H. destruct H as [H|H]; [left; apply Z.eqb_eq; exact H|right; apply zmem_in; exact H]. }
    destruct (cbr c) as [[d|d|l tr fa|op ol cases def dest]|]; auto.
    + apply andb_prop in K6. destruct K6. split; auto.
    + apply andb_prop in K6. destruct K6 as [Q1 Q2]. split.
      * rewrite forallb_forall in Q1. apply Forall_forall. intros [[v vl] d] Hx. apply RB. exact (Q1 _ Hx).
      * destruct def; auto.
  - intros l1 c l2 y Ho Hc Hy. pose proof (all_regs_in mp name G l1 c l2 y (-1)%Z Hc Hy) as I. rewrite <- Ho in I. split.
    + apply zmem_in. exact I.
    + intros ->. apply zmem_in in I. rewrite I in K10. discriminate.
  - intros l1 c Ho Hc. unfold last_okb in K11. rewrite Ho, rev_app_distr in K11. cbn in K11. rewrite Hc in K11.
    destruct (snd (render_branch mp name c (-1)%Z)); [discriminate|reflexivity].
  - intros c Hc. specialize (K9 c Hc). rewrite forallb_forall in K9. apply Forall_forall. exact K9.
  - intros c l tr fa p Hc EB LP. specialize (K7 c Hc). unfold pre_okb in K7. rewrite EB, LP in K7. andb K7.
    repeat split; apply negb_true_iff; assumption.
  - intros c cm l Hc Hin N3 AR GF. specialize (K8 c Hc). unfold goto_okb in K8. rewrite forallb_forall in K8. specialize (K8 _ Hin).
    cbn in K8. rewrite N3, AR, GF in K8. intros X. apply negb_true_iff in K8.
    assert (E : existsb (text_eqb l) (lnames code) = true) by (apply existsb_exists; exists l; split; [exact X|apply text_eqb_iff; reflexivity]).
    rewrite E in K8. discriminate.
  - apply zmem_in. exact K12.
Qed.
End SOUND.
