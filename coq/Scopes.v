(* C15 - "A top-level name is exported ('::') or file-local (':') exactly as its scope modifier says, and by the documented
   default when there is none: script, text and mapscripts global; movement and mart local.  Labels inside scripts are local
   unless marked (global), and every label the compiler invents - sub-labels, hoisted text and movement, inline map scripts,
   tables - is local."

   All theorems are about the model's own functions (Parser.v, Emitter.v, Compile.v) and quantify over all token streams /
   programs / source texts.  [pk n ts] is the token n places after the cursor, [advs base ts]: ts is reached from base by advancing.

   PART 1  the scope-modifier reader        scope_modifier_reads / _rejects / _inv   (modifier_of, scope_of: what is written)
   PART 2  the five top-level statements    script_ / text_ / movement_ / mart_ / mapscripts_scope_as_written  (declares);
                                            documented_defaults, global_modifier_is_recorded, local_modifier_is_recorded,
                                            modifier_trichotomy  (the property's first sentence, kind by kind)
   PART 3  label statements                 try_label_reads / _inv / _none (label_written: L:  L(global):  L(local):),
                                            label_statement_scope, identifier_statement_scope,
                                            block_labels_as_written (every label statement of a block, at every depth)
   PART 4  whole programs (parser)          hoisted_are_local, program_scopes_as_written
   PART 5  the emitter                      label_statement_rendered, text_ / movement_ / mart_label_line, raw_label_lines, *_block_shape,
                                            graph_conserves_labels, script_label_lines (exact multiset of label lines of a
                                            script), script_code_starts_with_own_label, script_own_label, script_author_labels,
                                            script_labels_classified, mapscripts_label_lines, top_label_lines, program_label_lines
   PART 6  printing                         label_line_printed, exported_iff_double_colon, local_iff_single_colon,
                                            label_lines_in_output
   PART 7  source to code                   label_lines_as_written, exported_labels_are_written, declared_labels_are_emitted,
                                            compile_label_scopes (Compile.compile), source_* (on source texts): no hypothesis left
   EXAMPLES                                 every hypothesis is satisfiable on lexed concrete sources; all 5 x 3 combinations.

   Hypotheses that remain, and where they are discharged:
   - parse_format_advs (the abstract format() parser only advances): true of Format.parse_format (ProgSrc.parse_format_advs);
     discharged in compile_label_scopes.
   - eof_ended ts (the stream ends with its EOF token): true of every lexer output (ProgSrc.lex_eof); discharged likewise.
   - Worklist.src_ok body (the source check of C01) in the script theorems of PART 5: true of every body of an accepted
     program (ProgSrc.parse_program_src); discharged in PART 7. *)
From Coq Require Import List String Ascii ZArith NArith Lia Bool Permutation.
From Pory Require Import Lexer Ast Emitter EmitProps TopProps Parser Consume ConstSites.
From Pory Require LabelSim Tr Worklist WorkLabels WorkShape OrderPerm RenderCheck ProgWf ProgSrc Format Compile.
Import ListNotations.
Open Scope list_scope.

(* ====================================================================================================================== *)
(* PART 1 - the scope modifier reader                                                                                      *)
(* ====================================================================================================================== *)

(* the window functions: looking n tokens ahead after one step is looking n+1 tokens ahead *)
Lemma cur_pk0 ts : cur ts = pk 0 ts.
Proof. destruct ts; reflexivity. Qed.
Lemma pk_adv n ts : pk n (adv ts) = pk (S n) ts.
Proof.
  destruct ts as [|x [|y r]]; [destruct n; reflexivity| |reflexivity].
  unfold pk. cbn [adv last]. destruct n as [|[|n]]; reflexivity.
Qed.
Lemma cur_adv ts : cur (adv ts) = pk 1 ts.
Proof. rewrite cur_pk0. apply pk_adv. Qed.

(* what the author wrote between the keyword and the name *)
Inductive modifier := MNone | MGlobal | MLocal.

(* [modifier_of ts]: cur ts is the keyword (script, text, movement, mart, mapscripts).
   - no '(' after the keyword: there is no modifier;
   - '(' 'global' ')' : MGlobal;  '(' 'local' ')' : MLocal;
   - anything else after '(' is not a modifier (None: the parser rejects) *)
Definition modifier_of (ts : toks) : option modifier :=
  if negb (is LPAREN (pk 1 ts)) then Some MNone
  else if is GLOBAL (pk 2 ts) && is RPAREN (pk 3 ts) then Some MGlobal
  else if is LOCAL (pk 2 ts) && is RPAREN (pk 3 ts) then Some MLocal
  else None.

(* the flag a modifier stands for, given the default of the statement kind *)
Definition scope_of (default : bool) (m : modifier) : bool :=
  match m with MNone => default | MGlobal => true | MLocal => false end.

(* where the reader stops: on the keyword when there is no modifier, on the ')' otherwise *)
Definition after_modifier (m : modifier) (ts : toks) : toks :=
  match m with MNone => ts | _ => adv (adv (adv ts)) end.

Lemma is_GLOBAL_LOCAL tk : is GLOBAL tk = true -> is LOCAL tk = false.
Proof. intros H. eapply is_excl; [exact H|discriminate]. Qed.

(* the reader returns exactly the flag of the modifier that is written ... *)
Theorem scope_modifier_reads default ts m :
  modifier_of ts = Some m -> scope_modifier default ts = Parser.Ok (scope_of default m, after_modifier m ts).
Proof.
  unfold modifier_of, scope_modifier, peekis, curis. rewrite !pk_adv, !cur_adv, !pk_adv.
  destruct (is LPAREN (pk 1 ts)); cbn [negb].
  - destruct (is GLOBAL (pk 2 ts)) eqn:G; cbn [andb negb].
    + destruct (is RPAREN (pk 3 ts)); cbn [negb]; [intros H; inversion H; reflexivity|].
      rewrite (is_GLOBAL_LOCAL _ G). cbn [andb]. discriminate.
    + destruct (is LOCAL (pk 2 ts)); cbn [andb negb]; [|discriminate].
      destruct (is RPAREN (pk 3 ts)); cbn [negb]; [intros H; inversion H; reflexivity|discriminate].
  - intros H; inversion H; reflexivity.
Qed.

(* ... and rejects everything else that starts with '(' *)
Theorem scope_modifier_rejects default ts :
  modifier_of ts = None -> exists e, scope_modifier default ts = Parser.Err e.
Proof.
  unfold modifier_of, scope_modifier, peekis, curis, err_tok. rewrite !pk_adv, !cur_adv.
  destruct (is LPAREN (pk 1 ts)); cbn [negb]; [|discriminate].
  destruct (is GLOBAL (pk 2 ts)) eqn:G; cbn [andb negb].
  - destruct (is RPAREN (pk 3 ts)); cbn [negb]; [discriminate|]. eexists; reflexivity.
  - destruct (is LOCAL (pk 2 ts)); cbn [andb negb]; [|eexists; reflexivity].
    destruct (is RPAREN (pk 3 ts)); cbn [negb]; [discriminate|]. eexists; reflexivity.
Qed.

(* the two together: whenever the reader accepts, a modifier (possibly none) is written and the flag is its flag *)
Theorem scope_modifier_inv default ts g ts' :
  scope_modifier default ts = Parser.Ok (g, ts') ->
  exists m, modifier_of ts = Some m /\ g = scope_of default m /\ ts' = after_modifier m ts.
Proof.
  intros H. destruct (modifier_of ts) as [m|] eqn:M.
  - rewrite (scope_modifier_reads default ts m M) in H. inversion H; subst. exists m. auto.
  - destruct (scope_modifier_rejects default ts M) as [e E]. rewrite E in H. discriminate.
Qed.

(* ====================================================================================================================== *)
(* PART 2 - the five top-level statements record the flag of the modifier, or their documented default                    *)
(* ====================================================================================================================== *)

Lemma bind_inv {A B} (m : Parser.res A) (k : A -> Parser.res B) r :
  (match m with Parser.Ok x => k x | Err e => Err e | Panic => Panic | Fuel => Fuel end) = Parser.Ok r ->
  exists x, m = Parser.Ok x /\ k x = Parser.Ok r.
Proof. destruct m; try discriminate. eauto. Qed.
Tactic Notation "bind" hyp(H) "as" simple_intropattern(p) "eqn" ident(E) :=
  apply bind_inv in H; destruct H as (p & E & H); cbn beta iota in H.

(* the documented defaults: script, text and mapscripts are global, movement and mart are local *)
Definition default_scope (kw : toktype) : bool :=
  match kw with SCRIPT | TEXT | MAPSCRIPTS => true | _ => false end.

(* [declares default ts name g]: the statement whose keyword is cur ts is written with a modifier (possibly none) whose flag,
   under the given default, is g, and the token after the modifier is the identifier [name] *)
Definition declares (default : bool) (ts : toks) (name : text) (g : bool) : Prop :=
  exists m, modifier_of ts = Some m /\ g = scope_of default m /\
            is IDENT (pk 1 (after_modifier m ts)) = true /\ name = tlit (pk 1 (after_modifier m ts)).

(* reading [declares]: the three ways a statement can be written *)
Lemma declares_no_modifier default ts name g : declares default ts name g -> peekis LPAREN ts = false -> g = default.
Proof.
  intros (m & M & -> & _) P. unfold modifier_of in M. unfold peekis in P. rewrite P in M. inversion M; reflexivity.
Qed.
Lemma declares_global default ts name g :
  declares default ts name g -> peekis LPAREN ts = true -> is GLOBAL (pk 2 ts) = true -> g = true.
Proof.
  intros (m & M & -> & _) P G. unfold modifier_of in M. unfold peekis in P. rewrite P, G in M. cbn [negb andb] in M.
  destruct (is RPAREN (pk 3 ts)); [inversion M; reflexivity|]. rewrite (is_GLOBAL_LOCAL _ G) in M. discriminate.
Qed.
Lemma declares_local default ts name g :
  declares default ts name g -> peekis LPAREN ts = true -> is LOCAL (pk 2 ts) = true -> g = false.
Proof.
  intros (m & M & -> & _) P L. unfold modifier_of in M. unfold peekis in P. rewrite P, L in M. cbn [negb andb] in M.
  destruct (is GLOBAL (pk 2 ts)) eqn:G; [rewrite (is_GLOBAL_LOCAL _ G) in L; discriminate|]. cbn [andb] in M.
  destruct (is RPAREN (pk 3 ts)); [inversion M; reflexivity|discriminate].
Qed.
(* conversely a statement that is accepted carries one of the three *)
Lemma declares_cases default ts name g : declares default ts name g ->
  (peekis LPAREN ts = false /\ g = default /\ name = tlit (pk 1 ts)) \/
  (peekis LPAREN ts = true /\ is GLOBAL (pk 2 ts) = true /\ is RPAREN (pk 3 ts) = true /\ g = true /\ name = tlit (pk 4 ts)) \/
  (peekis LPAREN ts = true /\ is LOCAL (pk 2 ts) = true /\ is RPAREN (pk 3 ts) = true /\ g = false /\ name = tlit (pk 4 ts)).
Proof.
  intros (m & M & -> & _ & ->). unfold modifier_of in M. unfold peekis.
  destruct (is LPAREN (pk 1 ts)); cbn [negb] in M.
  - right. destruct (is GLOBAL (pk 2 ts)); cbn [andb] in M.
    + destruct (is RPAREN (pk 3 ts)).
      * inversion M; subst. left. cbn [after_modifier]. rewrite !pk_adv. auto.
      * destruct (is LOCAL (pk 2 ts)); discriminate.
    + destruct (is LOCAL (pk 2 ts)); cbn [andb] in M; [|discriminate].
      destruct (is RPAREN (pk 3 ts)); [|discriminate]. inversion M; subst. right. cbn [after_modifier]. rewrite !pk_adv. auto.
  - inversion M; subst. left. auto.
Qed.

(* the same on an explicit token list *)
Lemma modifier_of_none kw nm rest : is LPAREN nm = false -> modifier_of (kw :: nm :: rest) = Some MNone.
Proof. intros H. unfold modifier_of, pk. cbn [nth]. rewrite H. reflexivity. Qed.
Lemma modifier_of_global kw lp m rp rest :
  is LPAREN lp = true -> is GLOBAL m = true -> is RPAREN rp = true -> modifier_of (kw :: lp :: m :: rp :: rest) = Some MGlobal.
Proof. intros H1 H2 H3. unfold modifier_of, pk. cbn [nth]. rewrite H1, H2, H3. reflexivity. Qed.
Lemma modifier_of_local kw lp m rp rest :
  is LPAREN lp = true -> is LOCAL m = true -> is RPAREN rp = true -> modifier_of (kw :: lp :: m :: rp :: rest) = Some MLocal.
Proof.
  intros H1 H2 H3. unfold modifier_of, pk. cbn [nth]. rewrite H1, H2, H3.
  destruct (is GLOBAL m) eqn:G; [rewrite (is_GLOBAL_LOCAL _ G) in H2; discriminate|]. reflexivity.
Qed.

Lemma expect_peek_inv ty ts ts1 : expect_peek ty ts = Some ts1 -> is ty (pk 1 ts) = true /\ ts1 = adv ts.
Proof. unfold expect_peek, peekis. destruct (is ty (pk 1 ts)); [intros H; inversion H; auto|discriminate]. Qed.

Section TOPLEVEL.
Variable autovars : list (text * autovar).
Variable switches : list (text * text).
Variable env_errors : bool.
Variable parse_format : toks -> Parser.res (token * text * text * toks).

Lemma declares_intro default ts g ts1 ts2 :
  scope_modifier default ts = Parser.Ok (g, ts1) -> expect_peek IDENT ts1 = Some ts2 -> declares default ts (tlit (cur ts2)) g.
Proof.
  intros S P. destruct (scope_modifier_inv _ _ _ _ S) as (m & M & -> & ->). destruct (expect_peek_inv _ _ _ P) as [I ->].
  exists m. rewrite cur_adv. auto.
Qed.

(* script: global unless (local) *)
Theorem script_scope_as_written consts f ts name g body imp ts' :
  parse_script autovars switches env_errors parse_format consts f ts = Parser.Ok (name, g, body, imp, ts') ->
  declares true ts name g.
Proof.
  unfold parse_script. intros H. cbv zeta in H. bind H as [g0 ts1] eqn S.
  destruct (expect_peek IDENT ts1) as [ts2|] eqn:P; [|discriminate].
  destruct (expect_peek LBRACE ts2) as [ts3|]; [|discriminate]. bind H as [[b i] ts4] eqn B. inversion H; subst.
  eapply declares_intro; eassumption.
Qed.

(* text: global unless (local) *)
Theorem text_scope_as_written f ts td ts' :
  parse_text switches env_errors parse_format f ts = Parser.Ok (td, ts') -> declares true ts (xname td) (xglob td).
Proof.
  unfold parse_text. intros H. cbv zeta in H. bind H as [g0 ts1] eqn S.
  destruct (expect_peek IDENT ts1) as [ts2|] eqn:P; [|discriminate].
  destruct (expect_peek LBRACE ts2) as [ts3|]; [|discriminate]. bind H as [[v sty] ts5] eqn B.
  destruct (expect_peek RBRACE ts5) as [ts6|]; [|discriminate]. inversion H; subst. cbn [xname xglob].
  eapply declares_intro; eassumption.
Qed.

(* movement: local unless (global) *)
Theorem movement_scope_as_written f ts tp ts' :
  parse_movement switches env_errors f ts = Parser.Ok (tp, ts') ->
  exists name g steps, tp = TMovement name g (cur ts) steps /\ declares false ts name g.
Proof.
  unfold parse_movement. intros H. cbv zeta in H. bind H as [g0 ts1] eqn S.
  destruct (expect_peek IDENT ts1) as [ts2|] eqn:P; [|discriminate].
  destruct (expect_peek LBRACE ts2) as [ts3|]; [|discriminate]. bind H as [mv ts4] eqn B. inversion H; subst.
  eexists _, _, _. split; [reflexivity|]. eapply declares_intro; eassumption.
Qed.

(* mart: local unless (global) *)
Theorem mart_scope_as_written consts f ts tp ts' :
  parse_mart switches env_errors consts f ts = Parser.Ok (tp, ts') ->
  exists name g items itoks, tp = TMart name g (cur ts) items itoks /\ declares false ts name g.
Proof.
  unfold parse_mart. intros H. cbv zeta in H. bind H as [g0 ts1] eqn S.
  destruct (expect_peek IDENT ts1) as [ts2|] eqn:P; [|discriminate].
  destruct (expect_peek LBRACE ts2) as [ts3|]; [|discriminate]. bind H as [its ts4] eqn B. inversion H; subst.
  eexists _, _, _, _. split; [reflexivity|]. eapply declares_intro; eassumption.
Qed.

(* mapscripts: global unless (local) *)
Theorem mapscripts_scope_as_written consts f ts tp imp ts' :
  parse_mapscripts autovars switches env_errors parse_format consts f ts = Parser.Ok (tp, imp, ts') ->
  exists name g plain tables, tp = TMapScripts name g plain tables /\ declares true ts name g.
Proof.
  unfold parse_mapscripts. intros H. bind H as [g0 ts1] eqn S. cbv zeta in H.
  destruct (expect_peek IDENT ts1) as [ts2|] eqn:P; [|discriminate].
  destruct (expect_peek LBRACE ts2) as [ts3|]; [|discriminate]. bind H as [[[plain tables] i] ts4] eqn B. inversion H; subst.
  eexists _, _, _, _. split; [reflexivity|]. eapply declares_intro; eassumption.
Qed.
End TOPLEVEL.

(* the same three facts, statement kind by statement kind, in the words of the property *)
Section SUMMARY.
Variable autovars : list (text * autovar).
Variable switches : list (text * text).
Variable env_errors : bool.
Variable parse_format : toks -> Parser.res (token * text * text * toks).
Notation parse_script := (parse_script autovars switches env_errors parse_format).
Notation parse_text := (parse_text switches env_errors parse_format).
Notation parse_movement := (parse_movement switches env_errors).
Notation parse_mart := (parse_mart switches env_errors).
Notation parse_mapscripts := (parse_mapscripts autovars switches env_errors parse_format).

(* one statement for the five kinds: [recorded kw r n g] - the result r of the parsing function of kind kw records name n, flag g *)
Inductive recorded (ts : toks) : toktype -> text -> bool -> Prop :=
| rec_script consts f n g b imp ts' : parse_script consts f ts = Parser.Ok (n, g, b, imp, ts') -> recorded ts SCRIPT n g
| rec_text f x ts' : parse_text f ts = Parser.Ok (x, ts') -> recorded ts TEXT (xname x) (xglob x)
| rec_movement f n g tk steps ts' : parse_movement f ts = Parser.Ok (TMovement n g tk steps, ts') -> recorded ts MOVEMENT n g
| rec_mart consts f n g tk items itoks ts' : parse_mart consts f ts = Parser.Ok (TMart n g tk items itoks, ts') -> recorded ts MART n g
| rec_mapscripts consts f n g plain tables imp ts' :
    parse_mapscripts consts f ts = Parser.Ok (TMapScripts n g plain tables, imp, ts') -> recorded ts MAPSCRIPTS n g.

Lemma recorded_declares ts kw n g : recorded ts kw n g -> declares (default_scope kw) ts n g.
Proof.
  intros [consts f n0 g0 b imp ts' H|f x ts' H|f n0 g0 tk steps ts' H|consts f n0 g0 tk items itoks ts' H|consts f n0 g0 plain tables imp ts' H]; cbn [default_scope].
  - eapply script_scope_as_written; exact H.
  - eapply text_scope_as_written; exact H.
  - destruct (movement_scope_as_written _ _ _ _ _ _ H) as (n1 & g1 & s1 & E & D). inversion E; subst. exact D.
  - destruct (mart_scope_as_written _ _ _ _ _ _ _ H) as (n1 & g1 & i1 & t1 & E & D). inversion E; subst. exact D.
  - destruct (mapscripts_scope_as_written _ _ _ _ _ _ _ _ _ _ H) as (n1 & g1 & p1 & t1 & E & D). inversion E; subst. exact D.
Qed.

(* no modifier: script, text and mapscripts are global; movement and mart are local *)
Theorem documented_defaults ts kw n g :
  recorded ts kw n g -> peekis LPAREN ts = false ->
  g = match kw with SCRIPT | TEXT | MAPSCRIPTS => true | _ (* MOVEMENT, MART *) => false end.
Proof. intros R P. exact (declares_no_modifier _ _ _ _ (recorded_declares _ _ _ _ R) P). Qed.
(* (global): exported, whatever the kind *)
Theorem global_modifier_is_recorded ts kw n g :
  recorded ts kw n g -> peekis LPAREN ts = true -> is GLOBAL (pk 2 ts) = true -> g = true.
Proof. intros R P G. exact (declares_global _ _ _ _ (recorded_declares _ _ _ _ R) P G). Qed.
(* (local): file-local, whatever the kind *)
Theorem local_modifier_is_recorded ts kw n g :
  recorded ts kw n g -> peekis LPAREN ts = true -> is LOCAL (pk 2 ts) = true -> g = false.
Proof. intros R P L. exact (declares_local _ _ _ _ (recorded_declares _ _ _ _ R) P L). Qed.
(* and there is no fourth case: an accepted statement is written in one of these three ways *)
Theorem modifier_trichotomy ts kw n g :
  recorded ts kw n g ->
  peekis LPAREN ts = false \/
  (peekis LPAREN ts = true /\ is GLOBAL (pk 2 ts) = true /\ is RPAREN (pk 3 ts) = true) \/
  (peekis LPAREN ts = true /\ is LOCAL (pk 2 ts) = true /\ is RPAREN (pk 3 ts) = true).
Proof.
  intros R. destruct (declares_cases _ _ _ _ (recorded_declares _ _ _ _ R)) as [(A & _)|[(A & B & C & _)|(A & B & C & _)]]; auto.
Qed.
End SUMMARY.

(* ====================================================================================================================== *)
(* PART 3 - label statements inside scripts: local unless marked (global)                                                 *)
(* ====================================================================================================================== *)

(* [label_written ts g]: cur ts is an identifier followed by ':' (g = false), by '(global):' (g = true) or by '(local):'
   (g = false) *)
Definition label_written (ts : toks) (g : bool) : Prop :=
  (peekis COLON ts = true /\ g = false) \/
  (peekis COLON ts = false /\ is LPAREN (pk 1 ts) = true /\ is RPAREN (pk 3 ts) = true /\ is COLON (pk 4 ts) = true /\
   ((is GLOBAL (pk 2 ts) = true /\ g = true) \/ (is LOCAL (pk 2 ts) = true /\ g = false))).

(* where the label reader stops: on the ':' *)
Definition at_colon (ts : toks) : toks := if peekis COLON ts then adv ts else adv (adv (adv (adv ts))).

Lemma label_written_fun ts g g' : label_written ts g -> label_written ts g' -> g = g'.
Proof.
  intros [[C ->]|(C & _ & _ & _ & [[G ->]|[L ->]])] [[C' ->]|(C' & _ & _ & _ & [[G' ->]|[L' ->]])]; try reflexivity; try congruence.
  - rewrite (is_GLOBAL_LOCAL _ G) in L'. discriminate.
  - rewrite (is_GLOBAL_LOCAL _ G') in L. discriminate.
Qed.

(* the label reader accepts exactly the three written forms and records the flag as written *)
Theorem try_label_reads ts g :
  label_written ts g -> try_label ts = Some (SLabel (tlit (cur ts)) g (cur ts), at_colon ts).
Proof.
  unfold try_label, at_colon, peekis.
  intros [[C ->]|(C & LP & RP & CO & [[G ->]|[L ->]])]; unfold peekis in C; rewrite C; [reflexivity| |].
  - rewrite LP, RP, CO, G. reflexivity.
  - rewrite LP, RP, CO, L. destruct (is GLOBAL (pk 2 ts)) eqn:G; [rewrite (is_GLOBAL_LOCAL _ G) in L; discriminate|reflexivity].
Qed.
Theorem try_label_inv ts s ts' :
  try_label ts = Some (s, ts') -> exists g, label_written ts g /\ s = SLabel (tlit (cur ts)) g (cur ts) /\ ts' = at_colon ts.
Proof.
  unfold try_label, at_colon, label_written, peekis. destruct (is COLON (pk 1 ts)).
  - intros H; inversion H; subst. exists false. auto.
  - destruct (is LPAREN (pk 1 ts)); cbn [andb]; [|discriminate].
    destruct (is RPAREN (pk 3 ts)); [|rewrite andb_false_r; discriminate].
    destruct (is COLON (pk 4 ts)); [|rewrite andb_false_r; discriminate].
    destruct (is GLOBAL (pk 2 ts)) eqn:G; cbn [orb andb].
    + intros H; inversion H; subst. exists true. split; [right|]; auto 10.
    + destruct (is LOCAL (pk 2 ts)) eqn:L; cbn [andb]; [|discriminate].
      intros H; inversion H; subst. exists false. split; [right|]; auto 10.
Qed.
Theorem try_label_none ts : try_label ts = None -> forall g, ~ label_written ts g.
Proof. intros H g W. rewrite (try_label_reads ts g W) in H. discriminate. Qed.

(* ---------- all the label statements of a body, at every depth, with their flag and token ---------- *)
Definition lab := (text * bool * token)%type.
Fixpoint deep1 (s : stmt) : list lab :=
  let dl := fix dl (ss : list stmt) : list lab := match ss with [] => [] | x :: r => deep1 x ++ dl r end in
  match s with
  | SLabel n g tk => [(n, g, tk)]
  | SIf conds els =>
      (fix go (cs : list (bexp * list stmt)) : list lab := match cs with [] => [] | (_, b) :: r => dl b ++ go r end) conds ++
      match els with Some b => dl b | None => [] end
  | SWhile _ _ b => dl b
  | SDoWhile _ b _ => dl b
  | SSwitch _ _ _ cases =>
      (fix go (cs : list Emitter.scase) : list lab := match cs with [] => [] | c :: r => dl (sc_body c) ++ go r end) cases
  | _ => []
  end.
Fixpoint deep_labels (ss : list stmt) : list lab := match ss with [] => [] | x :: r => deep1 x ++ deep_labels r end.
Definition deep_local := fix dl (ss : list stmt) : list lab := match ss with [] => [] | x :: r => deep1 x ++ dl r end.
Lemma deep_local_eq ss : deep_local ss = deep_labels ss.
Proof. induction ss as [|x r IH]; [reflexivity|]. cbn. now rewrite IH. Qed.

Definition deep_conds (l : list (bexp * list stmt)) : list lab := List.concat (map (fun cb : bexp * list stmt => deep_labels (Datatypes.snd cb)) l).
Definition deep_cases (l : list Emitter.scase) : list lab := List.concat (map (fun c : Emitter.scase => deep_labels (sc_body c)) l).
Definition deep_opt (o : option (list stmt)) : list lab := match o with Some b => deep_labels b | None => [] end.

Lemma deep1_if conds els : deep1 (SIf conds els) = deep_conds conds ++ deep_opt els.
Proof.
  change (deep1 (SIf conds els)) with
    ((fix go (cs : list (bexp * list stmt)) : list lab := match cs with [] => [] | (_, b) :: r => deep_local b ++ go r end) conds ++
     match els with Some b => deep_local b | None => [] end).
  f_equal.
  unfold deep_conds. induction conds as [|[e b] r IH]; [reflexivity|]. cbn. rewrite IH, deep_local_eq. reflexivity.
Qed.
Lemma deep1_while tg c b : deep1 (SWhile tg c b) = deep_labels b.
Proof. change (deep1 (SWhile tg c b)) with (deep_local b). apply deep_local_eq. Qed.
Lemma deep1_dowhile tg b c : deep1 (SDoWhile tg b c) = deep_labels b.
Proof. change (deep1 (SDoWhile tg b c)) with (deep_local b). apply deep_local_eq. Qed.
Lemma deep1_switch tg o ol cases : deep1 (SSwitch tg o ol cases) = deep_cases cases.
Proof.
  change (deep1 (SSwitch tg o ol cases)) with
    ((fix go (cs : list Emitter.scase) : list lab := match cs with [] => [] | c :: r => deep_local (sc_body c) ++ go r end) cases).
  unfold deep_cases. induction cases as [|c r IH]; [reflexivity|]. cbn. rewrite IH, deep_local_eq. reflexivity.
Qed.
Lemma deep_app a b : deep_labels (a ++ b) = deep_labels a ++ deep_labels b.
Proof. induction a as [|x r IH]; [reflexivity|]. cbn. now rewrite IH, app_assoc. Qed.
Lemma deep_single s : deep_labels [s] = deep1 s.
Proof. cbn. apply app_nil_r. Qed.
Lemma deep_conds_app a b : deep_conds (a ++ b) = deep_conds a ++ deep_conds b.
Proof. unfold deep_conds. now rewrite map_app, List.concat_app. Qed.
Lemma deep_cases_app a b : deep_cases (a ++ b) = deep_cases a ++ deep_cases b.
Proof. unfold deep_cases. now rewrite map_app, List.concat_app. Qed.

(* the top level of a body: the label statements that are not nested *)
Lemma deep_simple ss : Forall (fun s => is_simple s = true) ss -> map Datatypes.fst (deep_labels ss) = user_labels ss.
Proof.
  induction 1 as [|x r H _ IH]; [reflexivity|]. unfold user_labels in *. cbn [deep_labels flat_map]. rewrite map_app. f_equal; [|exact IH].
  destruct x; try discriminate H; reflexivity.
Qed.

(* [label_at base n g tk]: somewhere in the stream [base] stands the identifier token tk, spelled n, written as a label with
   the flag g *)
Definition label_at (base : toks) (n : text) (g : bool) (tk : token) : Prop :=
  exists ts, advs base ts /\ ttype (cur ts) = IDENT /\ tk = cur ts /\ n = tlit (cur ts) /\ label_written ts g.
Definition LA (base : toks) (x : lab) : Prop := label_at base (Datatypes.fst (Datatypes.fst x)) (Datatypes.snd (Datatypes.fst x)) (Datatypes.snd x).
Definition ALL (base : toks) (l : list lab) : Prop := Forall (LA base) l.
Lemma ALL_app base a b : ALL base a -> ALL base b -> ALL base (a ++ b).
Proof. intros. apply Forall_app. split; assumption. Qed.
Lemma ALL_nil base : ALL base []. Proof. constructor. Qed.

Section INSIDE.
Variable autovars : list (text * autovar).
Variable switches : list (text * text).
Variable env_errors : bool.
Variable parse_format : toks -> Parser.res (token * text * text * toks).
Variable consts : list (text * text).
Hypothesis parse_format_advs : forall ts tk v sty ts', parse_format ts = Parser.Ok (tk, v, sty, ts') -> forall a, advs a ts -> advs a ts'.

Notation parse_stmt := (parse_stmt autovars switches env_errors parse_format consts).
Notation parse_block := (parse_block autovars switches env_errors parse_format consts).
Notation parse_switch_block := (parse_switch_block autovars switches env_errors parse_format consts).
Notation parse_cond := (parse_cond autovars switches env_errors parse_format consts).
Notation parse_if := (parse_if autovars switches env_errors parse_format consts).
Notation parse_elifs := (parse_elifs autovars switches env_errors parse_format consts).
Notation parse_switch := (parse_switch autovars switches env_errors parse_format consts).
Notation parse_cases := (parse_cases autovars switches env_errors parse_format consts).
Notation parse_pory := (parse_pory autovars switches env_errors parse_format consts).
Notation parse_pory_cases := (parse_pory_cases autovars switches env_errors parse_format consts).
Notation parse_pory_stmts := (parse_pory_stmts autovars switches env_errors parse_format consts).

(* a label statement: the flag is the one written *)
Theorem label_statement_scope f script bs cs ts g :
  ttype (cur ts) = IDENT -> label_written ts g ->
  parse_stmt (S f) script bs cs ts = Parser.Ok ([SLabel (tlit (cur ts)) g (cur ts)], imp0, at_colon ts).
Proof. intros T W. rewrite parse_stmt_unfold, T, (try_label_reads ts g W). reflexivity. Qed.

(* and a statement that starts with an identifier and is not written as a label is a command, never a label *)
Theorem identifier_statement_scope f script bs cs ts ss imp ts' :
  parse_stmt f script bs cs ts = Parser.Ok (ss, imp, ts') -> ttype (cur ts) = IDENT ->
  (exists g, label_written ts g /\ ss = [SLabel (tlit (cur ts)) g (cur ts)]) \/
  ((forall g, ~ label_written ts g) /\ exists c, ss = [SCmd c]).
Proof.
  destruct f as [|f]; [discriminate|]. intros H T. rewrite parse_stmt_unfold, T in H.
  destruct (try_label ts) as [[l ts1]|] eqn:TL.
  - left. destruct (try_label_inv _ _ _ TL) as (g & W & -> & _). injection H as <- _ _. exists g. auto.
  - right. split; [apply try_label_none; exact TL|]. bind H as [[c i] ts1] eqn CS. injection H as <- _ _. eauto.
Qed.

Definition deep_pcases (l : list (text * (list stmt * impdata))) : list lab :=
  List.concat (map (fun c : text * (list stmt * impdata) => deep_labels (Datatypes.fst (Datatypes.snd c))) l).

Definition LW (f : nat) : Prop :=
  (forall script bs cs ts ss imp ts' base, parse_stmt f script bs cs ts = Parser.Ok (ss, imp, ts') -> advs base ts -> ALL base (deep_labels ss)) /\
  (forall script bs cs start ts acc imp ss imp' ts' base, parse_block f script bs cs start ts acc imp = Parser.Ok (ss, imp', ts') -> advs base ts ->
      ALL base (deep_labels acc) -> ALL base (deep_labels ss)) /\
  (forall script bs cs start ts acc imp ss imp' ts' base, parse_switch_block f script bs cs start ts acc imp = Parser.Ok (ss, imp', ts') -> advs base ts ->
      ALL base (deep_labels acc) -> ALL base (deep_labels ss)) /\
  (forall req script bs cs ts e b imp ts' base, parse_cond f req script bs cs ts = Parser.Ok (e, b, imp, ts') -> advs base ts -> ALL base (deep_labels b)) /\
  (forall script bs cs ts ss imp ts' base, parse_if f script bs cs ts = Parser.Ok (ss, imp, ts') -> advs base ts -> ALL base (deep_labels ss)) /\
  (forall script bs cs ts acc imp l imp' ts' base, parse_elifs f script bs cs ts acc imp = Parser.Ok (l, imp', ts') -> advs base ts ->
      ALL base (deep_conds acc) -> ALL base (deep_conds l)) /\
  (forall script bs cs ts ss imp ts' base, parse_switch f script bs cs ts = Parser.Ok (ss, imp, ts') -> advs base ts -> ALL base (deep_labels ss)) /\
  (forall script bs cs brace ts acc seen hasdef imp l imp' ts' base,
      parse_cases f script bs cs brace ts acc seen hasdef imp = Parser.Ok (l, imp', ts') -> advs base ts -> ALL base (deep_cases acc) -> ALL base (deep_cases l)) /\
  (forall script bs cs ts ss imp ts' base, parse_pory f script bs cs ts = Parser.Ok (ss, imp, ts') -> advs base ts -> ALL base (deep_labels ss)) /\
  (forall script bs cs start ts acc l ts' base, parse_pory_cases f script bs cs start ts acc = Parser.Ok (l, ts') -> advs base ts ->
      ALL base (deep_pcases acc) -> ALL base (deep_pcases l)) /\
  (forall script bs cs multi ts acc imp ss imp' ts' base, parse_pory_stmts f script bs cs multi ts acc imp = Parser.Ok (ss, imp', ts') -> advs base ts ->
      ALL base (deep_labels acc) -> ALL base (deep_labels ss)).

Lemma lw_all : forall f, LW f.
Proof.
  induction f as [|f IH].
  - unfold LW. split; [|split; [|split; [|split; [|split; [|split; [|split; [|split; [|split; [|split]]]]]]]]]; intros; discriminate.
  - destruct IH as (Istmt & Iblock & Iswb & Icond & Iif & Ielifs & Iswitch & Icases & Ipory & Ipcases & Ipstmts).
    destruct (adv_all autovars switches parse_format consts parse_format_advs env_errors f) as (Astmt & Ablock & Aswb & Acond & Aif & Aelifs & Aswitch & Acases & Apory & Apcases & Apstmts).
    unfold LW. split; [|split; [|split; [|split; [|split; [|split; [|split; [|split; [|split; [|split]]]]]]]]].
    + (* parse_stmt *)
      intros script bs cs ts ss imp ts' base H A. rewrite parse_stmt_unfold in H.
      destruct (ttype (cur ts)) eqn:TY; try discriminate.
      * destruct (try_label ts) as [[l ts1]|] eqn:TL.
        -- injection H as <- _ _. destruct (try_label_inv _ _ _ TL) as (g & W & -> & _). rewrite deep_single. cbn [deep1].
           constructor; [|constructor]. exists ts. unfold LA. cbn [Datatypes.fst Datatypes.snd]. auto 10.
        -- bind H as [[c imp1] ts1] eqn E1. injection H as <- _ _. apply ALL_nil.
      * eapply Iif; eassumption.
      * (* do *)
        destruct (expect_peek LBRACE ts) as [ts1|] eqn:P1; [|discriminate]. bind H as [[b imp1] ts2] eqn E2.
        destruct (expect_peek WHILE ts2) as [ts3|] eqn:P3; [|discriminate].
        destruct (expect_peek LPAREN ts3) as [ts4|] eqn:P4; [|discriminate]. bind H as [[e imp2] ts5] eqn E5. injection H as <- _ _.
        assert (A1 : advs base (adv ts1)) by (apply advs_adv_r; eapply advs_k_peek; [exact P1|exact A]).
        rewrite deep_single, deep1_dowhile. eapply Iblock; [exact E2|exact A1|apply ALL_nil].
      * (* while *)
        bind H as [[[c b] imp1] ts1] eqn E1. injection H as <- _ _. rewrite deep_single, deep1_while. eapply Icond; eassumption.
      * destruct bs as [|tg bs]; [discriminate|]. injection H as <- _ _. apply ALL_nil.
      * destruct cs as [|tg cs]; [discriminate|]. destruct (peekis RBRACE ts); [|discriminate]. injection H as <- _ _. apply ALL_nil.
      * eapply Iswitch; eassumption.
      * eapply Ipory; eassumption.
    + (* parse_block *)
      intros script bs cs start ts acc imp ss imp' ts' base H A Hacc. rewrite parse_block_unfold in H.
      destruct (curis RBRACE ts); [injection H as <- _ _; exact Hacc|].
      destruct (curis EOF ts); [discriminate|]. bind H as [[ss1 imp1] ts1] eqn E1.
      eapply Iblock; [exact H|apply advs_adv_r; eapply Astmt; [exact E1|exact A]|].
      rewrite deep_app. apply ALL_app; [exact Hacc|eapply Istmt; eassumption].
    + (* parse_switch_block *)
      intros script bs cs start ts acc imp ss imp' ts' base H A Hacc. rewrite parse_switch_block_unfold in H.
      destruct (curis RBRACE ts || curis CASE ts || curis DEFAULT ts); [injection H as <- _ _; exact Hacc|].
      destruct (curis EOF ts); [discriminate|]. bind H as [[ss1 imp1] ts1] eqn E1.
      eapply Iswb; [exact H|apply advs_adv_r; eapply Astmt; [exact E1|exact A]|].
      rewrite deep_app. apply ALL_app; [exact Hacc|eapply Istmt; eassumption].
    + (* parse_cond *)
      intros req script bs cs ts e b imp ts' base H A. rewrite parse_cond_unfold in H. bind H as [[e1 imp1] ts1] eqn E1.
      destruct (expect_peek LBRACE ts1) as [ts2|] eqn:P2; [|discriminate]. bind H as [[b1 imp2] ts3] eqn E3. injection H as <- <- _ _.
      assert (A1 : advs base ts1).
      { destruct (req || negb (peekis LBRACE ts)).
        - destruct (expect_peek LPAREN ts) as [tsa|] eqn:PA; [|discriminate]. bind E1 as [[e0 imp0'] tsb] eqn EB. injection E1 as <- _ <-.
          assert (Aa : advs base tsa) by (eapply advs_k_peek; [exact PA|exact A]).
          eapply bool_expr_advs; [exact parse_format_advs|exact EB|exact Aa].
        - injection E1 as <- _ <-. exact A. }
      eapply Iblock; [exact E3|apply advs_adv_r; eapply advs_k_peek; [exact P2|exact A1]|apply ALL_nil].
    + (* parse_if *)
      intros script bs cs ts ss imp ts' base H A. rewrite parse_if_unfold in H. bind H as [[[o l] imp1] ts1] eqn E1.
      destruct o as [e1|]; [|discriminate]. bind H as [[l0 imp2] t0] eqn E2.
      pose proof (Icond _ _ _ _ _ _ _ _ _ base E1 A) as V2.
      assert (A1 : advs base ts1) by (eapply Acond; [exact E1|exact A]).
      pose proof (Ielifs _ _ _ _ _ _ _ _ _ base E2 A1 (ALL_nil _)) as C2.
      assert (A2 : advs base t0) by (eapply Aelifs; [exact E2|exact A1]).
      assert (HD : ALL base (deep_conds ((e1, l) :: l0))).
      { unfold deep_conds. cbn [map List.concat Datatypes.snd]. apply ALL_app; assumption. }
      destruct (peekis ELSE t0).
      * cbv zeta in H. destruct (expect_peek LBRACE (adv t0)) as [ts4|] eqn:P4; [|discriminate]. bind H as [[eb imp3] ts5] eqn E5. injection H as <- _ _.
        rewrite deep_single, deep1_if. apply ALL_app; [exact HD|]. cbn [deep_opt].
        eapply Iblock; [exact E5|apply advs_adv_r; eapply advs_k_peek; [exact P4|apply advs_adv_r, A2]|apply ALL_nil].
      * injection H as <- _ _. rewrite deep_single, deep1_if. apply ALL_app; [exact HD|apply ALL_nil].
    + (* parse_elifs *)
      intros script bs cs ts acc imp l imp' ts' base H A Hacc. rewrite parse_elifs_unfold in H.
      destruct (peekis ELSEIF ts); [|injection H as <- _ _; assumption]. bind H as [[[o b1] imp1] ts1] eqn E1.
      destruct o as [e1|]; [|discriminate].
      pose proof (Icond _ _ _ _ _ _ _ _ _ base E1 (advs_adv_r _ _ A)) as V2.
      eapply Ielifs; [exact H|eapply Acond; [exact E1|apply advs_adv_r, A]|].
      rewrite deep_conds_app. apply ALL_app; [exact Hacc|]. unfold deep_conds. cbn [map List.concat Datatypes.snd]. rewrite app_nil_r. exact V2.
    + (* parse_switch *)
      intros script bs cs ts ss imp ts' base H A. rewrite parse_switch_unfold in H. cbv zeta in H.
      destruct (expect_peek LPAREN ts) as [ts1|] eqn:P1; [|discriminate]. bind H as [[r0 imp1] ts2] eqn E2. bind H as [[[operand oline] pre] ts3] eqn E3.
      destruct (expect_peek LBRACE ts3) as [ts4|] eqn:P4; [|discriminate]. bind H as [[l imp2] ts5] eqn E5.
      destruct l as [|c0 l]; [discriminate|]. injection H as <- _ _.
      assert (A1 : advs base ts1) by (eapply advs_k_peek; [exact P1|exact A]).
      assert (A2 : advs base ts2) by (eapply var_or_autovar_advs; [exact parse_format_advs|exact E2|exact A1]).
      assert (A3 : advs base ts3).
      { destruct r0 as [[v c]|].
        - destruct (expect_peek RPAREN ts2) as [tsx|] eqn:PX; [|discriminate]. injection E3 as _ _ _ <-.
          eapply advs_k_peek; [exact PX|exact A2].
        - bind E3 as [parts tsx] eqn EX. injection E3 as _ _ _ <-.
          apply advs_adv_r. eapply switch_operand_advs; [exact EX|apply advs_adv_r, A2]. }
      assert (VC : ALL base (deep_cases (c0 :: l))).
      { eapply Icases; [exact E5|apply advs_adv_r; eapply advs_k_peek; [exact P4|exact A3]|apply ALL_nil]. }
      rewrite deep_app, deep_single, deep1_switch. apply ALL_app; [|exact VC]. destruct pre; apply ALL_nil.
    + (* parse_cases *)
      intros script bs cs brace ts acc seen hasdef imp l imp' ts' base H A Hacc. rewrite parse_cases_unfold in H.
      destruct (curis RBRACE ts); [injection H as <- _ _; exact Hacc|].
      destruct (curis CASE ts).
      * cbv zeta in H. destruct (collect_until consts f (is COLON) (adv ts) []) as [[parts ts2]|] eqn:CU; [|discriminate].
        destruct (existsb _ seen); [discriminate|]. bind H as [[b1 imp1] ts3] eqn E3.
        assert (A2 : advs base (adv ts2)) by (apply advs_adv_r; eapply collect_until_advs; [exact CU|apply advs_adv_r, A]).
        eapply Icases; [exact H|eapply Aswb; [exact E3|exact A2]|].
        rewrite deep_cases_app. apply ALL_app; [exact Hacc|]. unfold deep_cases, sc_body. cbn [map List.concat Datatypes.snd]. rewrite app_nil_r.
        eapply Iswb; [exact E3|exact A2|apply ALL_nil].
      * destruct (curis DEFAULT ts); [|discriminate]. destruct hasdef; [discriminate|].
        destruct (expect_peek COLON ts) as [ts1|] eqn:P1; [|discriminate]. bind H as [[b1 imp1] ts2] eqn E2.
        assert (A2 : advs base (adv ts1)) by (apply advs_adv_r; eapply advs_k_peek; [exact P1|exact A]).
        eapply Icases; [exact H|eapply Aswb; [exact E2|exact A2]|].
        rewrite deep_cases_app. apply ALL_app; [exact Hacc|]. unfold deep_cases, sc_body. cbn [map List.concat Datatypes.snd]. rewrite app_nil_r.
        eapply Iswb; [exact E2|exact A2|apply ALL_nil].
    + (* parse_pory *)
      intros script bs cs ts ss imp ts' base H A. rewrite parse_pory_unfold in H. cbv zeta in H. bind H as [[sc o] ts1] eqn E1. bind H as [l ts2] eqn E2.
      assert (A1 : advs base ts1) by (eapply poryswitch_header_advs; [exact E1|exact A]).
      assert (PC : ALL base (deep_pcases l)) by (eapply Ipcases; [exact E2|exact A1|apply ALL_nil]).
      assert (SEL : forall key ss0 imp0', assoc l key = Some (ss0, imp0') -> ALL base (deep_labels ss0)).
      { intros key ss0 imp0' AS. destruct (assoc_in _ _ _ AS) as [k' IN]. unfold ALL, deep_pcases in *. rewrite Forall_forall in *.
        intros x Hx. apply PC. apply in_concat. exists (deep_labels ss0). split; [|exact Hx].
        apply in_map_iff. exists (k', (ss0, imp0')). split; [reflexivity|exact IN]. }
      destruct (assoc l (sval o)) as [[ss0 imp0']|] eqn:AS1.
      * injection H as <- _ _. eapply SEL; exact AS1.
      * destruct (assoc l (t "_")) as [[ss0 imp0']|] eqn:AS2.
        -- injection H as <- _ _. eapply SEL; exact AS2.
        -- destruct env_errors; [discriminate|]. injection H as <- _ _. apply ALL_nil.
    + (* parse_pory_cases *)
      intros script bs cs start ts acc l ts' base H A Hacc. rewrite parse_pory_cases_unfold in H.
      destruct (curis RBRACE ts); [injection H as <- _; exact Hacc|].
      destruct (curis EOF ts); [discriminate|].
      destruct (negb (curis IDENT ts) && negb (curis INT ts)); [discriminate|]. cbv zeta in H.
      destruct (curis COLON (adv ts) || curis LBRACE (adv ts)); [|discriminate]. bind H as [[l0 i] t0] eqn E0.
      assert (A0 : advs base (adv (adv ts))) by (apply advs_adv_r, advs_adv_r, A).
      assert (V0 : ALL base (deep_labels l0)) by (eapply Ipstmts; [exact E0|exact A0|apply ALL_nil]).
      assert (A1 : advs base t0) by (eapply Apstmts; [exact E0|exact A0]).
      assert (PC : ALL base (deep_pcases ((tlit (cur ts), (l0, i)) :: acc))).
      { unfold deep_pcases. cbn [map List.concat Datatypes.fst Datatypes.snd]. apply ALL_app; [exact V0|exact Hacc]. }
      destruct (curis LBRACE (adv ts)).
      * destruct (negb (curis RBRACE t0)); [discriminate|]. eapply Ipcases; [exact H|apply advs_adv_r, A1|exact PC].
      * eapply Ipcases; [exact H|exact A1|exact PC].
    + (* parse_pory_stmts *)
      intros script bs cs multi ts acc imp ss imp' ts' base H A Hacc. rewrite parse_pory_stmts_unfold in H.
      destruct (curis RBRACE ts); [injection H as <- _ _; exact Hacc|]. bind H as [[l imp1] ts1] eqn E1.
      assert (S1 : ALL base (deep_labels l) /\ advs base ts1).
      { destruct (curis PORYSWITCH ts); [split; [eapply Ipory; eassumption|eapply Apory; [exact E1|exact A]]|split; [eapply Istmt; eassumption|eapply Astmt; [exact E1|exact A]]]. }
      destruct S1 as [V1 A1]. cbv zeta in H.
      assert (GA : ALL base (deep_labels (acc ++ l))) by (rewrite deep_app; apply ALL_app; assumption).
      destruct multi.
      * eapply Ipstmts; [exact H|apply advs_adv_r, A1|exact GA].
      * injection H as <- _ _. exact GA.
Qed.

(* every label statement of an accepted block, at every depth, carries the flag written at its place in the stream *)
Theorem block_labels_as_written f script bs cs start ts ss imp ts' base :
  parse_block f script bs cs start ts [] imp0 = Parser.Ok (ss, imp, ts') -> advs base ts ->
  forall n g tk, In (n, g, tk) (deep_labels ss) -> label_at base n g tk.
Proof.
  intros H A n g tk Hin. destruct (lw_all f) as (_ & I & _).
  pose proof (I _ _ _ _ _ _ _ _ _ _ base H A (ALL_nil _)) as F. unfold ALL in F. rewrite Forall_forall in F. exact (F _ Hin).
Qed.
End INSIDE.

(* ====================================================================================================================== *)
(* PART 4 - whole programs: every top-level name and every label of the parsed program carries the scope that is written *)
(*          in the source, and what the parser hoists is local                                                            *)
(* ====================================================================================================================== *)

(* patching the hoisted labels into command arguments does not touch label statements *)
Lemma deep_pstmt ps : forall ss, deep_labels (map (pstmt ps) ss) = deep_labels ss.
Proof.
  apply (LabelSim.stmts_ind2 (fun s => deep1 (pstmt ps s) = deep1 s) (fun ss => deep_labels (map (pstmt ps) ss) = deep_labels ss)).
  - reflexivity.
  - intros s r Hs Hr. cbn [map deep_labels]. now rewrite Hs, Hr.
  - reflexivity.
  - reflexivity.
  - intros conds els HC HE.
    change (pstmt ps (SIf conds els)) with
      (SIf (map (fun cb : bexp * list stmt => (pbexp ps (Datatypes.fst cb), map (pstmt ps) (Datatypes.snd cb))) conds)
           (match els with Some b => Some (map (pstmt ps) b) | None => None end)).
    rewrite !deep1_if. f_equal.
    + unfold deep_conds. induction HC as [|cb r H _ IH]; [reflexivity|]. cbn [map List.concat Datatypes.snd]. now rewrite H, IH.
    + destruct els; [exact HE|reflexivity].
  - intros tg c b Hb. change (pstmt ps (SWhile tg c b)) with (SWhile tg (match c with Some e => Some (pbexp ps e) | None => None end) (map (pstmt ps) b)).
    now rewrite !deep1_while.
  - intros tg b c Hb. change (pstmt ps (SDoWhile tg b c)) with (SDoWhile tg (map (pstmt ps) b) (pbexp ps c)). now rewrite !deep1_dowhile.
  - reflexivity.
  - reflexivity.
  - intros tg o ol cases HC.
    change (pstmt ps (SSwitch tg o ol cases)) with
      (SSwitch tg o ol (map (fun c : Parser.scase => (Datatypes.fst (Datatypes.fst (Datatypes.fst c)), Datatypes.snd (Datatypes.fst (Datatypes.fst c)), Datatypes.snd (Datatypes.fst c), map (pstmt ps) (Datatypes.snd c))) cases)).
    rewrite !deep1_switch. unfold deep_cases. induction HC as [|c r H _ IH]; [reflexivity|]. cbn [map List.concat]. rewrite IH. f_equal. exact H.
Qed.

(* names the parser invents for hoisted texts and movements:  <script>_Text_<k>,  <script>_Movement_<k> *)
Definition invented (sep : string) (n : text) : Prop := exists script k, n = script ++ t sep ++ nat_text k.
Definition hoisted_text (x : textdef) : Prop := xglob x = false /\ invented "_Text_" (xname x).
Definition hoisted_movement (tp : top) : Prop :=
  exists n tk steps, tp = TMovement n false tk steps /\ invented "_Movement_" n.

Lemma add_texts_local its : forall h ps h' ps', add_texts its h ps = (h', ps') ->
  Forall hoisted_text (htexts h) -> Forall hoisted_text (htexts h') /\ hmovs h' = hmovs h.
Proof.
  induction its as [|it r IH]; intros h ps h' ps' H F; cbn [add_texts] in H; [inversion H; subst; auto|].
  destruct (find_text (hset h) (tlit (itTok it)) (itType it)); [eapply IH; eassumption|].
  cbv zeta in H. apply IH in H; [exact H|]. cbn [htexts]. apply Forall_app. split; [exact F|]. constructor; [|constructor].
  split; [reflexivity|]. cbn [xname]. eexists _, _. reflexivity.
Qed.
Lemma add_movs_local ims : forall h ps h' ps', add_movs ims h ps = (h', ps') ->
  Forall hoisted_movement (hmovs h) -> Forall hoisted_movement (hmovs h') /\ htexts h' = htexts h.
Proof.
  induction ims as [|im r IH]; intros h ps h' ps' H F; cbn [add_movs] in H; [inversion H; subst; auto|].
  destruct (assoc (hmset h) (mov_key (imToks im))); [eapply IH; eassumption|].
  cbv zeta in H. apply IH in H; [exact H|]. cbn [hmovs]. apply Forall_app. split; [exact F|]. constructor; [|constructor].
  eexists _, _, _. split; [reflexivity|]. eexists _, _. reflexivity.
Qed.
(* everything the parser hoists is created local *)
Theorem hoisted_are_local imp h h' ps : add_implicit imp h = (h', ps) ->
  Forall hoisted_text (htexts h) -> Forall hoisted_movement (hmovs h) ->
  Forall hoisted_text (htexts h') /\ Forall hoisted_movement (hmovs h').
Proof.
  unfold add_implicit. intros H FT FM. destruct (add_texts (idT imp) h []) as [h1 ps1] eqn:E1.
  destruct (add_texts_local _ _ _ _ _ E1 FT) as [T1 M1]. rewrite <- M1 in FM.
  destruct (add_movs_local _ _ _ _ _ H FM) as [M2 T2]. rewrite T2. auto.
Qed.

(* [declared base kw name g]: the stream [base] contains a top-level statement with keyword kw that declares name with flag g *)
Definition declared (base : toks) (kw : toktype) (name : text) (g : bool) : Prop :=
  exists ts, advs base ts /\ ttype (cur ts) = kw /\ declares (default_scope kw) ts name g.
Definition labels_written (base : toks) (body : list stmt) : Prop :=
  forall n g tk, In (n, g, tk) (deep_labels body) -> label_at base n g tk.
Lemma labels_written_ALL base body : ALL base (deep_labels body) <-> labels_written base body.
Proof.
  unfold ALL, labels_written. rewrite Forall_forall. split.
  - intros H n g tk Hin. exact (H _ Hin).
  - intros H [[n g] tk] Hin. exact (H _ _ _ Hin).
Qed.

(* what a top-level statement of a parsed program must satisfy *)
Definition top_scope_ok (base : toks) (tp : top) : Prop :=
  match tp with
  | TScript n g body => declared base SCRIPT n g /\ labels_written base body
  | TMovement n g _ _ => declared base MOVEMENT n g \/ hoisted_movement tp
  | TMart n g _ _ _ => declared base MART n g
  | TMapScripts n g _ _ => declared base MAPSCRIPTS n g /\ Forall (labels_written base) (ProgWf.bodies_of_top tp)
  | TRaw _ _ | TTextStmt => True
  end.
Definition text_scope_ok (base : toks) (x : textdef) : Prop :=
  declared base TEXT (xname x) (xglob x) \/ hoisted_text x.

Section PROGRAM.
Variable autovars : list (text * autovar).
Variable switches : list (text * text).
Variable env_errors : bool.
Variable parse_format : toks -> Parser.res (token * text * text * toks).
Hypothesis parse_format_advs : forall ts tk v sty ts', parse_format ts = Parser.Ok (tk, v, sty, ts') -> forall a, advs a ts -> advs a ts'.

Notation parse_block c := (parse_block autovars switches env_errors parse_format c).
Notation ms_table c := (ms_table autovars switches env_errors parse_format c).
Notation ms_entries c := (ms_entries autovars switches env_errors parse_format c).
Notation parse_tops := (parse_tops autovars switches env_errors parse_format).
Notation parse_program := (parse_program autovars switches env_errors parse_format).

Ltac adv_ex H := first [eapply parse_block_advs; [exact parse_format_advs|exact H|] | eapply ms_collect_advs; [exact H|]
                       | eapply ms_table_advs; [exact parse_format_advs|exact H|] | eapply ms_entries_advs; [exact parse_format_advs|exact H|]
                       | eapply scope_modifier_advs; [exact H|]].
Ltac advs_now := advs_gox ltac:(fun K => adv_ex K).

Lemma parse_block_written c f script bs cs start ts ss imp ts' base :
  parse_block c f script bs cs start ts [] imp0 = Parser.Ok (ss, imp, ts') -> advs base ts -> labels_written base ss.
Proof. intros H A n g tk. eapply block_labels_as_written; eassumption. Qed.

Definition entries_written (base : toks) (es : list tableentry) : Prop :=
  Forall (labels_written base) (flat_map (fun e => match teScript e with Some b => [b] | None => [] end) es).

Lemma ms_table_written c f : forall mapname tyname ts i acc imp es imp' ts' base,
  ms_table c f mapname tyname ts i acc imp = Parser.Ok (es, imp', ts') -> advs base ts -> entries_written base acc -> entries_written base es.
Proof.
  induction f as [|f IH]; intros mapname tyname ts i acc imp es imp' ts' base H A Hacc; [discriminate|].
  cbn [Parser.ms_table] in H. destruct (curis RBRACKET ts); [inversion H; subst; exact Hacc|]. cbn zeta in H.
  destruct (ms_collect c f (is COMMA) ts []) as [[cond ts1]|] eqn:C1; [|discriminate].
  destruct cond as [|c0 cond]; [discriminate|].
  destruct (ms_collect c f _ (adv ts1) []) as [[cmp ts3]|] eqn:C3; [|discriminate].
  destruct cmp as [|c1 cmp]; [discriminate|].
  assert (A3 : advs base ts3) by advs_now.
  destruct (curis COLON ts3).
  - destruct (expect_peek IDENT ts3) as [ts4|] eqn:P4; [|discriminate].
    eapply IH; [exact H|advs_now|].
    unfold entries_written. rewrite flat_map_app. apply Forall_app. split; [exact Hacc|]. cbn. constructor.
  - bind H as [[b imp1] ts4] eqn E4. eapply IH; [exact H|advs_now|].
    unfold entries_written. rewrite flat_map_app. apply Forall_app. split; [exact Hacc|].
    cbn. constructor; [|constructor]. eapply parse_block_written; [exact E4|advs_now].
Qed.

Definition ms_written (base : toks) (plain : list mapscript) (tables : list tablems) : Prop :=
  Forall (labels_written base) (ProgWf.bodies_of_top (TMapScripts [] false plain tables)).

Lemma ms_entries_written c f : forall mapname ts plain tables imp plain' tables' imp' ts' base,
  ms_entries c f mapname ts plain tables imp = Parser.Ok (plain', tables', imp', ts') -> advs base ts ->
  ms_written base plain tables -> ms_written base plain' tables'.
Proof.
  induction f as [|f IH]; intros mapname ts plain tables imp plain' tables' imp' ts' base H A Hacc; [discriminate|].
  cbn [Parser.ms_entries] in H. destruct (curis RBRACE ts); [inversion H; subst; exact Hacc|].
  destruct (negb (curis IDENT ts)); [discriminate|]. cbn zeta in H.
  unfold ms_written, ProgWf.bodies_of_top in *. apply Forall_app in Hacc. destruct Hacc as [Hp Ht].
  destruct (curis COLON (adv ts)).
  - destruct (expect_peek IDENT (adv ts)) as [ts2|] eqn:P2; [|discriminate]. eapply IH; [exact H|advs_now|].
    unfold ms_written, ProgWf.bodies_of_top. rewrite flat_map_app. apply Forall_app. split; [apply Forall_app; split; [exact Hp|constructor]|exact Ht].
  - destruct (curis LBRACE (adv ts)).
    + bind H as [[b imp1] ts2] eqn E2. eapply IH; [exact H|advs_now|].
      unfold ms_written, ProgWf.bodies_of_top. rewrite flat_map_app. apply Forall_app. split; [apply Forall_app; split; [exact Hp|]|exact Ht].
      cbn. constructor; [|constructor]. eapply parse_block_written; [exact E2|advs_now].
    + destruct (curis LBRACKET (adv ts)); [|discriminate]. bind H as [[es imp1] ts2] eqn E2. eapply IH; [exact H|advs_now|].
      unfold ms_written, ProgWf.bodies_of_top. rewrite flat_map_app. apply Forall_app. split; [exact Hp|]. apply Forall_app. split; [exact Ht|].
      cbn. rewrite app_nil_r. eapply ms_table_written; [exact E2|advs_now|constructor].
Qed.

Lemma labels_written_pstmt base ps b : labels_written base b -> labels_written base (map (pstmt ps) b).
Proof. unfold labels_written. rewrite deep_pstmt. auto. Qed.

Lemma labels_written_weaken a b body : advs a b -> labels_written b body -> labels_written a body.
Proof.
  intros A H n g tk Hin. destruct (H n g tk Hin) as (ts & A2 & R). exists ts. split; [eapply advs_trans; eassumption|exact R].
Qed.

(* the invariant of the top-level loop *)
Record PI (base : toks) (st : pstate) : Prop := {
  pi_tops : Forall (top_scope_ok base) (ptops st);
  pi_texts : Forall (fun x => declared base TEXT (xname x) (xglob x)) (ptexts st);
  pi_htexts : Forall hoisted_text (htexts (ph st));
  pi_hmovs : Forall hoisted_movement (hmovs (ph st)) }.

Lemma declared_intro base ts kw name g :
  advs base ts -> ttype (cur ts) = kw -> declares (default_scope kw) ts name g -> declared base kw name g.
Proof. intros A T D. exists ts. auto. Qed.

Lemma parse_tops_scopes f : forall st ts st' base,
  parse_tops f st ts = Parser.Ok st' -> advs base ts -> PI base st -> PI base st'.
Proof.
  induction f as [|f IH]; intros st ts st' base H A [I1 I2 I3 I4]; [discriminate|].
  cbn [Parser.parse_tops] in H. destruct (curis EOF ts); [inversion H; subst; constructor; assumption|]. cbn zeta in H.
  destruct (ttype (cur ts)) eqn:TY; try discriminate.
  - (* script *)
    bind H as [[[[name g] b] imp] ts1] eqn E. destruct (add_implicit imp (ph st)) as [h' ps] eqn:AI.
    destruct (hoisted_are_local _ _ _ _ AI I3 I4) as [I3' I4'].
    assert (A1 : advs base ts1) by (eapply parse_script_advs; [exact parse_format_advs|exact E|exact A]).
    eapply IH; [exact H|apply advs_adv_r, A1|]. constructor; cbn [ptops ptexts ph]; try assumption.
    apply Forall_app. split; [exact I1|]. constructor; [|constructor]. cbn [top_scope_ok]. split.
    + eapply declared_intro; [exact A|exact TY|]. eapply script_scope_as_written. exact E.
    + apply labels_written_pstmt.
      unfold Parser.parse_script in E. cbn zeta in E. bind E as [g0 ts0] eqn E0.
      destruct (expect_peek IDENT ts0) as [ts2|] eqn:P2; [|discriminate].
      destruct (expect_peek LBRACE ts2) as [ts3|] eqn:P3; [|discriminate]. bind E as [[b0 imp1] ts4] eqn E4. inversion E; subst.
      eapply parse_block_written; [exact E4|advs_now].
  - (* raw *)
    bind H as [tp ts1] eqn E. eapply IH; [exact H|apply advs_adv_r; eapply parse_raw_advs; [exact E|exact A]|].
    constructor; cbn [ptops ptexts ph]; try assumption. apply Forall_app. split; [exact I1|]. constructor; [|constructor].
    unfold parse_raw in E. destruct (expect_peek RAWSTRING ts); [|discriminate]. inversion E; subst. exact I.
  - (* text *)
    bind H as [td ts1] eqn E. eapply IH; [exact H|apply advs_adv_r; eapply parse_text_advs; [exact parse_format_advs|exact E|exact A]|].
    constructor; cbn [ptops ptexts ph]; try assumption.
    + apply Forall_app. split; [exact I1|]. constructor; [exact I|constructor].
    + apply Forall_app. split; [exact I2|]. constructor; [|constructor].
      eapply declared_intro; [exact A|exact TY|]. eapply text_scope_as_written. exact E.
  - (* movement *)
    bind H as [tp ts1] eqn E. eapply IH; [exact H|apply advs_adv_r; eapply parse_movement_advs; [exact E|exact A]|].
    constructor; cbn [ptops ptexts ph]; try assumption. apply Forall_app. split; [exact I1|]. constructor; [|constructor].
    destruct (movement_scope_as_written _ _ _ _ _ _ E) as (name & g & steps & -> & D). cbn [top_scope_ok]. left.
    eapply declared_intro; [exact A|exact TY|exact D].
  - (* mart *)
    bind H as [tp ts1] eqn E. eapply IH; [exact H|apply advs_adv_r; eapply parse_mart_advs; [exact E|exact A]|].
    constructor; cbn [ptops ptexts ph]; try assumption. apply Forall_app. split; [exact I1|]. constructor; [|constructor].
    destruct (mart_scope_as_written _ _ _ _ _ _ _ E) as (name & g & items & itoks & -> & D). cbn [top_scope_ok].
    eapply declared_intro; [exact A|exact TY|exact D].
  - (* mapscripts *)
    bind H as [[tp imp] ts1] eqn E. destruct (add_implicit imp (ph st)) as [h' ps] eqn:AI.
    destruct (hoisted_are_local _ _ _ _ AI I3 I4) as [I3' I4'].
    assert (A1 : advs base ts1) by (eapply parse_mapscripts_advs; [exact parse_format_advs|exact E|exact A]).
    eapply IH; [exact H|apply advs_adv_r, A1|]. constructor; cbn [ptops ptexts ph]; try assumption.
    apply Forall_app. split; [exact I1|]. constructor; [|constructor].
    destruct (mapscripts_scope_as_written _ _ _ _ _ _ _ _ _ _ E) as (name & g & plain & tables & -> & D). cbn [top_scope_ok]. split.
    + eapply declared_intro; [exact A|exact TY|exact D].
    + unfold Parser.parse_mapscripts in E. bind E as [g0 ts0] eqn E0. cbn zeta in E.
      destruct (expect_peek IDENT ts0) as [ts2|] eqn:P2; [|discriminate].
      destruct (expect_peek LBRACE ts2) as [ts3|] eqn:P3; [|discriminate]. bind E as [[[plain0 tables0] imp1] ts4] eqn E4. inversion E; subst.
      assert (A3 : advs base (adv ts3)) by advs_now.
      pose proof (ms_entries_written _ _ _ _ _ _ _ _ _ _ _ base E4 A3 (Forall_nil _)) as M.
      unfold ms_written, ProgWf.bodies_of_top in M. apply Forall_app in M. destruct M as [Mp Mt].
      cbn [ProgWf.bodies_of_top]. apply Forall_app. split.
      * clear - Mp. induction plain as [|m r IHr]; [constructor|]. cbn in *. destruct (msScript m); cbn in *.
        -- inversion Mp; subst. constructor; [apply labels_written_pstmt; assumption|apply IHr; assumption].
        -- apply IHr; assumption.
      * clear - Mt. induction tables as [|tb r IHr]; [constructor|]. cbn in *. apply Forall_app in Mt. destruct Mt as [M1 M2].
        apply Forall_app. split; [|apply IHr; assumption]. clear - M1. induction (tmEntries tb) as [|e r IHr]; [constructor|]. cbn in *.
        destruct (teScript e); cbn in *.
        -- inversion M1; subst. constructor; [apply labels_written_pstmt; assumption|apply IHr; assumption].
        -- apply IHr; assumption.
  - (* const *)
    bind H as [c' ts1] eqn E. eapply IH; [exact H|apply advs_adv_r; eapply parse_const_advs; [exact E|exact A]|].
    constructor; cbn [ptops ptexts ph]; assumption.
Qed.

(* THE PARSER THEOREM.  In an accepted program
   - every script, movement, mart and mapscripts statement and every text is one that is written in the source, with the flag
     of its modifier or, without modifier, the documented default of its kind - or it is a text / movement the parser
     hoisted out of a command, and then it is local;
   - every label statement of every script body (also the inline scripts of mapscripts), at every depth, carries the flag
     written at its place. *)
Theorem program_scopes_as_written ts p :
  parse_program ts = Parser.Ok p ->
  Forall (top_scope_ok ts) (tops p) /\ Forall (text_scope_ok ts) (texts p).
Proof.
  unfold Parser.parse_program. intros H. bind H as st eqn E. cbn zeta in H.
  destruct (dup_text [] _); [discriminate|]. destruct (dup_mov [] _); [discriminate|]. inversion H; subst. cbn [tops texts].
  assert (P0 : PI ts {| pconsts := []; ph := hst0; ptops := []; ptexts := [] |}) by (constructor; constructor).
  destruct (parse_tops_scopes _ _ _ _ ts E (advs_refl _) P0) as [I1 I2 I3 I4]. split.
  - apply Forall_app. split; [exact I1|]. eapply Forall_impl; [|exact I4]. intros tp Hh.
    pose proof Hh as (n & tk & steps & -> & _). cbn [top_scope_ok]. right. exact Hh.
  - apply Forall_app. split.
    + eapply Forall_impl; [|exact I3]. intros x Hx. right. exact Hx.
    + eapply Forall_impl; [|exact I2]. intros x Hx. left. exact Hx.
Qed.
End PROGRAM.

(* ====================================================================================================================== *)
(* PART 5 - the emitter: the label line of every statement carries the recorded flag; invented labels are local            *)
(* ====================================================================================================================== *)

Section EMIT1.
Variable mp : option text.

Lemma labels_steps steps : labels_of (emit_steps mp steps) = [].
Proof.
  induction steps as [|s r IH]; [reflexivity|]. cbn [emit_steps]. rewrite !labels_of_app, labels_marker.
  destruct (text_eqb (tlit s) (t "step_end")); cbn; [reflexivity|exact IH].
Qed.
Lemma labels_items items : forall itoks, labels_of (emit_items mp items itoks) = [].
Proof.
  induction items as [|i r IH]; intros [|tk rt]; try reflexivity. cbn [emit_items].
  destruct (text_eqb i (t "ITEM_NONE")); [reflexivity|]. rewrite !labels_of_app, labels_marker. cbn. apply IH.
Qed.
Lemma labels_raw lines : forall line, labels_of (emit_raw_lines mp lines line) = [].
Proof. induction lines as [|l r IH]; intros line; [reflexivity|]. cbn [emit_raw_lines]. rewrite !labels_of_app, labels_marker. cbn. apply IH. Qed.
Lemma labels_data d (ls : list text) : labels_of (map (fun line => IData d line) ls) = [].
Proof. induction ls as [|l r IH]; [reflexivity|]. cbn. exact IH. Qed.

(* a text block has exactly one label line: its name, with its flag *)
Theorem text_label_line x : labels_of (emit_text mp x) = [(xname x, xglob x)].
Proof. unfold emit_text. rewrite !labels_of_app, labels_marker, labels_data. reflexivity. Qed.
(* a movement block has exactly one label line: its name, with its flag *)
Theorem movement_label_line name glob tk steps : labels_of (emit_movement mp name glob tk steps) = [(name, glob)].
Proof. unfold emit_movement. rewrite !labels_of_app, labels_marker, labels_steps. reflexivity. Qed.
(* a mart block has exactly one label line: its name, with its flag *)
Theorem mart_label_line name glob tk items itoks : labels_of (emit_mart mp name glob tk items itoks) = [(name, glob)].
Proof. unfold emit_mart. rewrite !labels_of_app, labels_marker, labels_items. reflexivity. Qed.
(* a label statement is rendered as one label instruction with the flag of the statement *)
Theorem label_statement_rendered n g tk : render_stmt mp (SLabel n g tk) = marker mp (tline tk) ++ [ILabel n g].
Proof. reflexivity. Qed.
(* where the label line stands in each block *)
Theorem text_block_shape x : exists rest, emit_text mp x = ILabel (xname x) (xglob x) :: rest.
Proof. eexists; reflexivity. Qed.
Theorem movement_block_shape name glob tk steps : emit_movement mp name glob tk steps = marker mp (tline tk) ++ ILabel name glob :: emit_steps mp steps.
Proof. reflexivity. Qed.
Theorem mart_block_shape name glob tk items itoks : exists rest,
  emit_mart mp name glob tk items itoks = ILine (tab ++ t ".align 2") :: marker mp (tline tk) ++ ILabel name glob :: rest.
Proof. eexists; reflexivity. Qed.
(* a raw block defines no label instruction (its lines are copied verbatim) *)
Theorem raw_label_lines v line : labels_of (emit_raw mp v line) = [].
Proof. apply labels_raw. Qed.
End EMIT1.

(* ---------- scripts ---------- *)
Lemma flat_map_split {A B} (f g : A -> list B) l :
  Permutation (flat_map (fun x => f x ++ g x) l) (flat_map f l ++ flat_map g l).
Proof.
  induction l as [|x r IH]; [reflexivity|]. cbn [flat_map]. rewrite <- !app_assoc. apply Permutation_app_head.
  etransitivity; [apply Permutation_app_head; exact IH|]. rewrite !app_assoc. apply Permutation_app_tail. apply Permutation_app_comm.
Qed.
Lemma flat_map_map' {A B C} (g : A -> B) (f : B -> list C) l : flat_map f (map g l) = flat_map (fun x => f (g x)) l.
Proof. induction l as [|x r IH]; [reflexivity|]. cbn. now rewrite IH. Qed.
Lemma flat_map_ext_in {A B} (f g : A -> list B) l : (forall x, In x l -> f x = g x) -> flat_map f l = flat_map g l.
Proof. induction l as [|x r IH]; intros H; [reflexivity|]. cbn. rewrite (H x (or_introl eq_refl)), IH; [reflexivity|]. intros y Hy. apply H. now right. Qed.

(* the labels of a script's code: its own label with its flag, one local sub-label for each chunk in [subs], and the label
   statements of the body with the flags the author gave them *)
Definition script_labels (name : text) (glob : bool) (subs : list Z) (body : list stmt) : list (text * bool) :=
  (name, glob) :: map (fun i => (lbl name i, false)) subs ++ map Datatypes.fst (deep_labels body).

Section EMIT2.
Variable mp : option text.
Variable tl : list text.

Definition has_chunk (fs : list chunk) (i : Z) : bool := match get_chunk fs i with Some _ => true | None => false end.
Definition chunk_user_labels (fs : list chunk) (i : Z) : list (text * bool) :=
  match get_chunk fs i with Some c => user_labels (cstmts c) | None => [] end.

Lemma render_bodies_spec name fs labels order : forall bodies regs,
  render_bodies mp tl name fs labels order = Emitter.Ok (bodies, regs) ->
  map Datatypes.fst bodies = filter (has_chunk fs) order /\
  Forall (fun ib : Z * list instr => labels_of (Datatypes.snd ib) = chunk_user_labels fs (Datatypes.fst ib)) bodies.
Proof.
  induction order as [|i r IH]; cbn [render_bodies]; intros bodies regs H.
  - inversion H; subst. split; [reflexivity|constructor].
  - cbn [filter]. assert (HC : has_chunk fs i = match get_chunk fs i with Some _ => true | None => false end) by reflexivity.
    rewrite HC. clear HC. destruct (get_chunk fs i) as [c|] eqn:G; [|eapply IH; eauto].
    destruct (clash tl labels (cstmts c)) as [[tk bb]|]; [discriminate|].
    pose proof (labels_render_branch mp name c (match r with n :: _ => n | [] => (-1)%Z end)) as HB.
    destruct (render_branch mp name c _) as [[b0 regs0] fall]. cbn [Datatypes.fst] in HB.
    destruct (render_bodies mp tl name fs labels r) as [[rest regs']| | | |] eqn:E; try discriminate.
    inversion H; subst. destruct (IH _ _ eq_refl) as [I1 I2]. split; [cbn [map Datatypes.fst]; now rewrite I1|].
    constructor; [|exact I2]. cbn [Datatypes.fst Datatypes.snd]. unfold chunk_user_labels. rewrite G.
    rewrite !labels_of_app, labels_render_stmts, HB. destruct fall; cbn; now rewrite ?app_nil_r.
Qed.

Definition hdr (name : text) (glob : bool) (regs : list Z) (i : Z) : list instr :=
  if Z.eqb i 0 then [ILabel name glob] else if zmem i regs then [ILabel (lbl name i) false] else [].

Lemma hdr_no0 name glob regs l : ~ In 0%Z l ->
  labels_of (flat_map (hdr name glob regs) l) = map (fun i => (lbl name i, false)) (filter (fun i => zmem i regs) l).
Proof.
  induction l as [|i r IH]; intros N; [reflexivity|]. cbn [flat_map filter]. rewrite labels_of_app, IH by (intros X; apply N; now right).
  unfold hdr. destruct (Z.eqb_spec i 0) as [->|_]; [exfalso; apply N; now left|]. destruct (zmem i regs); reflexivity.
Qed.

Lemma labels_flat_map_perm {A} (f : A -> list instr) l l' : Permutation l l' -> Permutation (labels_of (flat_map f l)) (labels_of (flat_map f l')).
Proof.
  intros P. unfold labels_of. rewrite !flat_map_concat_map, <- !flat_map_concat_map.
  induction P as [|x a b _ IH|x y a|a b c _ IH1 _ IH2]; [reflexivity| | |etransitivity; eassumption].
  - cbn [flat_map]. rewrite !flat_map_app. apply Permutation_app_head. exact IH.
  - cbn [flat_map]. rewrite !flat_map_app, !app_assoc. apply Permutation_app_tail. apply Permutation_app_comm.
Qed.

(* rendering: when the order is a duplicate-free enumeration of the chunks that contains chunk 0, the label lines of the code
   are the script's own label, sub-labels (all local) and exactly the labels carried by the chunks *)
Lemma render_chunks_labels name glob fs order is :
  render_chunks mp tl name glob fs order = Emitter.Ok is ->
  NoDup (map cid fs) -> Permutation order (map cid fs) -> In 0%Z order ->
  exists subs, ~ In 0%Z subs /\
    Permutation (labels_of is)
      ((name, glob) :: map (fun i => (lbl name i, false)) subs ++ flat_map (fun c => user_labels (cstmts c)) fs).
Proof.
  intros H ND PERM Z0. unfold render_chunks in H.
  destruct (render_bodies mp tl name fs _ order) as [[bodies regs]| | | |] eqn:E; try discriminate.
  inversion H; subst; clear H. destruct (render_bodies_spec _ _ _ _ _ _ E) as [S1 S2].
  assert (NDO : NoDup order) by (eapply Permutation_NoDup; [symmetry; exact PERM|exact ND]).
  assert (ALLC : forall i, In i order -> exists c, In c fs /\ cid c = i /\ get_chunk fs i = Some c).
  { intros i Hi. assert (Q : In i (map cid fs)) by (eapply Permutation_in; eassumption).
    apply in_map_iff in Q. destruct Q as (c & <- & Hc). exists c. split; [exact Hc|]. split; [reflexivity|].
    apply RenderCheck.get_chunk_nodup; assumption. }
  assert (FO : filter (has_chunk fs) order = order).
  { clear - ALLC. induction order as [|i r IH]; [reflexivity|]. cbn [filter]. unfold has_chunk at 1.
    destruct (ALLC i (or_introl eq_refl)) as (c & _ & _ & ->). rewrite IH; [reflexivity|]. intros j Hj. apply ALLC. now right. }
  rewrite FO in S1.
  (* split the code into headers and bodies *)
  assert (SHAPE : Permutation
            (labels_of (flat_map (fun '(i, b) => (if (i =? 0)%Z then [ILabel name glob] else if zmem i regs then [ILabel (lbl name i) false] else []) ++ b) bodies))
            (labels_of (flat_map (hdr name glob regs) order) ++ flat_map (chunk_user_labels fs) order)).
  { rewrite <- S1. clear - S2. induction S2 as [|[i b] r Hb _ IH]; [reflexivity|].
    cbn [flat_map map Datatypes.fst Datatypes.snd] in *. rewrite !labels_of_app, Hb. fold (hdr name glob regs i).
    rewrite <- !app_assoc. apply Permutation_app_head.
    etransitivity; [apply Permutation_app_head; exact IH|]. rewrite !app_assoc. apply Permutation_app_tail. apply Permutation_app_comm. }
  (* the headers *)
  destruct (in_split _ _ Z0) as (l1 & l2 & EO).
  assert (P0 : Permutation order (0%Z :: l1 ++ l2)) by (rewrite EO; symmetry; apply Permutation_middle).
  assert (N0 : ~ In 0%Z (l1 ++ l2)).
  { pose proof (Permutation_NoDup P0 NDO) as X. inversion X; assumption. }
  exists (filter (fun i => zmem i regs) (l1 ++ l2)). split.
  { intros X. apply filter_In in X. apply N0. exact (proj1 X). }
  etransitivity; [exact SHAPE|].
  change ((name, glob) :: ?a ++ ?b) with (((name, glob) :: a) ++ b). apply Permutation_app.
  - etransitivity; [apply labels_flat_map_perm; exact P0|]. cbn [flat_map]. rewrite labels_of_app, (hdr_no0 _ _ _ _ N0). reflexivity.
  - (* the bodies: one for every chunk *)
    etransitivity; [apply (Permutation_flat_map (chunk_user_labels fs)); exact PERM|].
    rewrite flat_map_map'. rewrite (flat_map_ext_in (fun x => chunk_user_labels fs (cid x)) (fun c => user_labels (cstmts c))); [reflexivity|].
    intros c Hc. unfold chunk_user_labels. rewrite (RenderCheck.get_chunk_nodup fs ND c Hc). reflexivity.
Qed.
End EMIT2.

(* the worklist neither loses, duplicates nor alters a label statement: with their flags, the label statements carried by
   the chunks of the final graph are those of the body *)
Lemma deep_ctl s : is_simple s = false -> deep_labels [s] = WorkLabels.Msub lab deep_labels s.
Proof.
  intros NS. rewrite deep_single. unfold WorkLabels.Msub.
  destruct s as [c|nm g tk|conds els|tag c body|tag body c|tag|tag|tag op ol cases]; try discriminate NS; cbn [Worklist.subblocks]; try reflexivity.
  - rewrite deep1_if, map_app, List.concat_app, map_map. f_equal. destruct els; cbn; [now rewrite app_nil_r|reflexivity].
  - rewrite deep1_while. cbn. now rewrite app_nil_r.
  - rewrite deep1_dowhile. cbn. now rewrite app_nil_r.
  - rewrite deep1_switch, map_map. reflexivity.
Qed.

Lemma Mrem_simple fs : Forall (fun c => Forall Tr.simple (cstmts c)) fs ->
  map Datatypes.fst (WorkLabels.Mrem lab deep_labels fs) = flat_map (fun c => user_labels (cstmts c)) fs.
Proof.
  induction 1 as [|c r H _ IH]; [reflexivity|]. rewrite WorkLabels.Mrem_cons, map_app. cbn [flat_map]. f_equal; [apply deep_simple; exact H|exact IH].
Qed.

Local Opaque work_fuel work.
Theorem graph_conserves_labels body w :
  emit_graph body = Emitter.Ok w -> Worklist.src_ok body ->
  Permutation (flat_map (fun c => user_labels (cstmts c)) (finals w)) (map Datatypes.fst (deep_labels body)).
Proof.
  intros H [OK ND]. unfold emit_graph in H.
  assert (I0 : Worklist.Inv {| remaining := [mk 0 (-1) body None]; finals := []; counter := 0; brk := []; org := [] |}).
  { constructor; cbn.
    - lia.
    - repeat constructor. intros [].
    - repeat constructor; cbn; lia.
    - constructor; [right; split; reflexivity|constructor].
    - constructor; [exact OK|constructor].
    - unfold Worklist.tags_rem. cbn. rewrite !app_nil_r. exact ND.
    - reflexivity. }
  destruct (WorkLabels.work_conserves lab deep_labels eq_refl deep_app (fun _ => eq_refl) deep_ctl _ _ _ I0 (Forall_nil _) H) as [P S].
  rewrite <- (Mrem_simple _ S). apply Permutation_map. etransitivity; [exact P|].
  unfold WorkLabels.MW, WorkLabels.Mrem. cbn. rewrite !app_nil_r. reflexivity.
Qed.
Local Opaque order_of emit_graph.

(* THE SCRIPT THEOREM.  The label lines of the code of a script (a script statement, or an inline script of mapscripts) are
   exactly: the script's own label, with the flag given to the emitter; the label statements of the body, each with the flag
   the author wrote; and sub-labels  name_<i> (i <> 0), every one of them local. *)
Theorem script_label_lines mp tl name glob optimize body is :
  emit_script mp tl name glob optimize body = Emitter.Ok is -> Worklist.src_ok body ->
  exists subs, ~ In 0%Z subs /\ Permutation (labels_of is) (script_labels name glob subs body).
Proof.
  intros H HS. unfold emit_script in H. destruct (emit_graph body) as [w| | | |] eqn:HW; try discriminate.
  destruct (WorkShape.final_graph_shape body w HW HS) as (DN & NE & _).
  assert (DN' : OrderPerm.dense (finals w)) by exact DN.
  pose proof (OrderPerm.order_of_perm optimize (finals w) DN' NE) as PERM.
  assert (Z0 : In 0%Z (order_of optimize (finals w))).
  { eapply Permutation_in; [symmetry; exact PERM|]. apply (OrderPerm.ids_full _ DN'). destruct (finals w); [congruence|]. cbn [List.length]. lia. }
  destruct (render_chunks_labels mp tl name glob (finals w) _ is H (proj1 DN) PERM Z0) as (subs & N0 & P).
  exists subs. split; [exact N0|]. etransitivity; [exact P|]. unfold script_labels.
  apply perm_skip. apply Permutation_app_head. apply graph_conserves_labels; assumption.
Qed.

(* the code of a script begins with the script's own label line *)
Local Transparent order_of.
Lemma order_head optimize G : OrderPerm.dense G -> G <> [] -> exists post, order_of optimize G = 0%Z :: post.
Proof.
  intros DN NE. destruct optimize; [exact (OrderPerm.opt_order_head G DN NE)|].
  unfold order_of. destruct G as [|c r]; [congruence|]. cbn [List.length range]. eexists; reflexivity.
Qed.
Local Opaque order_of.
Theorem script_code_starts_with_own_label mp tl name glob optimize body is :
  emit_script mp tl name glob optimize body = Emitter.Ok is -> Worklist.src_ok body -> exists rest, is = ILabel name glob :: rest.
Proof.
  intros H HS. unfold emit_script in H. destruct (emit_graph body) as [w| | | |] eqn:HW; try discriminate.
  destruct (WorkShape.final_graph_shape body w HW HS) as (DN & NE & _).
  assert (DN' : OrderPerm.dense (finals w)) by exact DN.
  destruct (order_head optimize (finals w) DN' NE) as [post OH].
  assert (GC : exists c, get_chunk (finals w) 0 = Some c).
  { assert (Q : In 0%Z (map cid (finals w))).
    { apply (OrderPerm.ids_full _ DN'). destruct (finals w); [congruence|]. cbn [List.length]. lia. }
    apply in_map_iff in Q. destruct Q as (c & E & Hc). exists c. rewrite <- E. apply RenderCheck.get_chunk_nodup; [exact (proj1 DN)|exact Hc]. }
  destruct GC as [c GC]. unfold render_chunks in H. rewrite OH in H. cbn [render_bodies] in H. rewrite GC in H.
  destruct (clash tl _ (cstmts c)) as [[tk bb]|]; [discriminate|].
  destruct (render_branch mp name c _) as [[b0 regs0] fall].
  destruct (render_bodies mp tl name (finals w) _ post) as [[rest regs']| | | |]; try discriminate.
  injection H as <-. cbn [flat_map]. eexists; reflexivity.
Qed.

(* consequences, in the form of the property text *)
Lemma labels_of_In is n g : In (n, g) (labels_of is) <-> In (ILabel n g) is.
Proof.
  unfold labels_of. rewrite in_flat_map. split.
  - intros (i & Hi & Hx). destruct i; try contradiction. destruct Hx as [Hx|[]]. inversion Hx; subst. exact Hi.
  - intros H. exists (ILabel n g). split; [exact H|left; reflexivity].
Qed.
Corollary script_own_label mp tl name glob optimize body is :
  emit_script mp tl name glob optimize body = Emitter.Ok is -> Worklist.src_ok body -> In (ILabel name glob) is.
Proof.
  intros H HS. destruct (script_label_lines _ _ _ _ _ _ _ H HS) as (subs & _ & P). apply labels_of_In.
  eapply Permutation_in; [symmetry; exact P|left; reflexivity].
Qed.
Corollary script_author_labels mp tl name glob optimize body is :
  emit_script mp tl name glob optimize body = Emitter.Ok is -> Worklist.src_ok body ->
  forall n g tk, In (n, g, tk) (deep_labels body) -> In (ILabel n g) is.
Proof.
  intros H HS n g tk Hin. destruct (script_label_lines _ _ _ _ _ _ _ H HS) as (subs & _ & P). apply labels_of_In.
  eapply Permutation_in; [symmetry; exact P|]. right. apply in_or_app. right.
  change (n, g) with (Datatypes.fst (n, g, tk)). apply in_map. exact Hin.
Qed.
Corollary script_labels_classified mp tl name glob optimize body is :
  emit_script mp tl name glob optimize body = Emitter.Ok is -> Worklist.src_ok body ->
  forall n g, In (ILabel n g) is ->
    (n = name /\ g = glob) \/ (exists i, i <> 0%Z /\ n = lbl name i /\ g = false) \/ (exists tk, In (n, g, tk) (deep_labels body)).
Proof.
  intros H HS n g Hin. destruct (script_label_lines _ _ _ _ _ _ _ H HS) as (subs & N0 & P). apply labels_of_In in Hin.
  apply (Permutation_in _ P) in Hin. destruct Hin as [E|Hin]; [inversion E; auto|].
  apply in_app_or in Hin. destruct Hin as [Hin|Hin].
  - apply in_map_iff in Hin. destruct Hin as (i & E & Hi). inversion E; subst. right. left. exists i. split; [intros ->; contradiction|auto].
  - apply in_map_iff in Hin. destruct Hin as ([[n' g'] tk] & E & Hx). inversion E; subst. right. right. eauto.
Qed.

(* ---------- what must and what may be a label line of a script ---------- *)
(* must: the script's own label with its flag, and every label statement of the body with its written flag *)
Definition script_must (name : text) (glob : bool) (body : list stmt) (n : text) (g : bool) : Prop :=
  (n = name /\ g = glob) \/ (exists tk, In (n, g, tk) (deep_labels body)).
(* may: those, and local sub-labels name_<i> *)
Definition script_may (name : text) (glob : bool) (body : list stmt) (n : text) (g : bool) : Prop :=
  script_must name glob body n g \/ (exists i, i <> 0%Z /\ n = lbl name i /\ g = false).

(* the inline scripts of a mapscripts statement, with the names the parser gave them *)
Definition inline_scripts (plain : list mapscript) (tables : list tablems) : list (text * list stmt) :=
  flat_map (fun m => match msScript m with Some b => [(msName m, b)] | None => [] end) plain ++
  flat_map (fun tb => flat_map (fun e => match teScript e with Some b => [(teName e, b)] | None => [] end) (tmEntries tb)) tables.

Definition top_must (tp : top) (n : text) (g : bool) : Prop :=
  match tp with
  | TScript sn sg b => script_must sn sg b n g
  | TMovement sn sg _ _ => n = sn /\ g = sg
  | TMart sn sg _ _ _ => n = sn /\ g = sg
  | TMapScripts sn sg plain tables =>
      (n = sn /\ g = sg) \/ (g = false /\ exists tb, In tb tables /\ n = tmName tb) \/
      (exists isn b, In (isn, b) (inline_scripts plain tables) /\ script_must isn false b n g)
  | TRaw _ _ | TTextStmt => False
  end.
Definition top_may (tp : top) (n : text) (g : bool) : Prop :=
  match tp with
  | TScript sn sg b => script_may sn sg b n g
  | TMovement sn sg _ _ => n = sn /\ g = sg
  | TMart sn sg _ _ _ => n = sn /\ g = sg
  | TMapScripts sn sg plain tables =>
      (n = sn /\ g = sg) \/ (g = false /\ exists tb, In tb tables /\ n = tmName tb) \/
      (exists isn b, In (isn, b) (inline_scripts plain tables) /\ script_may isn false b n g)
  | TRaw _ _ | TTextStmt => False
  end.

Lemma In_label_app a b n g : In (ILabel n g) (a ++ b) <-> In (ILabel n g) a \/ In (ILabel n g) b.
Proof. apply in_app_iff. Qed.
Lemma In_label_marker mp line n g : ~ In (ILabel n g) (marker mp line).
Proof. unfold marker. destruct mp; [intros [X|[]]; discriminate|intros []]. Qed.

Section EMIT3.
Variable mp : option text.
Variable tl : list text.

Lemma emit_script_may name glob optimize body is :
  emit_script mp tl name glob optimize body = Emitter.Ok is -> Worklist.src_ok body ->
  forall n g, In (ILabel n g) is -> script_may name glob body n g.
Proof.
  intros H HS n g Hin. destruct (script_labels_classified _ _ _ _ _ _ _ H HS n g Hin) as [X|[X|X]].
  - left. left. exact X.
  - right. exact X.
  - left. right. exact X.
Qed.
Lemma emit_script_must name glob optimize body is :
  emit_script mp tl name glob optimize body = Emitter.Ok is -> Worklist.src_ok body ->
  forall n g, script_must name glob body n g -> In (ILabel n g) is.
Proof.
  intros H HS n g [[-> ->]|[tk Hin]].
  - eapply script_own_label; eassumption.
  - eapply script_author_labels; eassumption.
Qed.

Definition some_scripts (l : list (text * option (list stmt))) : list (text * list stmt) :=
  flat_map (fun p : text * option (list stmt) => match Datatypes.snd p with Some b => [(Datatypes.fst p, b)] | None => [] end) l.

(* inline scripts are emitted with the flag false *)
Lemma emit_scripts_labels optimize : forall l is,
  emit_scripts mp tl optimize l = Emitter.Ok is -> Forall (fun sb => Worklist.src_ok (Datatypes.snd sb)) (some_scripts l) ->
  (forall n g, In (ILabel n g) is -> exists sn b, In (sn, b) (some_scripts l) /\ script_may sn false b n g) /\
  (forall sn b, In (sn, b) (some_scripts l) -> forall n g, script_must sn false b n g -> In (ILabel n g) is).
Proof.
  induction l as [|[sn [b|]] r IH]; intros is H F; cbn [emit_scripts] in H.
  - inversion H; subst. split; [intros n g []|intros sn b []].
  - unfold bind_i in H. destruct (emit_script mp tl sn false optimize b) as [x| | | |] eqn:E1; try discriminate.
    destruct (emit_scripts mp tl optimize r) as [y| | | |] eqn:E2; try discriminate. inversion H; subst. clear H.
    cbn [some_scripts flat_map Datatypes.snd Datatypes.fst app] in *. inversion F as [|? ? F1 F2]; subst. cbn [Datatypes.snd] in F1.
    destruct (IH _ eq_refl F2) as [I1 I2]. split.
    + intros n g Hin. apply In_label_app in Hin. destruct Hin as [Hin|Hin].
      * exists sn, b. split; [left; reflexivity|]. eapply emit_script_may; eassumption.
      * destruct (I1 n g Hin) as (sn' & b' & Hs & Hm). exists sn', b'. split; [right; exact Hs|exact Hm].
    + intros sn' b' [E|Hs] n g Hm; apply In_label_app.
      * inversion E; subst. left. eapply emit_script_must; eassumption.
      * right. eapply I2; eassumption.
  - cbn [some_scripts flat_map Datatypes.snd app] in *. apply IH; assumption.
Qed.

Definition table_scripts (tables : list tablems) : list (text * list stmt) :=
  flat_map (fun tb => flat_map (fun e => match teScript e with Some b => [(teName e, b)] | None => [] end) (tmEntries tb)) tables.

Lemma some_scripts_entries (es : list tableentry) :
  some_scripts (map (fun e => (teName e, teScript e)) es) = flat_map (fun e => match teScript e with Some b => [(teName e, b)] | None => [] end) es.
Proof. unfold some_scripts. rewrite flat_map_map'. reflexivity. Qed.
Lemma some_scripts_plain (plain : list mapscript) :
  some_scripts (map (fun m => (msName m, msScript m)) plain) = flat_map (fun m => match msScript m with Some b => [(msName m, b)] | None => [] end) plain.
Proof. unfold some_scripts. rewrite flat_map_map'. reflexivity. Qed.

Lemma In_label_entries (es : list tableentry) n g :
  ~ In (ILabel n g) (flat_map (fun e => marker mp (tline (teCond e)) ++ [ILine (tab ++ t "map_script_2 " ++ teCondLit e ++ t ", " ++ teCmp e ++ t ", " ++ teName e)]) es).
Proof.
  intros H. apply in_flat_map in H. destruct H as (e & _ & H). apply in_app_or in H. destruct H as [H|[H|[]]]; [|discriminate].
  exact (In_label_marker _ _ _ _ H).
Qed.

(* tables: the label of every table is local; its inline scripts are local scripts *)
Lemma emit_tables_labels optimize : forall tables is,
  emit_tables mp tl optimize tables = Emitter.Ok is -> Forall (fun sb => Worklist.src_ok (Datatypes.snd sb)) (table_scripts tables) ->
  (forall n g, In (ILabel n g) is ->
     (g = false /\ exists tb, In tb tables /\ n = tmName tb) \/ (exists sn b, In (sn, b) (table_scripts tables) /\ script_may sn false b n g)) /\
  (forall tb, In tb tables -> In (ILabel (tmName tb) false) is) /\
  (forall sn b, In (sn, b) (table_scripts tables) -> forall n g, script_must sn false b n g -> In (ILabel n g) is).
Proof.
  induction tables as [|tb r IH]; intros is H F; cbn [emit_tables] in H.
  - inversion H; subst. split; [intros n g []|split; [intros tb []|intros sn b []]].
  - cbv zeta in H. unfold bind_i in H.
    destruct (emit_scripts mp tl optimize (map (fun e => (teName e, teScript e)) (tmEntries tb))) as [x| | | |] eqn:E1; try discriminate.
    destruct (emit_tables mp tl optimize r) as [y| | | |] eqn:E2; try discriminate. injection H as <-.
    unfold table_scripts in F. cbn [flat_map] in F. apply Forall_app in F. destruct F as [F1 F2].
    rewrite <- some_scripts_entries in F1. destruct (emit_scripts_labels _ _ _ E1 F1) as [S1 S2]. rewrite some_scripts_entries in S1, S2.
    destruct (IH _ eq_refl F2) as (I1 & I2 & I3).
    split; [|split].
    + intros n g Hin. rewrite <- !app_assoc in Hin. cbn [app] in Hin. destruct Hin as [E|Hin].
      { inversion E; subst. left. split; [reflexivity|]. exists tb. split; [left; reflexivity|reflexivity]. }
      apply In_label_app in Hin. destruct Hin as [Hin|Hin]; [exfalso; exact (In_label_entries _ _ _ Hin)|].
      destruct Hin as [E|[E|Hin]]; [discriminate|discriminate|].
      apply In_label_app in Hin. destruct Hin as [Hin|Hin].
      * right. destruct (S1 n g Hin) as (sn & b & Hs & Hm). exists sn, b. split; [|exact Hm].
        unfold table_scripts. cbn [flat_map]. apply in_or_app. left. exact Hs.
      * destruct (I1 n g Hin) as [(-> & tb' & Ht & ->)|(sn & b & Hs & Hm)].
        -- left. split; [reflexivity|]. exists tb'. split; [right; exact Ht|reflexivity].
        -- right. exists sn, b. split; [|exact Hm]. unfold table_scripts. cbn [flat_map]. apply in_or_app. right. exact Hs.
    + intros tb' [<-|Ht].
      * left. reflexivity.
      * right. apply In_label_app. right. apply In_label_app. right. apply I2. exact Ht.
    + intros sn b Hs n g Hm. unfold table_scripts in Hs. cbn [flat_map] in Hs. apply in_app_or in Hs.
      right. apply In_label_app. right. apply In_label_app. destruct Hs as [Hs|Hs].
      * left. eapply S2; eassumption.
      * right. eapply I3; eassumption.
Qed.

Lemma In_label_mapscript_lines {A} (tok : A -> token) (nm : A -> text) (l : list A) n g :
  ~ In (ILabel n g) (flat_map (fun m => marker mp (tline (tok m)) ++ [ILine (tab ++ t "map_script " ++ tlit (tok m) ++ t ", " ++ nm m)]) l).
Proof.
  intros H. apply in_flat_map in H. destruct H as (e & _ & H). apply in_app_or in H. destruct H as [H|[H|[]]]; [|discriminate].
  exact (In_label_marker _ _ _ _ H).
Qed.

Definition scripts_ok (l : list (text * list stmt)) : Prop := Forall (fun sb => Worklist.src_ok (Datatypes.snd sb)) l.

(* THE MAPSCRIPTS THEOREM: own label with the recorded flag; tables and inline scripts local *)
Theorem mapscripts_label_lines optimize name glob plain tables is :
  emit_mapscripts mp tl optimize name glob plain tables = Emitter.Ok is -> scripts_ok (inline_scripts plain tables) ->
  (forall n g, In (ILabel n g) is -> top_may (TMapScripts name glob plain tables) n g) /\
  (forall n g, top_must (TMapScripts name glob plain tables) n g -> In (ILabel n g) is).
Proof.
  unfold emit_mapscripts. cbv zeta. unfold bind_i. intros H F.
  destruct (emit_scripts mp tl optimize (map (fun m => (msName m, msScript m)) plain)) as [inl| | | |] eqn:E1; try discriminate.
  destruct (emit_tables mp tl optimize tables) as [tt| | | |] eqn:E2; try discriminate. injection H as <-.
  unfold scripts_ok, inline_scripts in F. apply Forall_app in F. destruct F as [F1 F2].
  rewrite <- some_scripts_plain in F1. destruct (emit_scripts_labels _ _ _ E1 F1) as [S1 S2]. rewrite some_scripts_plain in S1, S2.
  destruct (emit_tables_labels _ _ _ E2 F2) as (T1 & T2 & T3).
  split.
  - intros n g Hin. cbn [top_may]. rewrite <- !app_assoc in Hin. cbn [app] in Hin. destruct Hin as [E|Hin]; [inversion E; subst; left; auto|].
    apply In_label_app in Hin. destruct Hin as [Hin|Hin]; [exfalso; exact (In_label_mapscript_lines _ _ _ _ _ Hin)|].
    apply In_label_app in Hin. destruct Hin as [Hin|Hin]; [exfalso; exact (In_label_mapscript_lines _ _ _ _ _ Hin)|].
    destruct Hin as [E|[E|Hin]]; [discriminate|discriminate|].
    apply In_label_app in Hin. destruct Hin as [Hin|Hin].
    + right. right. destruct (S1 n g Hin) as (sn & b & Hs & Hm). exists sn, b. split; [|exact Hm]. unfold inline_scripts. apply in_or_app. left. exact Hs.
    + destruct (T1 n g Hin) as [X|(sn & b & Hs & Hm)]; [right; left; exact X|].
      right. right. exists sn, b. split; [|exact Hm]. unfold inline_scripts. apply in_or_app. right. exact Hs.
  - intros n g Hm. cbn [top_must] in Hm. destruct Hm as [[-> ->]|[(-> & tb & Ht & ->)|(sn & b & Hs & Hm)]].
    + left. reflexivity.
    + right. apply In_label_app. right. apply In_label_app. right. apply T2. exact Ht.
    + unfold inline_scripts in Hs. apply in_app_or in Hs. right. apply In_label_app. right. apply In_label_app. destruct Hs as [Hs|Hs].
      * left. eapply S2; eassumption.
      * right. eapply T3; eassumption.
Qed.

(* the scripts of a top-level statement whose bodies must pass the source check *)
Definition top_scripts (tp : top) : list (text * list stmt) :=
  match tp with
  | TScript n _ b => [(n, b)]
  | TMapScripts _ _ plain tables => inline_scripts plain tables
  | _ => []
  end.

(* THE TOP-LEVEL THEOREM: for every kind of top-level statement, the label lines of its code *)
Theorem top_label_lines optimize tp is :
  emit_top mp tl optimize tp = Some (Emitter.Ok is) -> scripts_ok (top_scripts tp) ->
  (forall n g, In (ILabel n g) is -> top_may tp n g) /\ (forall n g, top_must tp n g -> In (ILabel n g) is).
Proof.
  destruct tp as [sn sg b|v ln| |sn sg tk steps|sn sg tk items itoks|sn sg plain tables]; cbn [emit_top top_scripts]; intros H F; try discriminate.
  - inversion H as [H1]. inversion F as [|? ? F1 _]; subst. cbn [Datatypes.snd] in F1. split.
    + intros n g Hin. cbn [top_may]. eapply emit_script_may; eassumption.
    + intros n g Hm. cbn [top_must] in Hm. eapply emit_script_must; eassumption.
  - inversion H; subst. split.
    + intros n g Hin. apply labels_of_In in Hin. unfold emit_raw in Hin. rewrite labels_raw in Hin. destruct Hin.
    + intros n g [].
  - inversion H; subst. split.
    + intros n g Hin. apply labels_of_In in Hin. rewrite movement_label_line in Hin. destruct Hin as [E|[]]. inversion E; subst. cbn. auto.
    + intros n g [-> ->]. apply labels_of_In. rewrite movement_label_line. left. reflexivity.
  - inversion H; subst. split.
    + intros n g Hin. apply labels_of_In in Hin. rewrite mart_label_line in Hin. destruct Hin as [E|[]]. inversion E; subst. cbn. auto.
    + intros n g [-> ->]. apply labels_of_In. rewrite mart_label_line. left. reflexivity.
  - inversion H as [H1]. eapply mapscripts_label_lines; eassumption.
Qed.
End EMIT3.
Theorem mapscripts_code_starts_with_own_label mp tl optimize name glob plain tables is :
  emit_mapscripts mp tl optimize name glob plain tables = Emitter.Ok is -> exists rest, is = ILabel name glob :: rest.
Proof.
  unfold emit_mapscripts. cbv zeta. unfold bind_i. intros H.
  destruct (emit_scripts mp tl optimize _) as [inl| | | |]; try discriminate.
  destruct (emit_tables mp tl optimize tables) as [tt| | | |]; try discriminate. injection H as <-. eexists; reflexivity.
Qed.

(* ---------- whole programs ---------- *)
Lemma top_scripts_bodies tp : map Datatypes.snd (top_scripts tp) = ProgWf.bodies_of_top tp.
Proof.
  destruct tp as [sn sg b|v ln| |sn sg tk steps|sn sg tk items itoks|sn sg plain tables]; try reflexivity.
  cbn [top_scripts ProgWf.bodies_of_top]. unfold inline_scripts. rewrite map_app. f_equal.
  - induction plain as [|m r IH]; [reflexivity|]. cbn [flat_map]. rewrite map_app, IH. destruct (msScript m); reflexivity.
  - induction tables as [|tb r IH]; [reflexivity|]. cbn [flat_map]. rewrite map_app, IH. f_equal.
    induction (tmEntries tb) as [|e r' IH']; [reflexivity|]. cbn [flat_map]. rewrite map_app, IH'. destruct (teScript e); reflexivity.
Qed.
Lemma scripts_ok_bodies tp : Forall Worklist.src_ok (ProgWf.bodies_of_top tp) -> scripts_ok (top_scripts tp).
Proof.
  rewrite <- top_scripts_bodies. unfold scripts_ok. intros H. induction (top_scripts tp) as [|x r IH]; [constructor|].
  cbn [map] in H. inversion H; subst. constructor; [assumption|apply IH; assumption].
Qed.
Lemma tops_scripts_ok l : Forall Worklist.src_ok (ProgWf.bodies_of l) -> Forall (fun tp => scripts_ok (top_scripts tp)) l.
Proof.
  induction l as [|tp r IH]; intros H; [constructor|]. unfold ProgWf.bodies_of in H. cbn [flat_map] in H. apply Forall_app in H. destruct H as [H1 H2].
  constructor; [apply scripts_ok_bodies; exact H1|apply IH; exact H2].
Qed.

Section EMIT4.
Variable mp : option text.
Variable tl : list text.

Lemma emit_tops_labels optimize : forall l i is k,
  emit_tops mp tl optimize l i = Emitter.Ok (is, k) -> Forall (fun tp => scripts_ok (top_scripts tp)) l ->
  (forall n g, In (ILabel n g) is -> exists tp, In tp l /\ top_may tp n g) /\
  (forall tp, In tp l -> forall n g, top_must tp n g -> In (ILabel n g) is).
Proof.
  induction l as [|tp r IH]; intros i is k H F; cbn [emit_tops] in H.
  - inversion H; subst. split; [intros n g []|intros tp []].
  - inversion F as [|? ? F1 F2]; subst. destruct (emit_top mp tl optimize tp) as [rt|] eqn:ET.
    + unfold bind_i in H. destruct rt as [x| | | |]; try discriminate.
      destruct (emit_tops mp tl optimize r (S i)) as [[y n0]| | | |] eqn:E2; try discriminate. injection H as <- <-.
      destruct (top_label_lines mp tl optimize tp x ET F1) as [T1 T2]. destruct (IH _ _ _ E2 F2) as [I1 I2]. split.
      * intros n g Hin. apply In_label_app in Hin. destruct Hin as [Hin|Hin]; [destruct i; [destruct Hin|destruct Hin as [X|[]]; discriminate]|].
        apply In_label_app in Hin. destruct Hin as [Hin|Hin].
        -- exists tp. split; [left; reflexivity|apply T1; exact Hin].
        -- destruct (I1 n g Hin) as (tp' & Ht & Hm). exists tp'. split; [right; exact Ht|exact Hm].
      * intros tp' [<-|Ht] n g Hm; apply In_label_app; right; apply In_label_app.
        -- left. apply T2. exact Hm.
        -- right. eapply I2; eassumption.
    + destruct (IH _ _ _ H F2) as [I1 I2]. split.
      * intros n g Hin. destruct (I1 n g Hin) as (tp' & Ht & Hm). exists tp'. split; [right; exact Ht|exact Hm].
      * intros tp' [<-|Ht] n g Hm; [|eapply I2; eassumption].
        destruct tp; try discriminate ET. destruct Hm.
Qed.

Lemma emit_texts_labels : forall l k n g,
  In (ILabel n g) (emit_texts mp l k) <-> exists x, In x l /\ n = xname x /\ g = xglob x.
Proof.
  induction l as [|x r IH]; intros k n g; cbn [emit_texts].
  - split; [intros []|intros (x & [] & _)].
  - assert (TX : In (ILabel n g) (emit_text mp x) <-> (n = xname x /\ g = xglob x)).
    { rewrite <- labels_of_In, text_label_line. split; [intros [H|[]]; inversion H; auto|intros [-> ->]; left; reflexivity]. }
    rewrite !In_label_app, IH, TX. split.
    + intros [H|[[-> ->]|(y & Hy & E)]].
      * destruct k; [destruct H|destruct H as [X|[]]; discriminate].
      * exists x. split; [left; reflexivity|auto].
      * exists y. split; [right; exact Hy|exact E].
    + intros (y & [<-|Hy] & -> & ->); [right; left; auto|right; right; eauto].
Qed.
End EMIT4.

(* THE EMITTER THEOREM.  The label lines of the code of a program are, with their flags:
   (may)  nothing but: for each top-level statement, its own label with its recorded flag, the label statements of its
          scripts with their written flags, and labels the emitter invents - sub-labels, inline map scripts, tables -
          all of them local; for each text, its label with its recorded flag;
   (must) all of those, except that only the sub-labels that are jumped to are emitted. *)
Theorem program_label_lines optimize mp p is :
  emit_program_instrs optimize mp p = Emitter.Ok is -> Forall Worklist.src_ok (ProgWf.bodies_of (tops p)) ->
  (forall n g, In (ILabel n g) is ->
     (exists tp, In tp (tops p) /\ top_may tp n g) \/ (exists x, In x (texts p) /\ n = xname x /\ g = xglob x)) /\
  (forall n g, (exists tp, In tp (tops p) /\ top_must tp n g) \/ (exists x, In x (texts p) /\ n = xname x /\ g = xglob x) ->
     In (ILabel n g) is).
Proof.
  unfold emit_program_instrs. intros H F. cbv zeta in H.
  destruct (emit_tops mp (map xname (texts p)) optimize (tops p) 0) as [[x k]| | | |] eqn:E; try discriminate. injection H as <-.
  destruct (emit_tops_labels mp _ optimize _ _ _ _ E (tops_scripts_ok _ F)) as [T1 T2]. split.
  - intros n g Hin. apply In_label_app in Hin. destruct Hin as [Hin|Hin]; [left; apply T1; exact Hin|right; apply emit_texts_labels in Hin; exact Hin].
  - intros n g [(tp & Ht & Hm)|X]; apply In_label_app; [left; eapply T2; eassumption|right; apply emit_texts_labels; exact X].
Qed.

(* ====================================================================================================================== *)
(* PART 6 - printing: '::' iff the flag is true                                                                           *)
(* ====================================================================================================================== *)
Theorem label_line_printed path n g : print_instr path (ILabel n g) = n ++ (if g then t "::" else t ":") ++ nl.
Proof. reflexivity. Qed.
Theorem exported_iff_double_colon path n g : print_instr path (ILabel n g) = n ++ t "::" ++ nl <-> g = true.
Proof.
  split; [|intros ->; reflexivity]. destruct g; [reflexivity|]. cbn [print_instr]. intros H. apply app_inv_head in H. discriminate.
Qed.
Theorem local_iff_single_colon path n g : print_instr path (ILabel n g) = n ++ t ":" ++ nl <-> g = false.
Proof.
  split; [|intros ->; reflexivity]. destruct g; [|reflexivity]. cbn [print_instr]. intros H. apply app_inv_head in H. discriminate.
Qed.
(* every label instruction of the code is one line of the printed text *)
Theorem label_lines_in_output mpath is n g :
  In (ILabel n g) is -> exists pre post, print_instrs mpath is = pre ++ (n ++ (if g then t "::" else t ":") ++ nl) ++ post.
Proof.
  intros H. destruct (in_split _ _ H) as (l1 & l2 & ->). unfold print_instrs. rewrite flat_map_app. cbn [flat_map].
  eexists _, _. reflexivity.
Qed.

(* ====================================================================================================================== *)
(* PART 7 - source to code                                                                                                *)
(* ====================================================================================================================== *)

(* reading a declared flag back: exported only if written (global), or written without modifier for a kind that is global by
   default; local only if written (local), or written without modifier for a kind that is local by default *)
Lemma declares_true d ts n : declares d ts n true -> modifier_of ts = Some MGlobal \/ (modifier_of ts = Some MNone /\ d = true).
Proof. intros (m & M & E & _). destruct m; cbn in E; [right; auto|left; exact M|discriminate]. Qed.
Lemma declares_false d ts n : declares d ts n false -> modifier_of ts = Some MLocal \/ (modifier_of ts = Some MNone /\ d = false).
Proof. intros (m & M & E & _). destruct m; cbn in E; [right; auto|discriminate|left; exact M]. Qed.
Lemma label_written_true ts : label_written ts true -> is LPAREN (pk 1 ts) = true /\ is GLOBAL (pk 2 ts) = true /\ is RPAREN (pk 3 ts) = true /\ is COLON (pk 4 ts) = true.
Proof. intros [[_ X]|(_ & A & B & C & [[G _]|[_ X]])]; try discriminate. auto. Qed.

(* the five kinds of top-level statements that declare a name *)
Definition naming_keywords : list toktype := [SCRIPT; TEXT; MOVEMENT; MART; MAPSCRIPTS].

(* labels that exist only because the compiler invented them *)
Inductive invented_label (p : program) (n : text) : Prop :=
| inv_text : invented "_Text_" n -> invented_label p n                        (* hoisted text *)
| inv_movement : invented "_Movement_" n -> invented_label p n                (* hoisted movement *)
| inv_sub sn i : i <> 0%Z -> n = lbl sn i -> invented_label p n               (* sub-label of a script *)
| inv_table mn mg plain tables tb :                                           (* map script table *)
    In (TMapScripts mn mg plain tables) (tops p) -> In tb tables -> n = tmName tb -> invented_label p n
| inv_inline mn mg plain tables b :                                           (* inline map script *)
    In (TMapScripts mn mg plain tables) (tops p) -> In (n, b) (inline_scripts plain tables) -> invented_label p n.

Section END_TO_END.
Variable autovars : list (text * autovar).
Variable switches : list (text * text).
Variable env_errors : bool.
Variable parse_format : toks -> Parser.res (token * text * text * toks).
Hypothesis parse_format_advs : forall ts tk v sty ts', parse_format ts = Parser.Ok (tk, v, sty, ts') -> forall a, advs a ts -> advs a ts'.

(* THE THEOREM (C15).  Whatever the token stream: if it is accepted and the code is generated, then every label line of the
   code is
   - the name of a script / text / movement / mart / mapscripts statement of the source, with the flag of its scope modifier
     or, when it has none, the documented default of its kind;  or
   - a label statement of the source, with the flag as written:  L(global): true,  L: and L(local): false;  or
   - a label the compiler invented (hoisted text or movement, sub-label, inline map script, table), and then it is local. *)
Theorem label_lines_as_written ts p optimize mp code :
  eof_ended ts ->
  parse_program autovars switches env_errors parse_format ts = Parser.Ok p ->
  emit_program_instrs optimize mp p = Emitter.Ok code ->
  forall n g, In (ILabel n g) code ->
    (exists kw, In kw naming_keywords /\ declared ts kw n g) \/
    (exists tk, label_at ts n g tk) \/
    (g = false /\ invented_label p n).
Proof.
  intros EO HP HE n g Hin.
  pose proof (ProgSrc.parse_program_src autovars switches env_errors parse_format parse_format_advs ts p EO HP) as SRC.
  destruct (program_scopes_as_written autovars switches env_errors parse_format parse_format_advs ts p HP) as [ST SX].
  destruct (program_label_lines optimize mp p code HE SRC) as [MAY _].
  rewrite Forall_forall in ST, SX.
  destruct (MAY n g Hin) as [(tp & Ht & Hm)|(x & Hx & -> & ->)].
  - specialize (ST tp Ht). destruct tp as [sn sg b|v ln| |sn sg tk steps|sn sg tk items itoks|sn sg plain tables]; cbn [top_may top_scope_ok] in Hm, ST.
    + destruct ST as [D W]. destruct Hm as [[[-> ->]|[tk Hl]]|(i & Hi & -> & ->)].
      * left. exists SCRIPT. split; [cbn; auto|exact D].
      * right. left. exists tk. exact (W _ _ _ Hl).
      * right. right. split; [reflexivity|]. eapply inv_sub; [exact Hi|reflexivity].
    + destruct Hm.
    + destruct Hm.
    + destruct Hm as [-> ->]. destruct ST as [D|(n' & tk' & steps' & E & I)].
      * left. exists MOVEMENT. split; [cbn; auto|exact D].
      * inversion E; subst. right. right. split; [reflexivity|]. apply inv_movement. exact I.
    + destruct Hm as [-> ->]. left. exists MART. split; [cbn; auto 6|exact ST].
    + destruct ST as [D W]. destruct Hm as [[-> ->]|[(-> & tb & Htb & ->)|(isn & b & Hs & Hm)]].
      * left. exists MAPSCRIPTS. split; [cbn; auto 6|exact D].
      * right. right. split; [reflexivity|]. eapply inv_table; [exact Ht|exact Htb|reflexivity].
      * assert (Wb : labels_written ts b).
        { rewrite Forall_forall in W. apply W. rewrite <- top_scripts_bodies. cbn [top_scripts].
          change b with (Datatypes.snd (isn, b)). apply in_map. exact Hs. }
        destruct Hm as [[[-> ->]|[tk Hl]]|(i & Hi & -> & ->)].
        -- right. right. split; [reflexivity|]. eapply inv_inline; [exact Ht|exact Hs].
        -- right. left. exists tk. exact (Wb _ _ _ Hl).
        -- right. right. split; [reflexivity|]. eapply inv_sub; [exact Hi|reflexivity].
  - destruct (SX x Hx) as [D|[G I]].
    + left. exists TEXT. split; [cbn; auto|exact D].
    + right. right. split; [exact G|]. apply inv_text. exact I.
Qed.

(* in particular: a label is exported ('::') only if the author declared it global - a statement written with (global), or
   written without modifier and of a kind that is global by default, or a label statement written L(global): *)
Corollary exported_labels_are_written ts p optimize mp code :
  eof_ended ts ->
  parse_program autovars switches env_errors parse_format ts = Parser.Ok p ->
  emit_program_instrs optimize mp p = Emitter.Ok code ->
  forall n, In (ILabel n true) code ->
    (exists kw ts', In kw naming_keywords /\ advs ts ts' /\ ttype (cur ts') = kw /\
        (modifier_of ts' = Some MGlobal \/ (modifier_of ts' = Some MNone /\ default_scope kw = true))) \/
    (exists ts', advs ts ts' /\ ttype (cur ts') = IDENT /\ n = tlit (cur ts') /\
        is LPAREN (pk 1 ts') = true /\ is GLOBAL (pk 2 ts') = true /\ is RPAREN (pk 3 ts') = true /\ is COLON (pk 4 ts') = true).
Proof.
  intros EO HP HE n Hin. destruct (label_lines_as_written ts p optimize mp code EO HP HE n true Hin) as [(kw & K & ts' & A & T & D)|[(tk & ts' & A & T & _ & N & W)|[X _]]].
  - left. exists kw, ts'. split; [exact K|]. split; [exact A|]. split; [exact T|]. eapply declares_true. exact D.
  - right. exists ts'. split; [exact A|]. split; [exact T|]. split; [exact N|]. apply label_written_true. exact W.
  - discriminate.
Qed.

(* and conversely nothing that is declared is lost: the name of every statement of the parsed program and every label
   statement of its scripts is a label line of the code, with the recorded flag *)
Theorem declared_labels_are_emitted ts p optimize mp code :
  eof_ended ts ->
  parse_program autovars switches env_errors parse_format ts = Parser.Ok p ->
  emit_program_instrs optimize mp p = Emitter.Ok code ->
  (forall n g b, In (TScript n g b) (tops p) -> In (ILabel n g) code /\ forall n' g' tk, In (n', g', tk) (deep_labels b) -> In (ILabel n' g') code) /\
  (forall n g tk steps, In (TMovement n g tk steps) (tops p) -> In (ILabel n g) code) /\
  (forall n g tk items itoks, In (TMart n g tk items itoks) (tops p) -> In (ILabel n g) code) /\
  (forall n g plain tables, In (TMapScripts n g plain tables) (tops p) ->
     In (ILabel n g) code /\ (forall tb, In tb tables -> In (ILabel (tmName tb) false) code) /\
     (forall sn b, In (sn, b) (inline_scripts plain tables) ->
        In (ILabel sn false) code /\ forall n' g' tk, In (n', g', tk) (deep_labels b) -> In (ILabel n' g') code)) /\
  (forall x, In x (texts p) -> In (ILabel (xname x) (xglob x)) code).
Proof.
  intros EO HP HE.
  pose proof (ProgSrc.parse_program_src autovars switches env_errors parse_format parse_format_advs ts p EO HP) as SRC.
  destruct (program_label_lines optimize mp p code HE SRC) as [_ MUST].
  split; [|split; [|split; [|split]]].
  - intros n g b Ht. split; [|intros n' g' tk Hl]; apply MUST; left; exists (TScript n g b); (split; [exact Ht|]); cbn [top_must]; [left; auto|right; eauto].
  - intros n g tk steps Ht. apply MUST. left. eexists. split; [exact Ht|]. cbn. auto.
  - intros n g tk items itoks Ht. apply MUST. left. eexists. split; [exact Ht|]. cbn. auto.
  - intros n g plain tables Ht. split; [|split].
    + apply MUST. left. eexists. split; [exact Ht|]. cbn [top_must]. left. auto.
    + intros tb Htb. apply MUST. left. eexists. split; [exact Ht|]. cbn [top_must]. right. left. eauto.
    + intros sn b Hs. split; [|intros n' g' tk Hl]; apply MUST; left; eexists; (split; [exact Ht|]); cbn [top_must]; right; right; exists sn, b; (split; [exact Hs|]); [left; auto|right; eauto].
  - intros x Hx. apply MUST. right. eauto.
Qed.
End END_TO_END.

(* ---------- the compiler: Compile.compile, from the source text to the output text ---------- *)
Theorem compile_label_scopes hl hd hs autovars switches ee fc cli_font cli_maxlen optimize mp src out :
  Compile.compile hl hd hs autovars switches ee fc cli_font cli_maxlen optimize mp src = Compile.OutText out ->
  let ts := lex hl hd hs src in
  exists p code,
    parse_program autovars switches ee (Format.parse_format fc cli_font cli_maxlen ee) ts = Parser.Ok p /\
    emit_program_instrs optimize mp p = Emitter.Ok code /\
    out = print_instrs mp code /\
    (* every label line of the code is as written, as documented by default, or invented and local *)
    (forall n g, In (ILabel n g) code ->
       (exists kw, In kw naming_keywords /\ declared ts kw n g) \/ (exists tk, label_at ts n g tk) \/ (g = false /\ invented_label p n)) /\
    (* and it is printed with '::' when the flag is true and ':' when it is false *)
    (forall n g, In (ILabel n g) code -> exists pre post, out = pre ++ (n ++ (if g then t "::" else t ":") ++ nl) ++ post).
Proof.
  intros H. cbv zeta. unfold Compile.compile in H. cbv zeta in H. set (ts := lex hl hd hs src) in *.
  destruct (parse_program autovars switches ee (Format.parse_format fc cli_font cli_maxlen ee) ts) as [p| | |] eqn:HP; try discriminate.
  unfold emit_program in H. destruct (emit_program_instrs optimize mp p) as [code| | | |] eqn:HE; try discriminate.
  injection H as <-. exists p, code. split; [first [exact HP | reflexivity]|]. split; [first [exact HE | reflexivity]|]. split; [reflexivity|]. split.
  - intros n g Hin. eapply label_lines_as_written; [apply ProgSrc.parse_format_advs|apply ProgSrc.lex_eof|exact HP|exact HE|exact Hin].
  - intros n g Hin. apply label_lines_in_output. exact Hin.
Qed.

(* the same without any hypothesis: the token stream is the lexer's, the format() parser is the real one *)
Section REAL.
Variable hl hd hs : N -> bool.
Variable autovars : list (text * autovar).
Variable switches : list (text * text).
Variable ee : bool.
Variable fc : Format.fontcfg.
Variable cli_font : text.
Variable cli_maxlen : Z.
Notation parse_source src := (parse_program autovars switches ee (Format.parse_format fc cli_font cli_maxlen ee) (lex hl hd hs src)).

Theorem source_scopes_as_written src p :
  parse_source src = Parser.Ok p ->
  Forall (top_scope_ok (lex hl hd hs src)) (tops p) /\ Forall (text_scope_ok (lex hl hd hs src)) (texts p).
Proof. apply program_scopes_as_written. apply ProgSrc.parse_format_advs. Qed.

Theorem source_label_lines_as_written src p optimize mp code :
  parse_source src = Parser.Ok p -> emit_program_instrs optimize mp p = Emitter.Ok code ->
  forall n g, In (ILabel n g) code ->
    (exists kw, In kw naming_keywords /\ declared (lex hl hd hs src) kw n g) \/
    (exists tk, label_at (lex hl hd hs src) n g tk) \/
    (g = false /\ invented_label p n).
Proof. apply label_lines_as_written; [apply ProgSrc.parse_format_advs|apply ProgSrc.lex_eof]. Qed.

Theorem source_exported_labels_are_written src p optimize mp code :
  parse_source src = Parser.Ok p -> emit_program_instrs optimize mp p = Emitter.Ok code ->
  forall n, In (ILabel n true) code ->
    (exists kw ts', In kw naming_keywords /\ advs (lex hl hd hs src) ts' /\ ttype (cur ts') = kw /\
        (modifier_of ts' = Some MGlobal \/ (modifier_of ts' = Some MNone /\ default_scope kw = true))) \/
    (exists ts', advs (lex hl hd hs src) ts' /\ ttype (cur ts') = IDENT /\ n = tlit (cur ts') /\
        is LPAREN (pk 1 ts') = true /\ is GLOBAL (pk 2 ts') = true /\ is RPAREN (pk 3 ts') = true /\ is COLON (pk 4 ts') = true).
Proof. apply exported_labels_are_written; [apply ProgSrc.parse_format_advs|apply ProgSrc.lex_eof]. Qed.

Theorem source_declared_labels_are_emitted src p optimize mp code :
  parse_source src = Parser.Ok p -> emit_program_instrs optimize mp p = Emitter.Ok code ->
  (forall n g b, In (TScript n g b) (tops p) -> In (ILabel n g) code /\ forall n' g' tk, In (n', g', tk) (deep_labels b) -> In (ILabel n' g') code) /\
  (forall n g tk steps, In (TMovement n g tk steps) (tops p) -> In (ILabel n g) code) /\
  (forall n g tk items itoks, In (TMart n g tk items itoks) (tops p) -> In (ILabel n g) code) /\
  (forall n g plain tables, In (TMapScripts n g plain tables) (tops p) ->
     In (ILabel n g) code /\ (forall tb, In tb tables -> In (ILabel (tmName tb) false) code) /\
     (forall sn b, In (sn, b) (inline_scripts plain tables) ->
        In (ILabel sn false) code /\ forall n' g' tk, In (n', g', tk) (deep_labels b) -> In (ILabel n' g') code)) /\
  (forall x, In x (texts p) -> In (ILabel (xname x) (xglob x)) code).
Proof. apply declared_labels_are_emitted; [apply ProgSrc.parse_format_advs|apply ProgSrc.lex_eof]. Qed.
End REAL.

(* ====================================================================================================================== *)
(* EXAMPLES - the hypotheses of the theorems are satisfiable, on concrete sources run through the model's lexer           *)
(* ====================================================================================================================== *)
From Pory Require C01Main.
Module Examples.
Open Scope string_scope.
Definition lex0 (s : string) : toks := lex (fun _ => false) (fun _ => false) (fun _ => false) (t s).
Definition pf0 : toks -> Parser.res (token * text * text * toks) := fun _ => Panic.
Lemma pf0_advs : forall ts tk v sty ts', pf0 ts = Parser.Ok (tk, v, sty, ts') -> forall a, advs a ts -> advs a ts'.
Proof. discriminate. Qed.
Definition fc0 : Format.fontcfg := {| Format.fcDefault := []; Format.fcFonts := [] |}.

(* the three ways to write a modifier, and something that is not a modifier *)
Example ex_modifier_of :
  modifier_of (lex0 "script S { end }") = Some MNone /\ modifier_of (lex0 "script(global) S { end }") = Some MGlobal /\
  modifier_of (lex0 "script(local) S { end }") = Some MLocal /\ modifier_of (lex0 "script(foo) S { end }") = None /\
  modifier_of (lex0 "script(global S { end }") = None.
Proof. repeat split; vm_compute; reflexivity. Qed.

(* every statement kind x {no modifier, (global), (local)}: the recorded name and flag *)
Definition script_flag (s : string) := match parse_script [] [] false pf0 [] 60 (lex0 s) with Parser.Ok (n, g, _, _, _) => Some (n, g) | _ => None end.
Definition text_flag (s : string) := match parse_text [] false pf0 60 (lex0 s) with Parser.Ok (x, _) => Some (xname x, xglob x) | _ => None end.
Definition top_flag (r : Parser.res (top * toks)) := match r with
  | Parser.Ok (TMovement n g _ _, _) | Parser.Ok (TMart n g _ _ _, _) | Parser.Ok (TMapScripts n g _ _, _) => Some (n, g) | _ => None end.
Definition movement_flag (s : string) := top_flag (parse_movement [] false 60 (lex0 s)).
Definition mart_flag (s : string) := top_flag (parse_mart [] false [] 60 (lex0 s)).
Definition mapscripts_flag (s : string) :=
  top_flag (match parse_mapscripts [] [] false pf0 [] 60 (lex0 s) with Parser.Ok (tp, _, ts) => Parser.Ok (tp, ts) | Err e => Err e | Panic => Panic | Fuel => Fuel end).

Example ex_documented_defaults :
  script_flag "script S { end }" = Some (t "S", true) /\
  text_flag "text S { ""a"" }" = Some (t "S", true) /\
  mapscripts_flag "mapscripts S { }" = Some (t "S", true) /\
  movement_flag "movement S { walk_up }" = Some (t "S", false) /\
  mart_flag "mart S { ITEM_X }" = Some (t "S", false).
Proof. repeat split; vm_compute; reflexivity. Qed.
Example ex_global_modifier :
  script_flag "script(global) S { end }" = Some (t "S", true) /\
  text_flag "text(global) S { ""a"" }" = Some (t "S", true) /\
  mapscripts_flag "mapscripts(global) S { }" = Some (t "S", true) /\
  movement_flag "movement(global) S { walk_up }" = Some (t "S", true) /\
  mart_flag "mart(global) S { ITEM_X }" = Some (t "S", true).
Proof. repeat split; vm_compute; reflexivity. Qed.
Example ex_local_modifier :
  script_flag "script(local) S { end }" = Some (t "S", false) /\
  text_flag "text(local) S { ""a"" }" = Some (t "S", false) /\
  mapscripts_flag "mapscripts(local) S { }" = Some (t "S", false) /\
  movement_flag "movement(local) S { walk_up }" = Some (t "S", false) /\
  mart_flag "mart(local) S { ITEM_X }" = Some (t "S", false).
Proof. repeat split; vm_compute; reflexivity. Qed.

(* the premise of script_scope_as_written etc. on a concrete stream, and its conclusion read with declares_cases *)
Example ex_declares :
  let ts := lex0 "movement(global) M { walk_up }" in
  (exists tp ts', parse_movement [] false 60 ts = Parser.Ok (tp, ts')) /\ declares false ts (t "M") true.
Proof.
  intros ts. split; [eexists _, _; vm_compute; reflexivity|].
  exists MGlobal. split; [vm_compute; reflexivity|]. split; [reflexivity|]. split; vm_compute; reflexivity.
Qed.

(* label statements: the three written forms *)
Example ex_label_written :
  label_written (lex0 "L: end") false /\ label_written (lex0 "L(global): end") true /\ label_written (lex0 "L(local): end") false /\
  (forall g, ~ label_written (lex0 "L(foo): end") g) /\ (forall g, ~ label_written (lex0 "L(global) end") g).
Proof.
  split; [left; split; [vm_compute|]; reflexivity|].
  split; [right; repeat split; try (vm_compute; reflexivity); left; split; [vm_compute|]; reflexivity|].
  split; [right; repeat split; try (vm_compute; reflexivity); right; split; [vm_compute|]; reflexivity|].
  split; intros g; apply try_label_none; vm_compute; reflexivity.
Qed.
Example ex_labels_in_a_block :
  let ts := lex0 "L: M(global): if (flag(F)) { N(local): foo } end }" in
  exists tk1 tk2 tk3 ss imp ts',
    parse_block [] [] false pf0 [] 60 (t "S") [] [] eof0 ts [] imp0 = Parser.Ok (ss, imp, ts') /\
    deep_labels ss = [(t "L", false, tk1); (t "M", true, tk2); (t "N", false, tk3)].
Proof. intros ts. eexists _, _, _, _, _, _. split; vm_compute; reflexivity. Qed.

(* the premises of script_label_lines (the code is generated, the body passes the source check) on a parsed body with a
   condition, and the label lines of its code *)
Definition body1 : list stmt :=
  match parse_block [] [] false pf0 [] 60 (t "S") [] [] eof0 (lex0 "L: M(global): if (flag(F)) { N(local): foo } end }") [] imp0 with
  | Parser.Ok (ss, _, _) => ss | _ => [] end.
Example ex_script_label_lines :
  Worklist.src_ok body1 /\
  exists is, emit_script None [] (t "S") true false body1 = Emitter.Ok is /\
    labels_of is = [(t "S", true); (t "L", false); (t "M", true); (t "S_1", false); (t "S_2", false); (t "N", false); (t "S_3", false)].
Proof.
  split; [apply C01Main.src_okb_sound; vm_compute; reflexivity|]. eexists. split; vm_compute; reflexivity.
Qed.

(* a whole source with every statement kind under every modifier, labels, an inline map script, a table, a hoisted text and
   a hoisted movement: the compiler accepts it, and these are the label lines of its code *)
Definition src1 : string :=
 "script S { L: M(global): N(local): if (flag(F)) { msgbox(""hi"") applymovement(1, moves(walk_up)) } end }
  script(local) T { end }
  script(global) U { end }
  text X { ""a"" } text(local) Y { ""b"" } text(global) Z { ""c"" }
  movement M1 { walk_up } movement(global) M2 { walk_up } movement(local) M3 { walk_up }
  mart A { ITEM_X } mart(global) B { ITEM_X } mart(local) C { ITEM_X }
  mapscripts MS { MAP_SCRIPT_ON_LOAD { Q(global): end } MAP_SCRIPT_ON_FRAME_TABLE [ VAR_X, 1 { end } ] }
  mapscripts(local) MS2 { }".
Example ex_compile :
  (exists out, Compile.compile (fun _ => false) (fun _ => false) (fun _ => false) [] [] false fc0 [] 0%Z false None (t src1) = Compile.OutText out) /\
  exists p is, parse_program [] [] false (Format.parse_format fc0 [] 0%Z false) (lex0 src1) = Parser.Ok p /\
    emit_program_instrs false None p = Emitter.Ok is /\
    labels_of is =
      [(t "S", true); (t "L", false); (t "M", true); (t "N", false); (t "S_1", false); (t "S_2", false); (t "S_3", false);
       (t "T", false); (t "U", true);
       (t "M1", false); (t "M2", true); (t "M3", false);
       (t "A", false); (t "B", true); (t "C", false);
       (t "MS", true); (t "MS_MAP_SCRIPT_ON_LOAD", false); (t "Q", true); (t "MS_MAP_SCRIPT_ON_FRAME_TABLE", false);
       (t "MS_MAP_SCRIPT_ON_FRAME_TABLE_0", false); (t "MS2", false);
       (t "S_Movement_0", false); (t "S_Text_0", false); (t "X", true); (t "Y", false); (t "Z", true)].
Proof.
  split; [eexists; vm_compute; reflexivity|]. eexists _, _. split; [vm_compute; reflexivity|]. split; vm_compute; reflexivity.
Qed.
End Examples.
