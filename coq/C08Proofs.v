(* C08: shape of the code emitted for a mapscripts statement (line markers off). *)
From Coq Require Import List String Ascii ZArith NArith Lia Bool.
From Pory Require Import Lexer Ast Emitter.
Import ListNotations.
Open Scope list_scope.

Definition ms_line (ty : token) (name : text) : instr := ILine (tab ++ t "map_script " ++ tlit ty ++ t ", " ++ name).
Definition ms2_line (e : tableentry) : instr :=
  ILine (tab ++ t "map_script_2 " ++ teCondLit e ++ t ", " ++ teCmp e ++ t ", " ++ teName e).

Lemma flat_map_single {A B} (f : A -> B) l : flat_map (fun x => [] ++ [f x]) l = map f l.
Proof. induction l as [|a l IH]; [reflexivity|]. cbn [flat_map]. rewrite IH. reflexivity. Qed.

Section S.
Variable tl : list text.
Variable opt : bool.

(* code of the tables: for each table, in order: its label, one map_script_2 per entry in order, .2byte 0, then its inline scripts *)
Fixpoint tables_code (l : list tablems) : res (list instr) :=
  match l with
  | [] => Ok []
  | tb :: r =>
      bind_i (emit_scripts None tl opt (map (fun e => (teName e, teScript e)) (tmEntries tb))) (fun x =>
      bind_i (tables_code r) (fun y =>
        Ok ([ILabel (tmName tb) false] ++ map ms2_line (tmEntries tb) ++ [ILine (tab ++ t ".2byte 0"); IBlank] ++ x ++ y)))
  end.

Theorem mapscripts_shape name glob plain tables :
  emit_mapscripts None tl opt name glob plain tables =
    bind_i (emit_scripts None tl opt (map (fun m => (msName m, msScript m)) plain)) (fun inl =>
    bind_i (tables_code tables) (fun tt =>
      Ok ([ILabel name glob] ++ map (fun m => ms_line (msType m) (msName m)) plain
                             ++ map (fun tb => ms_line (tmType tb) (tmName tb)) tables
                             ++ [ILine (tab ++ t ".byte 0"); IBlank] ++ inl ++ tt))).
Proof.
  unfold emit_mapscripts.
  assert (T : emit_tables None tl opt tables = tables_code tables).
  { induction tables as [|tb r IH]; [reflexivity|]. cbn [tables_code emit_tables]. rewrite <- IH. cbn [marker].
    rewrite (flat_map_single ms2_line). cbn zeta.
    destruct (emit_scripts None tl opt _); cbn; try reflexivity.
    destruct (emit_tables None tl opt r); cbn; try reflexivity. now rewrite <- !app_assoc. }
  rewrite T. cbn [marker].
  rewrite (flat_map_single (fun m => ms_line (msType m) (msName m))), (flat_map_single (fun tb => ms_line (tmType tb) (tmName tb))).
  cbn zeta. destruct (emit_scripts None tl opt _); cbn; try reflexivity.
  destruct (tables_code tables); cbn; try reflexivity. now rewrite <- !app_assoc.
Qed.

(* an inline script is emitted by the very function that emits script statements (local scope), once per entry that has one *)
Theorem inline_scripts_are_scripts n b r :
  emit_scripts None tl opt ((n, Some b) :: r) =
    bind_i (emit_script None tl n false opt b) (fun x => bind_i (emit_scripts None tl opt r) (fun y => Ok (x ++ y))).
Proof. reflexivity. Qed.
Theorem label_entries_emit_nothing n r : emit_scripts None tl opt ((n, None) :: r) = emit_scripts None tl opt r.
Proof. reflexivity. Qed.
End S.
