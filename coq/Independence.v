(* C17 - the parser side of "the code of a top-level statement does not depend on the unrelated statements of the file".

   The parser model is a pure function, so determinism is by construction.  What is proved here is LOCALITY of the top-level
   loop parse_tops: a top-level statement is parsed from its own tokens, the constants table (pconsts) and the hoisting
   state (ph) only.  It does not see what follows it, except that
     - the tags of loops / switches and the ids of commands are the numbers of tokens still to read, so they all move by the
       same amount when the rest of the file gets longer or shorter (they are used only to match break / continue with their
       statement and to place the labels of hoisted texts and movements; the renaming is g_top / g_stmt / g_cmd ... below);
     - a const statement ends before the next top-level keyword: it inspects the type of the first token after it (class_ok;
       no condition when the comparison is with the statements alone).

   Method.  swap ra rb s replaces the end ra of the stream s by rb; Gw ra n s says that s ends with ra and has at least n
   tokens before it.  For every parsing function F:   F .. x .. = Ok (r, y) -> Gw ra 1 y -> F .. (swap x) .. = Ok (r', swap y)
   where r' is r with the ids renamed by  sh ra rb  (sh_grow: n + (len rb - len ra) when ra is the shorter one).

   MAIN STATEMENTS (pf is the format() operator, a parameter of the parser model; the hypotheses format_advs, format_local,
   format_lt on it are theorems for Format.parse_format: real_format_advs, real_format_local, real_format_lt; the theorems
   *_real are the instances for the parser that Compile.compile runs).

   (1) one swap lemma per top-level statement parser:
       parse_raw_swap, parse_movement_swap, parse_mart_swap, parse_text_swap   the same result;
       parse_const_swap (condition same_class), parse_const_swap2 (weaker condition class_ok)   the same result;
       parse_script_swap      (name, scope, map (g_stmt sh) body, g_imp sh implicit data): the fields that change are the tags
                              of SWhile / SDoWhile / SSwitch / SBreak / SContinue, the cid of every command (also the
                              commands inside conditions), and the command ids itCid / imCid of the implicit texts / movements;
       parse_mapscripts_swap  (g_top sh statement, g_imp sh implicit data);
       swp_all                the same for the eleven mutually recursive statement parsers (parse_stmt, parse_block, ...),
                              with the break / continue stacks renamed too; command_stmt_swap, bool_expr_swap, ... below them.
   (2) top_step: the body of the loop, as a function of (constants, hoisting state, stream) only;
       parse_tops_step        parse_tops (S f) st ts = stop at EOF, else top_step and go on after the statement's last token
                              (so: a statement depends on the statements before it only through pconsts and ph);
       top_step_context       THE STEP THEOREM: with another end of the file the statement gives the same new constants, the
                              same new hoisting state (hence the same hoisted labels), the same text statements, and the same
                              top-level statements up to the shift of the ids;
       tops_run               the loop runs from one configuration to another over whole statements;
       tops_run_parse_tops    ... and its answer is then the answer from the configuration reached;
       tops_run_context, tops_run_prefix, parse_tops_prefix, parse_tops_same_statements
                              THE RUN THEOREM: the run over the statements X in X ++ ra is also a run in X ++ rb, from any state
                              with the same constants and hoisting state; same additions up to the shift.
   (3) top_step_state         only a const statement changes pconsts (and it adds nothing else); raw, text, movement and mart
                              statements leave ph alone; a script / mapscripts statement changes ph by add_implicit of its
                              implicit texts and movements, not at all if it has none.
   (4) same_statements_in_two_files, parse_program_same_statements
                              X alone (or followed by ra) against A ++ X ++ rb, where the statements A leave the constants and
                              the hoisting state as they were: parse_program returns for X the same top-level statements up to
                              the shift of the ids, and the same text statements.
   Examples (Part K, M): the hypotheses are satisfiable on a program with a const, an inline text, a loop and a switch; the
   shift is visible (shift_visible); const_at_end_of_file shows why a run must not end at the EOF token.

   NOT PROVED HERE: the statement of (4) when A hoists texts / movements or defines constants (then the labels of the texts
   hoisted from X can change by sharing with those of A, and the constants of A are substituted into X); that the emitter
   ignores the shift of the ids (tags are keys of the break / continue maps only; cid is not printed). *)
From Coq Require Import List String Ascii ZArith NArith Lia Bool.
From Pory Require Import Lexer Ast Parser Consume.
From Pory Require PorySwitchLists ProgSrc FuelOk LabelSim Emitter Format.
Import ListNotations.
Open Scope list_scope.

Notation len := (@List.length token).

(* ------------------------------------------------------------------------------------------------------------ *)
(* renaming of the ids of an AST: the command ids (used only to place the labels of hoisted texts and movements) and *)
(* the tags of loops and switches (used only to match break / continue with their statement)                        *)
(* ------------------------------------------------------------------------------------------------------------ *)
Section RENAME.
Variable g : nat -> nat.
Definition g_cmd (c : cmd) : cmd := {| cname := cname c; cargs := cargs c; ctok := ctok c; cid := g (cid c) |}.
Definition g_ocmd (o : option cmd) : option cmd := match o with Some c => Some (g_cmd c) | None => None end.
Definition g_leaf (l : leaf) : leaf :=
  {| lk := lk l; loperand := loperand l; lline := lline l; lop := lop l; lvalue := lvalue l; lstrict := lstrict l;
     lpre := g_ocmd (lpre l) |}.
Fixpoint g_bexp (e : bexp) : bexp :=
  match e with BLeaf l => BLeaf (g_leaf l) | BBin o a b => BBin o (g_bexp a) (g_bexp b) end.
Definition g_obexp (o : option bexp) : option bexp := match o with Some e => Some (g_bexp e) | None => None end.
Fixpoint g_stmt (s : stmt) : stmt :=
  match s with
  | SCmd c => SCmd (g_cmd c)
  | SLabel n gl tk => SLabel n gl tk
  | SIf conds els => SIf (map (fun cb => (g_bexp (fst cb), map g_stmt (snd cb))) conds)
                         (match els with Some b => Some (map g_stmt b) | None => None end)
  | SWhile tg c b => SWhile (g tg) (g_obexp c) (map g_stmt b)
  | SDoWhile tg b c => SDoWhile (g tg) (map g_stmt b) (g_bexp c)
  | SBreak tg => SBreak (g tg)
  | SContinue tg => SContinue (g tg)
  | SSwitch tg o ol cases =>
      SSwitch (g tg) o ol (map (fun c : scase => (fst (fst (fst c)), snd (fst (fst c)), snd (fst c), map g_stmt (snd c))) cases)
  end.
Definition g_stmts (ss : list stmt) : list stmt := map g_stmt ss.
Definition g_ostmts (o : option (list stmt)) : option (list stmt) := match o with Some b => Some (map g_stmt b) | None => None end.
Definition g_it (it : imptext) : imptext :=
  {| itCid := g (itCid it); itArg := itArg it; itTok := itTok it; itType := itType it; itScript := itScript it |}.
Definition g_im (im : impmov) : impmov :=
  {| imCid := g (imCid im); imArg := imArg im; imToks := imToks im; imScript := imScript im; imCmdTok := imCmdTok im |}.
Definition g_imp (i : impdata) : impdata := {| idT := map g_it (idT i); idM := map g_im (idM i) |}.
Definition g_ms (m : mapscript) : mapscript := {| msType := msType m; msName := msName m; msScript := g_ostmts (msScript m) |}.
Definition g_te (e : tableentry) : tableentry :=
  {| teCond := teCond e; teCondLit := teCondLit e; teCmp := teCmp e; teName := teName e; teScript := g_ostmts (teScript e) |}.
Definition g_tm (tb : tablems) : tablems := {| tmType := tmType tb; tmName := tmName tb; tmEntries := map g_te (tmEntries tb) |}.
Definition g_elifs (l : list (bexp * list stmt)) : list (bexp * list stmt) :=
  map (fun cb => (g_bexp (fst cb), map g_stmt (snd cb))) l.
Definition g_cases (l : list scase) : list scase :=
  map (fun c : scase => (fst (fst (fst c)), snd (fst (fst c)), snd (fst c), map g_stmt (snd c))) l.
Definition g_pcase (p : text * (list stmt * impdata)) : text * (list stmt * impdata) :=
  match p with (k, (ss, imp)) => (k, (map g_stmt ss, g_imp imp)) end.
Lemma assoc_g_pcase l k :
  assoc (map g_pcase l) k = match assoc l k with Some (ss, imp) => Some (map g_stmt ss, g_imp imp) | None => None end.
Proof.
  induction l as [|[a [ss imp]] l IH]; [reflexivity|]. cbn [map g_pcase assoc]. destruct (text_eqb a k); [reflexivity|exact IH].
Qed.
Definition g_top (tp : top) : top :=
  match tp with
  | TScript n gl b => TScript n gl (map g_stmt b)
  | TMapScripts n gl plain tables => TMapScripts n gl (map g_ms plain) (map g_tm tables)
  | other => other
  end.
End RENAME.

(* ------------------------------------------------------------------------------------------------------------ *)
(* Part 0: replacing the end of a token stream                                                                  *)
(* ------------------------------------------------------------------------------------------------------------ *)
Section SWAP.
Variables ra rb : toks.
Hypothesis ra_ne : ra <> [].
Hypothesis rb_ne : rb <> [].

(* swap s: the stream s, which ends with ra, with that end replaced by rb *)
Definition swap (s : toks) : toks := firstn (len s - len ra) s ++ rb.
(* s ends with ra, with at least n tokens before it *)
Definition Gw (n : nat) (s : toks) : Prop := exists u, s = u ++ ra /\ (n <= len u)%nat.

Lemma swap_app u : swap (u ++ ra) = u ++ rb.
Proof.
  unfold swap. rewrite app_length. replace (len u + len ra - len ra)%nat with (len u) by lia.
  rewrite firstn_app, firstn_all, Nat.sub_diag. cbn. rewrite app_nil_r. reflexivity.
Qed.
Lemma G_le n m s : (m <= n)%nat -> Gw n s -> Gw m s.
Proof. intros L (u & E & K). exists u. split; [exact E|lia]. Qed.
Lemma swap_cur s : Gw 1 s -> cur (swap s) = cur s.
Proof. intros (u & -> & K). rewrite swap_app. destruct u; [cbn in K; lia|reflexivity]. Qed.
Lemma pk_app_lt i (u r : toks) : (i < len u)%nat -> pk i (u ++ r) = nth i u eof0.
Proof. intros L. unfold pk. rewrite app_nth1 by exact L. apply nth_indep. exact L. Qed.
Lemma swap_pk i s : Gw (S i) s -> pk i (swap s) = pk i s.
Proof. intros (u & -> & K). rewrite swap_app. rewrite !pk_app_lt by lia. reflexivity. Qed.
Lemma swap_pk1 s : Gw 2 s -> pk 1 (swap s) = pk 1 s. Proof. apply swap_pk. Qed.
Lemma swap_pk2 s : Gw 3 s -> pk 2 (swap s) = pk 2 s. Proof. apply swap_pk. Qed.
Lemma swap_pk3 s : Gw 4 s -> pk 3 (swap s) = pk 3 s. Proof. apply swap_pk. Qed.
Lemma swap_pk4 s : Gw 5 s -> pk 4 (swap s) = pk 4 s. Proof. apply swap_pk. Qed.
Lemma adv_cons_app c (u r : toks) : r <> [] -> adv (c :: u ++ r) = u ++ r.
Proof. intros N. destruct (u ++ r) eqn:E; [apply app_eq_nil in E; destruct E; congruence|reflexivity]. Qed.
Lemma swap_adv s : Gw 1 s -> adv (swap s) = swap (adv s).
Proof.
  intros (u & -> & K). rewrite swap_app. destruct u as [|c u]; [cbn in K; lia|]. cbn [app].
  rewrite !adv_cons_app by assumption. rewrite swap_app. reflexivity.
Qed.
Lemma swap_curis ty s : Gw 1 s -> curis ty (swap s) = curis ty s.
Proof. intros K. unfold curis. rewrite swap_cur by exact K. reflexivity. Qed.
Lemma swap_peekis ty s : Gw 2 s -> peekis ty (swap s) = peekis ty s.
Proof. intros K. unfold peekis. rewrite swap_pk1 by exact K. reflexivity. Qed.
Lemma swap_expect_peek ty s : Gw 2 s ->
  expect_peek ty (swap s) = match expect_peek ty s with Some s1 => Some (swap s1) | None => None end.
Proof.
  intros K. unfold expect_peek. rewrite swap_peekis by exact K. destruct (peekis ty s); [|reflexivity].
  rewrite swap_adv by (eapply G_le; [|exact K]; lia). reflexivity.
Qed.
Lemma swap_len s : Gw 0 s -> len (swap s) = (len s - len ra + len rb)%nat.
Proof. intros (u & -> & _). rewrite swap_app, !app_length. lia. Qed.
Lemma swap_last s : Gw 0 s -> last (swap s) eof0 = last rb eof0.
Proof.
  intros (u & -> & _). rewrite swap_app. induction u as [|a u IH]; [reflexivity|]. cbn [app]. rewrite <- IH.
  destruct (u ++ rb) eqn:E; [apply app_eq_nil in E; destruct E; congruence|reflexivity].
Qed.

Lemma advs_suffix a s : advs a s -> exists v, a = v ++ s.
Proof.
  induction 1 as [s|a s A IH]; [exists []; reflexivity|]. destruct IH as (v & E).
  destruct a as [|x [|y r]]; cbn [adv] in E; [exists v; exact E|exists v; exact E|].
  exists (x :: v). cbn. rewrite <- E. reflexivity.
Qed.
Lemma G_advs n a s : advs a s -> Gw n s -> Gw n a.
Proof. intros A (u & -> & K). destruct (advs_suffix _ _ A) as (v & ->). exists (v ++ u). rewrite app_assoc, app_length. split; [reflexivity|lia]. Qed.
Lemma G_adv_inv n s : (1 <= n)%nat -> Gw n (adv s) -> Gw (S n) s.
Proof.
  intros N (u & E & K). destruct s as [|y [|z r]]; cbn [adv] in E.
  - destruct u; [cbn in K; lia|discriminate].
  - exfalso. apply (f_equal (@List.length token)) in E. rewrite app_length in E. cbn in E.
    assert (1 <= len ra)%nat by (destruct ra; [congruence|cbn; lia]). lia.
  - exists (y :: u). cbn. rewrite <- E. split; [reflexivity|lia].
Qed.
Lemma G_adv n s : Gw (S n) s -> Gw n (adv s).
Proof.
  intros (u & -> & K). destruct u as [|c u]; [cbn in K; lia|]. cbn [app]. rewrite adv_cons_app by assumption.
  exists u. split; [reflexivity|cbn in K; lia].
Qed.
Lemma G_swap n s : Gw n s -> exists u, s = u ++ ra /\ swap s = u ++ rb /\ (n <= len u)%nat.
Proof. intros (u & -> & K). exists u. rewrite swap_app. auto. Qed.

End SWAP.

(* the ids are numbers of remaining tokens: replacing the end ra by rb moves them all by the same amount *)
Definition sh (ra rb : toks) (n : nat) : nat :=
  if (len ra <=? len rb)%nat then (n + (len rb - len ra))%nat else (n - (len ra - len rb))%nat.
Lemma s_len ra rb s : Gw ra 0 s -> len (swap ra rb s) = sh ra rb (len s).
Proof.
  intros G. rewrite (swap_len ra rb s G). destruct G as (u & -> & _). unfold sh. rewrite app_length.
  destruct (Nat.leb_spec (len ra) (len rb)); lia.
Qed.
Lemma sh_grow ra rb n : (len ra <= len rb)%nat -> sh ra rb n = (n + (len rb - len ra))%nat.
Proof. intros L. unfold sh. destruct (Nat.leb_spec (len ra) (len rb)); [reflexivity|lia]. Qed.
Definition g_vr (ra rb : toks) (r : option (text * cmd)) : option (text * cmd) :=
  match r with Some (v, cm) => Some (v, g_cmd (sh ra rb) cm) | None => None end.

(* ------------------------------------------------------------------------------------------------------------ *)
(* automation                                                                                                   *)
(* ------------------------------------------------------------------------------------------------------------ *)
(* the innermost scrutinee at the head of a term *)
Ltac scrut t :=
  lazymatch t with
  | (match ?c with _ => _ end) => scrut c
  | negb ?c => scrut c
  | andb ?a _ => scrut a
  | orb ?a _ => scrut a
  | _ => t
  end.

(* phase 1: case analysis of H : t = Ok r along the head scrutinees *)
Ltac astep H :=
  unfold expect_peek, imp0, impadd, peek_is_autovar in H; cbv beta iota zeta in H; cbn [negb andb orb] in H;
  lazymatch type of H with
  | Ok _ = Ok _ => inversion H; subst; clear H
  | Some _ = Some _ => inversion H; subst; clear H
  | None = Some _ => discriminate H
  | Err _ = Ok _ => discriminate H
  | Panic = Ok _ => discriminate H
  | Fuel = Ok _ => discriminate H
  | ?L = _ => let s := scrut L in
              lazymatch s with
              | err_tok _ _ => unfold err_tok in H
              | err_range _ _ _ => unfold err_range in H
              | _ => first [ is_var s; destruct s | destruct s eqn:? ]
              end
  end.
Ltac asplit H := repeat (astep H).

(* Gw n z from a hypothesis about a later stream, walking back along the hypotheses *)
Ltac good_basic walk :=
  idtac; lazymatch goal with
  | |- Gw _ ?n ?z =>
      first [ match goal with
              | GS : Gw _ ?m ?y |- _ =>
                  lazymatch eval compute in (Nat.leb n m) with true => idtac end;
                  solve [ eapply G_le; [ | eapply G_advs; [ | exact GS ]; walk ]; lia ]
              end
            | apply G_adv_inv; [ assumption | lia | good_basic walk ] ]
  end.
(* ... or through an intermediate stream t that is advanced later: Gw 1 (adv t) gives Gw 2 t *)
Ltac good walk :=
  idtac; first
  [ assumption
  | good_basic walk
  | lazymatch goal with
    | |- Gw ?ra 2 ?z =>
        match goal with
        | E : context [adv ?t] |- _ =>
            solve [ eapply (G_advs ra 2 z t); [ walk | apply G_adv_inv; [ assumption | lia | good_basic walk ] ] ]
        end
    end ].
(* Gw m (adv y) gives Gw (S m) y *)
Ltac sat :=
  repeat match goal with
  | GS : Gw ?ra ?m (adv ?y) |- _ =>
      lazymatch goal with
      | _ : Gw ra (S m) y |- _ => fail
      | _ => let K := fresh "GS" in assert (K : Gw ra (S m) y) by (apply G_adv_inv; [ assumption | lia | exact GS ])
      end
  end.

Lemma advs_adv_mono a b : advs a b -> advs (adv a) (adv b).
Proof. induction 1 as [|a b A IH]; [apply advs_refl|]. apply advs_adv_r. exact A. Qed.

(* a walker like Consume.advs_gox, the extra lemmas are tried first *)
Ltac walkx extra :=
  first
  [ assumption
  | apply advs_refl
  | apply advs_k_adv; walkx extra
  | apply advs_adv_mono; walkx extra
  | match goal with
    | |- advs _ (if ?c then _ else _) => destruct c; walkx extra
    | H : _ = Ok (_, ?x) |- advs _ ?x => first [extra H | advs_lem H]; try assumption; walkx extra
    | H : _ = Ok (_, _, ?x) |- advs _ ?x => first [extra H | advs_lem H]; try assumption; walkx extra
    | H : _ = Ok (_, _, _, ?x) |- advs _ ?x => first [extra H | advs_lem H]; try assumption; walkx extra
    | H : _ = Ok (_, _, _, _, ?x) |- advs _ ?x => first [extra H | advs_lem H]; try assumption; walkx extra
    | H : _ = Some (_, ?x) |- advs _ ?x => first [extra H | advs_lem H]; try assumption; walkx extra
    end ].

(* normal form: the renaming pushed to the leaves *)
Ltac nrm1 :=
  repeat (progress (
    unfold g_imp, g_it, g_im, g_cmd, g_leaf, g_ocmd, g_obexp, g_ostmts, g_vr, g_elifs, g_cases;
    cbn [g_bexp g_stmt g_pcase idT idM itCid itArg itTok itType itScript
         imCid imArg imToks imScript imCmdTok cname cargs ctok cid lk loperand lline lop lvalue lstrict lpre map fst snd])).
Ltac nrm1_in H :=
  repeat (progress (
    unfold g_imp, g_it, g_im, g_cmd, g_leaf, g_ocmd, g_obexp, g_ostmts, g_vr, g_elifs, g_cases in H;
    cbn [g_bexp g_stmt g_pcase idT idM itCid itArg itTok itType itScript
         imCid imArg imToks imScript imCmdTok cname cargs ctok cid lk loperand lline lop lvalue lstrict lpre map fst snd] in H)).
Ltac nrm :=
  unfold expect_peek, imp0, impadd, neg_leaf, flush_arg, peek_is_autovar; cbv beta iota zeta; cbn [negb andb orb];
  nrm1; repeat (match goal with |- context [map _ (_ ++ _)] => rewrite map_app end; nrm1).
Ltac nrm_in H :=
  unfold expect_peek, imp0, impadd, neg_leaf, flush_arg, peek_is_autovar in H; cbv beta iota zeta in H; cbn [negb andb orb] in H;
  nrm1_in H; repeat (match type of H with context [map _ (_ ++ _)] => rewrite map_app in H end; nrm1_in H).

(* phase 2: replay on the swapped stream *)
Ltac rstep good calls :=
  nrm;
  lazymatch goal with
  | |- ?L = _ =>
    let sc := scrut L in
    first
    [ match sc with context [adv (swap _ _ ?z)] => rewrite swap_adv with (s := z) by good end
    | match sc with context [cur (swap _ _ ?z)] => rewrite swap_cur with (s := z) by good end
    | match sc with context [curis ?ty (swap _ _ ?z)] => rewrite swap_curis with (s := z) by good end
    | match sc with context [peekis ?ty (swap _ _ ?z)] => rewrite swap_peekis with (s := z) by good end
    | match sc with context [pk 1 (swap _ _ ?z)] => rewrite swap_pk1 with (s := z) by good end
    | match sc with context [pk 2 (swap _ _ ?z)] => rewrite swap_pk2 with (s := z) by good end
    | match sc with context [pk 3 (swap _ _ ?z)] => rewrite swap_pk3 with (s := z) by good end
    | match sc with context [pk 4 (swap _ _ ?z)] => rewrite swap_pk4 with (s := z) by good end
    | match sc with context [List.length (swap _ _ ?z)] => rewrite s_len with (s := z) by good end
    | match goal with E : sc = _ |- _ => rewrite E end
    | match goal with E : ?t = _ |- _ => match sc with context [t] => rewrite E end end
    | lazymatch sc with
      | context [adv (swap _ _ _)] => fail
      | context [cur (swap _ _ _)] => fail
      | context [curis _ (swap _ _ _)] => fail
      | context [peekis _ (swap _ _ _)] => fail
      | context [pk _ (swap _ _ _)] => fail
      | context [List.length (swap _ _ _)] => fail
      | _ => calls
      end ]
  end.
(* rewrite with E' : l = r; if l occurs only up to conversion (type abbreviations), convert the head scrutinee first *)
Ltac rw_head E' :=
  first [ rewrite E'
        | lazymatch goal with
          | |- ?L = _ => let sc := scrut L in
                         lazymatch type of E' with ?l = _ => change sc with l; rewrite E' end
          end ].
(* forward use of a lemma  F .. x .. = Ok (r, y) -> Gw k y -> F .. (swap x) .. = Ok (r', swap y) *)
Ltac call_fwd lem good :=
  idtac; match goal with
  | E : _ = Ok _ |- _ =>
      let E' := fresh "E'" in
      pose proof E as E'; eapply lem in E'; [ nrm_in E'; rw_head E'; clear E' | good .. ]
  end.
Ltac call_fwd_opt lem good :=
  idtac; match goal with
  | E : _ = Some _ |- _ =>
      let E' := fresh "E'" in
      pose proof E as E'; eapply lem in E'; [ nrm_in E'; rw_head E'; clear E' | good .. ]
  end.
Ltac replay good calls := sat; repeat (rstep good calls); nrm; try reflexivity.
Ltac no_calls := fail.

(* ------------------------------------------------------------------------------------------------------------ *)
(* Part A: the statements without ids: movement, mart, raw, text, const                                         *)
(* ------------------------------------------------------------------------------------------------------------ *)
Section PARTA.
Variables ra rb : toks.
Hypothesis ra_ne : ra <> [].
Hypothesis rb_ne : rb <> [].
Local Notation swap := (swap ra rb).
Local Notation Gw := (Gw ra).

Ltac wk0 := walkx ltac:(fun K => fail).

Lemma poryswitch_header_swap sw ee x sc sv y :
  poryswitch_header sw ee x = Ok (sc, sv, y) -> Gw 1 y -> poryswitch_header sw ee (swap x) = Ok (sc, sv, swap y).
Proof.
  intros H GS. unfold poryswitch_header in H |- *. asplit H.
  all: replay ltac:(good wk0) no_calls.
Qed.

Ltac wk1 := walkx ltac:(fun K => eapply FuelOk.list_cases_advs; [exact K|]).

Lemma list_swap sw ee : forall f,
  (forall k multi x acc r y, list_value sw ee f k multi x acc = Ok (r, y) -> Gw 1 y ->
     list_value sw ee f k multi (swap x) acc = Ok (r, swap y)) /\
  (forall k start x acc r y, list_cases sw ee f k start x acc = Ok (r, y) -> Gw 1 y ->
     list_cases sw ee f k start (swap x) acc = Ok (r, swap y)).
Proof.
  induction f as [|f [IH1 IH2]]; [split; intros; discriminate|]. split.
  - intros k multi x acc r y H GS. rewrite list_value_unfold in H |- *. asplit H.
    all: replay ltac:(good wk1) ltac:(idtac; first [call_fwd IH1 ltac:(good wk1) | call_fwd IH2 ltac:(good wk1)
                                                   | call_fwd poryswitch_header_swap ltac:(good wk1)]).
  - intros k start x acc r y H GS. rewrite list_cases_unfold in H |- *. asplit H.
    all: replay ltac:(good wk1) ltac:(idtac; first [call_fwd IH1 ltac:(good wk1) | call_fwd IH2 ltac:(good wk1)
                                                   | call_fwd poryswitch_header_swap ltac:(good wk1)]).
Qed.
Lemma list_value_swap sw ee f k multi x acc r y :
  list_value sw ee f k multi x acc = Ok (r, y) -> Gw 1 y -> list_value sw ee f k multi (swap x) acc = Ok (r, swap y).
Proof. apply (list_swap sw ee f). Qed.

Lemma scope_modifier_swap d x g y : scope_modifier d x = Ok (g, y) -> Gw 2 y -> scope_modifier d (swap x) = Ok (g, swap y).
Proof.
  intros H GS. unfold scope_modifier in H |- *. asplit H.
  all: replay ltac:(good wk0) no_calls.
Qed.

Lemma parse_raw_swap x tp y : parse_raw x = Ok (tp, y) -> Gw 1 y -> parse_raw (swap x) = Ok (tp, swap y).
Proof.
  intros H GS. unfold parse_raw in H |- *. asplit H.
  all: replay ltac:(good wk0) no_calls.
Qed.

Ltac wk2 := walkx ltac:(fun K => first [eapply FuelOk.list_cases_advs; [exact K|] | eapply scope_modifier_advs; [exact K|]]).
Ltac calls2 :=
  idtac; first [ call_fwd scope_modifier_swap ltac:(good wk2) | call_fwd list_value_swap ltac:(good wk2)
        | call_fwd poryswitch_header_swap ltac:(good wk2) ].

Lemma parse_movement_swap sw ee f x tp y :
  parse_movement sw ee f x = Ok (tp, y) -> Gw 1 y -> parse_movement sw ee f (swap x) = Ok (tp, swap y).
Proof.
  intros H GS. unfold parse_movement, movement_value in H |- *. asplit H.
  all: replay ltac:(good wk2) calls2.
Qed.

Lemma parse_mart_swap sw ee c f x tp y :
  parse_mart sw ee c f x = Ok (tp, y) -> Gw 1 y -> parse_mart sw ee c f (swap x) = Ok (tp, swap y).
Proof.
  intros H GS. unfold parse_mart, mart_value in H |- *. asplit H.
  all: replay ltac:(good wk2) calls2.
Qed.

(* ---------- statements that use the format() operator: the operator is a parameter of the parser model ---------- *)
Section PFV.
Variable pf : toks -> res (token * text * text * toks).
Hypothesis pf_advs : forall ts tk v sty ts', pf ts = Ok (tk, v, sty, ts') -> forall a, advs a ts -> advs a ts'.
Hypothesis pf_swap : forall x tk v sty y, pf x = Ok (tk, v, sty, y) -> Gw 1 y -> pf (swap x) = Ok (tk, v, sty, swap y).

Ltac wk3 := walkx ltac:(fun K => first
  [ eapply FuelOk.list_cases_advs; [exact K|] | eapply scope_modifier_advs; [exact K|]
  | eapply pf_advs; [exact K|] | eapply text_value_advs; [exact pf_advs|exact K|]
  | eapply pory_text_cases_advs; [exact pf_advs|exact K|] | eapply pory_text_advs; [exact pf_advs|exact K|] ]).

Lemma text_value_swap x v sty y : text_value pf x = Ok (v, sty, y) -> Gw 1 y -> text_value pf (swap x) = Ok (v, sty, swap y).
Proof.
  intros H GS. unfold text_value in H |- *. asplit H.
  all: replay ltac:(good wk3) ltac:(call_fwd pf_swap ltac:(good wk3)).
Qed.

Lemma pory_text_cases_swap : forall f start x acc r y,
  pory_text_cases pf f start x acc = Ok (r, y) -> Gw 1 y -> pory_text_cases pf f start (swap x) acc = Ok (r, swap y).
Proof.
  induction f as [|f IH]; intros start x acc r y H GS; [discriminate|]. cbn [pory_text_cases] in H |- *. asplit H.
  all: replay ltac:(good wk3) ltac:(idtac; first [call_fwd IH ltac:(good wk3) | call_fwd text_value_swap ltac:(good wk3)]).
Qed.

Lemma pory_text_swap sw ee f x v sty y :
  pory_text sw ee pf f x = Ok (v, sty, y) -> Gw 1 y -> pory_text sw ee pf f (swap x) = Ok (v, sty, swap y).
Proof.
  intros H GS. unfold pory_text in H |- *. asplit H.
  all: replay ltac:(good wk3) ltac:(idtac; first [call_fwd pory_text_cases_swap ltac:(good wk3) | call_fwd poryswitch_header_swap ltac:(good wk3)]).
Qed.

Lemma parse_text_swap sw ee f x td y :
  parse_text sw ee pf f x = Ok (td, y) -> Gw 1 y -> parse_text sw ee pf f (swap x) = Ok (td, swap y).
Proof.
  intros H GS. unfold parse_text in H |- *. asplit H.
  all: replay ltac:(good wk3) ltac:(idtac; first [call_fwd scope_modifier_swap ltac:(good wk3)
                   | call_fwd pory_text_swap ltac:(good wk3) | call_fwd text_value_swap ltac:(good wk3)]).
Qed.

End PFV.

(* ---------- const: the value ends before the next top-level keyword, so the statement inspects the type of the first token
   that follows it ---------- *)
Definition same_class : Prop := is_toplevel (ttype (cur ra)) = is_toplevel (ttype (cur rb)).

Lemma pk1_cons c (r : toks) : r <> [] -> pk 1 (c :: r) = cur r.
Proof. destruct r; [congruence|reflexivity]. Qed.
Lemma swap_pk1_class s : same_class -> Gw 1 s -> is_toplevel (ttype (pk 1 (swap s))) = is_toplevel (ttype (pk 1 s)).
Proof.
  intros LA (u & -> & K). rewrite swap_app. destruct u as [|c [|d u]]; [cbn in K; lia| |reflexivity].
  cbn [app]. rewrite !pk1_cons by assumption. symmetry. exact LA.
Qed.

Lemma const_value_swap : same_class -> forall f c x acc,
  Gw 1 (snd (const_value f c x acc)) ->
  const_value f c (swap x) acc = (fst (const_value f c x acc), swap (snd (const_value f c x acc))).
Proof.
  intros LA. induction f as [|f IH]; intros c x acc GS; [reflexivity|].
  assert (G1 : Gw 1 x) by (eapply G_advs; [|exact GS]; apply const_value_advs; apply advs_refl).
  cbn [const_value] in GS |- *. cbv zeta in GS |- *.
  rewrite (swap_pk1_class x LA G1), (swap_curis ra rb EOF x G1).
  destruct (is_toplevel (ttype (pk 1 x)) || curis EOF x); [reflexivity|].
  rewrite (swap_adv ra rb ra_ne rb_ne x G1).
  rewrite (swap_cur ra rb (adv x)) by (eapply G_advs; [|exact GS]; apply const_value_advs; apply advs_refl).
  apply IH. exact GS.
Qed.

Lemma parse_const_swap f c x c' y : same_class ->
  parse_const f c x = Ok (c', y) -> Gw 1 y -> parse_const f c (swap x) = Ok (c', swap y).
Proof.
  intros LA H GS. unfold parse_const in H |- *. unfold expect_peek in H |- *. cbv zeta in H |- *.
  destruct (peekis IDENT x) eqn:P1; [|discriminate H].
  destruct (assoc c (tlit (cur (adv x)))) eqn:A1; [discriminate H|].
  destruct (peekis ASSIGN (adv x)) eqn:P2; [|discriminate H].
  pose proof (const_value_swap LA f c (adv (adv x)) []) as CV.
  pose proof (const_value_advs f c (adv (adv x)) [] _ (advs_refl _)) as AV.
  destruct (const_value f c (adv (adv x)) []) as [v ts3]. cbn [fst snd] in CV, AV.
  destruct v as [|v0 v]; [discriminate H|]. injection H as <- <-. specialize (CV GS).
  assert (G3 : Gw 3 x) by (apply (G_adv_inv ra ra_ne); [lia|]; apply (G_adv_inv ra ra_ne); [lia|]; eapply G_advs; [exact AV|exact GS]).
  rewrite (swap_peekis ra rb IDENT x) by (eapply G_le; [|exact G3]; lia). rewrite P1.
  rewrite (swap_adv ra rb ra_ne rb_ne x) by (eapply G_le; [|exact G3]; lia).
  rewrite (swap_cur ra rb (adv x)) by (eapply G_le; [|apply (G_adv ra ra_ne); exact G3]; lia). rewrite A1.
  rewrite (swap_peekis ra rb ASSIGN (adv x)) by (apply (G_adv ra ra_ne); exact G3). rewrite P2.
  rewrite (swap_adv ra rb ra_ne rb_ne (adv x)) by (eapply G_le; [|apply (G_adv ra ra_ne); exact G3]; lia). rewrite CV. reflexivity.
Qed.

End PARTA.

(* ------------------------------------------------------------------------------------------------------------ *)
(* Part B: commands and conditions: the same results with renamed ids                                            *)
(* ------------------------------------------------------------------------------------------------------------ *)
Section PARTB.
Variables ra rb : toks.
Hypothesis ra_ne : ra <> [].
Hypothesis rb_ne : rb <> [].
Local Notation swap := (swap ra rb).
Local Notation Gw := (Gw ra).
Local Notation sh := (sh ra rb).
Local Notation g_vr := (g_vr ra rb).

Ltac wk1 := walkx ltac:(fun K => eapply FuelOk.list_cases_advs; [exact K|]).

Lemma moves_operator_swap sw ee f x r y :
  moves_operator sw ee f x = Ok (r, y) -> Gw 1 y -> moves_operator sw ee f (swap x) = Ok (r, swap y).
Proof.
  intros H GS. unfold moves_operator, movement_value in H |- *. asplit H.
  all: replay ltac:(good wk1) ltac:(call_fwd (list_value_swap ra rb ra_ne rb_ne) ltac:(good wk1)).
Qed.

Variable av : list (text * autovar).
Variable pf : toks -> res (token * text * text * toks).
Hypothesis pf_advs : forall ts tk v sty ts', pf ts = Ok (tk, v, sty, ts') -> forall a, advs a ts -> advs a ts'.
Hypothesis pf_swap : forall x tk v sty y, pf x = Ok (tk, v, sty, y) -> Gw 1 y -> pf (swap x) = Ok (tk, v, sty, swap y).

Ltac wk2 := walkx ltac:(fun K => first [eapply FuelOk.list_cases_advs; [exact K|] | eapply pf_advs; [exact K|]]).

Lemma command_args_swap sw ee c : forall f script cmdtok cidv x depth parts args imp rargs rimp y,
  command_args sw ee pf c f script cmdtok cidv x depth parts args imp = Ok (rargs, rimp, y) -> Gw 1 y ->
  command_args sw ee pf c f script cmdtok (sh cidv) (swap x) depth parts args (g_imp sh imp) = Ok (rargs, g_imp sh rimp, swap y).
Proof.
  induction f as [|f IH]; intros script cmdtok cidv x depth parts args imp rargs rimp y H GS; [discriminate|].
  cbn [command_args] in H |- *. asplit H.
  all: replay ltac:(good wk2) ltac:(idtac; first [call_fwd IH ltac:(good wk2) | call_fwd pf_swap ltac:(good wk2) | call_fwd moves_operator_swap ltac:(good wk2)]).
Qed.

Lemma command_stmt_swap sw ee c f script x cm imp y :
  command_stmt sw ee pf c f script x = Ok (cm, imp, y) -> Gw 2 y ->
  command_stmt sw ee pf c f script (swap x) = Ok (g_cmd sh cm, g_imp sh imp, swap y).
Proof.
  intros H GS. unfold command_stmt in H |- *. asplit H.
  all: replay ltac:(good wk2) ltac:(call_fwd command_args_swap ltac:(good wk2)).
Qed.

Lemma var_or_autovar_swap sw ee c f script x r imp y :
  var_or_autovar av sw ee pf c f script x = Ok (r, imp, y) -> Gw 2 y ->
  var_or_autovar av sw ee pf c f script (swap x) = Ok (g_vr r, g_imp sh imp, swap y).
Proof.
  intros H GS. unfold var_or_autovar in H |- *. asplit H.
  all: replay ltac:(good wk2) ltac:(call_fwd command_stmt_swap ltac:(good wk2)).
Qed.

Lemma collect_until_swap c : forall f stop x parts r y,
  collect_until c f stop x parts = Some (r, y) -> Gw 1 y -> collect_until c f stop (swap x) parts = Some (r, swap y).
Proof.
  induction f as [|f IH]; intros stop x parts r y H GS; [discriminate|]. cbn [collect_until] in H |- *. asplit H.
  all: replay ltac:(good wk2) ltac:(call_fwd_opt IH ltac:(good wk2)).
Qed.

Lemma value_parts_swap c : forall f vtok x depth parts r y,
  value_parts c f vtok x depth parts = Ok (r, y) -> Gw 1 y -> value_parts c f vtok (swap x) depth parts = Ok (r, swap y).
Proof.
  induction f as [|f IH]; intros vtok x depth parts r y H GS; [discriminate|]. cbn [value_parts] in H |- *. asplit H.
  all: replay ltac:(good wk2) ltac:(call_fwd IH ltac:(good wk2)).
Qed.

Lemma cond_var_operator_swap c f x o v st y :
  cond_var_operator c f x = Ok (o, v, st, y) -> Gw 1 y -> cond_var_operator c f (swap x) = Ok (o, v, st, swap y).
Proof.
  intros H GS. unfold cond_var_operator in H |- *. asplit H.
  all: replay ltac:(good wk2) ltac:(idtac; first [call_fwd value_parts_swap ltac:(good wk2) | call_fwd_opt collect_until_swap ltac:(good wk2)]).
Qed.

Lemma cond_flag_operator_swap x nm o v y :
  cond_flag_operator x nm = Ok (o, v, y) -> Gw 1 y -> cond_flag_operator (swap x) nm = Ok (o, v, swap y).
Proof.
  intros H GS.
  assert (G1 : Gw 1 x) by (eapply G_advs; [eapply cond_flag_operator_advs; [exact H|apply advs_refl]|exact GS]).
  unfold cond_flag_operator in H |- *. rewrite (swap_cur ra rb x G1).
  destruct (ttype (cur x)) eqn:T; try (inversion H; subst; reflexivity).
  all: clear G1; asplit H; replay ltac:(good wk2) ltac:(fail).
Qed.

Lemma leaf_expr_swap sw ee c f script x l imp y :
  leaf_expr av sw ee pf c f script x = Ok (l, imp, y) -> Gw 1 y ->
  leaf_expr av sw ee pf c f script (swap x) = Ok (g_leaf sh l, g_imp sh imp, swap y).
Proof.
  intros H GS. unfold leaf_expr in H |- *. asplit H.
  all: replay ltac:(good wk2) ltac:(idtac; first [call_fwd var_or_autovar_swap ltac:(good wk2) | call_fwd_opt collect_until_swap ltac:(good wk2)
         | call_fwd cond_var_operator_swap ltac:(good wk2) | call_fwd cond_flag_operator_swap ltac:(good wk2)]).
Qed.

End PARTB.

(* ------------------------------------------------------------------------------------------------------------ *)
(* Part C: boolean expressions and statements                                                                   *)
(* ------------------------------------------------------------------------------------------------------------ *)
Section PARTC.
Variables ra rb : toks.
Hypothesis ra_ne : ra <> [].
Hypothesis rb_ne : rb <> [].
Local Notation swap := (swap ra rb).
Local Notation Gw := (Gw ra).
Local Notation sh := (sh ra rb).
Local Notation g_vr := (g_vr ra rb).
Variable av : list (text * autovar).
Variable pf : toks -> res (token * text * text * toks).
Hypothesis pf_advs : forall ts tk v sty ts', pf ts = Ok (tk, v, sty, ts') -> forall a, advs a ts -> advs a ts'.
Hypothesis pf_swap : forall x tk v sty y, pf x = Ok (tk, v, sty, y) -> Gw 1 y -> pf (swap x) = Ok (tk, v, sty, swap y).

Lemma right_side_advs sw ee c f left single negated script ts e i ts' :
  right_side av sw ee pf c f left single negated script ts = Ok (e, i, ts') -> forall a, advs a ts -> advs a ts'.
Proof. apply (bexp_advs av sw pf c pf_advs ee f). Qed.

Ltac wk2 := walkx ltac:(fun K => first [eapply FuelOk.list_cases_advs; [exact K|] | eapply pf_advs; [exact K|]
                                      | eapply right_side_advs; [exact K|]]).

(* two places look further ahead than the next token; what is consumed afterwards covers that look-ahead *)
Lemma var_or_autovar_adv1 sw ee c f script z r imp t :
  var_or_autovar av sw ee pf c f script z = Ok (r, imp, t) -> advs (adv z) t.
Proof. intros H. unfold var_or_autovar in H. asplit H; wk2. Qed.

Lemma leaf_not_adv2 sw ee c f script x l imp y :
  leaf_expr av sw ee pf c f script x = Ok (l, imp, y) -> peekis NOT x = true -> advs (adv (adv x)) y.
Proof.
  intros H HN. unfold leaf_expr in H. rewrite HN in H. asplit H.
  all: try match goal with K : var_or_autovar _ _ _ _ _ _ _ _ = Ok (_, _, ?t) |- _ => pose proof (var_or_autovar_adv1 _ _ _ _ _ _ _ _ _ K) end.
  all: wk2.
Qed.

Lemma leaf_adv1 sw ee c f script x l imp y :
  leaf_expr av sw ee pf c f script x = Ok (l, imp, y) -> advs (adv x) y.
Proof.
  intros H. unfold leaf_expr in H. asplit H.
  all: try match goal with K : var_or_autovar _ _ _ _ _ _ _ _ = Ok (_, _, ?t) |- _ => pose proof (var_or_autovar_adv1 _ _ _ _ _ _ _ _ _ K) end.
  all: wk2.
Qed.

Lemma bexp_swap sw ee c : forall f,
  (forall single negated script x e imp y,
     bool_expr av sw ee pf c f single negated script x = Ok (e, imp, y) -> Gw 1 y ->
     bool_expr av sw ee pf c f single negated script (swap x) = Ok (g_bexp sh e, g_imp sh imp, swap y)) /\
  (forall left single negated script x e imp y,
     right_side av sw ee pf c f left single negated script x = Ok (e, imp, y) -> Gw 1 y ->
     right_side av sw ee pf c f (g_bexp sh left) single negated script (swap x) = Ok (g_bexp sh e, g_imp sh imp, swap y)).
Proof.
  induction f as [|f [IH1 IH2]]; [split; intros; discriminate|]. split.
  - intros single negated script x e imp y H GS. rewrite bool_expr_unfold in H |- *. destruct negated; asplit H.
    all: try match goal with HN : peekis NOT ?x = true, HL : leaf_expr _ _ _ _ _ _ _ ?x = Ok (_, _, ?y1) |- _ =>
               pose proof (leaf_not_adv2 _ _ _ _ _ _ _ _ _ HL HN) end.
    all: try match goal with HL : leaf_expr _ _ _ _ _ _ _ ?x = Ok (_, _, ?y1) |- _ =>
               pose proof (leaf_adv1 _ _ _ _ _ _ _ _ _ HL) end.
    all: replay ltac:(good wk2) ltac:(idtac; first [call_fwd IH1 ltac:(good wk2) | call_fwd IH2 ltac:(good wk2)
                                                   | call_fwd (leaf_expr_swap ra rb ra_ne rb_ne av pf pf_advs pf_swap) ltac:(good wk2)]).
  - intros left single negated script x e imp y H GS. rewrite right_side_unfold in H |- *. asplit H.
    all: replay ltac:(good wk2) ltac:(idtac; first [call_fwd IH1 ltac:(good wk2) | call_fwd IH2 ltac:(good wk2)]).
Qed.
Lemma bool_expr_swap sw ee c f single negated script x e imp y :
  bool_expr av sw ee pf c f single negated script x = Ok (e, imp, y) -> Gw 1 y ->
  bool_expr av sw ee pf c f single negated script (swap x) = Ok (g_bexp sh e, g_imp sh imp, swap y).
Proof. apply (bexp_swap sw ee c f). Qed.

Lemma switch_operand_swap c : forall f orig x parts r y,
  switch_operand c f orig x parts = Ok (r, y) -> Gw 1 y -> switch_operand c f orig (swap x) parts = Ok (r, swap y).
Proof.
  induction f as [|f IH]; intros orig x parts r y H GS; [discriminate|]. cbn [switch_operand] in H |- *. asplit H.
  all: replay ltac:(good wk2) ltac:(call_fwd IH ltac:(good wk2)).
Qed.

(* a label: the look-ahead of up to four tokens is consumed when the label is recognised *)
Lemma try_label_swap_some x l y : try_label x = Some (l, y) -> Gw 1 y -> try_label (swap x) = Some (g_stmt sh l, swap y).
Proof.
  intros H GS. unfold try_label in H |- *. asplit H.
  all: replay ltac:(good wk2) ltac:(fail).
Qed.

Lemma command_args_adv1 sw ee c : forall f script cmdtok cidv z depth parts args imp rargs rimp y,
  command_args sw ee pf c f script cmdtok cidv z depth parts args imp = Ok (rargs, rimp, y) ->
  curis RPAREN z = false -> advs (adv z) y.
Proof.
  destruct f as [|f]; intros script cmdtok cidv z depth parts args imp rargs rimp y H HR; [discriminate|].
  cbn [command_args] in H. rewrite HR in H. cbn [andb] in H. asplit H; wk2.
Qed.

Lemma cur_adv2 (x : toks) : (3 <= len x)%nat -> cur (adv (adv x)) = pk 2 x.
Proof. destruct x as [|a [|b [|c r]]]; cbn; try lia. reflexivity. Qed.
Lemma Gw_len n x : Gw n x -> (n + 1 <= len x)%nat.
Proof. intros (u & -> & K). rewrite app_length. assert (1 <= len ra)%nat by (destruct ra; [congruence|cbn; lia]). lia. Qed.
Lemma is_excl ty1 ty2 tk : is ty1 tk = true -> ty1 <> ty2 -> is ty2 tk = false.
Proof.
  unfold is, tt_eqb. destruct (toktype_eq_dec (ttype tk) ty1) as [E|]; [|discriminate]. intros _ N.
  destruct (toktype_eq_dec (ttype tk) ty2); [congruence|reflexivity].
Qed.

Lemma try_label_swap_none sw ee c f script x cm imp y :
  try_label x = None -> command_stmt sw ee pf c f script x = Ok (cm, imp, y) -> Gw 2 y -> try_label (swap x) = None.
Proof.
  intros H HC GS.
  assert (A0 : advs x y) by (eapply command_stmt_advs; [exact pf_advs|exact HC|apply advs_refl]).
  assert (G2 : Gw 2 x) by (eapply G_advs; [exact A0|exact GS]).
  unfold try_label in H |- *.
  rewrite (swap_peekis ra rb COLON x G2). destruct (peekis COLON x) eqn:PC; [discriminate H|].
  rewrite (swap_peekis ra rb LPAREN x G2). destruct (peekis LPAREN x) eqn:PL; [|reflexivity].
  unfold command_stmt in HC. rewrite PL in HC.
  destruct (command_args sw ee pf c f script (cur x) (len x) (adv (adv x)) 0 [] [] imp0) as [[[args imp'] y']| | |] eqn:CA; try discriminate HC.
  injection HC as _ _ <-.
  assert (A2 : advs (adv (adv x)) y') by (eapply command_args_advs; [exact pf_advs|exact CA|apply advs_refl]).
  assert (G4 : Gw 4 x).
  { apply (G_adv_inv ra ra_ne); [lia|]. apply (G_adv_inv ra ra_ne); [lia|]. eapply G_advs; [exact A2|exact GS]. }
  rewrite (swap_pk2 ra rb x) by (eapply G_le; [|exact G4]; lia).
  rewrite (swap_pk3 ra rb x) by exact G4.
  cbn [andb] in H |- *.
  destruct ((is GLOBAL (pk 2 x) || is LOCAL (pk 2 x)) && is RPAREN (pk 3 x)) eqn:B; [|reflexivity].
  assert (CR : curis RPAREN (adv (adv x)) = false).
  { unfold curis. rewrite cur_adv2 by (pose proof (Gw_len _ _ G4); lia).
    apply andb_true_iff in B. destruct B as [B _]. apply orb_true_iff in B.
    destruct B as [B|B]; (eapply is_excl; [exact B|discriminate]). }
  pose proof (command_args_adv1 _ _ _ _ _ _ _ _ _ _ _ _ _ _ _ CA CR) as A3.
  assert (G5 : Gw 5 x).
  { apply (G_adv_inv ra ra_ne); [lia|]. apply (G_adv_inv ra ra_ne); [lia|]. apply (G_adv_inv ra ra_ne); [lia|]. eapply G_advs; [exact A3|exact GS]. }
  rewrite (swap_pk4 ra rb x G5). cbn [andb] in H |- *. destruct (is COLON (pk 4 x)); [discriminate H|reflexivity].
Qed.

End PARTC.

(* ------------------------------------------------------------------------------------------------------------ *)
(* Part D: statements                                                                                            *)
(* ------------------------------------------------------------------------------------------------------------ *)
Ltac head_of t := lazymatch t with ?f _ => head_of f | _ => t end.
Ltac has_arg L z := lazymatch L with | _ z => idtac | _ z _ => idtac | _ z _ _ => idtac | _ z _ _ _ => idtac | _ z _ _ _ _ => idtac end.
Section PARTD.
Variables ra rb : toks.
Hypothesis ra_ne : ra <> [].
Hypothesis rb_ne : rb <> [].
Local Notation swap := (swap ra rb).
Local Notation Gw := (Gw ra).
Local Notation sh := (sh ra rb).
Local Notation g_vr := (g_vr ra rb).
Variable av : list (text * autovar).
Variable sw : list (text * text).
Variable pf : toks -> res (token * text * text * toks).
Variable c : list (text * text).
Hypothesis pf_advs : forall ts tk v sty ts', pf ts = Ok (tk, v, sty, ts') -> forall a, advs a ts -> advs a ts'.
Hypothesis pf_swap : forall x tk v sty y, pf x = Ok (tk, v, sty, y) -> Gw 1 y -> pf (swap x) = Ok (tk, v, sty, swap y).

Local Notation P_stmt ee := (parse_stmt av sw ee pf c).
Local Notation P_block ee := (parse_block av sw ee pf c).
Local Notation P_swblock ee := (parse_switch_block av sw ee pf c).
Local Notation P_cond ee := (parse_cond av sw ee pf c).
Local Notation P_if ee := (parse_if av sw ee pf c).
Local Notation P_elifs ee := (parse_elifs av sw ee pf c).
Local Notation P_switch ee := (parse_switch av sw ee pf c).
Local Notation P_cases ee := (parse_cases av sw ee pf c).
Local Notation P_pory ee := (parse_pory av sw ee pf c).
Local Notation P_pcases ee := (parse_pory_cases av sw ee pf c).
Local Notation P_pstmts ee := (parse_pory_stmts av sw ee pf c).

Lemma fam_advs ee f : ADV av sw pf c ee f.
Proof. apply adv_all. exact pf_advs. Qed.
Lemma a_stmt ee f script bs cs ts ss imp ts' : P_stmt ee f script bs cs ts = Ok (ss, imp, ts') -> forall a, advs a ts -> advs a ts'.
Proof. apply (fam_advs ee f). Qed.
Lemma a_block ee f script bs cs start ts acc imp ss imp' ts' : P_block ee f script bs cs start ts acc imp = Ok (ss, imp', ts') -> forall a, advs a ts -> advs a ts'.
Proof. apply (fam_advs ee f). Qed.
Lemma a_swblock ee f script bs cs start ts acc imp ss imp' ts' : P_swblock ee f script bs cs start ts acc imp = Ok (ss, imp', ts') -> forall a, advs a ts -> advs a ts'.
Proof. apply (fam_advs ee f). Qed.
Lemma a_cond ee f req script bs cs ts e b imp ts' : P_cond ee f req script bs cs ts = Ok (e, b, imp, ts') -> forall a, advs a ts -> advs a ts'.
Proof. apply (fam_advs ee f). Qed.
Lemma a_if ee f script bs cs ts ss imp ts' : P_if ee f script bs cs ts = Ok (ss, imp, ts') -> forall a, advs a ts -> advs a ts'.
Proof. apply (fam_advs ee f). Qed.
Lemma a_elifs ee f script bs cs ts acc imp l imp' ts' : P_elifs ee f script bs cs ts acc imp = Ok (l, imp', ts') -> forall a, advs a ts -> advs a ts'.
Proof. apply (fam_advs ee f). Qed.
Lemma a_switch ee f script bs cs ts ss imp ts' : P_switch ee f script bs cs ts = Ok (ss, imp, ts') -> forall a, advs a ts -> advs a ts'.
Proof. apply (fam_advs ee f). Qed.
Lemma a_cases ee f script bs cs brace ts acc seen hasdef imp l imp' ts' : P_cases ee f script bs cs brace ts acc seen hasdef imp = Ok (l, imp', ts') -> forall a, advs a ts -> advs a ts'.
Proof. apply (fam_advs ee f). Qed.
Lemma a_pory ee f script bs cs ts ss imp ts' : P_pory ee f script bs cs ts = Ok (ss, imp, ts') -> forall a, advs a ts -> advs a ts'.
Proof. apply (fam_advs ee f). Qed.
Lemma a_pcases ee f script bs cs start ts acc l ts' : P_pcases ee f script bs cs start ts acc = Ok (l, ts') -> forall a, advs a ts -> advs a ts'.
Proof. apply (fam_advs ee f). Qed.
Lemma a_pstmts ee f script bs cs multi ts acc imp ss imp' ts' : P_pstmts ee f script bs cs multi ts acc imp = Ok (ss, imp', ts') -> forall a, advs a ts -> advs a ts'.
Proof. apply (fam_advs ee f). Qed.

Ltac wk4 := walkx ltac:(fun K => first
  [ eapply FuelOk.list_cases_advs; [exact K|] | eapply pf_advs; [exact K|] | eapply right_side_advs; [exact pf_advs|exact K|]
  | eapply a_stmt; [exact K|] | eapply a_block; [exact K|] | eapply a_swblock; [exact K|] | eapply a_cond; [exact K|]
  | eapply a_if; [exact K|] | eapply a_elifs; [exact K|] | eapply a_switch; [exact K|] | eapply a_cases; [exact K|]
  | eapply a_pory; [exact K|] | eapply a_pcases; [exact K|] | eapply a_pstmts; [exact K|] ]).

Definition SWP (f : nat) : Prop := forall ee,
  (forall script bs cs x ss imp y, P_stmt ee f script bs cs x = Ok (ss, imp, y) -> Gw 2 y ->
     P_stmt ee f script (map sh bs) (map sh cs) (swap x) = Ok (map (g_stmt sh) ss, g_imp sh imp, swap y)) /\
  (forall script bs cs start x acc imp ss imp' y, P_block ee f script bs cs start x acc imp = Ok (ss, imp', y) -> Gw 1 y ->
     P_block ee f script (map sh bs) (map sh cs) start (swap x) (map (g_stmt sh) acc) (g_imp sh imp) = Ok (map (g_stmt sh) ss, g_imp sh imp', swap y)) /\
  (forall script bs cs start x acc imp ss imp' y, P_swblock ee f script bs cs start x acc imp = Ok (ss, imp', y) -> Gw 1 y ->
     P_swblock ee f script (map sh bs) (map sh cs) start (swap x) (map (g_stmt sh) acc) (g_imp sh imp) = Ok (map (g_stmt sh) ss, g_imp sh imp', swap y)) /\
  (forall req script bs cs x e b imp y, P_cond ee f req script bs cs x = Ok (e, b, imp, y) -> Gw 1 y ->
     P_cond ee f req script (map sh bs) (map sh cs) (swap x) = Ok (g_obexp sh e, map (g_stmt sh) b, g_imp sh imp, swap y)) /\
  (forall script bs cs x ss imp y, P_if ee f script bs cs x = Ok (ss, imp, y) -> Gw 2 y ->
     P_if ee f script (map sh bs) (map sh cs) (swap x) = Ok (map (g_stmt sh) ss, g_imp sh imp, swap y)) /\
  (forall script bs cs x acc imp l imp' y, P_elifs ee f script bs cs x acc imp = Ok (l, imp', y) -> Gw 2 y ->
     P_elifs ee f script (map sh bs) (map sh cs) (swap x) (g_elifs sh acc) (g_imp sh imp) = Ok (g_elifs sh l, g_imp sh imp', swap y)) /\
  (forall script bs cs x ss imp y, P_switch ee f script bs cs x = Ok (ss, imp, y) -> Gw 1 y ->
     P_switch ee f script (map sh bs) (map sh cs) (swap x) = Ok (map (g_stmt sh) ss, g_imp sh imp, swap y)) /\
  (forall script bs cs brace x acc seen hasdef imp l imp' y, P_cases ee f script bs cs brace x acc seen hasdef imp = Ok (l, imp', y) -> Gw 1 y ->
     P_cases ee f script (map sh bs) (map sh cs) brace (swap x) (g_cases sh acc) seen hasdef (g_imp sh imp) = Ok (g_cases sh l, g_imp sh imp', swap y)) /\
  (forall script bs cs x ss imp y, P_pory ee f script bs cs x = Ok (ss, imp, y) -> Gw 1 y ->
     P_pory ee f script (map sh bs) (map sh cs) (swap x) = Ok (map (g_stmt sh) ss, g_imp sh imp, swap y)) /\
  (forall script bs cs start x acc l y, P_pcases ee f script bs cs start x acc = Ok (l, y) -> Gw 1 y ->
     P_pcases ee f script (map sh bs) (map sh cs) start (swap x) (map (g_pcase sh) acc) = Ok (map (g_pcase sh) l, swap y)) /\
  (forall script bs cs multi x acc imp ss imp' y, P_pstmts ee f script bs cs multi x acc imp = Ok (ss, imp', y) -> Gw 1 y ->
     P_pstmts ee f script (map sh bs) (map sh cs) multi (swap x) (map (g_stmt sh) acc) (g_imp sh imp) = Ok (map (g_stmt sh) ss, g_imp sh imp', swap y)).

Section STEP.
Variable f : nat.
Hypothesis IH : SWP f.
Local Definition Istmt ee := proj1 (IH ee).
Local Definition Iblock ee := proj1 (proj2 (IH ee)).
Local Definition Iswb ee := proj1 (proj2 (proj2 (IH ee))).
Local Definition Icond ee := proj1 (proj2 (proj2 (proj2 (IH ee)))).
Local Definition Iif ee := proj1 (proj2 (proj2 (proj2 (proj2 (IH ee))))).
Local Definition Ielifs ee := proj1 (proj2 (proj2 (proj2 (proj2 (proj2 (IH ee)))))).
Local Definition Iswitch ee := proj1 (proj2 (proj2 (proj2 (proj2 (proj2 (proj2 (IH ee))))))).
Local Definition Icases ee := proj1 (proj2 (proj2 (proj2 (proj2 (proj2 (proj2 (proj2 (IH ee)))))))).
Local Definition Ipory ee := proj1 (proj2 (proj2 (proj2 (proj2 (proj2 (proj2 (proj2 (proj2 (IH ee))))))))).
Local Definition Ipcases ee := proj1 (proj2 (proj2 (proj2 (proj2 (proj2 (proj2 (proj2 (proj2 (proj2 (IH ee)))))))))).
Local Definition Ipstmts ee := proj2 (proj2 (proj2 (proj2 (proj2 (proj2 (proj2 (proj2 (proj2 (proj2 (IH ee)))))))))).

Ltac tbl h :=
  lazymatch h with
  | @parse_stmt => constr:(Istmt) | @parse_block => constr:(Iblock) | @parse_switch_block => constr:(Iswb)
  | @parse_cond => constr:(Icond) | @parse_if => constr:(Iif) | @parse_elifs => constr:(Ielifs)
  | @parse_switch => constr:(Iswitch) | @parse_cases => constr:(Icases) | @parse_pory => constr:(Ipory)
  | @parse_pory_cases => constr:(Ipcases) | @parse_pory_stmts => constr:(Ipstmts)
  | @command_stmt => constr:(command_stmt_swap ra rb ra_ne rb_ne pf pf_advs pf_swap)
  | @bool_expr => constr:(bool_expr_swap ra rb ra_ne rb_ne av pf pf_advs pf_swap)
  | @var_or_autovar => constr:(var_or_autovar_swap ra rb ra_ne rb_ne av pf pf_advs pf_swap)
  | @switch_operand => constr:(switch_operand_swap ra rb ra_ne rb_ne)
  | @poryswitch_header => constr:(poryswitch_header_swap ra rb ra_ne rb_ne)
  | @collect_until => constr:(collect_until_swap ra rb ra_ne rb_ne)
  end.
Ltac fam_calls := idtac;
  lazymatch goal with
  | |- ?L = _ =>
    let sc := scrut L in
    lazymatch sc with
    | context [assoc (map (g_pcase _) _) _] => rewrite assoc_g_pcase
    | try_label (swap ?z) =>
        first [ call_fwd_opt (try_label_swap_some ra rb ra_ne rb_ne) ltac:(good wk4)
              | match goal with HN : try_label z = None |- _ =>
                  let E' := fresh "E'" in pose proof HN as E'; eapply (try_label_swap_none ra rb) in E';
                  [ rewrite E'; clear E' | first [eassumption | good wk4] .. ] end ]
    | context [swap ?z] =>
        let hs := head_of sc in
        let lem := tbl hs in
        match goal with
        | E : ?LE = _ |- _ =>
            let he := head_of LE in constr_eq hs he; has_arg LE z;
            let E' := fresh "E'" in
            pose proof E as E'; eapply lem in E'; [ nrm_in E'; rw_head E'; clear E' | good wk4 .. ]
        end
    end
  end.
Ltac fam := replay ltac:(good wk4) fam_calls.

Lemma s_stmt ee script bs cs x ss imp y : P_stmt ee (S f) script bs cs x = Ok (ss, imp, y) -> Gw 2 y ->
  P_stmt ee (S f) script (map sh bs) (map sh cs) (swap x) = Ok (map (g_stmt sh) ss, g_imp sh imp, swap y).
Proof. intros H GS. rewrite parse_stmt_unfold in H |- *. asplit H. all: fam. Qed.

Lemma s_block ee script bs cs start x acc imp ss imp' y : P_block ee (S f) script bs cs start x acc imp = Ok (ss, imp', y) -> Gw 1 y ->
  P_block ee (S f) script (map sh bs) (map sh cs) start (swap x) (map (g_stmt sh) acc) (g_imp sh imp) = Ok (map (g_stmt sh) ss, g_imp sh imp', swap y).
Proof. intros H GS. rewrite parse_block_unfold in H |- *. asplit H. all: fam. Qed.

Lemma s_swblock ee script bs cs start x acc imp ss imp' y : P_swblock ee (S f) script bs cs start x acc imp = Ok (ss, imp', y) -> Gw 1 y ->
  P_swblock ee (S f) script (map sh bs) (map sh cs) start (swap x) (map (g_stmt sh) acc) (g_imp sh imp) = Ok (map (g_stmt sh) ss, g_imp sh imp', swap y).
Proof. intros H GS. rewrite parse_switch_block_unfold in H |- *. asplit H. all: fam. Qed.

Lemma s_cond ee req script bs cs x e b imp y : P_cond ee (S f) req script bs cs x = Ok (e, b, imp, y) -> Gw 1 y ->
  P_cond ee (S f) req script (map sh bs) (map sh cs) (swap x) = Ok (g_obexp sh e, map (g_stmt sh) b, g_imp sh imp, swap y).
Proof. intros H GS. rewrite parse_cond_unfold in H |- *. asplit H. all: fam. Qed.

Lemma s_if ee script bs cs x ss imp y : P_if ee (S f) script bs cs x = Ok (ss, imp, y) -> Gw 2 y ->
  P_if ee (S f) script (map sh bs) (map sh cs) (swap x) = Ok (map (g_stmt sh) ss, g_imp sh imp, swap y).
Proof. intros H GS. rewrite parse_if_unfold in H |- *. asplit H. all: fam. Qed.

Lemma s_elifs ee script bs cs x acc imp l imp' y : P_elifs ee (S f) script bs cs x acc imp = Ok (l, imp', y) -> Gw 2 y ->
  P_elifs ee (S f) script (map sh bs) (map sh cs) (swap x) (g_elifs sh acc) (g_imp sh imp) = Ok (g_elifs sh l, g_imp sh imp', swap y).
Proof. intros H GS. rewrite parse_elifs_unfold in H |- *. asplit H. all: fam. Qed.

Lemma s_switch ee script bs cs x ss imp y : P_switch ee (S f) script bs cs x = Ok (ss, imp, y) -> Gw 1 y ->
  P_switch ee (S f) script (map sh bs) (map sh cs) (swap x) = Ok (map (g_stmt sh) ss, g_imp sh imp, swap y).
Proof. intros H GS. rewrite parse_switch_unfold in H |- *. asplit H. all: fam. Qed.

Lemma s_cases ee script bs cs brace x acc seen hasdef imp l imp' y : P_cases ee (S f) script bs cs brace x acc seen hasdef imp = Ok (l, imp', y) -> Gw 1 y ->
  P_cases ee (S f) script (map sh bs) (map sh cs) brace (swap x) (g_cases sh acc) seen hasdef (g_imp sh imp) = Ok (g_cases sh l, g_imp sh imp', swap y).
Proof. intros H GS. rewrite parse_cases_unfold in H |- *. asplit H. all: fam. Qed.

Lemma s_pory ee script bs cs x ss imp y : P_pory ee (S f) script bs cs x = Ok (ss, imp, y) -> Gw 1 y ->
  P_pory ee (S f) script (map sh bs) (map sh cs) (swap x) = Ok (map (g_stmt sh) ss, g_imp sh imp, swap y).
Proof. intros H GS. rewrite parse_pory_unfold in H |- *. asplit H. all: fam. Qed.

Lemma s_pcases ee script bs cs start x acc l y : P_pcases ee (S f) script bs cs start x acc = Ok (l, y) -> Gw 1 y ->
  P_pcases ee (S f) script (map sh bs) (map sh cs) start (swap x) (map (g_pcase sh) acc) = Ok (map (g_pcase sh) l, swap y).
Proof. intros H GS. rewrite parse_pory_cases_unfold in H |- *. asplit H. all: fam. Qed.

Lemma s_pstmts ee script bs cs multi x acc imp ss imp' y : P_pstmts ee (S f) script bs cs multi x acc imp = Ok (ss, imp', y) -> Gw 1 y ->
  P_pstmts ee (S f) script (map sh bs) (map sh cs) multi (swap x) (map (g_stmt sh) acc) (g_imp sh imp) = Ok (map (g_stmt sh) ss, g_imp sh imp', swap y).
Proof. intros H GS. rewrite parse_pory_stmts_unfold in H |- *. asplit H. all: fam. Qed.
End STEP.

Lemma swp_all : forall f, SWP f.
Proof.
  induction f as [|f IH]; [unfold SWP; repeat split; intros; discriminate|].
  unfold SWP. split; [|split; [|split; [|split; [|split; [|split; [|split; [|split; [|split; [|split]]]]]]]]].
  - apply s_stmt; exact IH.
  - apply s_block; exact IH.
  - apply s_swblock; exact IH.
  - apply s_cond; exact IH.
  - apply s_if; exact IH.
  - apply s_elifs; exact IH.
  - apply s_switch; exact IH.
  - apply s_cases; exact IH.
  - apply s_pory; exact IH.
  - apply s_pcases; exact IH.
  - apply s_pstmts; exact IH.
Qed.

End PARTD.

(* ------------------------------------------------------------------------------------------------------------ *)
(* Part E: scripts and mapscripts                                                                               *)
(* ------------------------------------------------------------------------------------------------------------ *)
Ltac nrm1 ::=
  repeat (progress (
    unfold g_imp, g_it, g_im, g_cmd, g_leaf, g_ocmd, g_obexp, g_ostmts, g_vr, g_elifs, g_cases, g_ms, g_te, g_tm;
    cbn [g_bexp g_stmt g_pcase idT idM itCid itArg itTok itType itScript
         imCid imArg imToks imScript imCmdTok cname cargs ctok cid lk loperand lline lop lvalue lstrict lpre map fst snd
         msType msName msScript teCond teCondLit teCmp teName teScript tmType tmName tmEntries])).
Ltac nrm1_in H ::=
  repeat (progress (
    unfold g_imp, g_it, g_im, g_cmd, g_leaf, g_ocmd, g_obexp, g_ostmts, g_vr, g_elifs, g_cases, g_ms, g_te, g_tm in H;
    cbn [g_bexp g_stmt g_pcase idT idM itCid itArg itTok itType itScript
         imCid imArg imToks imScript imCmdTok cname cargs ctok cid lk loperand lline lop lvalue lstrict lpre map fst snd
         msType msName msScript teCond teCondLit teCmp teName teScript tmType tmName tmEntries] in H)).

Section PARTE.
Variables ra rb : toks.
Hypothesis ra_ne : ra <> [].
Hypothesis rb_ne : rb <> [].
Local Notation swap := (swap ra rb).
Local Notation Gw := (Gw ra).
Local Notation sh := (sh ra rb).
Variable av : list (text * autovar).
Variable sw : list (text * text).
Variable pf : toks -> res (token * text * text * toks).
Hypothesis pf_advs : forall ts tk v sty ts', pf ts = Ok (tk, v, sty, ts') -> forall a, advs a ts -> advs a ts'.
Hypothesis pf_swap : forall x tk v sty y, pf x = Ok (tk, v, sty, y) -> Gw 1 y -> pf (swap x) = Ok (tk, v, sty, swap y).

Lemma parse_block_swap ee c f script bs cs start x acc imp ss imp' y :
  parse_block av sw ee pf c f script bs cs start x acc imp = Ok (ss, imp', y) -> Gw 1 y ->
  parse_block av sw ee pf c f script (map sh bs) (map sh cs) start (swap x) (map (g_stmt sh) acc) (g_imp sh imp)
  = Ok (map (g_stmt sh) ss, g_imp sh imp', swap y).
Proof. apply (swp_all ra rb ra_ne rb_ne av sw pf c pf_advs pf_swap f ee). Qed.

Ltac wk5 := walkx ltac:(fun K => first
  [ eapply parse_block_advs; [exact pf_advs|exact K|] | eapply scope_modifier_advs; [exact K|]
  | eapply ms_collect_advs; [exact K|] | eapply ms_table_advs; [exact pf_advs|exact K|]
  | eapply ms_entries_advs; [exact pf_advs|exact K|] ]).

Lemma parse_script_swap ee c f x name g b imp y :
  parse_script av sw ee pf c f x = Ok (name, g, b, imp, y) -> Gw 1 y ->
  parse_script av sw ee pf c f (swap x) = Ok (name, g, map (g_stmt sh) b, g_imp sh imp, swap y).
Proof.
  intros H GS. unfold parse_script in H |- *. asplit H.
  all: replay ltac:(good wk5) ltac:(idtac; first [ call_fwd (scope_modifier_swap ra rb ra_ne rb_ne) ltac:(good wk5)
                                                 | call_fwd parse_block_swap ltac:(good wk5) ]).
Qed.

Lemma ms_collect_swap c : forall f stop x acc r y,
  ms_collect c f stop x acc = Some (r, y) -> Gw 1 y -> ms_collect c f stop (swap x) acc = Some (r, swap y).
Proof.
  induction f as [|f IH]; intros stop x acc r y H GS; [discriminate|]. cbn [ms_collect] in H |- *. asplit H.
  all: replay ltac:(good wk5) ltac:(call_fwd_opt IH ltac:(good wk5)).
Qed.

Lemma ms_table_swap ee c : forall f mapname tyname x i acc imp es imp' y,
  ms_table av sw ee pf c f mapname tyname x i acc imp = Ok (es, imp', y) -> Gw 1 y ->
  ms_table av sw ee pf c f mapname tyname (swap x) i (map (g_te sh) acc) (g_imp sh imp) = Ok (map (g_te sh) es, g_imp sh imp', swap y).
Proof.
  induction f as [|f IH]; intros mapname tyname x i acc imp es imp' y H GS; [discriminate|]. cbn [ms_table] in H |- *. asplit H.
  all: replay ltac:(good wk5) ltac:(idtac; first [ call_fwd IH ltac:(good wk5) | call_fwd_opt ms_collect_swap ltac:(good wk5)
                                                 | call_fwd parse_block_swap ltac:(good wk5) ]).
Qed.

Lemma ms_entries_swap ee c : forall f mapname x plain tables imp p' t' imp' y,
  ms_entries av sw ee pf c f mapname x plain tables imp = Ok (p', t', imp', y) -> Gw 1 y ->
  ms_entries av sw ee pf c f mapname (swap x) (map (g_ms sh) plain) (map (g_tm sh) tables) (g_imp sh imp)
  = Ok (map (g_ms sh) p', map (g_tm sh) t', g_imp sh imp', swap y).
Proof.
  induction f as [|f IH]; intros mapname x plain tables imp p' t' imp' y H GS; [discriminate|]. cbn [ms_entries] in H |- *. asplit H.
  all: replay ltac:(good wk5) ltac:(idtac; first [ call_fwd IH ltac:(good wk5) | call_fwd ms_table_swap ltac:(good wk5)
                                                 | call_fwd parse_block_swap ltac:(good wk5) ]).
Qed.

Lemma parse_mapscripts_swap ee c f x tp imp y :
  parse_mapscripts av sw ee pf c f x = Ok (tp, imp, y) -> Gw 1 y ->
  parse_mapscripts av sw ee pf c f (swap x) = Ok (g_top sh tp, g_imp sh imp, swap y).
Proof.
  intros H GS. unfold parse_mapscripts in H |- *. asplit H.
  all: replay ltac:(good wk5) ltac:(idtac; first [ call_fwd (scope_modifier_swap ra rb ra_ne rb_ne) ltac:(good wk5)
                                                 | call_fwd ms_entries_swap ltac:(good wk5) ]).
Qed.

End PARTE.

(* ------------------------------------------------------------------------------------------------------------ *)
(* Part F: hoisting commutes with an injective renaming of the command ids                                       *)
(* ------------------------------------------------------------------------------------------------------------ *)
Section PATCH.
Variable g : nat -> nat.
Hypothesis g_inj : forall a b, g a = g b -> a = b.

Definition g_patch (p : patch) : patch := match p with (i, a, l) => (g i, a, l) end.

Lemma add_texts_g : forall its h ps,
  add_texts (map (g_it g) its) h (map g_patch ps) = (fst (add_texts its h ps), map g_patch (snd (add_texts its h ps))).
Proof.
  induction its as [|it r IH]; intros h ps; [reflexivity|]. cbn [map add_texts g_it itTok itType itScript itCid itArg].
  destruct (find_text (hset h) (tlit (itTok it)) (itType it)).
  - rewrite <- IH. rewrite map_app. reflexivity.
  - rewrite <- IH. rewrite map_app. reflexivity.
Qed.

Lemma add_movs_g : forall ims h ps,
  add_movs (map (g_im g) ims) h (map g_patch ps) = (fst (add_movs ims h ps), map g_patch (snd (add_movs ims h ps))).
Proof.
  induction ims as [|im r IH]; intros h ps; [reflexivity|]. cbn [map add_movs g_im imCid imArg imToks imScript imCmdTok].
  destruct (assoc (hmset h) (mov_key (imToks im))).
  - rewrite <- IH. rewrite map_app. reflexivity.
  - rewrite <- IH. rewrite map_app. reflexivity.
Qed.

Lemma add_implicit_g imp h :
  add_implicit (g_imp g imp) h = (fst (add_implicit imp h), map g_patch (snd (add_implicit imp h))).
Proof.
  unfold add_implicit, g_imp. cbn [idT idM].
  change (@nil patch) with (map g_patch []) at 1. rewrite add_texts_g.
  destruct (add_texts (idT imp) h []) as [h1 ps1]. cbn [fst snd]. apply add_movs_g.
Qed.

Lemma apply_patches_g : forall ps c,
  apply_patches (map g_patch ps) (g_cmd g c) = match apply_patches ps c with Some c' => Some (g_cmd g c') | None => None end.
Proof.
  induction ps as [|[[i a] l] r IH]; intros c; [reflexivity|]. cbn [map g_patch apply_patches g_cmd cid cargs cname ctok].
  assert (E : Nat.eqb (g i) (g (cid c)) = Nat.eqb i (cid c)).
  { destruct (Nat.eqb_spec i (cid c)) as [->|N]; [apply Nat.eqb_refl|]. apply Nat.eqb_neq. intros K. apply N, g_inj, K. }
  rewrite E. destruct (Nat.eqb i (cid c)); [|apply IH].
  destruct (set_nth a (cargs c) l) as [args|]; [|reflexivity].
  apply (IH {| cname := cname c; cargs := args; ctok := ctok c; cid := cid c |}).
Qed.

Lemma pcmd_g ps c : pcmd (map g_patch ps) (g_cmd g c) = g_cmd g (pcmd ps c).
Proof. unfold pcmd. rewrite apply_patches_g. destruct (apply_patches ps c); reflexivity. Qed.

Lemma pleaf_g ps l : pleaf (map g_patch ps) (g_leaf g l) = g_leaf g (pleaf ps l).
Proof.
  unfold pleaf, g_leaf. cbn [lk loperand lline lop lvalue lstrict lpre]. destruct (lpre l) as [c|]; cbn [g_ocmd]; [|reflexivity].
  rewrite pcmd_g. reflexivity.
Qed.

Lemma pbexp_g ps e : pbexp (map g_patch ps) (g_bexp g e) = g_bexp g (pbexp ps e).
Proof. induction e as [l|o a IHa b IHb]; cbn [pbexp g_bexp]; [rewrite pleaf_g; reflexivity|rewrite IHa, IHb; reflexivity]. Qed.

Lemma pstmt_g ps : forall s, pstmt (map g_patch ps) (g_stmt g s) = g_stmt g (pstmt ps s).
Proof.
  apply (LabelSim.stmt_ind2
           (fun s => pstmt (map g_patch ps) (g_stmt g s) = g_stmt g (pstmt ps s))
           (fun ss => map (pstmt (map g_patch ps)) (map (g_stmt g) ss) = map (g_stmt g) (map (pstmt ps) ss))).
  - reflexivity.
  - intros s r Hs Hr. cbn [map]. rewrite Hs, Hr. reflexivity.
  - intros c. cbn [pstmt g_stmt]. rewrite pcmd_g. reflexivity.
  - reflexivity.
  - intros conds els Hc He. cbn [pstmt g_stmt]. f_equal.
    + induction Hc as [|[e b] r Hb _ IH]; [reflexivity|]. cbn [map fst snd] in *. rewrite pbexp_g, Hb, IH. reflexivity.
    + destruct els as [b|]; [rewrite He|]; reflexivity.
  - intros tg c b Hb. cbn [pstmt g_stmt]. rewrite Hb. destruct c as [e|]; cbn [g_obexp]; [rewrite pbexp_g|]; reflexivity.
  - intros tg b c Hb. cbn [pstmt g_stmt]. rewrite Hb, pbexp_g. reflexivity.
  - reflexivity.
  - reflexivity.
  - intros tg o ol cases Hc. cbn [pstmt g_stmt]. f_equal.
    induction Hc as [|[[[d v] ln] b] r Hb _ IH]; [reflexivity|]. unfold Emitter.sc_body in Hb. cbn [map fst snd] in *. rewrite Hb, IH. reflexivity.
Qed.

Lemma pstmts_g ps ss : map (pstmt (map g_patch ps)) (map (g_stmt g) ss) = map (g_stmt g) (map (pstmt ps) ss).
Proof. induction ss as [|s r IH]; [reflexivity|]. cbn [map]. rewrite pstmt_g, IH. reflexivity. Qed.

(* the patching of a mapscripts statement, as written in parse_tops *)
Definition patch_top (ps : list patch) (tp : top) : top :=
  match tp with
  | TMapScripts n gl plain tables =>
      TMapScripts n gl
        (map (fun m => {| msType := msType m; msName := msName m;
                          msScript := match msScript m with Some b => Some (map (pstmt ps) b) | None => None end |}) plain)
        (map (fun tb => {| tmType := tmType tb; tmName := tmName tb;
                           tmEntries := map (fun e => {| teCond := teCond e; teCondLit := teCondLit e; teCmp := teCmp e; teName := teName e;
                                                         teScript := match teScript e with Some b => Some (map (pstmt ps) b) | None => None end |}) (tmEntries tb) |}) tables)
  | other => other
  end.

Lemma patch_top_g ps tp : patch_top (map g_patch ps) (g_top g tp) = g_top g (patch_top ps tp).
Proof.
  destruct tp as [n gl b|v l| |n gl tk st|n gl tk it its|n gl plain tables]; try reflexivity.
  cbn [g_top patch_top]. f_equal.
  - induction plain as [|m r IH]; [reflexivity|]. cbn [map]. rewrite IH. f_equal.
    unfold g_ms. cbn [msType msName msScript]. destruct (msScript m) as [b|]; cbn [g_ostmts]; [rewrite pstmts_g|]; reflexivity.
  - induction tables as [|tb r IH]; [reflexivity|]. cbn [map]. rewrite IH. f_equal.
    unfold g_tm. cbn [tmType tmName tmEntries]. f_equal.
    induction (tmEntries tb) as [|e r' IH']; [reflexivity|]. cbn [map]. rewrite IH'. f_equal.
    unfold g_te. cbn [teCond teCondLit teCmp teName teScript]. destruct (teScript e) as [b|]; cbn [g_ostmts]; [rewrite pstmts_g|]; reflexivity.
Qed.
End PATCH.

(* ------------------------------------------------------------------------------------------------------------ *)
(* Part G: one turn of the top-level loop                                                                        *)
(* ------------------------------------------------------------------------------------------------------------ *)
(* what the format() operator (a parameter of the parser model) must satisfy: it only moves forward, and it does not look
   beyond the last token it consumes.  True of Format.parse_format: real_format_advs, real_format_local below. *)
Definition format_advs (pf : toks -> res (token * text * text * toks)) : Prop :=
  forall ts tk v sty ts', pf ts = Ok (tk, v, sty, ts') -> forall a, advs a ts -> advs a ts'.
Definition format_local (pf : toks -> res (token * text * text * toks)) : Prop :=
  forall ra rb, ra <> [] -> rb <> [] -> forall x tk v sty y,
    pf x = Ok (tk, v, sty, y) -> Gw ra 1 y -> pf (swap ra rb x) = Ok (tk, v, sty, swap ra rb y).

Section TOPSTEP.
Variable av : list (text * autovar).
Variable sw : list (text * text).
Variable ee : bool.
Variable pf : toks -> res (token * text * text * toks).

(* one top-level statement: the body of the loop parse_tops.  It reads of the state only the constants and the hoisting
   state; it returns the new constants, the new hoisting state, the top-level statements and the text statements it adds,
   and the stream whose current token is the last token of the statement. *)
Definition top_step (f : nat) (c : list (text * text)) (h : hst) (ts : toks)
  : res (list (text * text) * hst * list top * list textdef * toks) :=
  match ttype (cur ts) with
  | SCRIPT =>
      do (name, g, b, imp, ts1) <- parse_script av sw ee pf c f ts;
      let '(h', ps) := add_implicit imp h in
      Ok (c, h', [TScript name g (map (pstmt ps) b)], [], ts1)
  | RAW => do (tp, ts1) <- parse_raw ts; Ok (c, h, [tp], [], ts1)
  | TEXT => do (td, ts1) <- parse_text sw ee pf f ts; Ok (c, h, [TTextStmt], [td], ts1)
  | MOVEMENT => do (tp, ts1) <- parse_movement sw ee f ts; Ok (c, h, [tp], [], ts1)
  | MART => do (tp, ts1) <- parse_mart sw ee c f ts; Ok (c, h, [tp], [], ts1)
  | MAPSCRIPTS =>
      do (tp, imp, ts1) <- parse_mapscripts av sw ee pf c f ts;
      let '(h', ps) := add_implicit imp h in
      Ok (c, h', [patch_top ps tp], [], ts1)
  | CONST => do (c', ts1) <- parse_const f c ts; Ok (c', h, [], [], ts1)
  | _ => err_tok (cur ts) "could not parse top-level statement"
  end.

Definition st_add (st : pstate) (c : list (text * text)) (h : hst) (tps : list top) (txs : list textdef) : pstate :=
  {| pconsts := c; ph := h; ptops := ptops st ++ tps; ptexts := ptexts st ++ txs |}.

(* the loop is: stop at the EOF token, otherwise one top_step, then go on after the last token of the statement *)
Theorem parse_tops_step f st ts :
  parse_tops av sw ee pf (S f) st ts =
  if curis EOF ts then Ok st else
  do (c', h', tps, txs, ts1) <- top_step f (pconsts st) (ph st) ts;
  parse_tops av sw ee pf f (st_add st c' h' tps txs) (adv ts1).
Proof.
  cbn [parse_tops]. destruct (curis EOF ts); [reflexivity|]. unfold top_step, st_add, patch_top.
  destruct (ttype (cur ts)); try reflexivity.
  - destruct (parse_script av sw ee pf (pconsts st) f ts) as [[[[[name g] b] imp] ts1]| | |]; try reflexivity.
    destruct (add_implicit imp (ph st)) as [h' ps]. rewrite app_nil_r. reflexivity.
  - destruct (parse_raw ts) as [[tp ts1]| | |]; try reflexivity. rewrite app_nil_r. reflexivity.
  - destruct (parse_text sw ee pf f ts) as [[td ts1]| | |]; reflexivity.
  - destruct (parse_movement sw ee f ts) as [[tp ts1]| | |]; try reflexivity. rewrite app_nil_r. reflexivity.
  - destruct (parse_mart sw ee (pconsts st) f ts) as [[tp ts1]| | |]; try reflexivity. rewrite app_nil_r. reflexivity.
  - destruct (parse_mapscripts av sw ee pf (pconsts st) f ts) as [[[tp imp] ts1]| | |]; try reflexivity.
    destruct (add_implicit imp (ph st)) as [h' ps]. rewrite app_nil_r. reflexivity.
  - destruct (parse_const f (pconsts st) ts) as [[c' ts1]| | |]; try reflexivity. rewrite !app_nil_r. reflexivity.
Qed.

Hypothesis pf_advs : format_advs pf.

Lemma top_step_advs f c h ts c' h' tps txs ts' :
  top_step f c h ts = Ok (c', h', tps, txs, ts') -> forall a, advs a ts -> advs a ts'.
Proof.
  intros H a A. unfold top_step in H. destruct (ttype (cur ts)); try discriminate H.
  - destruct (parse_script av sw ee pf c f ts) as [[[[[name g] b] imp] ts1]| | |] eqn:E; try discriminate H.
    destruct (add_implicit imp h) as [h1 ps]. inversion H; subst. eapply parse_script_advs; [exact pf_advs|exact E|exact A].
  - destruct (parse_raw ts) as [[tp ts1]| | |] eqn:E; try discriminate H. inversion H; subst. eapply parse_raw_advs; [exact E|exact A].
  - destruct (parse_text sw ee pf f ts) as [[td ts1]| | |] eqn:E; try discriminate H. inversion H; subst.
    eapply parse_text_advs; [exact pf_advs|exact E|exact A].
  - destruct (parse_movement sw ee f ts) as [[tp ts1]| | |] eqn:E; try discriminate H. inversion H; subst.
    eapply parse_movement_advs; [exact E|exact A].
  - destruct (parse_mart sw ee c f ts) as [[tp ts1]| | |] eqn:E; try discriminate H. inversion H; subst.
    eapply parse_mart_advs; [exact E|exact A].
  - destruct (parse_mapscripts av sw ee pf c f ts) as [[[tp imp] ts1]| | |] eqn:E; try discriminate H.
    destruct (add_implicit imp h) as [h1 ps]. inversion H; subst. eapply parse_mapscripts_advs; [exact pf_advs|exact E|exact A].
  - destruct (parse_const f c ts) as [[c1 ts1]| | |] eqn:E; try discriminate H. inversion H; subst.
    eapply parse_const_advs; [exact E|exact A].
Qed.

(* (3) which statements change the constants and the hoisting state *)
Lemma add_implicit_nothing imp h : idT imp = [] -> idM imp = [] -> add_implicit imp h = (h, []).
Proof. intros E1 E2. unfold add_implicit. rewrite E1, E2. reflexivity. Qed.

Theorem top_step_state f c h ts c' h' tps txs ts' :
  top_step f c h ts = Ok (c', h', tps, txs, ts') ->
  (* only a const statement changes the constants, and it adds nothing else *)
  (ttype (cur ts) <> CONST -> c' = c) /\
  (ttype (cur ts) = CONST -> h' = h /\ tps = [] /\ txs = [] /\ exists name v, c' = (name, v) :: c) /\
  (* raw, text, movement and mart statements leave the hoisting state alone *)
  (ttype (cur ts) <> SCRIPT -> ttype (cur ts) <> MAPSCRIPTS -> h' = h) /\
  (* a script changes it by its inline texts and movements only *)
  (ttype (cur ts) = SCRIPT -> exists name g b imp,
     parse_script av sw ee pf c f ts = Ok (name, g, b, imp, ts') /\
     h' = fst (add_implicit imp h) /\ tps = [TScript name g (map (pstmt (snd (add_implicit imp h))) b)] /\
     (idT imp = [] -> idM imp = [] -> h' = h)) /\
  (ttype (cur ts) = MAPSCRIPTS -> exists tp imp,
     parse_mapscripts av sw ee pf c f ts = Ok (tp, imp, ts') /\
     h' = fst (add_implicit imp h) /\ tps = [patch_top (snd (add_implicit imp h)) tp] /\
     (idT imp = [] -> idM imp = [] -> h' = h)).
Proof.
  intros H. unfold top_step in H. destruct (ttype (cur ts)) eqn:T; try discriminate H.
  - destruct (parse_script av sw ee pf c f ts) as [[[[[name g] b] imp] ts1]| | |] eqn:E; try discriminate H.
    destruct (add_implicit imp h) as [h1 ps] eqn:A. inversion H; subst.
    split; [reflexivity|]. split; [discriminate|]. split; [congruence|]. split; [|discriminate].
    intros _. exists name, g, b, imp. rewrite A. cbn [fst snd]. split; [reflexivity|]. split; [reflexivity|]. split; [reflexivity|].
    intros E1 E2. rewrite (add_implicit_nothing _ _ E1 E2) in A. congruence.
  - destruct (parse_raw ts) as [[tp ts1]| | |] eqn:E; try discriminate H. inversion H; subst.
    split; [reflexivity|]. split; [discriminate|]. split; [reflexivity|]. split; discriminate.
  - destruct (parse_text sw ee pf f ts) as [[td ts1]| | |] eqn:E; try discriminate H. inversion H; subst.
    split; [reflexivity|]. split; [discriminate|]. split; [reflexivity|]. split; discriminate.
  - destruct (parse_movement sw ee f ts) as [[tp ts1]| | |] eqn:E; try discriminate H. inversion H; subst.
    split; [reflexivity|]. split; [discriminate|]. split; [reflexivity|]. split; discriminate.
  - destruct (parse_mart sw ee c f ts) as [[tp ts1]| | |] eqn:E; try discriminate H. inversion H; subst.
    split; [reflexivity|]. split; [discriminate|]. split; [reflexivity|]. split; discriminate.
  - destruct (parse_mapscripts av sw ee pf c f ts) as [[[tp imp] ts1]| | |] eqn:E; try discriminate H.
    destruct (add_implicit imp h) as [h1 ps] eqn:A. inversion H; subst.
    split; [reflexivity|]. split; [discriminate|]. split; [congruence|]. split; [discriminate|].
    intros _. exists tp, imp. rewrite A. cbn [fst snd]. split; [reflexivity|]. split; [reflexivity|]. split; [reflexivity|].
    intros E1 E2. rewrite (add_implicit_nothing _ _ E1 E2) in A. congruence.
  - destruct (parse_const f c ts) as [[c1 ts1]| | |] eqn:E; try discriminate H. inversion H; subst.
    split; [congruence|]. split; [|split; [reflexivity|split; discriminate]].
    intros _. split; [reflexivity|]. split; [reflexivity|]. split; [reflexivity|].
    unfold parse_const in E. destruct (expect_peek IDENT ts) as [t1|]; [|discriminate E].
    destruct (assoc c (tlit (cur t1))); [discriminate E|]. destruct (expect_peek ASSIGN t1) as [t2|]; [|discriminate E].
    destruct (const_value f c t2 []) as [v t3]. destruct v as [|v0 v]; [discriminate E|]. inversion E; subst. eauto.
Qed.

End TOPSTEP.

(* ------------------------------------------------------------------------------------------------------------ *)
(* Part H: a top-level statement does not see what follows it                                                    *)
(* ------------------------------------------------------------------------------------------------------------ *)
Section SWAPBACK.
Variables ra rb : toks.
Lemma Gw_swap n s : Gw ra n s -> Gw rb n (swap ra rb s).
Proof. intros (u & -> & K). rewrite swap_app. exists u. auto. Qed.
Lemma swap_back s : Gw ra 0 s -> swap rb ra (swap ra rb s) = s.
Proof. intros (u & -> & K). rewrite !swap_app. reflexivity. Qed.
Lemma same_class_sym : same_class ra rb -> same_class rb ra.
Proof. unfold same_class. intros H. symmetry. exact H. Qed.
End SWAPBACK.

Lemma sh_inj ra rb : (len ra <= len rb)%nat -> forall a b, sh ra rb a = sh ra rb b -> a = b.
Proof. intros L a b. rewrite !sh_grow by exact L. lia. Qed.

(* ---------- const again, with the weakest condition on the two ends ----------
   A const statement ends before the next top-level keyword: it looks at the type of the token that follows it.  If the
   statement is followed by ra and its value ends there, then the first token of ra is a top-level keyword (or the last token
   of the value is an EOF token); the same must be true of rb. *)
Definition class_ok (ra rb : toks) : Prop :=
  is_toplevel (ttype (cur ra)) = true -> is_toplevel (ttype (cur rb)) = true.
Lemma same_class_ok ra rb : same_class ra rb -> class_ok ra rb.
Proof. unfold same_class, class_ok. intros E H. rewrite <- E. exact H. Qed.
(* nothing to check when the statements are compared with the statements alone (ra is the EOF token) *)
Lemma class_ok_eof ra rb : ttype (cur ra) = EOF -> class_ok ra rb.
Proof. unfold class_ok. intros E. rewrite E. discriminate. Qed.
Lemma class_ok_top ra rb : is_toplevel (ttype (cur rb)) = true -> class_ok ra rb.
Proof. unfold class_ok. auto. Qed.

Section CONSTSWAP.
Variables ra rb : toks.
Hypothesis ra_ne : ra <> [].
Hypothesis rb_ne : rb <> [].
Hypothesis CK : class_ok ra rb.

Lemma Gw1_ra_false : Gw ra 1 ra -> False.
Proof. intros (u & E & K). apply (f_equal (@List.length token)) in E. rewrite app_length in E. lia. Qed.

Lemma const_value_swap2 : forall f c x acc,
  Gw ra 1 (snd (const_value f c x acc)) ->
  const_value f c (swap ra rb x) acc = (fst (const_value f c x acc), swap ra rb (snd (const_value f c x acc))).
Proof.
  induction f as [|f IH]; intros c x acc GS; [reflexivity|].
  assert (G1 : Gw ra 1 x) by (eapply G_advs; [|exact GS]; apply const_value_advs; apply advs_refl).
  cbn [const_value] in GS |- *. cbv zeta in GS |- *.
  rewrite (swap_curis ra rb EOF x G1).
  assert (D : is_toplevel (ttype (pk 1 (swap ra rb x))) || curis EOF x = is_toplevel (ttype (pk 1 x)) || curis EOF x).
  { destruct G1 as (u & -> & K). rewrite swap_app. destruct u as [|a [|b u]]; [cbn in K; lia| |reflexivity].
    cbn [app]. rewrite !pk1_cons by assumption.
    destruct (is_toplevel (ttype (cur ra))) eqn:TA.
    - rewrite (CK TA). reflexivity.
    - cbn [orb]. destruct (curis EOF (a :: ra)) eqn:EE; [apply orb_true_r|]. exfalso.
      cbn [app] in GS. rewrite pk1_cons, TA, EE in GS by assumption. cbn [orb] in GS.
      apply Gw1_ra_false. eapply G_advs; [|exact GS].
      pose proof (const_value_advs f c (adv (a :: ra)) (match acc with [] => creplace c (tlit (cur (adv (a :: ra)))) | _ :: _ => acc ++ sp ++ creplace c (tlit (cur (adv (a :: ra)))) end) (adv (a :: ra)) (advs_refl _)) as AV.
      replace (adv (a :: ra)) with ra in AV at 1 by (destruct ra; [contradiction|reflexivity]). exact AV. }
  rewrite D. destruct (is_toplevel (ttype (pk 1 x)) || curis EOF x); [reflexivity|].
  rewrite (swap_adv ra rb ra_ne rb_ne x G1).
  rewrite (swap_cur ra rb (adv x)) by (eapply G_advs; [|exact GS]; apply const_value_advs; apply advs_refl).
  apply IH. exact GS.
Qed.

Lemma parse_const_swap2 f c x c' y :
  parse_const f c x = Ok (c', y) -> Gw ra 1 y -> parse_const f c (swap ra rb x) = Ok (c', swap ra rb y).
Proof.
  intros H GS. unfold parse_const in H |- *. unfold expect_peek in H |- *. cbv zeta in H |- *.
  destruct (peekis IDENT x) eqn:P1; [|discriminate H].
  destruct (assoc c (tlit (cur (adv x)))) eqn:A1; [discriminate H|].
  destruct (peekis ASSIGN (adv x)) eqn:P2; [|discriminate H].
  pose proof (const_value_swap2 f c (adv (adv x)) []) as CV.
  pose proof (const_value_advs f c (adv (adv x)) [] _ (advs_refl _)) as AV.
  destruct (const_value f c (adv (adv x)) []) as [v ts3]. cbn [fst snd] in CV, AV.
  destruct v as [|v0 v]; [discriminate H|]. injection H as <- <-. specialize (CV GS).
  assert (G3 : Gw ra 3 x) by (apply (G_adv_inv ra ra_ne); [lia|]; apply (G_adv_inv ra ra_ne); [lia|]; eapply G_advs; [exact AV|exact GS]).
  rewrite (swap_peekis ra rb IDENT x) by (eapply G_le; [|exact G3]; lia). rewrite P1.
  rewrite (swap_adv ra rb ra_ne rb_ne x) by (eapply G_le; [|exact G3]; lia).
  rewrite (swap_cur ra rb (adv x)) by (eapply G_le; [|apply (G_adv ra ra_ne); exact G3]; lia). rewrite A1.
  rewrite (swap_peekis ra rb ASSIGN (adv x)) by (apply (G_adv ra ra_ne); exact G3). rewrite P2.
  rewrite (swap_adv ra rb ra_ne rb_ne (adv x)) by (eapply G_le; [|apply (G_adv ra ra_ne); exact G3]; lia). rewrite CV. reflexivity.
Qed.
End CONSTSWAP.

Section STEPSWAP.
Variable av : list (text * autovar).
Variable sw : list (text * text).
Variable ee : bool.
Variable pf : toks -> res (token * text * text * toks).
Hypothesis pf_advs : format_advs pf.
Hypothesis pf_local : format_local pf.

Lemma top_step_swap_pre ra rb : ra <> [] -> rb <> [] -> forall f c h x c' h' tps txs y,
  top_step av sw ee pf f c h x = Ok (c', h', tps, txs, y) -> Gw ra 1 y -> ttype (cur x) <> CONST ->
  (exists c2 h2 tps2 txs2, top_step av sw ee pf f c h (swap ra rb x) = Ok (c2, h2, tps2, txs2, swap ra rb y)) /\
  ((forall a b, sh ra rb a = sh ra rb b -> a = b) ->
   top_step av sw ee pf f c h (swap ra rb x) = Ok (c', h', map (g_top (sh ra rb)) tps, txs, swap ra rb y)).
Proof.
  intros ra_ne rb_ne f c h x c' h' tps txs y H GS NC.
  assert (G1 : Gw ra 1 x) by (eapply G_advs; [eapply top_step_advs; [exact pf_advs|exact H|apply advs_refl]|exact GS]).
  pose proof (pf_local ra rb ra_ne rb_ne) as pf_swap.
  unfold top_step in H |- *. rewrite (swap_cur ra rb x G1). destruct (ttype (cur x)) eqn:T; try discriminate H.
  - destruct (parse_script av sw ee pf c f x) as [[[[[name g] b] imp] ts1]| | |] eqn:E; try discriminate H.
    destruct (add_implicit imp h) as [h1 ps] eqn:A. inversion H; subst.
    rewrite (parse_script_swap ra rb ra_ne rb_ne av sw pf pf_advs pf_swap _ _ _ _ _ _ _ _ _ E GS). split.
    + destruct (add_implicit (g_imp (sh ra rb) imp) h) as [h2 ps2]. do 4 eexists. reflexivity.
    + intros inj. rewrite add_implicit_g. rewrite A. cbn [fst snd]. rewrite (pstmts_g _ inj). reflexivity.
  - destruct (parse_raw x) as [[tp ts1]| | |] eqn:E; try discriminate H. inversion H; subst.
    rewrite (parse_raw_swap ra rb ra_ne rb_ne _ _ _ E GS). split; [do 4 eexists; reflexivity|].
    intros _. unfold parse_raw in E. destruct (expect_peek RAWSTRING x); [|discriminate E]. inversion E; subst. reflexivity.
  - destruct (parse_text sw ee pf f x) as [[td ts1]| | |] eqn:E; try discriminate H. inversion H; subst.
    rewrite (parse_text_swap ra rb ra_ne rb_ne pf pf_advs pf_swap _ _ _ _ _ _ E GS). split; [do 4 eexists; reflexivity|]. reflexivity.
  - destruct (parse_movement sw ee f x) as [[tp ts1]| | |] eqn:E; try discriminate H. inversion H; subst.
    rewrite (parse_movement_swap ra rb ra_ne rb_ne _ _ _ _ _ _ E GS). split; [do 4 eexists; reflexivity|].
    intros _. unfold parse_movement in E. destruct (scope_modifier false x) as [[g0 t1]| | |]; try discriminate E.
    destruct (expect_peek IDENT t1) as [t2|]; [|discriminate E]. destruct (expect_peek LBRACE t2) as [t3|]; [|discriminate E].
    destruct (movement_value sw ee f RBRACE true (adv t3) []) as [[mv t4]| | |]; try discriminate E. inversion E; subst. reflexivity.
  - destruct (parse_mart sw ee c f x) as [[tp ts1]| | |] eqn:E; try discriminate H. inversion H; subst.
    rewrite (parse_mart_swap ra rb ra_ne rb_ne _ _ _ _ _ _ _ E GS). split; [do 4 eexists; reflexivity|].
    intros _. unfold parse_mart in E. destruct (scope_modifier false x) as [[g0 t1]| | |]; try discriminate E.
    destruct (expect_peek IDENT t1) as [t2|]; [|discriminate E]. destruct (expect_peek LBRACE t2) as [t3|]; [|discriminate E].
    destruct (mart_value sw ee f true (adv t3) []) as [[mv t4]| | |]; try discriminate E. inversion E; subst. reflexivity.
  - destruct (parse_mapscripts av sw ee pf c f x) as [[[tp imp] ts1]| | |] eqn:E; try discriminate H.
    destruct (add_implicit imp h) as [h1 ps] eqn:A. inversion H; subst.
    rewrite (parse_mapscripts_swap ra rb ra_ne rb_ne av sw pf pf_advs pf_swap _ _ _ _ _ _ _ E GS). split.
    + destruct (add_implicit (g_imp (sh ra rb) imp) h) as [h2 ps2]. do 4 eexists. reflexivity.
    + intros inj. rewrite add_implicit_g. rewrite A. cbn [fst snd map]. rewrite (patch_top_g _ inj). reflexivity.
  - congruence.
Qed.

Lemma top_step_const_swap ra rb : ra <> [] -> rb <> [] -> forall f c h x c' h' tps txs y,
  top_step av sw ee pf f c h x = Ok (c', h', tps, txs, y) -> Gw ra 1 y -> class_ok ra rb -> ttype (cur x) = CONST ->
  tps = [] /\ top_step av sw ee pf f c h (swap ra rb x) = Ok (c', h', [], txs, swap ra rb y).
Proof.
  intros ra_ne rb_ne f c h x c' h' tps txs y H GS SC T.
  assert (G1 : Gw ra 1 x) by (eapply G_advs; [eapply top_step_advs; [exact pf_advs|exact H|apply advs_refl]|exact GS]).
  unfold top_step in H |- *. rewrite (swap_cur ra rb x G1). rewrite T in H |- *.
  destruct (parse_const f c x) as [[c1 ts1]| | |] eqn:E; try discriminate H. inversion H; subst.
  rewrite (parse_const_swap2 ra rb ra_ne rb_ne SC _ _ _ _ _ E GS). split; reflexivity.
Qed.

(* THE STEP THEOREM.  x is a stream that ends with ra; a top-level statement is parsed from it and ends at least one token
   before ra (y, the stream at the last token of the statement, still has a token before ra).  Then with any other end rb
   in place of ra (class_ok: if ra begins with a top-level keyword, so does rb; this matters only for a const statement)
   the statement is parsed in the same way: the same new constants, the same new hoisting state, the same text statements,
   and the same top-level statements up to the shift of the loop / switch tags and command ids by the difference of the
   lengths of ra and rb (sh_grow: sh ra rb n = n + (len rb - len ra) when len ra <= len rb). *)
Theorem top_step_context ra rb : ra <> [] -> rb <> [] -> forall f c h x c' h' tps txs y,
  top_step av sw ee pf f c h x = Ok (c', h', tps, txs, y) -> Gw ra 1 y -> class_ok ra rb ->
  exists tps',
    top_step av sw ee pf f c h (swap ra rb x) = Ok (c', h', tps', txs, swap ra rb y) /\
    ((len ra <= len rb)%nat -> tps' = map (g_top (sh ra rb)) tps) /\
    ((len rb <= len ra)%nat -> tps = map (g_top (sh rb ra)) tps').
Proof.
  intros ra_ne rb_ne f c h x c' h' tps txs y H GS SC.
  destruct (toktype_eq_dec (ttype (cur x)) CONST) as [TC|NC].
  { destruct (top_step_const_swap ra rb ra_ne rb_ne _ _ _ _ _ _ _ _ _ H GS SC TC) as [-> E]. exists []. split; [exact E|]. split; reflexivity. }
  assert (G1x : Gw ra 1 x) by (eapply G_advs; [eapply top_step_advs; [exact pf_advs|exact H|apply advs_refl]|exact GS]).
  assert (NC2 : ttype (cur (swap ra rb x)) <> CONST) by (rewrite (swap_cur ra rb x G1x); exact NC).
  destruct (top_step_swap_pre ra rb ra_ne rb_ne _ _ _ _ _ _ _ _ _ H GS NC) as [(c2 & h2 & tps2 & txs2 & E2) GROW].
  destruct (Nat.le_gt_cases (len ra) (len rb)) as [L|L].
  - specialize (GROW (sh_inj ra rb L)). exists (map (g_top (sh ra rb)) tps). split; [exact GROW|]. split; [reflexivity|].
    intros L2. rewrite E2 in GROW. inversion GROW; subst.
    (* equal lengths: use the way back *)
    destruct (top_step_swap_pre rb ra rb_ne ra_ne _ _ _ _ _ _ _ _ _ E2 (Gw_swap ra rb _ _ GS) NC2) as [_ BACK].
    specialize (BACK (sh_inj rb ra L2)).
    assert (G0 : Gw ra 0 y) by (eapply G_le; [|exact GS]; lia).
    assert (G0x : Gw ra 0 x) by (eapply G_le; [|exact G1x]; lia).
    rewrite (swap_back ra rb x G0x), (swap_back ra rb y G0) in BACK. rewrite H in BACK. inversion BACK; subst. congruence.
  - destruct (top_step_swap_pre rb ra rb_ne ra_ne _ _ _ _ _ _ _ _ _ E2 (Gw_swap ra rb _ _ GS) NC2) as [_ BACK].
    assert (L2 : (len rb <= len ra)%nat) by lia.
    specialize (BACK (sh_inj rb ra L2)).
    assert (G0 : Gw ra 0 y) by (eapply G_le; [|exact GS]; lia).
    assert (G0x : Gw ra 0 x) by (eapply G_le; [|exact G1x]; lia).
    rewrite (swap_back ra rb x G0x), (swap_back ra rb y G0) in BACK. rewrite H in BACK. inversion BACK; subst.
    exists tps2. split; [exact E2|]. split; [intros; lia|]. intros _. first [reflexivity | assumption | symmetry; assumption].
Qed.

End STEPSWAP.

(* ------------------------------------------------------------------------------------------------------------ *)
(* Part I: the top-level loop over several statements                                                            *)
(* ------------------------------------------------------------------------------------------------------------ *)
(* d' is d with the tags and command ids moved by the difference of the lengths of ra and rb *)
Definition shifted (ra rb : toks) (d d' : list top) : Prop :=
  ((len ra <= len rb)%nat -> d' = map (g_top (sh ra rb)) d) /\ ((len rb <= len ra)%nat -> d = map (g_top (sh rb ra)) d').
Lemma shifted_nil ra rb : shifted ra rb [] []. Proof. split; reflexivity. Qed.
Lemma shifted_app ra rb a a' b b' : shifted ra rb a a' -> shifted ra rb b b' -> shifted ra rb (a ++ b) (a' ++ b').
Proof. intros [A1 A2] [B1 B2]. split; intros L; rewrite map_app; [rewrite <- A1, <- B1|rewrite <- A2, <- B2]; auto. Qed.

Section RUN.
Variable av : list (text * autovar).
Variable sw : list (text * text).
Variable ee : bool.
Variable pf : toks -> res (token * text * text * toks).

(* tops_run f st ts f' st' ts': from the configuration (fuel f, state st, stream ts) the loop parse_tops reaches the
   configuration (f', st', ts') after some whole top-level statements, none of which ends at the EOF token (only a const
   statement that is the last statement of the file does: it takes the EOF token into its value) *)
Inductive tops_run : nat -> pstate -> toks -> nat -> pstate -> toks -> Prop :=
| run_refl f st ts : tops_run f st ts f st ts
| run_step f st ts c' h' tps txs y f' st' ts' :
    curis EOF ts = false ->
    top_step av sw ee pf f (pconsts st) (ph st) ts = Ok (c', h', tps, txs, y) ->
    curis EOF y = false ->
    tops_run f (st_add st c' h' tps txs) (adv y) f' st' ts' ->
    tops_run (S f) st ts f' st' ts'.

(* ... and from there the loop goes on as if it had been started there *)
Theorem tops_run_parse_tops f st ts f' st' ts' :
  tops_run f st ts f' st' ts' -> parse_tops av sw ee pf f st ts = parse_tops av sw ee pf f' st' ts'.
Proof.
  induction 1 as [|f st ts c' h' tps txs y f' st' ts' E H Y R IH]; [reflexivity|].
  rewrite parse_tops_step, E, H. exact IH.
Qed.

(* the statements of a run only add to the lists of top-level statements and of text statements *)
Lemma tops_run_adds f st ts f' st' ts' :
  tops_run f st ts f' st' ts' -> exists d e, ptops st' = ptops st ++ d /\ ptexts st' = ptexts st ++ e.
Proof.
  induction 1 as [|f st ts c' h' tps txs y f' st' ts' E H Y R (d & e & IH1 & IH2)].
  - exists [], []. rewrite !app_nil_r. auto.
  - exists (tps ++ d), (txs ++ e). rewrite IH1, IH2. unfold st_add. cbn [ptops ptexts]. rewrite !app_assoc. auto.
Qed.

Hypothesis pf_advs : format_advs pf.
Hypothesis pf_local : format_local pf.

Lemma tops_run_advs f st ts f' st' ts' : tops_run f st ts f' st' ts' -> advs ts ts'.
Proof.
  induction 1 as [|f st ts c' h' tps txs y f' st' ts' E H Y R IH]; [apply advs_refl|].
  eapply advs_trans; [|exact IH]. apply advs_adv_r. eapply top_step_advs; [exact pf_advs|exact H|apply advs_refl].
Qed.

Lemma Gw_before_adv ra y : eof_ended ra -> curis EOF y = false -> Gw ra 0 (adv y) -> Gw ra 1 y.
Proof.
  intros [N E] C (u & K & _). destruct y as [|a [|b r]]; cbn [adv] in K.
  - symmetry in K. apply app_eq_nil in K. destruct K; contradiction.
  - exfalso. destruct u as [|a' u].
    + cbn [app] in K. subst ra. cbn in E. unfold curis, is, cur in C. cbn [hd] in C. rewrite E in C.
      unfold tt_eqb in C. destruct (toktype_eq_dec EOF EOF); [discriminate|congruence].
    + injection K as _ K. symmetry in K. apply app_eq_nil in K. destruct K; contradiction.
  - exists (a :: u). cbn [app]. rewrite <- K. split; [reflexivity|cbn; lia].
Qed.

(* THE RUN THEOREM.  A run over whole statements that stops at a stream y ending with ra (ra: what follows the
   statements; it ends with its EOF token) is also a run when ra is replaced by any rb (see class_ok),
   from any state st2 that has the same constants and the same hoisting state as the initial state st: the constants and
   the hoisting state evolve identically, the same text statements are added, and the top-level statements added are the
   same up to the shift of the tags and command ids. *)
Theorem tops_run_context ra rb : eof_ended ra -> rb <> [] -> class_ok ra rb ->
  forall f st x f' st' y, tops_run f st x f' st' y -> Gw ra 0 y ->
  forall st2, pconsts st2 = pconsts st -> ph st2 = ph st ->
  exists d d' e,
    ptops st' = ptops st ++ d /\ ptexts st' = ptexts st ++ e /\ shifted ra rb d d' /\
    tops_run f st2 (swap ra rb x) f'
             {| pconsts := pconsts st'; ph := ph st'; ptops := ptops st2 ++ d'; ptexts := ptexts st2 ++ e |} (swap ra rb y).
Proof.
  intros EO rb_ne SC. assert (ra_ne : ra <> []) by (destruct EO; assumption).
  induction 1 as [f st ts|f st ts c' h' tps txs y f' st' ts' E H Y R IH]; intros GS st2 Ec Eh.
  - exists [], [], []. rewrite !app_nil_r. split; [reflexivity|]. split; [reflexivity|]. split; [apply shifted_nil|].
    rewrite <- Ec, <- Eh. destruct st2; apply run_refl.
  - assert (G1 : Gw ra 1 y).
    { apply Gw_before_adv; [exact EO|exact Y|]. eapply G_advs; [eapply tops_run_advs; exact R|exact GS]. }
    assert (G1x : Gw ra 1 ts) by (eapply G_advs; [eapply top_step_advs; [exact pf_advs|exact H|apply advs_refl]|exact G1]).
    destruct (top_step_context av sw ee pf pf_advs pf_local ra rb ra_ne rb_ne _ _ _ _ _ _ _ _ _ H G1 SC) as (tps' & H' & S1 & S2).
    destruct (IH GS (st_add st2 c' h' tps' txs) eq_refl eq_refl) as (d & d' & e & P1 & P2 & SH & RUN).
    exists (tps ++ d), (tps' ++ d'), (txs ++ e). unfold st_add in P1, P2, RUN. cbn [ptops ptexts pconsts ph] in P1, P2, RUN.
    split; [rewrite P1, app_assoc; reflexivity|]. split; [rewrite P2, app_assoc; reflexivity|].
    split; [apply shifted_app; [split; assumption|exact SH]|].
    eapply run_step.
    + rewrite (swap_curis ra rb EOF ts G1x). exact E.
    + rewrite Ec, Eh. exact H'.
    + rewrite (swap_curis ra rb EOF y G1). exact Y.
    + rewrite (swap_adv ra rb ra_ne rb_ne y G1). unfold st_add. rewrite <- !app_assoc in RUN. exact RUN.
Qed.

(* the same with the token list X of the statements made explicit: X ++ ra against X ++ rb *)
Corollary tops_run_prefix ra rb X : eof_ended ra -> rb <> [] -> class_ok ra rb ->
  forall f st f' st', tops_run f st (X ++ ra) f' st' ra ->
  forall st2, pconsts st2 = pconsts st -> ph st2 = ph st ->
  exists d d' e,
    ptops st' = ptops st ++ d /\ ptexts st' = ptexts st ++ e /\ shifted ra rb d d' /\
    tops_run f st2 (X ++ rb) f' {| pconsts := pconsts st'; ph := ph st'; ptops := ptops st2 ++ d'; ptexts := ptexts st2 ++ e |} rb.
Proof.
  intros EO rb_ne SC f st f' st' R st2 Ec Eh.
  assert (G0 : Gw ra 0 ra) by (exists []; split; [reflexivity|cbn; lia]).
  destruct (tops_run_context ra rb EO rb_ne SC _ _ _ _ _ _ R G0 st2 Ec Eh) as (d & d' & e & P1 & P2 & SH & RUN).
  exists d, d', e. rewrite (swap_app ra rb X) in RUN. change ra with ([] ++ ra) in RUN at 2. rewrite (swap_app ra rb []) in RUN.
  auto.
Qed.

(* ... hence the answer of the loop on X ++ rb is the answer of the loop on rb alone, started in the state that X alone
   (followed by ra) produces, with the ids of X's statements shifted *)
Corollary parse_tops_prefix ra rb X : eof_ended ra -> rb <> [] -> class_ok ra rb ->
  forall f st f' st', tops_run f st (X ++ ra) f' st' ra ->
  exists d d' e,
    ptops st' = ptops st ++ d /\ ptexts st' = ptexts st ++ e /\ shifted ra rb d d' /\
    parse_tops av sw ee pf f st (X ++ rb) =
    parse_tops av sw ee pf f' {| pconsts := pconsts st'; ph := ph st'; ptops := ptops st ++ d'; ptexts := ptexts st ++ e |} rb.
Proof.
  intros EO rb_ne SC f st f' st' R.
  destruct (tops_run_prefix ra rb X EO rb_ne SC _ _ _ _ R st eq_refl eq_refl) as (d & d' & e & P1 & P2 & SH & RUN).
  exists d, d', e. split; [exact P1|]. split; [exact P2|]. split; [exact SH|]. apply tops_run_parse_tops. exact RUN.
Qed.

(* the loop only adds to the lists of top-level statements and of text statements *)
Lemma parse_tops_adds : forall f st ts stf, parse_tops av sw ee pf f st ts = Ok stf ->
  exists d e, ptops stf = ptops st ++ d /\ ptexts stf = ptexts st ++ e.
Proof.
  induction f as [|f IH]; intros st ts stf H; [discriminate H|]. rewrite parse_tops_step in H.
  destruct (curis EOF ts).
  - inversion H; subst. exists [], []. rewrite !app_nil_r. auto.
  - destruct (top_step av sw ee pf f (pconsts st) (ph st) ts) as [[[[[c' h'] tps] txs] y]| | |]; try discriminate H.
    destruct (IH _ _ _ H) as (d & e & P1 & P2). unfold st_add in P1, P2. cbn [ptops ptexts] in P1, P2.
    exists (tps ++ d), (txs ++ e). rewrite P1, P2, !app_assoc. auto.
Qed.

(* THE PROGRAM-LEVEL FORM.  X: the tokens of some whole top-level statements; in the file X ++ ra they give the top-level
   statements d.  Then whenever the file X ++ rb is accepted, the top-level statements it gives for X are d with the ids
   shifted, whatever follows in rb (and its text statements for X are the same). *)
Corollary parse_tops_same_statements ra rb X : eof_ended ra -> rb <> [] -> class_ok ra rb ->
  forall f st f' st', tops_run f st (X ++ ra) f' st' ra ->
  forall stf, parse_tops av sw ee pf f st (X ++ rb) = Ok stf ->
  exists d d' e rt rx,
    ptops st' = ptops st ++ d /\ ptexts st' = ptexts st ++ e /\ shifted ra rb d d' /\
    ptops stf = ptops st ++ d' ++ rt /\ ptexts stf = ptexts st ++ e ++ rx.
Proof.
  intros EO rb_ne SC f st f' st' R stf H.
  destruct (parse_tops_prefix ra rb X EO rb_ne SC _ _ _ _ R) as (d & d' & e & P1 & P2 & SH & E).
  rewrite E in H. destruct (parse_tops_adds _ _ _ _ H) as (rt & rx & Q1 & Q2). cbn [ptops ptexts] in Q1, Q2.
  exists d, d', e, rt, rx. rewrite Q1, Q2, <- !app_assoc. auto.
Qed.

End RUN.

(* ------------------------------------------------------------------------------------------------------------ *)
(* Part J: the format() operator of the model satisfies the two hypotheses                                       *)
(* ------------------------------------------------------------------------------------------------------------ *)
Theorem real_format_advs fc cli_font cli_maxlen ee : format_advs (Format.parse_format fc cli_font cli_maxlen ee).
Proof. intros ts tk v sty ts' H a A. eapply ProgSrc.parse_format_advs; eassumption. Qed.

Theorem real_format_local fc cli_font cli_maxlen ee : format_local (Format.parse_format fc cli_font cli_maxlen ee).
Proof.
  intros ra rb ra_ne rb_ne x tk v sty y H (u & Ey & K).
  destruct u as [|t0 u]; [cbn in K; lia|]. subst y.
  destruct (advs_suffix _ _ (ProgSrc.parse_format_advs _ _ _ _ _ _ _ _ _ H x (advs_refl x))) as (w & Ex). subst x.
  assert (N1 : u ++ ra <> []) by (intros X; apply app_eq_nil in X; destruct X; contradiction).
  assert (N2 : u ++ rb <> []) by (intros X; apply app_eq_nil in X; destruct X; contradiction).
  pose proof (PorySwitchLists.parse_format_swap (u ++ ra) (u ++ rb) N1 N2 fc cli_font cli_maxlen ee _ tk v sty t0 H) as S.
  change (PorySwitchLists.swap (u ++ ra) (u ++ rb)) with (swap (u ++ ra) (u ++ rb)) in S.
  replace (w ++ (t0 :: u) ++ ra) with ((w ++ [t0]) ++ (u ++ ra)) in S by (rewrite <- !app_assoc; reflexivity).
  rewrite swap_app in S.
  replace (w ++ (t0 :: u) ++ ra) with ((w ++ t0 :: u) ++ ra) by (rewrite <- !app_assoc; reflexivity).
  rewrite !swap_app. etransitivity; [|exact S]. f_equal. rewrite <- !app_assoc. reflexivity.
Qed.

(* ------------------------------------------------------------------------------------------------------------ *)
(* Part K: the hypotheses are satisfiable; the shift is visible                                                  *)
(* ------------------------------------------------------------------------------------------------------------ *)
Definition ex_lex (s : string) : toks := lex FuelOk.no_hi FuelOk.no_hi FuelOk.no_hi (t s).
Definition ex_pf := Format.parse_format FuelOk.fc_empty [] 0%Z false.
Definition ex_st0 : pstate := {| pconsts := []; ph := hst0; ptops := []; ptexts := [] |}.
(* two statements: a const, and a script that uses it, with an inline text, a loop and a switch *)
Definition ex_X : toks := Eval vm_compute in
  removelast (ex_lex "const F = FLAG_1 script A { msgbox(""hi"") while (flag(F)) { lock break } switch (var(V)) { case 1: end } }").
(* two different continuations of the file *)
Definition ex_ra : toks := Eval vm_compute in ex_lex "raw `x`".
Definition ex_rb : toks := Eval vm_compute in ex_lex "movement M { walk_up * 2 } script B { end }".

Lemma Gw_check ra n y : y = firstn (len y - len ra) y ++ ra -> (n <= len y - len ra)%nat -> Gw ra n y.
Proof.
  intros E L. exists (firstn (len y - len ra) y). split; [exact E|]. rewrite firstn_length. lia.
Qed.

(* the hypotheses of top_step_context *)
Example top_step_context_hyps :
  exists c' h' tps txs y,
    top_step [] [] false ex_pf 200 [] hst0 (ex_X ++ ex_ra) = Ok (c', h', tps, txs, y) /\ Gw ex_ra 1 y /\ class_ok ex_ra ex_rb /\
    ex_ra <> [] /\ ex_rb <> [] /\ c' <> [].
Proof.
  do 5 eexists. split; [vm_compute; reflexivity|]. split; [apply Gw_check; [vm_compute; reflexivity|vm_compute; lia]|].
  split; [apply class_ok_top; vm_compute; reflexivity|]. split; [discriminate|]. split; discriminate.
Qed.

(* the hypotheses of tops_run_context / tops_run_prefix / parse_tops_prefix / parse_tops_same_statements: a run over the
   two statements of ex_X *)
Example tops_run_hyps :
  exists f' st',
    tops_run [] [] false ex_pf 200 ex_st0 (ex_X ++ ex_ra) f' st' ex_ra /\ eof_ended ex_ra /\ ex_rb <> [] /\ class_ok ex_ra ex_rb /\
    List.length (ptops st') = 1%nat /\ pconsts st' <> [] /\ htexts (ph st') <> [].
Proof.
  do 2 eexists. split.
  - eapply run_step; [vm_compute; reflexivity|vm_compute; reflexivity|vm_compute; reflexivity|]. cbn [adv].
    eapply run_step; [vm_compute; reflexivity|vm_compute; reflexivity|vm_compute; reflexivity|]. cbn [adv].
    apply run_refl.
  - split; [split; [discriminate|vm_compute; reflexivity]|]. split; [discriminate|]. split; [apply class_ok_top; vm_compute; reflexivity|].
    split; [vm_compute; reflexivity|]. split; discriminate.
Qed.

(* what the theorems say, computed on the example: the script of ex_X followed by ex_rb is the script of ex_X followed by
   ex_ra with all tags and command ids shifted by the difference of the lengths, and they do differ *)
Example shift_visible :
  match parse_tops [] [] false ex_pf 200 ex_st0 (ex_X ++ ex_ra), parse_tops [] [] false ex_pf 200 ex_st0 (ex_X ++ ex_rb) with
  | Ok sa, Ok sb =>
      firstn 1 (ptops sb) = map (g_top (sh ex_ra ex_rb)) (firstn 1 (ptops sa)) /\ firstn 1 (ptops sb) <> firstn 1 (ptops sa) /\
      htexts (ph sa) = htexts (ph sb) /\ pconsts sa = pconsts sb
  | _, _ => False
  end.
Proof. vm_compute. split; [reflexivity|]. split; [discriminate|]. split; reflexivity. Qed.

(* a const statement at the very end of the file takes the EOF token into its value (Go: parseConstant stops only when
   the current token is the EOF, after having appended it): its value ends with a space.  This is why the statements of a run
   must not end at the EOF token, and why a const statement needs class_ok.  The value cannot be used by anything. *)
Example const_at_end_of_file :
  match parse_tops [] [] false ex_pf 200 ex_st0 (ex_lex "const A = 1"), parse_tops [] [] false ex_pf 200 ex_st0 (ex_lex "const A = 1 raw `x`") with
  | Ok sa, Ok sb => pconsts sa = [(t "A", t "1 ")] /\ pconsts sb = [(t "A", t "1")]
  | _, _ => False
  end.
Proof. vm_compute. split; reflexivity. Qed.

(* ------------------------------------------------------------------------------------------------------------ *)
(* Part L: the same statements in two different files                                                            *)
(* ------------------------------------------------------------------------------------------------------------ *)
Definition format_lt (pf : toks -> res (token * text * text * toks)) : Prop :=
  forall ts tk v sty ts', pf ts = Ok (tk, v, sty, ts') -> FuelOk.ltS ts ts'.

Theorem real_format_lt fc cli_font cli_maxlen ee : format_lt (Format.parse_format fc cli_font cli_maxlen ee).
Proof. intros ts tk v sty ts' H. eapply FuelOk.parse_format_lt. exact H. Qed.

Section FILES.
Variable av : list (text * autovar).
Variable sw : list (text * text).
Variable ee : bool.
Variable pf : toks -> res (token * text * text * toks).
Hypothesis pf_advs : format_advs pf.
Hypothesis pf_local : format_local pf.
Hypothesis pf_lt : format_lt pf.

(* above the bound of FuelOk.v the fuel does not matter for one statement *)
Lemma top_step_st f c h ts : eof_ended ts -> (5 * len ts + 3 <= f)%nat ->
  top_step av sw ee pf (S f) c h ts = top_step av sw ee pf f c h ts.
Proof.
  intros EO B. unfold top_step. destruct (ttype (cur ts)); try reflexivity.
  - rewrite (FuelOk.parse_script_st av sw ee pf c pf_advs pf_lt f ts EO B). reflexivity.
  - rewrite (FuelOk.parse_text_st sw ee pf pf_advs f ts EO) by lia. reflexivity.
  - rewrite (FuelOk.parse_movement_st sw ee f ts EO) by lia. reflexivity.
  - rewrite (FuelOk.parse_mart_st sw ee c f ts EO) by lia. reflexivity.
  - rewrite (FuelOk.parse_mapscripts_st av sw ee pf c pf_advs pf_lt f ts EO) by lia. reflexivity.
  - rewrite (FuelOk.parse_const_st f c ts EO) by lia. reflexivity.
Qed.

Lemma top_step_fuel c h ts : eof_ended ts -> forall f g, (5 * len ts + 3 <= f)%nat -> (5 * len ts + 3 <= g)%nat ->
  top_step av sw ee pf f c h ts = top_step av sw ee pf g c h ts.
Proof.
  intros EO.
  assert (UP : forall k f, (5 * len ts + 3 <= f)%nat -> top_step av sw ee pf (k + f) c h ts = top_step av sw ee pf f c h ts).
  { induction k as [|k IH]; intros f B; [reflexivity|]. cbn [Nat.add]. rewrite top_step_st by (try exact EO; lia). apply IH, B. }
  intros f g Bf Bg. destruct (Nat.le_ge_cases f g) as [L|L].
  - replace g with ((g - f) + f)%nat by lia. symmetry. apply UP, Bf.
  - replace f with ((f - g) + g)%nat by lia. apply UP, Bg.
Qed.

Lemma tops_run_fuel_le f st x f' st' y : tops_run av sw ee pf f st x f' st' y -> (f' <= f)%nat.
Proof. induction 1; lia. Qed.

Lemma tops_run_trans f1 st1 x1 f2 st2 x2 f3 st3 x3 :
  tops_run av sw ee pf f1 st1 x1 f2 st2 x2 -> tops_run av sw ee pf f2 st2 x2 f3 st3 x3 -> tops_run av sw ee pf f1 st1 x1 f3 st3 x3.
Proof. induction 1 as [|f st ts c' h' tps txs y f' st' ts' E H Y R IH]; intros K; [exact K|]. eapply run_step; eauto. Qed.

(* after a statement the stream is strictly shorter *)
Lemma step_shorter f c h ts c' h' tps txs y :
  top_step av sw ee pf f c h ts = Ok (c', h', tps, txs, y) -> eof_ended ts -> curis EOF ts = false ->
  eof_ended (adv y) /\ (len (adv y) < len ts)%nat.
Proof.
  intros H EO E.
  assert (A : advs ts y) by (eapply top_step_advs; [exact pf_advs|exact H|apply advs_refl]).
  split; [eapply advs_eof; [apply advs_adv_r; exact A|exact EO]|].
  assert (C : ttype (cur ts) <> EOF).
  { unfold curis, is, tt_eqb in E. destruct (toktype_eq_dec (ttype (cur ts)) EOF); [discriminate|assumption]. }
  apply (FuelOk.lt_adv_after _ _ A C EO).
Qed.

(* a run can be replayed with any other fuel above the bound; it uses one unit per statement *)
Lemma tops_run_fuel f st x f' st' y : tops_run av sw ee pf f st x f' st' y -> eof_ended x -> (5 * len x + 4 <= f)%nat ->
  forall g, (5 * len x + 4 <= g)%nat -> tops_run av sw ee pf g st x (g - (f - f')) st' y.
Proof.
  induction 1 as [f st ts|f st ts c' h' tps txs y f' st' ts' E H Y R IH]; intros EO B g Bg.
  - rewrite Nat.sub_diag, Nat.sub_0_r. apply run_refl.
  - destruct g as [|g]; [lia|].
    destruct (step_shorter _ _ _ _ _ _ _ _ _ H EO E) as [EO2 LT].
    pose proof (tops_run_fuel_le _ _ _ _ _ _ R) as LE.
    replace (S g - (S f - f'))%nat with (g - (f - f'))%nat by lia.
    eapply run_step; [exact E| |exact Y|apply IH; [exact EO2|lia|lia]].
    rewrite <- H. apply top_step_fuel; [exact EO|lia|lia].
Qed.

Lemma tops_run_eof f st x f' st' y : tops_run av sw ee pf f st x f' st' y -> eof_ended x -> (5 * len x + 4 <= f)%nat ->
  eof_ended y /\ (5 * len y + 4 <= f')%nat.
Proof.
  induction 1 as [f st ts|f st ts c' h' tps txs y f' st' ts' E H Y R IH]; intros EO B; [auto|].
  destruct (step_shorter _ _ _ _ _ _ _ _ _ H EO E) as [EO2 LT]. apply IH; [exact EO2|lia].
Qed.

(* THE TWO-FILES THEOREM.  X: the tokens of some whole top-level statements.
   File 1 is X ++ ra (for instance X alone: ra = [the EOF token]); from the initial state its loop runs over X and adds the
   top-level statements d (= ptops st1) and the text statements e (= ptexts st1).
   File 2 is A ++ X ++ rb, where the statements A before X define no constant and hoist nothing: the run over A ends in a
   state stA that still has the constants and the hoisting state of the initial state st0.
   Then the loop of file 2 runs over X as well, and adds for it the same text statements, the same constants, the same
   hoisted texts and movements, and the top-level statements d with their tags and command ids shifted. *)
Theorem same_statements_in_two_files ra rb A X st0 : eof_ended ra -> eof_ended rb -> class_ok ra rb ->
  forall F1 f1 st1, tops_run av sw ee pf F1 st0 (X ++ ra) f1 st1 ra -> (5 * len (X ++ ra) + 4 <= F1)%nat ->
  forall F2 f2 stA, tops_run av sw ee pf F2 st0 (A ++ X ++ rb) f2 stA (X ++ rb) -> (5 * len (A ++ X ++ rb) + 4 <= F2)%nat ->
  pconsts stA = pconsts st0 -> ph stA = ph st0 ->
  exists d d' e,
    ptops st1 = ptops st0 ++ d /\ ptexts st1 = ptexts st0 ++ e /\ shifted ra rb d d' /\
    tops_run av sw ee pf F2 st0 (A ++ X ++ rb) (f2 - (F1 - f1))
             {| pconsts := pconsts st1; ph := ph st1; ptops := ptops stA ++ d'; ptexts := ptexts stA ++ e |} rb.
Proof.
  intros EOa EOb SC F1 f1 st1 R1 B1 F2 f2 stA RA B2 Ec Eh.
  assert (rb_ne : rb <> []) by (destruct EOb; assumption).
  assert (EO1 : eof_ended (X ++ ra)) by (apply ProgSrc.eof_ended_app; exact EOa).
  assert (EO2 : eof_ended (A ++ X ++ rb)) by (apply ProgSrc.eof_ended_app, ProgSrc.eof_ended_app; exact EOb).
  destruct (tops_run_eof _ _ _ _ _ _ RA EO2 B2) as [EO3 B3].
  set (G := (F1 + f2 + 5 * len (X ++ ra) + 5 * len (X ++ rb) + 8)%nat).
  pose proof (tops_run_fuel _ _ _ _ _ _ R1 EO1 B1 G ltac:(unfold G; lia)) as R1G.
  destruct (tops_run_prefix av sw ee pf pf_advs pf_local ra rb X EOa rb_ne SC _ _ _ _ R1G stA Ec Eh) as (d & d' & e & P1 & P2 & SH & R2G).
  exists d, d', e. split; [exact P1|]. split; [exact P2|]. split; [exact SH|].
  eapply tops_run_trans; [exact RA|].
  pose proof (tops_run_fuel_le _ _ _ _ _ _ R1) as LE1.
  pose proof (tops_run_fuel _ _ _ _ _ _ R2G EO3 ltac:(unfold G; lia) f2 B3) as R2.
  replace (G - (G - (F1 - f1)))%nat with (F1 - f1)%nat in R2 by (unfold G; lia). exact R2.
Qed.

(* ... and what parse_program returns for file 2: the statements of A, then those of X as in file 1 up to the shift, then
   the rest (the statements of rb and the hoisted movements); the text statements of A, then those of X, unchanged *)
Corollary parse_program_same_statements ra rb A X : eof_ended ra -> eof_ended rb -> class_ok ra rb ->
  let st0 := {| pconsts := []; ph := hst0; ptops := []; ptexts := [] |} in
  forall f1 st1, tops_run av sw ee pf (5 * len (X ++ ra) + 4) st0 (X ++ ra) f1 st1 ra ->
  forall f2 stA, tops_run av sw ee pf (5 * len (A ++ X ++ rb) + 4) st0 (A ++ X ++ rb) f2 stA (X ++ rb) ->
  pconsts stA = [] -> ph stA = hst0 ->
  forall p, parse_program av sw ee pf (A ++ X ++ rb) = Ok p ->
  exists d' rt ht rx,
    shifted ra rb (ptops st1) d' /\
    tops p = ptops stA ++ d' ++ rt /\ texts p = ht ++ ptexts stA ++ ptexts st1 ++ rx.
Proof.
  intros EOa EOb SC st0 f1 st1 R1 f2 stA RA Ec Eh p HP.
  destruct (same_statements_in_two_files ra rb A X st0 EOa EOb SC _ _ _ R1 (Nat.le_refl _) _ _ _ RA (Nat.le_refl _) Ec Eh)
    as (d & d' & e & P1 & P2 & SH & R2).
  cbn [ptops ptexts st0 app] in P1, P2. subst d e.
  unfold parse_program in HP.
  destruct (parse_tops av sw ee pf (5 * len (A ++ X ++ rb) + 4) {| pconsts := []; ph := hst0; ptops := []; ptexts := [] |} (A ++ X ++ rb))
    as [stf| | |] eqn:PT; try discriminate HP.
  fold st0 in PT. rewrite (tops_run_parse_tops _ _ _ _ _ _ _ _ _ _ R2) in PT.
  destruct (parse_tops_adds _ _ _ _ _ _ _ _ PT) as (rt & rx & Q1 & Q2). cbn [ptops ptexts] in Q1, Q2.
  destruct (dup_text [] (checked_texts ee stf)); [discriminate HP|].
  destruct (dup_mov [] (checked_tops ee stf)); [discriminate HP|]. inversion HP; subst p. cbn [tops texts].
  exists d', (rt ++ hmovs (ph stf)), (htexts (ph stf)), rx. split; [exact SH|]. rewrite Q1, Q2, <- !app_assoc. auto.
Qed.

End FILES.

(* ------------------------------------------------------------------------------------------------------------ *)
(* Part M: the hypotheses of the two-files theorem are satisfiable: ex_X alone, and ex_X after a text and a movement  *)
(* statement and before ex_rb                                                                                    *)
(* ------------------------------------------------------------------------------------------------------------ *)
Definition ex_eof : toks := Eval vm_compute in ex_lex "".
Definition ex_A : toks := Eval vm_compute in removelast (ex_lex "text T { ""hello"" } movement M1 { walk_down }").

Example two_files_hyps :
  exists f1 st1 f2 stA p,
    tops_run [] [] false ex_pf (5 * len (ex_X ++ ex_eof) + 4) ex_st0 (ex_X ++ ex_eof) f1 st1 ex_eof /\
    tops_run [] [] false ex_pf (5 * len (ex_A ++ ex_X ++ ex_rb) + 4) ex_st0 (ex_A ++ ex_X ++ ex_rb) f2 stA (ex_X ++ ex_rb) /\
    pconsts stA = [] /\ ph stA = hst0 /\ eof_ended ex_eof /\ eof_ended ex_rb /\ class_ok ex_eof ex_rb /\
    parse_program [] [] false ex_pf (ex_A ++ ex_X ++ ex_rb) = Ok p /\ List.length (tops p) = 5%nat.
Proof.
  do 5 eexists. split.
  { eapply run_step; [vm_compute; reflexivity|vm_compute; reflexivity|vm_compute; reflexivity|]. cbn [adv].
    eapply run_step; [vm_compute; reflexivity|vm_compute; reflexivity|vm_compute; reflexivity|]. cbn [adv].
    apply run_refl. }
  split.
  { eapply run_step; [vm_compute; reflexivity|vm_compute; reflexivity|vm_compute; reflexivity|]. cbn [adv].
    eapply run_step; [vm_compute; reflexivity|vm_compute; reflexivity|vm_compute; reflexivity|]. cbn [adv].
    apply run_refl. }
  split; [reflexivity|]. split; [reflexivity|].
  split; [split; [discriminate|vm_compute; reflexivity]|]. split; [split; [discriminate|vm_compute; reflexivity]|].
  split; [apply class_ok_eof; vm_compute; reflexivity|]. split; vm_compute; reflexivity.
Qed.

(* ------------------------------------------------------------------------------------------------------------ *)
(* Part N: the main theorems for the parser of the compiler (Compile.compile: the format() operator is             *)
(* Format.parse_format), without hypotheses on the operator                                                      *)
(* ------------------------------------------------------------------------------------------------------------ *)
Section REAL.
Variable av : list (text * autovar).
Variable sw : list (text * text).
Variable ee : bool.
Variable fc : Format.fontcfg.
Variable cli_font : text.
Variable cli_maxlen : Z.
Local Notation pf := (Format.parse_format fc cli_font cli_maxlen ee).

Theorem top_step_context_real ra rb : ra <> [] -> rb <> [] -> forall f c h x c' h' tps txs y,
  top_step av sw ee pf f c h x = Ok (c', h', tps, txs, y) -> Gw ra 1 y -> class_ok ra rb ->
  exists tps',
    top_step av sw ee pf f c h (swap ra rb x) = Ok (c', h', tps', txs, swap ra rb y) /\
    ((len ra <= len rb)%nat -> tps' = map (g_top (sh ra rb)) tps) /\
    ((len rb <= len ra)%nat -> tps = map (g_top (sh rb ra)) tps').
Proof. apply top_step_context; [apply real_format_advs|apply real_format_local]. Qed.

Theorem tops_run_context_real ra rb : eof_ended ra -> rb <> [] -> class_ok ra rb ->
  forall f st x f' st' y, tops_run av sw ee pf f st x f' st' y -> Gw ra 0 y ->
  forall st2, pconsts st2 = pconsts st -> ph st2 = ph st ->
  exists d d' e,
    ptops st' = ptops st ++ d /\ ptexts st' = ptexts st ++ e /\ shifted ra rb d d' /\
    tops_run av sw ee pf f st2 (swap ra rb x) f'
             {| pconsts := pconsts st'; ph := ph st'; ptops := ptops st2 ++ d'; ptexts := ptexts st2 ++ e |} (swap ra rb y).
Proof. apply tops_run_context; [apply real_format_advs|apply real_format_local]. Qed.

Theorem parse_tops_same_statements_real ra rb X : eof_ended ra -> rb <> [] -> class_ok ra rb ->
  forall f st f' st', tops_run av sw ee pf f st (X ++ ra) f' st' ra ->
  forall stf, parse_tops av sw ee pf f st (X ++ rb) = Ok stf ->
  exists d d' e rt rx,
    ptops st' = ptops st ++ d /\ ptexts st' = ptexts st ++ e /\ shifted ra rb d d' /\
    ptops stf = ptops st ++ d' ++ rt /\ ptexts stf = ptexts st ++ e ++ rx.
Proof. apply parse_tops_same_statements; [apply real_format_advs|apply real_format_local]. Qed.

Theorem parse_program_same_statements_real ra rb A X : eof_ended ra -> eof_ended rb -> class_ok ra rb ->
  let st0 := {| pconsts := []; ph := hst0; ptops := []; ptexts := [] |} in
  forall f1 st1, tops_run av sw ee pf (5 * len (X ++ ra) + 4) st0 (X ++ ra) f1 st1 ra ->
  forall f2 stA, tops_run av sw ee pf (5 * len (A ++ X ++ rb) + 4) st0 (A ++ X ++ rb) f2 stA (X ++ rb) ->
  pconsts stA = [] -> ph stA = hst0 ->
  forall p, parse_program av sw ee pf (A ++ X ++ rb) = Ok p ->
  exists d' rt ht rx,
    shifted ra rb (ptops st1) d' /\
    tops p = ptops stA ++ d' ++ rt /\ texts p = ht ++ ptexts stA ++ ptexts st1 ++ rx.
Proof. apply parse_program_same_statements; [apply real_format_advs|apply real_format_local|apply real_format_lt]. Qed.
End REAL.

