(* C06 - an inline STRING argument of a command, for WHOLE PROGRAMS: source tokens -> argument of the final command ->
   exactly one hoisted text definition -> emitted block, in ONE statement (the composition MovesProgram.v makes for
   moves(), here for inline text:  "..."  /  ascii"..."  /  format("...")).

   Vocabulary (existing files)
     named_cmds (tops p)   the pairs (script, c): c a command - at any depth, also in front of conditions - of a body of
                           the final program p, script the owner of the body (HoistProgram.v)
     Ast.cid c             the number of tokens of the program's stream T that remained when the command parser was entered
     texts p               the text definitions of the program (text statements of the author and hoisted inline texts);
                           emit_program_instrs emits them behind the scripts with Emitter.emit_text
     terminate v sty       the content after terminator processing (Parser.terminate)
   written_text c name k tk v sty    "argument k of the command c was written  g1 <string piece> g2":
        T = pre ++ name :: lp :: arg_tokens a ++ rp :: rest,  Ast.cid c = length of that suffix, a an argument list in the
        grammar of CmdArgs.v (wf_args, balanced); group k of a is g1 ++ q :: g2 where q is
            PStr tk            ("..."          v = tlit tk, sty = [])
          | PTyped ty tk       (ascii"..."     v = tlit tk, sty = tlit ty)
          | PFormat lt clo tk v sty   (format(...): the format parser returns (tk, v, sty) on lt - part of wf_args),
        no string piece in g2 (the LAST string of an argument wins; g1 is arbitrary) and no moves() in the group (a moves()
        in the same argument would overwrite the text label: MovesProgram.v).
     written_str / written_typed / written_format     the three special cases, with the piece spelled out.

   MAIN THEOREMS (real compilation: env_errors = true; every accepted program; every command of every body)
     program_text_argument_label   the argument is the label the FINAL text table holds for (terminate v sty, sty)
     program_text_argument         (MAIN) argument k IS a label l; exactly one text definition x of the program is named l
                                   (every definition named l is x; filter length = 1); it is local, its content is exactly
                                   terminate v sty and its type exactly sty; for every optimize / marker setting the output
                                   is  a ++ emit_texts mp (texts p) n  and the text section contains the block
                                   emit_text mp x, and the ONLY label line named l of the text section is that of x;
                                   hence out = X ++ emit_text mp x ++ Y
     program_text_argument_lines   without line markers, in the words of the property: the output contains
                                   ILabel l false :: one  IData <.string or the type>  line per line of terminate v sty
     program_text_arguments_share  (the sharing statement) two such arguments anywhere in the file (same or different
                                   commands, scripts, depths, forms) are the SAME label iff (content after processing,
                                   type) are equal; different content or different type: different labels
     program_str_argument, program_typed_argument, program_format_argument
                                   the MAIN statement for  "..." (content terminate (tlit tk) [], type []),
                                   ascii"..." (terminate (tlit tk) (tlit ty), type tlit ty) and format(...)
     program_text_argument_name    the label is  text_label <script> n  (= <script>_Text_<n>): <script> the script recorded for the
                                   FIRST inline text of the file (order of all recorded inline texts) with the same (processed
                                   content, type), n the number of earlier first appearances owned by that script
     compiled_text_argument, compiled_text_argument_lines, compiled_text_arguments_share
                                   the same for  lex hl hd hs s  and Format.parse_format fc cli_font cli_maxlen true
     program_every_text_argument, compiled_every_text_argument   (section 5; THE CONVERSE-FREE FORM, no grammar premise)
                                   EVERY command of EVERY body of an accepted program has no arguments or was written
                                   name ( a )  for an argument list a of the in-place grammar (CmdConverse.wf_args_at,
                                   balanced) at the suffix of length [Ast.cid c], with name, token and argument count of c;
                                   and for EVERY argument k whose group is g1 ++ q :: g2 with q a string piece (the last of
                                   the group) and no moves() in the group, [text_piece_compiled] holds: the piece stands in
                                   the stream and is legal there (STRING / STRINGTYPE STRING / format block on which the
                                   format parser returns (tk, v, sty)); argument k IS a label l; exactly one text definition
                                   named l, local, content terminate v sty, type sty; the text section contains its block
                                   and no other label line l; without markers: the label line and one data line per line of
                                   the content.  compiled_...: for lex hl hd hs s and Format.parse_format - the only premise
                                   is that the program is accepted.
   Examples (module Examples): a whole program text with msgbox("hi", 2) in an if body of script S and msgbox(ascii"hi"),
   msgbox("hi"), msgbox(format("hi")) in script R: [written_text] holds (ex_written1/2/3), the theorems on source texts
   apply (ex_main_applies, ex_share_applies), and the conclusion is what the model computes (ex_commands, ex_output):
   the "hi" of S and the "hi" of R share S_Text_0, the ascii one gets R_Text_0.

   NOT PROVED
     - the clash clause (NameClash.v) is not touched here.
     - an argument that contains BOTH a string and a moves(): the moves() label wins (MovesProgram.v); excluded here by
       the "no moves() in the group" premise.  Several strings in one argument: the theorems speak about the last one.
     - in sections 2-4 the grammar decomposition (wf_args / balanced) is a hypothesis inside written_text, as in
       MovesProgram.written_moves (ex_written1/2/3: satisfiable on lexed input); section 5 derives the decomposition.
     - the token [xtok x] of the definition (only needed for the line marker inside the block) is not identified with tk;
       with markers the block is given as  emit_text mp x  (= label line, marker of xtok x, data lines).
     - sharing is stated between two arguments in the grammar form (written_text), not in the converse-free form. *)
From Coq Require Import List String Ascii ZArith NArith Lia Bool Permutation.
From Pory Require Import Lexer Ast Emitter Consume Props1 ProgWf Hoisting HoistProgram.
From Pory Require CmdArgs ProgSrc Format MovesProgram.
From Pory Require Import Parser.
Import ListNotations.
Open Scope list_scope.

(* ====================================================================================================== *)
(*  1. small facts                                                                                         *)
(* ====================================================================================================== *)
(* the string a piece denotes: token, raw content, string type *)
Definition piece_text (q : CmdArgs.piece) : option (token * text * text) :=
  match q with
  | CmdArgs.PStr tk => Some (tk, tlit tk, [])
  | CmdArgs.PTyped ty tk => Some (tk, tlit tk, tlit ty)
  | CmdArgs.PFormat _ _ tk v sty => Some (tk, v, sty)
  | _ => None
  end.
Definition is_text (q : CmdArgs.piece) : bool := match piece_text q with Some _ => true | None => false end.
Notation is_moves := MovesProgram.is_moves.

Lemma no_text_texts script c k g :
  Forall (fun q => is_text q = false) g -> flat_map (CmdArgs.piece_texts script c k) g = [].
Proof. induction 1 as [|q g Hq _ IH]; [reflexivity|]. cbn [flat_map]. rewrite IH. destruct q; try discriminate; reflexivity. Qed.

Lemma piece_text_texts script c k q tk v sty :
  piece_text q = Some (tk, v, sty) -> CmdArgs.piece_texts script c k q = [CmdArgs.mk_text script c k tk v sty].
Proof. destruct q; cbn [piece_text]; intros H; try discriminate; injection H as <- <- <-; reflexivity. Qed.

Lemma filter_argT_groups script n gs k :
  filter (argT k) (CmdArgs.groups_texts script n 0 gs) =
  match nth_error gs k with Some g => flat_map (CmdArgs.piece_texts script n k) g | None => [] end.
Proof.
  pose proof (CmdArgs.filter_groups_texts script n gs 0 k) as X. cbn [Nat.add] in X. rewrite <- X.
  rewrite filter_addr_T. f_equal. symmetry. apply CmdArgs.filter_all.
  intros it H. destruct (CmdArgs.groups_texts_in _ _ _ _ _ H) as [H1 _]. unfold cidT. rewrite H1. apply Nat.eqb_refl.
Qed.

(* ====================================================================================================== *)
(*  2. MAIN: a string written as (the last string of) argument k of a command of the program                 *)
(* ====================================================================================================== *)
Section TP.
Variable autovars : list (text * autovar).
Variable switches : list (text * text).
Variable parse_format : toks -> res (token * text * text * toks).
Hypothesis parse_format_advs : forall ts tk v sty ts', parse_format ts = Ok (tk, v, sty, ts') -> forall a, advs a ts -> advs a ts'.
Variable T : toks.
Notation parse_program := (parse_program autovars switches true parse_format).
Notation parse_tops := (parse_tops autovars switches true parse_format).

Definition written_piece (c : cmd) (name : token) (k : nat) (q : CmdArgs.piece) : Prop :=
  exists pre lp (a : CmdArgs.arglist) rp rest g1 g2,
    T = pre ++ name :: lp :: CmdArgs.arg_tokens a ++ rp :: rest /\
    Ast.cid c = List.length (name :: lp :: CmdArgs.arg_tokens a ++ rp :: rest) /\
    ttype lp = LPAREN /\ ttype rp = RPAREN /\
    CmdArgs.wf_args switches true parse_format a /\ CmdArgs.balanced (CmdArgs.flat a) /\
    nth_error (CmdArgs.groups_of a) k = Some (g1 ++ q :: g2) /\
    Forall (fun q' => is_text q' = false) g2 /\
    Forall (fun q' => is_moves q' = false) (g1 ++ q :: g2).

Definition written_text (c : cmd) (name : token) (k : nat) (tk : token) (v sty : text) : Prop :=
  exists q, piece_text q = Some (tk, v, sty) /\ written_piece c name k q.

(* the three forms, spelled out *)
Definition written_str (c : cmd) (name : token) (k : nat) (tk : token) : Prop :=
  written_piece c name k (CmdArgs.PStr tk).
Definition written_typed (c : cmd) (name : token) (k : nat) (ty tk : token) : Prop :=
  written_piece c name k (CmdArgs.PTyped ty tk).
Definition written_format (c : cmd) (name : token) (k : nat) (lt : list token) (clo tk : token) (v sty : text) : Prop :=
  written_piece c name k (CmdArgs.PFormat lt clo tk v sty).

(* T0: the argument is the label under which the FINAL text table knows (content after processing, type) *)
Theorem program_text_argument_label p :
  parse_program T = Ok p ->
  forall script c, In (script, c) (named_cmds (tops p)) ->
  forall name k tk v sty, written_text c name k tk v sty ->
  cname c = tlit name /\ ctok c = name /\
  exists st l, parse_tops (5 * List.length T + 4) pstate0 T = Ok st /\
    nth_error (cargs c) k = Some l /\ find_text (hset (ph st)) (terminate v sty) sty = Some l.
Proof.
  intros HP script c Hin name k tk v sty
    (q & Hq & pre & lp & a & rp & rest & g1 & g2 & ET & EC & Hlp & Hrp & W & Hb & Hk & NT & NM).
  destruct (program_inline_arguments autovars switches true parse_format parse_format_advs T p HP) as (st & HT & K).
  destruct (K _ _ Hin) as (c0 & impc & O & E1 & E2 & E3 & E4 & _ & KT & _ & _).
  rewrite E3 in EC.
  destruct (MovesProgram.orig_written switches parse_format T script c0 impc pre name lp a rp rest O ET EC Hlp Hrp W Hb)
    as (X1 & X2 & _ & X4 & X5).
  split; [congruence|]. split; [congruence|].
  set (it := CmdArgs.mk_text script (Ast.cid c0) k tk v sty).
  assert (FT : filter (argT k) (idT impc) = flat_map (CmdArgs.piece_texts script (Ast.cid c0) k) g1 ++ [it]).
  { rewrite X4, filter_argT_groups, Hk, flat_map_app. cbn [flat_map]. rewrite (piece_text_texts _ _ _ _ _ _ _ Hq).
    rewrite (no_text_texts _ _ _ _ NT). reflexivity. }
  assert (FM : filter (argM k) (idM impc) = []).
  { rewrite X5, MovesProgram.filter_argM_groups, Hk. apply MovesProgram.no_moves_movs. exact NM. }
  destruct (KT _ _ _ FT FM) as (l & N & HL). unfold tlabel in HL. cbn [it CmdArgs.mk_text itTok itType set_lit tlit] in HL.
  exists st, l. auto.
Qed.

(* T1 (MAIN). source tokens -> argument -> exactly one text definition -> emitted block *)
Theorem program_text_argument p :
  parse_program T = Ok p ->
  forall script c, In (script, c) (named_cmds (tops p)) ->
  forall name k tk v sty, written_text c name k tk v sty ->
  cname c = tlit name /\ ctok c = name /\
  exists l x,
    nth_error (cargs c) k = Some l /\
    In x (texts p) /\ xname x = l /\ xvalue x = terminate v sty /\ xtype x = sty /\ xglob x = false /\
    (forall y, In y (texts p) -> xname y = l -> y = x) /\
    List.length (filter (fun y => text_eqb (xname y) l) (texts p)) = 1%nat /\
    (forall optimize mp out, emit_program_instrs optimize mp p = Emitter.Ok out ->
       exists a n pre post, out = a ++ emit_texts mp (texts p) n /\
         emit_texts mp (texts p) n = pre ++ emit_text mp x ++ post /\
         filter (is_label l) (emit_texts mp (texts p) n) = [ILabel l false]) /\
    (forall optimize mp out, emit_program_instrs optimize mp p = Emitter.Ok out ->
       exists X Y, out = X ++ emit_text mp x ++ Y).
Proof.
  intros HP script c Hin name k tk v sty HW.
  destruct (program_text_argument_label p HP script c Hin name k tk v sty HW) as (C1 & C2 & st & l & HT & N & HL).
  split; [exact C1|]. split; [exact C2|].
  set (it := {| itCid := 0%nat; itArg := k; itTok := set_lit tk (terminate v sty); itType := sty; itScript := script |}).
  assert (HL' : tlabel (ph st) it l) by exact HL.
  destruct (inline_text_label autovars switches true parse_format eq_refl T p st it l HP HT HL')
    as ((x & Ix & E1 & E2 & E3 & E4 & U & ONE & EMIT) & _ & _).
  cbn [it itTok itType set_lit tlit] in E2, E3.
  exists l, x. split; [exact N|]. split; [exact Ix|]. split; [exact E1|]. split; [exact E2|]. split; [exact E3|].
  split; [exact E4|]. split; [exact U|]. split; [exact ONE|]. split; [exact EMIT|].
  intros optimize mp out HO. destruct (EMIT optimize mp out HO) as (a & n & pre & post & -> & -> & _).
  exists (a ++ pre), post. rewrite <- !app_assoc. reflexivity.
Qed.

(* T2. without line markers, in the words of the property: the label line and one data line (".string" or the written
   type) per line of the processed content *)
Theorem program_text_argument_lines p :
  parse_program T = Ok p ->
  forall script c, In (script, c) (named_cmds (tops p)) ->
  forall name k tk v sty, written_text c name k tk v sty ->
  exists l,
    nth_error (cargs c) k = Some l /\
    List.length (filter (fun y => text_eqb (xname y) l) (texts p)) = 1%nat /\
    forall optimize out, emit_program_instrs optimize None p = Emitter.Ok out ->
      exists X Y, out = X ++ (ILabel l false ::
         map (fun line => IData (match sty with [] => t "string" | ty => ty end) line) (split_nl (terminate v sty) [])) ++ Y.
Proof.
  intros HP script c Hin name k tk v sty HW.
  destruct (program_text_argument p HP script c Hin name k tk v sty HW)
    as (_ & _ & l & x & N & Ix & E1 & E2 & E3 & E4 & _ & ONE & _ & EMIT).
  exists l. split; [exact N|]. split; [exact ONE|].
  intros optimize out HO. destruct (EMIT optimize None out HO) as (X & Y & ->). exists X, Y.
  unfold emit_text. rewrite E1, E2, E3, E4. cbn [marker app]. destruct sty; reflexivity.
Qed.

(* T3. sharing: two such arguments anywhere in the program (same or different commands, scripts, depths, forms) are the
   same label iff content (after processing) and type are equal *)
Theorem program_text_arguments_share p :
  parse_program T = Ok p ->
  forall s1 c1 s2 c2, In (s1, c1) (named_cmds (tops p)) -> In (s2, c2) (named_cmds (tops p)) ->
  forall n1 k1 tk1 v1 sty1 n2 k2 tk2 v2 sty2, written_text c1 n1 k1 tk1 v1 sty1 -> written_text c2 n2 k2 tk2 v2 sty2 ->
  (nth_error (cargs c1) k1 = nth_error (cargs c2) k2 <-> (terminate v1 sty1 = terminate v2 sty2 /\ sty1 = sty2)).
Proof.
  intros HP s1 c1 s2 c2 H1 H2 n1 k1 tk1 v1 sty1 n2 k2 tk2 v2 sty2 W1 W2.
  destruct (program_text_argument_label p HP s1 c1 H1 n1 k1 tk1 v1 sty1 W1) as (_ & _ & st & l1 & HT & N1 & L1).
  destruct (program_text_argument_label p HP s2 c2 H2 n2 k2 tk2 v2 sty2 W2) as (_ & _ & st' & l2 & HT' & N2 & L2).
  rewrite HT in HT'. injection HT' as <-. rewrite N1, N2.
  set (it1 := {| itCid := 0%nat; itArg := k1; itTok := set_lit tk1 (terminate v1 sty1); itType := sty1; itScript := s1 |}).
  set (it2 := {| itCid := 0%nat; itArg := k2; itTok := set_lit tk2 (terminate v2 sty2); itType := sty2; itScript := s2 |}).
  assert (L1' : tlabel (ph st) it1 l1) by exact L1. assert (L2' : tlabel (ph st) it2 l2) by exact L2.
  destruct (inline_text_label autovars switches true parse_format eq_refl T p st it1 l1 HP HT L1') as (_ & SH & _).
  specialize (SH it2 l2 L2'). unfold tkey in SH. cbn [it1 it2 itTok itType set_lit tlit] in SH.
  split.
  - intros E. injection E as E. apply SH in E. injection E as Ea Eb. auto.
  - intros [Ea Eb]. f_equal. apply SH. rewrite Ea, Eb. reflexivity.
Qed.

(* the three forms *)
Theorem program_str_argument p :
  parse_program T = Ok p ->
  forall script c, In (script, c) (named_cmds (tops p)) ->
  forall name k tk, written_str c name k tk ->
  exists l x,
    nth_error (cargs c) k = Some l /\
    In x (texts p) /\ xname x = l /\ xvalue x = terminate (tlit tk) [] /\ xtype x = [] /\ xglob x = false /\
    (forall y, In y (texts p) -> xname y = l -> y = x) /\
    List.length (filter (fun y => text_eqb (xname y) l) (texts p)) = 1%nat /\
    (forall optimize mp out, emit_program_instrs optimize mp p = Emitter.Ok out -> exists X Y, out = X ++ emit_text mp x ++ Y) /\
    (forall optimize out, emit_program_instrs optimize None p = Emitter.Ok out ->
      exists X Y, out = X ++ (ILabel l false :: map (fun line => IData (t "string") line) (split_nl (terminate (tlit tk) []) [])) ++ Y).
Proof.
  intros HP script c Hin name k tk HW.
  assert (W : written_text c name k tk (tlit tk) []) by (exists (CmdArgs.PStr tk); split; [reflexivity|exact HW]).
  destruct (program_text_argument p HP script c Hin name k tk _ _ W) as (_ & _ & l & x & N & Ix & E1 & E2 & E3 & E4 & U & ONE & _ & EMIT).
  exists l, x. repeat (split; [assumption|]).
  intros optimize out HO. destruct (EMIT optimize None out HO) as (X & Y & ->). exists X, Y.
  unfold emit_text. rewrite E1, E2, E3, E4. cbn [marker app]. reflexivity.
Qed.

Theorem program_typed_argument p :
  parse_program T = Ok p ->
  forall script c, In (script, c) (named_cmds (tops p)) ->
  forall name k ty tk, written_typed c name k ty tk ->
  exists l x,
    nth_error (cargs c) k = Some l /\
    In x (texts p) /\ xname x = l /\ xvalue x = terminate (tlit tk) (tlit ty) /\ xtype x = tlit ty /\ xglob x = false /\
    (forall y, In y (texts p) -> xname y = l -> y = x) /\
    List.length (filter (fun y => text_eqb (xname y) l) (texts p)) = 1%nat /\
    (forall optimize mp out, emit_program_instrs optimize mp p = Emitter.Ok out -> exists X Y, out = X ++ emit_text mp x ++ Y).
Proof.
  intros HP script c Hin name k ty tk HW.
  assert (W : written_text c name k tk (tlit tk) (tlit ty)) by (exists (CmdArgs.PTyped ty tk); split; [reflexivity|exact HW]).
  destruct (program_text_argument p HP script c Hin name k tk _ _ W) as (_ & _ & l & x & N & Ix & E1 & E2 & E3 & E4 & U & ONE & _ & EMIT).
  exists l, x. repeat (split; [assumption|]). exact EMIT.
Qed.

Theorem program_format_argument p :
  parse_program T = Ok p ->
  forall script c, In (script, c) (named_cmds (tops p)) ->
  forall name k lt clo tk v sty, written_format c name k lt clo tk v sty ->
  (forall R, R <> [] -> parse_format (lt ++ R) = Ok (tk, v, sty, clo :: R)) /\
  exists l x,
    nth_error (cargs c) k = Some l /\
    In x (texts p) /\ xname x = l /\ xvalue x = terminate v sty /\ xtype x = sty /\ xglob x = false /\
    (forall y, In y (texts p) -> xname y = l -> y = x) /\
    List.length (filter (fun y => text_eqb (xname y) l) (texts p)) = 1%nat /\
    (forall optimize mp out, emit_program_instrs optimize mp p = Emitter.Ok out -> exists X Y, out = X ++ emit_text mp x ++ Y).
Proof.
  intros HP script c Hin name k lt clo tk v sty HW. split.
  - destruct HW as (pre & lp & a & rp & rest & g1 & g2 & _ & _ & _ & _ & W & _ & Hk & _).
    assert (WG : Forall (CmdArgs.wf_piece switches true parse_format) (g1 ++ CmdArgs.PFormat lt clo tk v sty :: g2)).
    { destruct a as [g0 more]. destruct W as [W0 Wm]. unfold CmdArgs.groups_of in Hk. cbn [Datatypes.fst Datatypes.snd] in *.
      destruct k as [|k]; cbn [nth_error] in Hk; [injection Hk as <-; exact W0|].
      apply nth_error_In in Hk. apply in_map_iff in Hk. destruct Hk as ([cm g] & <- & Hi). rewrite Forall_forall in Wm.
      exact (proj2 (Wm _ Hi)). }
    apply Forall_app in WG. destruct WG as [_ WG]. exact (proj2 (Forall_inv WG)).
  - assert (W : written_text c name k tk v sty) by (exists (CmdArgs.PFormat lt clo tk v sty); split; [reflexivity|exact HW]).
    destruct (program_text_argument p HP script c Hin name k tk _ _ W) as (_ & _ & l & x & N & Ix & E1 & E2 & E3 & E4 & U & ONE & _ & EMIT).
    exists l, x. repeat (split; [assumption|]). exact EMIT.
Qed.
End TP.


(* ====================================================================================================== *)
(*  3. the generated name of the label of such an argument                                                 *)
(* ====================================================================================================== *)
Section TPNAME.
Variable autovars : list (text * autovar).
Variable switches : list (text * text).
Variable parse_format : toks -> res (token * text * text * toks).
Hypothesis parse_format_advs : forall ts tk v sty ts', parse_format ts = Ok (tk, v, sty, ts') -> forall a, advs a ts -> advs a ts'.
Variable T : toks.
Notation parse_program := (parse_program autovars switches true parse_format).
Notation parse_tops := (parse_tops autovars switches true parse_format).

(* T4. the label of the argument is  <script>_Text_<n> : <script> is the script recorded for the FIRST inline text [fo] of
   the file (in the order [flat_map idT imps] of all recorded inline texts, P the ones before it) with the same (processed
   content, type), and n the number of earlier first appearances (A: the first appearances before fo) owned by that
   script.  (HoistProgram.inline_text_label part 3, for this argument.) *)
Theorem program_text_argument_name p :
  parse_program T = Ok p ->
  forall script c, In (script, c) (named_cmds (tops p)) ->
  forall name k tk v sty, written_text switches parse_format T c name k tk v sty ->
  exists l st imps pss A fo B P Q,
    nth_error (cargs c) k = Some l /\
    parse_tops (5 * List.length T + 4) pstate0 T = Ok st /\
    hoist_all imps hst0 = (ph st, pss) /\ Forall (parsed_imp autovars switches true parse_format) imps /\
    new_texts [] (flat_map idT imps) = A ++ fo :: B /\ tkey fo = (terminate v sty, sty) /\
    flat_map idT imps = P ++ fo :: Q /\ ~ In (terminate v sty, sty) (map tkey P) /\
    l = text_label (itScript fo) (owned (itScript fo) (map itScript A)).
Proof.
  intros HP script c Hin name k tk v sty HW.
  destruct (program_text_argument_label autovars switches parse_format parse_format_advs T p HP script c Hin name k tk v sty HW)
    as (_ & _ & st & l & HT & N & HL).
  set (it := {| itCid := 0%nat; itArg := k; itTok := set_lit tk (terminate v sty); itType := sty; itScript := script |}).
  assert (HL' : tlabel (ph st) it l) by exact HL.
  destruct (inline_text_label autovars switches true parse_format eq_refl T p st it l HP HT HL')
    as (_ & _ & imps & pss & A & fo & B & P & Q & X1 & X2 & X3 & X4 & X5 & X6 & X7).
  unfold tkey at 2 in X4. unfold tkey at 1 in X6. cbn [it itTok itType set_lit tlit] in X4, X6.
  exists l, st, imps, pss, A, fo, B, P, Q. auto 10.
Qed.
End TPNAME.

(* ====================================================================================================== *)
(*  4. THE THEOREMS ON SOURCE TEXTS (real compilation): any source text, any classification of non-ASCII     *)
(*     code points, any switches and fonts                                                                  *)
(* ====================================================================================================== *)
Section SOURCE.
Variables (hl hd hs : N -> bool) (autovars : list (text * autovar)) (switches : list (text * text))
          (fc : Format.fontcfg) (cli_font : text) (cli_maxlen : Z) (s : text).
Notation pf := (Format.parse_format fc cli_font cli_maxlen true).
Notation TS := (lex hl hd hs s).
Notation parse_program := (parse_program autovars switches true pf).

Theorem compiled_text_argument p :
  parse_program TS = Ok p ->
  forall script c, In (script, c) (named_cmds (tops p)) ->
  forall name k tk v sty, written_text switches pf TS c name k tk v sty ->
  cname c = tlit name /\ ctok c = name /\
  exists l x,
    nth_error (cargs c) k = Some l /\
    In x (texts p) /\ xname x = l /\ xvalue x = terminate v sty /\ xtype x = sty /\ xglob x = false /\
    (forall y, In y (texts p) -> xname y = l -> y = x) /\
    List.length (filter (fun y => text_eqb (xname y) l) (texts p)) = 1%nat /\
    (forall optimize mp out, emit_program_instrs optimize mp p = Emitter.Ok out ->
       exists a n pre post, out = a ++ emit_texts mp (texts p) n /\
         emit_texts mp (texts p) n = pre ++ emit_text mp x ++ post /\
         filter (is_label l) (emit_texts mp (texts p) n) = [ILabel l false]) /\
    (forall optimize mp out, emit_program_instrs optimize mp p = Emitter.Ok out ->
       exists X Y, out = X ++ emit_text mp x ++ Y).
Proof.
  intros HP. exact (program_text_argument autovars switches pf (ProgSrc.parse_format_advs fc cli_font cli_maxlen true) TS p HP).
Qed.

Theorem compiled_text_argument_lines p :
  parse_program TS = Ok p ->
  forall script c, In (script, c) (named_cmds (tops p)) ->
  forall name k tk v sty, written_text switches pf TS c name k tk v sty ->
  exists l,
    nth_error (cargs c) k = Some l /\
    List.length (filter (fun y => text_eqb (xname y) l) (texts p)) = 1%nat /\
    forall optimize out, emit_program_instrs optimize None p = Emitter.Ok out ->
      exists X Y, out = X ++ (ILabel l false ::
         map (fun line => IData (match sty with [] => t "string" | ty => ty end) line) (split_nl (terminate v sty) [])) ++ Y.
Proof.
  intros HP. exact (program_text_argument_lines autovars switches pf (ProgSrc.parse_format_advs fc cli_font cli_maxlen true) TS p HP).
Qed.

Theorem compiled_text_arguments_share p :
  parse_program TS = Ok p ->
  forall s1 c1 s2 c2, In (s1, c1) (named_cmds (tops p)) -> In (s2, c2) (named_cmds (tops p)) ->
  forall n1 k1 tk1 v1 sty1 n2 k2 tk2 v2 sty2,
    written_text switches pf TS c1 n1 k1 tk1 v1 sty1 -> written_text switches pf TS c2 n2 k2 tk2 v2 sty2 ->
  (nth_error (cargs c1) k1 = nth_error (cargs c2) k2 <-> (terminate v1 sty1 = terminate v2 sty2 /\ sty1 = sty2)).
Proof.
  intros HP. exact (program_text_arguments_share autovars switches pf (ProgSrc.parse_format_advs fc cli_font cli_maxlen true) TS p HP).
Qed.
End SOURCE.

(* ====================================================================================================== *)
(*  5. EVERY string argument of EVERY command, without a grammar premise                                    *)
(*     (CmdConverse.command_stmt_accepted gives the argument list in the in-place grammar)                  *)
(* ====================================================================================================== *)
Section EVERY.
Variable autovars : list (text * autovar).
Variable switches : list (text * text).
Variable parse_format : toks -> res (token * text * text * toks).
Hypothesis parse_format_advs : forall ts tk v sty ts', parse_format ts = Ok (tk, v, sty, ts') -> forall a, advs a ts -> advs a ts'.
Variable T : toks.
Notation parse_program := (parse_program autovars switches true parse_format).

(* what is said about one string piece q (token tk, raw content v, type sty) that is the last string piece of argument k
   of the command c, in an argument without moves() *)
Definition text_piece_compiled (p : program) (c : cmd) (k : nat) (q : CmdArgs.piece) (v sty : text) : Prop :=
  (* the piece stands in the stream, and is legal there: a STRING token / a STRINGTYPE and a STRING token / a format(...)
     block on which the format parser returns (tk, v, sty) *)
  (exists pre' R, T = pre' ++ CmdArgs.piece_toks q ++ R /\ CmdConverse.wf_piece_at switches true parse_format q R) /\
  (* the argument, the text definition, the output *)
  exists l x,
    nth_error (cargs c) k = Some l /\
    In x (texts p) /\ xname x = l /\ xvalue x = terminate v sty /\ xtype x = sty /\ xglob x = false /\
    (forall y, In y (texts p) -> xname y = l -> y = x) /\
    List.length (filter (fun y => text_eqb (xname y) l) (texts p)) = 1%nat /\
    (forall optimize mp out, emit_program_instrs optimize mp p = Emitter.Ok out ->
       exists a n pre post, out = a ++ emit_texts mp (texts p) n /\
         emit_texts mp (texts p) n = pre ++ emit_text mp x ++ post /\
         filter (is_label l) (emit_texts mp (texts p) n) = [ILabel l false]) /\
    (forall optimize out, emit_program_instrs optimize None p = Emitter.Ok out ->
      exists X Y, out = X ++ (ILabel l false ::
         map (fun line => IData (match sty with [] => t "string" | ty => ty end) line) (split_nl (terminate v sty) [])) ++ Y).

Theorem program_every_text_argument p :
  parse_program T = Ok p -> eof_ended T ->
  forall script c, In (script, c) (named_cmds (tops p)) ->
  cargs c = [] \/
  exists pre name lp (a : CmdArgs.arglist) rp rest,
    T = pre ++ name :: lp :: CmdArgs.arg_tokens a ++ rp :: rest /\
    Ast.cid c = List.length (name :: lp :: CmdArgs.arg_tokens a ++ rp :: rest) /\
    ttype lp = LPAREN /\ ttype rp = RPAREN /\
    CmdConverse.wf_args_at switches true parse_format a (rp :: rest) /\ CmdArgs.balanced (CmdArgs.flat a) /\
    cname c = tlit name /\ ctok c = name /\
    List.length (cargs c) = List.length (CmdArgs.strip_last_empty (CmdArgs.groups_of a)) /\
    forall k g1 q g2 tk v sty,
      nth_error (CmdArgs.groups_of a) k = Some (g1 ++ q :: g2) -> piece_text q = Some (tk, v, sty) ->
      Forall (fun q' => is_text q' = false) g2 ->
      Forall (fun q' => is_moves q' = false) (g1 ++ q :: g2) ->
      text_piece_compiled p c k q v sty.
Proof.
  intros HP EOT script c Hin.
  destruct (program_inline_arguments autovars switches true parse_format parse_format_advs T p HP) as (st & HT & K).
  destruct (K _ _ Hin) as (c0 & impc & (consts & f & ts0 & ts1 & A & HC) & E1 & E2 & E3 & E4 & _ & KT & _ & _).
  assert (EO0 : eof_ended ts0) by (eapply advs_eof; eassumption).
  destruct (CmdConverse.command_stmt_accepted switches true parse_format consts parse_format_advs f script ts0 c0 impc ts1 EO0 HC)
    as [(_ & _ & _ & ->)|(name & lp & a & rp & rest & Ets & Ets' & Hlp & Hrp & WA & Hb & Ec & Ei)].
  { left. cbn [cargs List.length] in E4. destruct (cargs c); [reflexivity|discriminate]. }
  right. destruct (PorySwitchLists.advs_suffix _ _ A) as (pre & ET).
  exists pre, name, lp, a, rp, rest. rewrite <- Ets.
  split; [exact ET|]. split; [rewrite E3; eapply MovesProgram.command_stmt_cid; exact HC|]. split; [exact Hlp|]. split; [exact Hrp|].
  split; [exact WA|]. split; [exact Hb|].
  assert (Xc : cname c0 = tlit name /\ ctok c0 = name /\ List.length (cargs c0) = List.length (CmdArgs.strip_last_empty (CmdArgs.groups_of a))).
  { rewrite Ec. unfold CmdConverse.cmd_of. cbn [cname ctok cargs]. rewrite map_length. auto. }
  destruct Xc as (X1 & X2 & X3).
  split; [congruence|]. split; [congruence|]. split; [congruence|].
  intros k g1 q g2 tk v sty Hk Hq NT NM.
  assert (X4 : idT impc = CmdArgs.groups_texts script (List.length ts0) 0 (CmdArgs.groups_of a)) by (rewrite Ei; reflexivity).
  assert (X5 : idM impc = CmdArgs.groups_movs script name (List.length ts0) 0 (CmdArgs.groups_of a)) by (rewrite Ei; reflexivity).
  set (it := CmdArgs.mk_text script (List.length ts0) k tk v sty).
  assert (FT : filter (argT k) (idT impc) = flat_map (CmdArgs.piece_texts script (List.length ts0) k) g1 ++ [it]).
  { rewrite X4, filter_argT_groups, Hk, flat_map_app. cbn [flat_map]. rewrite (piece_text_texts _ _ _ _ _ _ _ Hq).
    rewrite (no_text_texts _ _ _ _ NT). reflexivity. }
  assert (FM : filter (argM k) (idM impc) = []).
  { rewrite X5, MovesProgram.filter_argM_groups, Hk. apply MovesProgram.no_moves_movs. exact NM. }
  destruct (KT _ _ _ FT FM) as (l & N & HL).
  destruct (inline_text_label autovars switches true parse_format eq_refl T p st it l HP HT HL)
    as ((x & Ix & F1 & F2 & F3 & F4 & U & ONE & EMIT) & _ & _).
  cbn [it CmdArgs.mk_text itTok itType set_lit tlit] in F2, F3.
  split.
  - destruct (MovesProgram.wf_args_at_nth switches true parse_format a (rp :: rest) k _ WA Hk) as (pre' & R' & WG & EA).
    pose proof (MovesProgram.wf_group_at_piece switches true parse_format _ _ _ _ WG) as WP.
    exists (pre ++ name :: lp :: pre' ++ CmdArgs.group_toks g1), (CmdArgs.group_toks g2 ++ R'). split; [|exact WP].
    rewrite ET, Ets. rewrite <- !app_assoc. cbn [app]. do 3 f_equal. rewrite <- !app_assoc.
    rewrite EA. f_equal. unfold CmdArgs.group_toks. rewrite flat_map_app. cbn [flat_map]. rewrite <- !app_assoc. reflexivity.
  - exists l, x. repeat (split; [assumption|]).
    intros optimize out HO. destruct (EMIT optimize None out HO) as (a0 & n & pre0 & post & -> & -> & _).
    exists (a0 ++ pre0), post. rewrite <- !app_assoc. f_equal. f_equal.
    unfold emit_text. rewrite F1, F2, F3, F4. cbn [marker app]. destruct sty; reflexivity.
Qed.
End EVERY.

(* on source texts: no premise at all besides "the program is accepted" *)
Theorem compiled_every_text_argument (hl hd hs : N -> bool) autovars switches fc cli_font cli_maxlen (s : text) p :
  parse_program autovars switches true (Format.parse_format fc cli_font cli_maxlen true) (lex hl hd hs s) = Ok p ->
  forall script c, In (script, c) (named_cmds (tops p)) ->
  cargs c = [] \/
  exists pre name lp (a : CmdArgs.arglist) rp rest,
    lex hl hd hs s = pre ++ name :: lp :: CmdArgs.arg_tokens a ++ rp :: rest /\
    Ast.cid c = List.length (name :: lp :: CmdArgs.arg_tokens a ++ rp :: rest) /\
    ttype lp = LPAREN /\ ttype rp = RPAREN /\
    CmdConverse.wf_args_at switches true (Format.parse_format fc cli_font cli_maxlen true) a (rp :: rest) /\ CmdArgs.balanced (CmdArgs.flat a) /\
    cname c = tlit name /\ ctok c = name /\
    List.length (cargs c) = List.length (CmdArgs.strip_last_empty (CmdArgs.groups_of a)) /\
    forall k g1 q g2 tk v sty,
      nth_error (CmdArgs.groups_of a) k = Some (g1 ++ q :: g2) -> piece_text q = Some (tk, v, sty) ->
      Forall (fun q' => is_text q' = false) g2 ->
      Forall (fun q' => is_moves q' = false) (g1 ++ q :: g2) ->
      text_piece_compiled switches (Format.parse_format fc cli_font cli_maxlen true) (lex hl hd hs s) p c k q v sty.
Proof.
  intros HP. apply (program_every_text_argument autovars switches _ (ProgSrc.parse_format_advs fc cli_font cli_maxlen true) _ p HP).
  apply ProgSrc.lex_eof.
Qed.

(* ====================================================================================================== *)
(*  6. Examples: the hypotheses are satisfiable on a lexed program; what the theorems then say              *)
(* ====================================================================================================== *)
Module Examples.
Open Scope string_scope.
Definition nf (_ : N) : bool := false.
Definition fc0 : Format.fontcfg := {| Format.fcDefault := []; Format.fcFonts := [] |}.
Notation pf0 := (Format.parse_format fc0 [] 0%Z true).

(*  0 script 1 S 2 { 3 if 4 ( 5 flag 6 ( 7 F 8 ) 9 ) 10 { 11 msgbox 12 ( 13 "hi" 14 , 15 2 16 ) 17 } 18 } 19 script 20 R 21 {
    22 msgbox 23 ( 24 ascii 25 "hi" 26 ) 27 msgbox 28 ( 29 "hi" 30 ) 31 msgbox 32 ( 33 format 34 ( 35 "hi" 36 ) 37 ) 38 } 39 EOF *)
Definition ex_text : text :=
  t "script S { if (flag(F)) { msgbox(""hi"", 2) } } script R { msgbox(ascii""hi"") msgbox(""hi"") msgbox(format(""hi"")) }".
Definition ex_T : toks := Eval vm_compute in lex nf nf nf ex_text.
Definition ex_p : program :=
  Eval vm_compute in match parse_program [] [] true pf0 ex_T with Ok p => p | _ => {| tops := []; texts := [] |} end.
Definition cmd0 : cmd := {| cname := []; cargs := []; ctok := eof0; Ast.cid := 0 |}.
Definition ex_sc1 : text * cmd := Eval vm_compute in nth 0 (named_cmds (tops ex_p)) ([], cmd0).
Definition ex_sc2 : text * cmd := Eval vm_compute in nth 1 (named_cmds (tops ex_p)) ([], cmd0).
Definition ex_sc3 : text * cmd := Eval vm_compute in nth 2 (named_cmds (tops ex_p)) ([], cmd0).

Example ex_lexed : lex nf nf nf ex_text = ex_T.
Proof. vm_compute. reflexivity. Qed.
Example ex_accepted : parse_program [] [] true pf0 ex_T = Ok ex_p.
Proof. vm_compute. reflexivity. Qed.
Example ex_commands :
  In ex_sc1 (named_cmds (tops ex_p)) /\ In ex_sc2 (named_cmds (tops ex_p)) /\ In ex_sc3 (named_cmds (tops ex_p)) /\
  fst ex_sc1 = t "S" /\ fst ex_sc2 = t "R" /\ fst ex_sc3 = t "R" /\
  cargs (snd ex_sc1) = [t "S_Text_0"; t "2"] /\ cargs (snd ex_sc2) = [t "R_Text_0"] /\ cargs (snd ex_sc3) = [t "S_Text_0"].
Proof.
  split; [vm_compute; left; reflexivity|]. split; [vm_compute; right; left; reflexivity|].
  split; [vm_compute; right; right; left; reflexivity|]. repeat split; vm_compute; reflexivity.
Qed.

(* the hypothesis [written_text] holds of these commands, for every format parser *)
Example ex_written1 pf : written_text [] pf ex_T (snd ex_sc1) (nth 11 ex_T eof0) 0 (nth 13 ex_T eof0) (t "hi") [].
Proof.
  exists (CmdArgs.PStr (nth 13 ex_T eof0)). split; [reflexivity|].
  exists (firstn 11 ex_T), (nth 12 ex_T eof0),
    ([CmdArgs.PStr (nth 13 ex_T eof0)], [(nth 14 ex_T eof0, [CmdArgs.PTok (nth 15 ex_T eof0)])]),
    (nth 16 ex_T eof0), (skipn 17 ex_T), [], [].
  split; [reflexivity|]. split; [reflexivity|]. split; [reflexivity|]. split; [reflexivity|]. split; [|split; [|split; [|split]]].
  - split; cbn [Datatypes.fst Datatypes.snd].
    + apply Forall_cons; [reflexivity|apply Forall_nil].
    + apply Forall_cons; [|apply Forall_nil]. split; [reflexivity|]. cbn [Datatypes.snd]. apply Forall_cons; [reflexivity|apply Forall_nil].
  - unfold CmdArgs.flat. cbn [Datatypes.fst Datatypes.snd map flat_map app].
    repeat (apply CmdArgs.bal_other; [reflexivity|]). apply CmdArgs.bal_nil.
  - reflexivity.
  - apply Forall_nil.
  - apply Forall_cons; [reflexivity|apply Forall_nil].
Qed.
Example ex_written2 pf : written_text [] pf ex_T (snd ex_sc2) (nth 22 ex_T eof0) 0 (nth 25 ex_T eof0) (t "hi") (t "ascii").
Proof.
  exists (CmdArgs.PTyped (nth 24 ex_T eof0) (nth 25 ex_T eof0)). split; [reflexivity|].
  exists (firstn 22 ex_T), (nth 23 ex_T eof0), ([CmdArgs.PTyped (nth 24 ex_T eof0) (nth 25 ex_T eof0)], []),
    (nth 26 ex_T eof0), (skipn 27 ex_T), [], [].
  split; [reflexivity|]. split; [reflexivity|]. split; [reflexivity|]. split; [reflexivity|]. split; [|split; [|split; [|split]]].
  - split; cbn [Datatypes.fst Datatypes.snd].
    + apply Forall_cons; [split; reflexivity|apply Forall_nil].
    + apply Forall_nil.
  - unfold CmdArgs.flat. cbn [Datatypes.fst Datatypes.snd map flat_map app].
    repeat (apply CmdArgs.bal_other; [reflexivity|]). apply CmdArgs.bal_nil.
  - reflexivity.
  - apply Forall_nil.
  - apply Forall_cons; [reflexivity|apply Forall_nil].
Qed.
Example ex_written3 pf : written_text [] pf ex_T (snd ex_sc3) (nth 27 ex_T eof0) 0 (nth 29 ex_T eof0) (t "hi") [].
Proof.
  exists (CmdArgs.PStr (nth 29 ex_T eof0)). split; [reflexivity|].
  exists (firstn 27 ex_T), (nth 28 ex_T eof0), ([CmdArgs.PStr (nth 29 ex_T eof0)], []),
    (nth 30 ex_T eof0), (skipn 31 ex_T), [], [].
  split; [reflexivity|]. split; [reflexivity|]. split; [reflexivity|]. split; [reflexivity|]. split; [|split; [|split; [|split]]].
  - split; cbn [Datatypes.fst Datatypes.snd].
    + apply Forall_cons; [reflexivity|apply Forall_nil].
    + apply Forall_nil.
  - unfold CmdArgs.flat. cbn [Datatypes.fst Datatypes.snd map flat_map app].
    repeat (apply CmdArgs.bal_other; [reflexivity|]). apply CmdArgs.bal_nil.
  - reflexivity.
  - apply Forall_nil.
  - apply Forall_cons; [reflexivity|apply Forall_nil].
Qed.

(* the theorems on source texts apply: one definition for the argument, with content "hi$" *)
Example ex_main_applies :
  exists l x, nth_error (cargs (snd ex_sc1)) 0 = Some l /\ In x (texts ex_p) /\ xname x = l /\ xvalue x = t "hi$" /\ xtype x = [] /\
    List.length (filter (fun y => text_eqb (xname y) l) (texts ex_p)) = 1%nat.
Proof.
  pose proof ex_accepted as HP. rewrite <- ex_lexed in HP.
  pose proof (ex_written1 pf0) as W. rewrite <- ex_lexed in W.
  destruct (compiled_text_argument nf nf nf [] [] fc0 [] 0%Z ex_text ex_p HP (fst ex_sc1) (snd ex_sc1) (proj1 ex_commands) _ _ _ _ _ W)
    as (_ & _ & l & x & N & Ix & E1 & E2 & E3 & _ & _ & ONE & _).
  exists l, x. repeat (split; [assumption|]). exact ONE.
Qed.
(* sharing, by the theorem: the "hi" of script S and the "hi" of script R are one label; the ascii"hi" is another *)
Example ex_share_applies :
  nth_error (cargs (snd ex_sc1)) 0 = nth_error (cargs (snd ex_sc3)) 0 /\
  nth_error (cargs (snd ex_sc1)) 0 <> nth_error (cargs (snd ex_sc2)) 0.
Proof.
  pose proof ex_accepted as HP. rewrite <- ex_lexed in HP.
  pose proof (ex_written1 pf0) as W1. pose proof (ex_written2 pf0) as W2. pose proof (ex_written3 pf0) as W3.
  rewrite <- ex_lexed in W1, W2, W3.
  destruct ex_commands as (I1 & I2 & I3 & _). split.
  - apply (compiled_text_arguments_share nf nf nf [] [] fc0 [] 0%Z ex_text ex_p HP _ _ _ _ I1 I3 _ _ _ _ _ _ _ _ _ _ W1 W3).
    split; reflexivity.
  - intros E. apply (compiled_text_arguments_share nf nf nf [] [] fc0 [] 0%Z ex_text ex_p HP _ _ _ _ I1 I2 _ _ _ _ _ _ _ _ _ _ W1 W2) in E.
    destruct E as [_ E]. discriminate E.
Qed.
(* ... and this is what the model computes: the text section of the output *)
Fixpoint from_label (l : text) (out : list instr) : list instr :=
  match out with [] => [] | i :: r => if is_label l i then i :: r else from_label l r end.
Example ex_output :
  match emit_program_instrs false None ex_p with
  | Emitter.Ok out => Some (from_label (t "S_Text_0") out)
  | _ => None
  end = Some [ILabel (t "S_Text_0") false; IData (t "string") (t "hi$"); IBlank;
              ILabel (t "R_Text_0") false; IData (t "ascii") (t "hi\0")].
Proof. vm_compute. reflexivity. Qed.

(* OBSERVATION (behaviour of the model, outside the premises of the theorems above): several string pieces in ONE argument,
   or a string and a moves() in one argument.  The whole argument becomes the label of the LAST string (resp. of the
   moves()); the other written pieces of the argument (here the identifier x) disappear from the argument, and the
   overwritten strings are still hoisted: S_Text_0 ("a$") and S_Text_2 ("c$") are defined in the output but no command
   refers to them. *)
Definition show (x : text) : string := string_of_list_ascii (map ascii_of_N x).
Example ex_overwritten :
  match parse_program [] [] true pf0 (lex nf nf nf (t "script S { msgbox(""a"" x ""b"") applymovement(""c"" moves(up)) }")) with
  | Ok p => Some (map (fun sc => (show (cname (snd sc)), map show (cargs (snd sc)))) (named_cmds (tops p)),
                  map (fun x => (show (xname x), show (xvalue x))) (texts p))
  | _ => None
  end = Some ([("msgbox", ["S_Text_1"]); ("applymovement", ["S_Movement_0"])],
              [("S_Text_0", "a$"); ("S_Text_1", "b$"); ("S_Text_2", "c$")]).
Proof. vm_compute. reflexivity. Qed.
End Examples.
