(* C12 / C13: constants and poryswitch selection, as one-step facts about the parser model. *)
From Coq Require Import List String Ascii ZArith NArith Lia Bool.
From Pory Require Import Lexer Ast Parser.
Import ListNotations.
Open Scope list_scope.

(* ---------- C13 ---------- *)
Lemma creplace_const consts x v : assoc consts x = Some v -> creplace consts x = v.
Proof. intros H. unfold creplace. now rewrite H. Qed.
Lemma creplace_other consts x : assoc consts x = None -> creplace consts x = x.
Proof. intros H. unfold creplace. now rewrite H. Qed.

(* redefining a constant is rejected, at the name that is redefined *)
Lemma const_redefinition_rejected fuel consts ts ts1 v :
  expect_peek IDENT ts = Some ts1 -> assoc consts (tlit (cur ts1)) = Some v ->
  exists e, parse_const fuel consts ts = Err e /\ els e = tline (cur ts1) /\ ecs e = tsb (cur ts1).
Proof. intros H1 H2. unfold parse_const. rewrite H1, H2. eexists. split; [reflexivity|]. cbn. auto. Qed.

(* a definition stores the expanded value: tokens of the value with earlier constants substituted, joined by one space *)
Fixpoint join_sp (l : list text) : text :=
  match l with [] => [] | [x] => x | x :: r => x ++ sp ++ join_sp r end.

Lemma sb_add_snoc acc x : sb_add acc x = match acc with [] => x | _ => acc ++ sp ++ x end.
Proof. reflexivity. Qed.

(* later definitions never change the value an earlier name expands to, and a fresh name is looked up first *)
Lemma assoc_cons_same {B} (l : list (text * B)) k v : assoc ((k, v) :: l) k = Some v.
Proof. cbn. unfold text_eqb. destruct (list_eq_dec N.eq_dec k k); [reflexivity|congruence]. Qed.
Lemma assoc_cons_other {B} (l : list (text * B)) k k' v : k <> k' -> assoc ((k, v) :: l) k' = assoc l k'.
Proof. intros H. cbn. unfold text_eqb. destruct (list_eq_dec N.eq_dec k k'); [congruence|reflexivity]. Qed.

Lemma parse_const_extends fuel consts ts consts' ts' :
  parse_const fuel consts ts = Ok (consts', ts') ->
  exists name v, consts' = (name, v) :: consts /\ assoc consts name = None /\ v <> [].
Proof.
  unfold parse_const. destruct (expect_peek IDENT ts) as [ts1|]; [|discriminate].
  destruct (assoc consts (tlit (cur ts1))) eqn:A; [discriminate|].
  destruct (expect_peek ASSIGN ts1) as [ts2|]; [|discriminate].
  destruct (const_value fuel consts ts2 []) as [v ts3]. destruct v as [|c v]; [discriminate|].
  intros H; inversion H; subst. eexists _, _. split; [reflexivity|]. split; [exact A|discriminate].
Qed.

(* ---------- C12: statement poryswitch ---------- *)
Section P.
Variable autovars : list (text * autovar).
Variable switches : list (text * text).
Variable env_errors : bool.
Variable parse_format : toks -> res (token * text * text * toks).
Variable consts : list (text * text).
Notation parse_pory := (parse_pory autovars switches env_errors parse_format consts).
Notation parse_pory_cases := (parse_pory_cases autovars switches env_errors parse_format consts).

(* the statements (and the inline texts / movements recorded with them) contributed by a poryswitch are those of the
   case equal to the switch value, else those of '_' ; every other case contributes nothing *)
Lemma parse_pory_selected f script bs cs ts sc sv ts1 cases ts2 :
  poryswitch_header switches env_errors ts = Ok (sc, sv, ts1) ->
  parse_pory_cases f script bs cs (cur ts1) ts1 [] = Ok (cases, ts2) ->
  parse_pory (S f) script bs cs ts =
    match assoc cases (sval sv) with
    | Some (ss, imp) => Ok (ss, imp, ts2)
    | None => match assoc cases (t "_") with
              | Some (ss, imp) => Ok (ss, imp, ts2)
              | None => if env_errors then err_tok (cur ts) "no poryswitch case found" else Ok ([], imp0, ts2)
              end
    end.
Proof. intros H1 H2. rewrite parse_pory_unfold. cbn zeta. rewrite H1. cbn beta iota. rewrite H2. reflexivity. Qed.

Lemma parse_pory_no_case_rejected f script bs cs ts sc sv ts1 cases ts2 :
  env_errors = true ->
  poryswitch_header switches env_errors ts = Ok (sc, sv, ts1) ->
  parse_pory_cases f script bs cs (cur ts1) ts1 [] = Ok (cases, ts2) ->
  assoc cases (sval sv) = None -> assoc cases (t "_") = None ->
  exists e, parse_pory (S f) script bs cs ts = Err e /\ els e = tline (cur ts).
Proof.
  intros E H1 H2 A1 A2. rewrite (parse_pory_selected _ _ _ _ _ _ _ _ _ _ H1 H2), A1, A2, E.
  eexists. split; [reflexivity|reflexivity].
Qed.
End P.
