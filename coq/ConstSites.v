(* C13, the use sites of constants (parser/parser.go: tryReplaceWithConstant and its callers).

   Every documented position applies the constant substitution  subst consts tk = creplace consts (tlit tk)  to exactly the
   source tokens of that position, token by token, and then joins the pieces; the undocumented positions record the source
   verbatim.  All theorems are about the model's own functions and read "whenever the function accepts (returns Ok), the
   recorded text is ...": they quantify over all token streams that end with their EOF token (eof_ended, which holds of
   every lexer output: ProgSrc.lex_eof, and is kept by advancing: Consume.advs_eof), all constant tables, all fuels.

   positive half
     SITE 1  command arguments                      command_arguments_site      (command_stmt; group_args_single/_comma)
     SITE 2  operand of flag()/var()/defeated()     condition_operand_site      (leaf_expr)
     SITE 3  comparison values                      comparison_value_site       (cond_var_operator, reached from SITE 2)
     SITE 4  switch operand and case values         switch_sites                (parse_switch, parse_cases)
     SITE 5  map script table entries               table_entry_site, table_entries_site   (ms_table)
     SITE 6  mart items                             mart_items_site             (parse_mart)
     (also)  the value of a const definition        const_definition_site       (parse_const: constants defined from constants)
   joins: SITES 1-4 join sp (one space between pieces); SITE 5 and const values sb_join (strings.Builder style: a space
   only once the builder is non-empty; sb_join_join: equal to join sp when no piece is empty); SITE 6 no join (one text per item).
   negative half
     command names   command_name_verbatim, identifier_statement_verbatim, names_verbatim_everywhere (every depth)
     label names     label_name_verbatim, identifier_statement_verbatim, names_verbatim_everywhere (every depth);
                     map script labels: the teName clause of entry_at
     movement steps  movement_steps_verbatim, moves_operator_verbatim   (these functions do not even take the constants)
     text content    text_content_verbatim, command_args_implicit       (idem)
   The only assumption about the abstract format() parser is that it returns a stream reached by advancing
   (parse_format_advs; true of Format.parse_format: ProgSrc.parse_format_advs). *)
From Coq Require Import List String Ascii ZArith NArith Lia Bool.
From Pory Require Import Lexer Ast Parser Consume.
Import ListNotations.
Open Scope list_scope.

(* ---------- token streams ---------- *)
Lemma is_spec ty tk : is ty tk = true <-> ttype tk = ty.
Proof. unfold is, tt_eqb. destruct (toktype_eq_dec (ttype tk) ty); split; congruence. Qed.
Lemma is_t ty tk : ttype tk = ty -> is ty tk = true.
Proof. apply is_spec. Qed.
Lemma is_f ty tk : ttype tk <> ty -> is ty tk = false.
Proof. intros H. destruct (is ty tk) eqn:E; [apply is_spec in E; contradiction|reflexivity]. Qed.
Lemma is_excl ty ty' tk : is ty tk = true -> ty <> ty' -> is ty' tk = false.
Proof. intros H N. apply is_f. apply is_spec in H. congruence. Qed.

(* one step of the cursor on a stream that ends with its EOF token *)
Lemma step_stream ts : eof_ended ts -> curis EOF ts = false -> exists r, ts = cur ts :: r /\ adv ts = r /\ eof_ended r.
Proof.
  intros [N E] C. destruct ts as [|x [|y r]]; [congruence| |].
  - exfalso. unfold curis in C. cbn in C, E. rewrite (is_t EOF x E) in C. discriminate.
  - exists (y :: r). split; [reflexivity|]. split; [reflexivity|]. split; [discriminate|exact E].
Qed.
Lemma step_nonEOF ty ts : eof_ended ts -> curis ty ts = true -> ty <> EOF -> exists r, ts = cur ts :: r /\ adv ts = r /\ eof_ended r.
Proof. intros EO C N. apply step_stream; [exact EO|]. eapply is_excl; eassumption. Qed.
Lemma peek_step ty ts ts1 : eof_ended ts -> expect_peek ty ts = Some ts1 -> ty <> EOF ->
  ts = cur ts :: ts1 /\ curis ty ts1 = true /\ eof_ended ts1.
Proof.
  intros [N E] P T. unfold expect_peek in P. destruct (peekis ty ts) eqn:PK; [|discriminate]. inversion P; subst ts1. clear P.
  destruct ts as [|x [|y r]]; [congruence| |].
  - exfalso. unfold peekis, pk in PK. cbn in PK, E. apply is_spec in PK. congruence.
  - split; [reflexivity|]. split; [exact PK|]. split; [discriminate|exact E].
Qed.
Lemma peekis_step ty ts : eof_ended ts -> peekis ty ts = true -> ty <> EOF ->
  ts = cur ts :: adv ts /\ curis ty (adv ts) = true /\ eof_ended (adv ts).
Proof. intros EO P T. apply peek_step; [exact EO| |exact T]. unfold expect_peek. rewrite P. reflexivity. Qed.

Lemma advs_split a b : advs a b -> exists pre, a = pre ++ b.
Proof.
  induction 1 as [ts|ts ts' _ [pre IH]]; [exists []; reflexivity|].
  destruct ts as [|x [|y r]]; [exists pre; exact IH|exists pre; exact IH|]. cbn [adv] in IH. exists (x :: pre). cbn [app]. now rewrite IH.
Qed.

Lemma app_advs l b : b <> [] -> advs (l ++ b) b.
Proof.
  intros N. induction l as [|a l IH]; [apply advs_refl|]. cbn [app]. apply advs_step.
  destruct (l ++ b) eqn:Y; [apply app_eq_nil in Y; destruct Y; contradiction|]. exact IH.
Qed.

(* ---------- the substitution at a token; the two ways pieces are joined ---------- *)
Section SITES.
Variable autovars : list (text * autovar).
Variable switches : list (text * text).
Variable env_errors : bool.
Variable parse_format : toks -> res (token * text * text * toks).
Variable consts : list (text * text).
Hypothesis parse_format_advs : forall ts tk v sty ts', parse_format ts = Ok (tk, v, sty, ts') -> forall a, advs a ts -> advs a ts'.

(* the text recorded for one source token at a use site: its literal, or the value of the constant it names *)
Definition subst (tk : token) : text := creplace consts (tlit tk).
(* joined "strings.Builder" style (map script tables, const values): a space is written only when the builder is non-empty *)
Definition sb_join (l : list text) : text := fold_left sb_add l [].

Lemma fold_sb_nonempty : forall l acc, acc <> [] -> fold_left sb_add l acc = acc ++ flat_map (fun x => sp ++ x) l.
Proof.
  induction l as [|x l IH]; intros acc N; cbn [fold_left flat_map]; [now rewrite app_nil_r|].
  rewrite IH; [|destruct acc; [congruence|discriminate]]. destruct acc; [congruence|]. cbn [sb_add]. now rewrite <- !app_assoc.
Qed.
Lemma join_flat : forall l x, join sp (x :: l) = x ++ flat_map (fun y => sp ++ y) l.
Proof. induction l as [|y l IH]; intros x; [cbn; now rewrite app_nil_r|]. cbn [join flat_map]. cbn [join] in IH. rewrite IH. reflexivity. Qed.
(* when no piece is empty the two joins agree *)
Lemma sb_join_join l : Forall (fun x => x <> []) l -> sb_join l = join sp l.
Proof.
  intros H. destruct l as [|x l]; [reflexivity|]. inversion H; subst. unfold sb_join. cbn [fold_left]. cbn [sb_add].
  rewrite fold_sb_nonempty by assumption. now rewrite join_flat.
Qed.

(* ---------- the loops ---------- *)
Lemma step_stream2 ts : eof_ended ts -> curis EOF (adv ts) = false -> exists r, ts = cur ts :: r /\ adv ts = r /\ eof_ended r.
Proof.
  intros [N E] C. destruct ts as [|x [|y r]]; [congruence| |].
  - exfalso. unfold curis in C. cbn in C, E. rewrite (is_t EOF x E) in C. discriminate.
  - exists (y :: r). split; [reflexivity|]. split; [reflexivity|]. split; [discriminate|exact E].
Qed.

Lemma collect_until_site : forall f stop ts parts parts' ts',
  collect_until consts f stop ts parts = Some (parts', ts') -> eof_ended ts ->
  exists seg, ts = seg ++ ts' /\ Forall (fun tk => stop tk = false) seg /\ stop (cur ts') = true /\ eof_ended ts' /\
              parts' = parts ++ map subst seg.
Proof.
  induction f as [|f IH]; intros stop ts parts parts' ts' H EO; [discriminate|]. cbn [collect_until] in H.
  destruct (stop (cur ts)) eqn:S.
  - inversion H; subst. exists []. cbn. rewrite app_nil_r. auto.
  - destruct (curis EOF (adv ts)) eqn:E1; [discriminate|].
    destruct (step_stream2 ts EO E1) as (r & E & A & EO'). rewrite A in H.
    destruct (IH _ _ _ _ _ H EO') as (seg & E2 & F & ST & EO2 & P).
    exists (cur ts :: seg). split; [rewrite E at 1; cbn [app]; now rewrite E2|]. split; [constructor; assumption|].
    split; [exact ST|]. split; [exact EO2|]. rewrite P. cbn [map]. now rewrite <- app_assoc.
Qed.

Lemma ms_collect_site : forall f stop ts acc acc' ts',
  ms_collect consts f stop ts acc = Some (acc', ts') -> eof_ended ts ->
  exists seg, ts = seg ++ ts' /\ Forall (fun tk => stop tk = false) seg /\ stop (cur ts') = true /\ eof_ended ts' /\
              acc' = fold_left sb_add (map subst seg) acc.
Proof.
  induction f as [|f IH]; intros stop ts acc acc' ts' H EO; [discriminate|]. cbn [ms_collect] in H.
  destruct (stop (cur ts)) eqn:S.
  - inversion H; subst. exists []. cbn. auto.
  - destruct (curis EOF (adv ts)) eqn:E1; [discriminate|].
    destruct (step_stream2 ts EO E1) as (r & E & A & EO'). rewrite A in H.
    destruct (IH _ _ _ _ _ H EO') as (seg & E2 & F & ST & EO2 & P).
    exists (cur ts :: seg). split; [rewrite E at 1; cbn [app]; now rewrite E2|]. split; [constructor; assumption|].
    split; [exact ST|]. split; [exact EO2|]. rewrite P. reflexivity.
Qed.

Lemma switch_operand_site : forall f orig ts parts parts' ts',
  switch_operand consts f orig ts parts = Ok (parts', ts') -> eof_ended ts ->
  exists seg, ts = seg ++ ts' /\ Forall (fun tk => is RPAREN tk = false /\ is EOF tk = false) seg /\ curis RPAREN ts' = true /\ eof_ended ts' /\
              parts' = parts ++ map subst seg.
Proof.
  induction f as [|f IH]; intros orig ts parts parts' ts' H EO; [discriminate|]. cbn [switch_operand] in H.
  destruct (curis RPAREN ts) eqn:S.
  - inversion H; subst. exists []. cbn. rewrite app_nil_r. auto.
  - destruct (curis EOF ts) eqn:E1; [discriminate|].
    destruct (step_stream ts EO E1) as (r & E & A & EO'). rewrite A in H.
    destruct (IH _ _ _ _ _ H EO') as (seg & E2 & F & ST & EO2 & P).
    exists (cur ts :: seg). split; [rewrite E at 1; cbn [app]; now rewrite E2|]. split; [constructor; [split; assumption|assumption]|].
    split; [exact ST|]. split; [exact EO2|]. rewrite P. cbn [map]. now rewrite <- app_assoc.
Qed.

(* parenthesis depth after a run of tokens, None when a ')' closes more than was opened *)
Fixpoint pdepth (d : nat) (seg : list token) : option nat :=
  match seg with
  | [] => Some d
  | tk :: r => if is LPAREN tk then pdepth (S d) r
               else if is RPAREN tk then match d with O => None | S d' => pdepth d' r end
               else pdepth d r
  end.
Definition wrap_value (parts : list text) : list text := match parts with _ :: _ :: _ => [t "("] ++ parts ++ [t ")"] | _ => parts end.

Lemma value_parts_site : forall f vtok ts depth parts r ts',
  value_parts consts f vtok ts depth parts = Ok (r, ts') -> eof_ended ts ->
  exists seg rp, ts = seg ++ rp :: ts' /\ pdepth depth seg = Some 0%nat /\ is RPAREN rp = true /\ eof_ended ts' /\
                 r = wrap_value (parts ++ map subst seg).
Proof.
  induction f as [|f IH]; intros vtok ts depth parts r ts' H EO; [discriminate|]. cbn [value_parts] in H.
  assert (GO : forall d, (if curis EOF (adv ts) then err_tok vtok "missing ')' when evaluating 'value'"
                 else value_parts consts f vtok (adv ts) d (parts ++ [creplace consts (tlit (cur ts))])) = Ok (r, ts') ->
          exists seg rp, ts = cur ts :: seg ++ rp :: ts' /\ pdepth d seg = Some 0%nat /\ is RPAREN rp = true /\ eof_ended ts' /\
                 r = wrap_value (parts ++ map subst (cur ts :: seg))).
  { intros d G. destruct (curis EOF (adv ts)) eqn:E1; [discriminate|].
    destruct (step_stream2 ts EO E1) as (r0 & E & A & EO'). rewrite A in G.
    destruct (IH _ _ _ _ _ _ G EO') as (seg & rp & E2 & PD & RP & EO2 & P).
    exists seg, rp. split; [rewrite E at 1; now rewrite E2|]. split; [exact PD|]. split; [exact RP|]. split; [exact EO2|].
    rewrite P. cbn [map]. now rewrite <- app_assoc. }
  cbv zeta in H. destruct (curis LPAREN ts) eqn:LP.
  - destruct (GO _ H) as (seg & rp & E & PD & RP & EO2 & P). exists (cur ts :: seg), rp.
    split; [exact E|]. split; [cbn [pdepth]; unfold curis in LP; now rewrite LP|]. auto.
  - destruct (curis RPAREN ts) eqn:RPc.
    + destruct depth as [|d].
      * inversion H; subst. destruct (step_nonEOF RPAREN ts EO RPc ltac:(discriminate)) as (r0 & E & A & EO').
        exists [], (cur ts). rewrite A. cbn [app map pdepth]. rewrite app_nil_r. auto.
      * destruct (GO _ H) as (seg & rp & E & PD & RP & EO2 & P). exists (cur ts :: seg), rp.
        split; [exact E|]. split; [cbn [pdepth]; unfold curis in LP, RPc; now rewrite LP, RPc|]. auto.
    + destruct (GO _ H) as (seg & rp & E & PD & RP & EO2 & P). exists (cur ts :: seg), rp.
      split; [exact E|]. split; [cbn [pdepth]; unfold curis in LP, RPc; now rewrite LP, RPc|]. auto.
Qed.

(* ---------- command arguments ---------- *)
(* The tokens between the parentheses of a command split into items: *)
Inductive aitem :=
| APlain (tk : token)             (* an ordinary token: the substitution is applied *)
| AParen (tk : token)             (* a parenthesis inside an argument: kept as written *)
| AComma (tk : token)             (* the argument separator *)
| AOpaque (tks : list token).     (* a string, a typed string, format(...) or moves(...): an empty piece (the label is patched in later) *)
Definition item_toks (it : aitem) : list token := match it with APlain tk | AParen tk | AComma tk => [tk] | AOpaque l => l end.
Definition piece (it : aitem) : text := match it with APlain tk => subst tk | AParen tk => tlit tk | _ => [] end.
Definition special (ty : toktype) : bool :=
  match ty with COMMA | LPAREN | RPAREN | EOF | FORMAT | STRING | STRINGTYPE | MOVES => true | _ => false end.
Definition item_ok (it : aitem) : Prop :=
  match it with
  | APlain tk => special (ttype tk) = false
  | AParen tk => ttype tk = LPAREN \/ ttype tk = RPAREN
  | AComma tk => ttype tk = COMMA
  | AOpaque l => exists tk r, l = tk :: r /\ (ttype tk = FORMAT \/ ttype tk = STRING \/ ttype tk = STRINGTYPE \/ ttype tk = MOVES)
  end.
Fixpoint idepth (d : nat) (its : list aitem) : option nat :=
  match its with
  | [] => Some d
  | AParen tk :: r => if is LPAREN tk then idepth (S d) r else match d with O => None | S d' => idepth d' r end
  | _ :: r => idepth d r
  end.
(* the arguments: the items are cut at the commas, the pieces of each group are joined by one space; an empty last group is no argument *)
Fixpoint group_args (parts : list text) (its : list aitem) : list text :=
  match its with
  | [] => match parts with [] => [] | _ => [join sp parts] end
  | AComma _ :: r => join sp parts :: group_args [] r
  | it :: r => group_args (parts ++ [piece it]) r
  end.

Notation command_args := (command_args switches env_errors parse_format consts).
Notation command_stmt := (command_stmt switches env_errors parse_format consts).

Lemma command_args_eof_only : forall f script cmdtok cidv x depth parts args imp r,
  is EOF x = true -> command_args f script cmdtok cidv [x] depth parts args imp <> Ok r.
Proof.
  intros [|f] script cmdtok cidv x depth parts args imp r E; [discriminate|]. cbn [Parser.command_args].
  unfold curis. cbn [cur hd]. rewrite (is_excl EOF RPAREN x E) by discriminate. cbn [andb]. rewrite E. discriminate.
Qed.

Lemma command_args_site : forall f script cmdtok cidv ts depth parts args imp args' imp' ts',
  command_args f script cmdtok cidv ts depth parts args imp = Ok (args', imp', ts') -> eof_ended ts ->
  exists its, ts = flat_map item_toks its ++ ts' /\ Forall item_ok its /\ idepth depth its = Some 0%nat /\
              curis RPAREN ts' = true /\ eof_ended ts' /\ args' = args ++ group_args parts its.
Proof.
  induction f as [|f IH]; intros script cmdtok cidv ts depth parts args imp args' imp' ts' H EO; [discriminate|].
  cbn [Parser.command_args] in H.
  (* after an opaque item whose tokens are [seg] and whose parser stopped on [ts1] (the item's last token) *)
  assert (OPQ : forall ts1 parts1 imp1, advs ts ts1 -> ts1 <> ts \/ True ->
            command_args f script cmdtok cidv (adv ts1) depth parts1 args imp1 = Ok (args', imp', ts') ->
            exists seg its', ts = seg ++ cur ts1 :: flat_map item_toks its' ++ ts' /\ Forall item_ok its' /\ idepth depth its' = Some 0%nat /\
              curis RPAREN ts' = true /\ eof_ended ts' /\ args' = args ++ group_args parts1 its').
  { intros ts1 parts1 imp1 A _ G. pose proof (advs_eof _ _ A EO) as EO1. destruct (advs_split _ _ A) as [seg E].
    destruct ts1 as [|x [|y r]]; [destruct EO1; congruence| |].
    - exfalso. destruct EO1 as [_ L]. cbn in L. cbn [adv] in G. eapply command_args_eof_only; [apply is_t; exact L|exact G].
    - cbn [adv] in G. assert (EO2 : eof_ended (y :: r)) by (destruct EO1 as [_ L]; split; [discriminate|exact L]).
      destruct (IH _ _ _ _ _ _ _ _ _ _ _ G EO2) as (its' & E2 & F & D & RP & EO3 & AR).
      exists seg, its'. split; [rewrite E; cbn [cur hd]; now rewrite E2|]. auto. }
  destruct (curis RPAREN ts && Nat.eqb depth 0) eqn:C1.
  { apply andb_prop in C1. destruct C1 as [C1 C2]. apply Nat.eqb_eq in C2. subst depth. inversion H; subst.
    exists []. cbn [flat_map app idepth group_args]. split; [reflexivity|]. split; [constructor|]. split; [reflexivity|].
    split; [exact C1|]. split; [exact EO|]. unfold flush_arg. destruct parts; [now rewrite app_nil_r|reflexivity]. }
  destruct (curis EOF ts) eqn:C2; [discriminate|].
  destruct (step_stream ts EO C2) as (r0 & E & A & EO').
  (* a one-token item *)
  assert (ONE : forall it d' parts1 args1, item_toks it = [cur ts] -> item_ok it ->
            command_args f script cmdtok cidv (adv ts) d' parts1 args1 imp = Ok (args', imp', ts') ->
            (forall its', idepth d' its' = Some 0%nat -> idepth depth (it :: its') = Some 0%nat) ->
            (forall its', args1 ++ group_args parts1 its' = args ++ group_args parts (it :: its')) ->
            exists its, ts = flat_map item_toks its ++ ts' /\ Forall item_ok its /\ idepth depth its = Some 0%nat /\
              curis RPAREN ts' = true /\ eof_ended ts' /\ args' = args ++ group_args parts its).
  { intros it d' parts1 args1 IT OK G DD GG. rewrite A in G.
    destruct (IH _ _ _ _ _ _ _ _ _ _ _ G EO') as (its' & E2 & F & D & RP & EO3 & AR).
    exists (it :: its'). split; [cbn [flat_map]; rewrite IT; rewrite E at 1; cbn [app]; now rewrite E2|].
    split; [constructor; assumption|]. split; [apply DD, D|]. split; [exact RP|]. split; [exact EO3|]. rewrite AR. apply GG. }
  destruct (curis COMMA ts) eqn:C3.
  { eapply (ONE (AComma (cur ts))); [reflexivity|apply is_spec; exact C3|exact H|intros its' D; exact D|].
    intros its'. unfold flush_arg. cbn [group_args]. now rewrite <- app_assoc. }
  destruct (curis LPAREN ts) eqn:C4.
  { eapply (ONE (AParen (cur ts))); [reflexivity|left; apply is_spec; exact C4|exact H| |intros its'; reflexivity].
    intros its' D. cbn [idepth]. unfold curis in C4. now rewrite C4. }
  destruct (curis RPAREN ts) eqn:C5.
  { eapply (ONE (AParen (cur ts))); [reflexivity|right; apply is_spec; exact C5|exact H| |intros its'; reflexivity].
    intros its' D. cbn [idepth]. unfold curis in C4. rewrite C4. cbn [andb] in C1. destruct depth as [|d]; [discriminate|exact D]. }
  (* the opaque items *)
  assert (FIN : forall seg x its', ts = seg ++ x :: flat_map item_toks its' ++ ts' ->
            (ttype (cur ts) = FORMAT \/ ttype (cur ts) = STRING \/ ttype (cur ts) = STRINGTYPE \/ ttype (cur ts) = MOVES) ->
            Forall item_ok its' -> idepth depth its' = Some 0%nat -> curis RPAREN ts' = true -> eof_ended ts' ->
            args' = args ++ group_args (parts ++ [[]]) its' ->
            exists its, ts = flat_map item_toks its ++ ts' /\ Forall item_ok its /\ idepth depth its = Some 0%nat /\
              curis RPAREN ts' = true /\ eof_ended ts' /\ args' = args ++ group_args parts its).
  { intros seg x its' E2 TY F D RP EO3 AR. exists (AOpaque (seg ++ [x]) :: its').
    split; [cbn [flat_map item_toks]; rewrite <- !app_assoc; exact E2|].
    split; [constructor; [|exact F]|].
    { cbn [item_ok]. rewrite E2 in TY. destruct seg as [|s0 seg]; cbn [app cur hd] in TY |- *; eexists _, _; (split; [reflexivity|exact TY]). }
    split; [exact D|]. split; [exact RP|]. split; [exact EO3|]. exact AR. }
  destruct (curis FORMAT ts) eqn:C6.
  { destruct (parse_format ts) as [[[[tk v] sty] ts1]| | |] eqn:PF; try discriminate.
    destruct (OPQ ts1 _ _ (parse_format_advs _ _ _ _ _ PF _ (advs_refl _)) (or_intror I) H) as (seg & its' & E2 & F & D & RP & EO3 & AR).
    eapply FIN; try eassumption. left. apply is_spec. exact C6. }
  destruct (curis STRING ts) eqn:C7.
  { destruct (OPQ ts _ _ (advs_refl _) (or_intror I) H) as (seg & its' & E2 & F & D & RP & EO3 & AR).
    eapply FIN; try eassumption. right; left. apply is_spec. exact C7. }
  destruct (curis STRINGTYPE ts) eqn:C8.
  { cbv zeta in H. destruct (negb (curis STRING (adv ts))) eqn:C9; [discriminate|].
    destruct (OPQ (adv ts) _ _ (advs_step _ _ (advs_refl _)) (or_intror I) H) as (seg & its' & E2 & F & D & RP & EO3 & AR).
    eapply FIN; try eassumption. right; right; left. apply is_spec. exact C8. }
  destruct (curis MOVES ts) eqn:C10.
  { destruct (moves_operator switches env_errors f ts) as [[mv ts1]| | |] eqn:MO; try discriminate.
    destruct (OPQ ts1 _ _ (moves_operator_advs _ _ _ _ _ _ MO _ (advs_refl _)) (or_intror I) H) as (seg & its' & E2 & F & D & RP & EO3 & AR).
    eapply FIN; try eassumption. right; right; right. apply is_spec. exact C10. }
  eapply (ONE (APlain (cur ts))); [reflexivity| |exact H|intros its' D; exact D|intros its'; reflexivity].
  cbn [item_ok]. unfold curis in *. destruct (ttype (cur ts)) eqn:TY; try reflexivity;
    match goal with K : is ?ty (cur ts) = false |- special ?ty = false => exfalso; rewrite (is_t ty (cur ts) TY) in K; discriminate end.
Qed.

Definition not_comma (it : aitem) : Prop := match it with AComma _ => False | _ => True end.
Lemma group_args_single : forall its parts, Forall not_comma its ->
  group_args parts its = match parts ++ map piece its with [] => [] | l => [join sp l] end.
Proof.
  induction its as [|it its IH]; intros parts F; cbn [map]; [rewrite app_nil_r; destruct parts; reflexivity|].
  inversion F as [|? ? N F']; subst. replace (parts ++ piece it :: map piece its) with ((parts ++ [piece it]) ++ map piece its) by now rewrite <- app_assoc.
  rewrite <- IH by exact F'. destruct it; cbn [group_args]; try reflexivity. destruct N.
Qed.
Lemma group_args_comma : forall g parts c r, Forall not_comma g ->
  group_args parts (g ++ AComma c :: r) = join sp (parts ++ map piece g) :: group_args [] r.
Proof.
  induction g as [|it g IH]; intros parts c r F; cbn [map app]; [rewrite app_nil_r; reflexivity|].
  inversion F as [|? ? N F']; subst. replace (parts ++ piece it :: map piece g) with ((parts ++ [piece it]) ++ map piece g) by now rewrite <- app_assoc.
  rewrite <- (IH _ c r F'). destruct it; cbn [group_args]; try reflexivity. destruct N.
Qed.

(* SITE 1: command arguments.  The tokens between the command's parentheses are cut into items; every ordinary token is
   recorded through the substitution, parentheses verbatim, strings/format/moves as an empty piece; pieces of one argument
   are joined by one space, arguments are separated by the commas. *)
Theorem command_arguments_site f script ts c imp ts' :
  command_stmt f script ts = Ok (c, imp, ts') -> eof_ended ts ->
  (peekis LPAREN ts = false -> cargs c = [] /\ ts' = ts) /\
  (peekis LPAREN ts = true ->
     exists lp its, ts = cur ts :: lp :: flat_map item_toks its ++ ts' /\ is LPAREN lp = true /\ curis RPAREN ts' = true /\
                    Forall item_ok its /\ idepth 0 its = Some 0%nat /\ cargs c = group_args [] its).
Proof.
  intros H EO. unfold Parser.command_stmt in H. cbv zeta in H. destruct (peekis LPAREN ts) eqn:P.
  - split; [discriminate|]. intros _.
    destruct (command_args f script (cur ts) (List.length ts) (adv (adv ts)) 0 [] [] imp0) as [[[args imp1] ts1]| | |] eqn:CA; try discriminate.
    inversion H; subst. clear H. destruct (peekis_step LPAREN ts EO P ltac:(discriminate)) as (E1 & C1 & EO1).
    destruct (step_nonEOF LPAREN (adv ts) EO1 C1 ltac:(discriminate)) as (r & E2 & A2 & EO2). rewrite A2 in CA.
    destruct (command_args_site _ _ _ _ _ _ _ _ _ _ _ _ CA EO2) as (its & E3 & F & D & RP & _ & AR).
    exists (cur (adv ts)), its. split; [rewrite E1 at 1; rewrite E2 at 1; now rewrite E3|]. split; [exact C1|]. split; [exact RP|].
    split; [exact F|]. split; [exact D|]. cbn [cargs]. exact AR.
  - split; [|discriminate]. intros _. inversion H; subst. split; reflexivity.
Qed.

(* NEGATIVE 1: the command name is the literal of the command's own token *)
Theorem command_name_verbatim f script ts c imp ts' :
  command_stmt f script ts = Ok (c, imp, ts') -> cname c = tlit (cur ts) /\ ctok c = cur ts.
Proof.
  intros H. unfold Parser.command_stmt in H. cbv zeta in H. destruct (peekis LPAREN ts).
  - destruct (command_args f script (cur ts) (List.length ts) (adv (adv ts)) 0 [] [] imp0) as [[[args imp1] ts1]| | |]; try discriminate.
    inversion H; subst. split; reflexivity.
  - inversion H; subst. split; reflexivity.
Qed.

(* SITE 3: comparison values of var().  Either there is no comparison (implicit "!= 0"), or the tokens after the operator up
   to the next ')', '&&' or '||' are substituted one by one and joined by one space, or the tokens inside value( ... ) are. *)
Definition cmp_stop (tk : token) : bool := is RPAREN tk || is AND tk || is OR tk.
Theorem comparison_value_site f ts o v strict ts' :
  cond_var_operator consts f ts = Ok (o, v, strict, ts') -> eof_ended ts ->
  (is_cmp_tok (cur ts) = None /\ o = ONe /\ v = t "0" /\ strict = false /\ ts' = ts) \/
  (is_cmp_tok (cur ts) = Some o /\ strict = false /\
     exists seg, ts = cur ts :: seg ++ ts' /\ Forall (fun tk => cmp_stop tk = false) seg /\ cmp_stop (cur ts') = true /\
                 v = join sp (map subst seg)) \/
  (is_cmp_tok (cur ts) = Some o /\ strict = true /\
     exists vt lp seg rp, ts = cur ts :: vt :: lp :: seg ++ rp :: ts' /\ is VALUE vt = true /\ is LPAREN lp = true /\ is RPAREN rp = true /\
                 pdepth 0 seg = Some 0%nat /\ v = join sp (wrap_value (map subst seg))).
Proof.
  intros H EO. unfold cond_var_operator in H. destruct (is_cmp_tok (cur ts)) as [o0|] eqn:CT.
  2:{ inversion H; subst. left. auto. }
  right. cbv zeta in H.
  assert (NE : curis EOF ts = false).
  { unfold curis. apply is_f. unfold is_cmp_tok in CT. intros X. rewrite X in CT. discriminate. }
  destruct (step_stream ts EO NE) as (r & E & A & EO1). rewrite A in H.
  destruct (curis RPAREN r) eqn:C1; [discriminate|].
  destruct (curis VALUE r) eqn:C2.
  - right. destruct (expect_peek LPAREN r) as [ts2|] eqn:P; [|discriminate].
    destruct (peek_step _ _ _ EO1 P ltac:(discriminate)) as (E1 & C3 & EO2).
    destruct (step_nonEOF LPAREN ts2 EO2 C3 ltac:(discriminate)) as (r2 & E2 & A2 & EO3). rewrite A2 in H.
    destruct (value_parts consts f (cur r) r2 0 []) as [[parts ts3]| | |] eqn:VP; try discriminate. injection H as Ho Hv Hs Ht; subst o v strict ts'.
    destruct (value_parts_site _ _ _ _ _ _ _ VP EO3) as (seg & rp & E3 & PD & RP & _ & PR).
    split; [reflexivity|]. split; [reflexivity|]. exists (cur r), (cur ts2), seg, rp.
    split; [rewrite E at 1; rewrite E1 at 1; rewrite E2 at 1; now rewrite E3|]. split; [exact C2|]. split; [exact C3|]. split; [exact RP|].
    split; [exact PD|]. rewrite PR. reflexivity.
  - left. destruct (collect_until consts f (fun tk => is RPAREN tk || is AND tk || is OR tk) r []) as [[parts ts2]|] eqn:CU; [|discriminate].
    injection H as Ho Hv Hs Ht; subst o v strict ts'. destruct (collect_until_site _ _ _ _ _ _ CU EO1) as (seg & E1 & F & ST & _ & PR).
    split; [reflexivity|]. split; [reflexivity|]. exists seg. split; [rewrite E at 1; now rewrite E1|].
    split; [exact F|split; [exact ST|rewrite PR; reflexivity]].
Qed.

Notation leaf_expr := (leaf_expr autovars switches env_errors parse_format consts).
Definition op_kind (op : token) : lkind := if is VAR op then KVar else if is FLAG op then KFlag else KDefeated.

(* SITE 2: the operand of flag( ) / var( ) / defeated( ).  The tokens between the operator's '(' and the next ')' are
   substituted one by one and joined by one space.  (A leaf made from an AutoVar command has lpre = Some _ : its operand is a
   command argument, see SITE 1.)  The comparison that follows is parsed on the rest of the stream: see SITE 3. *)
Theorem condition_operand_site f script ts0 l imp ts' :
  leaf_expr f script ts0 = Ok (l, imp, ts') -> eof_ended ts0 -> lpre l = None ->
  exists pre op lp seg rp rest,
    ts0 = pre ++ op :: lp :: seg ++ rp :: rest /\
    (pre = [cur ts0] /\ peekis NOT ts0 = false \/ exists nt, pre = [cur ts0; nt] /\ is NOT nt = true /\ peekis NOT ts0 = true) /\
    (ttype op = VAR \/ ttype op = FLAG \/ ttype op = DEFEATED) /\ lk l = op_kind op /\
    is LPAREN lp = true /\ seg <> [] /\ Forall (fun tk => is RPAREN tk = false) seg /\ is RPAREN rp = true /\
    loperand l = join sp (map subst seg) /\
    (peekis NOT ts0 = true -> lop l = OEq /\ lvalue l = match lk l with KVar => t "0" | _ => t "FALSE" end /\ ts' = rest) /\
    (peekis NOT ts0 = false ->
       match lk l with
       | KVar => cond_var_operator consts f rest = Ok (lop l, lvalue l, lstrict l, ts')
       | _ => exists nm, cond_flag_operator rest nm = Ok (lop l, lvalue l, ts')
       end).
Proof.
  intros H EO LP. unfold Parser.leaf_expr in H.
  remember (if peekis NOT ts0 then (true, adv ts0) else (false, ts0)) as p eqn:Ep. destruct p as [used_not ts].
  assert (EOts : eof_ended ts).
  { destruct (peekis NOT ts0); inversion Ep; subst; [eapply advs_eof; [apply advs_step, advs_refl|exact EO]|exact EO]. }
  cbv zeta in H.
  destruct (negb (peekis VAR ts) && negb (peek_is_autovar autovars ts) && negb (peekis FLAG ts) && negb (peekis DEFEATED ts)) eqn:G; [discriminate|].
  destruct (negb (peek_is_autovar autovars ts)) eqn:IA.
  2:{ exfalso. destruct (var_or_autovar autovars switches env_errors parse_format consts f script ts) as [[[r imp1] ts1]| | |]; try discriminate.
      destruct r as [[v c]|]; [|discriminate]. cbv beta iota zeta in H. destruct used_not.
      - injection H as Hl _ _. subst l. discriminate LP.
      - destruct (cond_var_operator consts f (adv ts1)) as [[[[o v0] st] ts5]| | |]; try discriminate. injection H as Hl _ _. subst l. discriminate LP. }
  rewrite andb_true_r in G.
  assert (OP : ts = cur ts :: adv ts /\ eof_ended (adv ts) /\
               (ttype (cur (adv ts)) = VAR \/ ttype (cur (adv ts)) = FLAG \/ ttype (cur (adv ts)) = DEFEATED)).
  { destruct (peekis VAR ts) eqn:P1.
    { destruct (peekis_step VAR ts EOts P1 ltac:(discriminate)) as (E1 & C1 & EO1). split; [exact E1|]. split; [exact EO1|]. left. apply is_spec. exact C1. }
    destruct (peekis FLAG ts) eqn:P2.
    { destruct (peekis_step FLAG ts EOts P2 ltac:(discriminate)) as (E1 & C1 & EO1). split; [exact E1|]. split; [exact EO1|]. right; left. apply is_spec. exact C1. }
    destruct (peekis DEFEATED ts) eqn:P3; [|discriminate].
    destruct (peekis_step DEFEATED ts EOts P3 ltac:(discriminate)) as (E1 & C1 & EO1). split; [exact E1|]. split; [exact EO1|]. right; right. apply is_spec. exact C1. }
  destruct OP as (E1 & EO1 & KT).
  destruct (expect_peek LPAREN (adv ts)) as [ts2|] eqn:P1; [|discriminate].
  destruct (peek_step _ _ _ EO1 P1 ltac:(discriminate)) as (E2 & C2 & EO2).
  destruct (peekis RPAREN ts2) eqn:PR; [discriminate|].
  assert (E3 : ts2 = cur ts2 :: adv ts2 /\ eof_ended (adv ts2)).
  { destruct (step_nonEOF LPAREN ts2 EO2 C2 ltac:(discriminate)) as (r & E & A & EOr). rewrite A. auto. }
  destruct E3 as [E3 EO3].
  destruct (collect_until consts f (is RPAREN) (adv ts2) []) as [[parts ts4]|] eqn:CU; [|discriminate].
  destruct (collect_until_site _ _ _ _ _ _ CU EO3) as (seg & E4 & F & ST & EO4 & PA).
  destruct (step_nonEOF RPAREN ts4 EO4 ST ltac:(discriminate)) as (rest & E5 & A5 & EO5).
  cbv beta iota zeta in H. rewrite A5 in H.
  assert (STRUCT : ts = cur ts :: cur (adv ts) :: cur ts2 :: seg ++ cur ts4 :: rest).
  { rewrite E1 at 1. rewrite E2 at 1. rewrite E3 at 1. rewrite E4 at 1. now rewrite E5 at 1. }
  assert (SEGNE : seg <> []).
  { intros X. subst seg. cbn [app] in E4. rewrite <- E4 in ST. unfold peekis in PR. rewrite E3 in PR. unfold pk in PR.
    destruct (adv ts2) as [|y r]; [destruct EO3; congruence|]. cbn in PR, ST. congruence. }
  set (pre := if used_not then [cur ts0; cur ts] else [cur ts0]).
  assert (PRE : ts0 = pre ++ cur (adv ts) :: cur ts2 :: seg ++ cur ts4 :: rest /\
          (pre = [cur ts0] /\ peekis NOT ts0 = false /\ used_not = false \/
           exists nt, pre = [cur ts0; nt] /\ is NOT nt = true /\ peekis NOT ts0 = true /\ used_not = true)).
  { destruct (peekis NOT ts0) eqn:PN; injection Ep as -> ->.
    - destruct (peekis_step NOT ts0 EO PN ltac:(discriminate)) as (Ea & Ca & _). split.
      + rewrite Ea at 1. unfold pre. cbn [app]. now rewrite STRUCT at 1.
      + right. exists (cur (adv ts0)). auto.
    - split; [unfold pre; cbn [app]; exact STRUCT|]. left. auto. }
  destruct PRE as [PRE1 PRE2].
  exists pre, (cur (adv ts)), (cur ts2), seg, (cur ts4), rest.
  split; [exact PRE1|]. split; [destruct PRE2 as [(A & B & _)|(nt & A & B & C & _)]; [left; auto|right; exists nt; auto]|].
  split; [exact KT|].
  assert (LK : lk l = op_kind (cur (adv ts)) /\ loperand l = join sp (map subst seg) /\
          (used_not = true -> lop l = OEq /\ lvalue l = match lk l with KVar => t "0" | _ => t "FALSE" end /\ ts' = rest) /\
          (used_not = false -> match lk l with
             | KVar => cond_var_operator consts f rest = Ok (lop l, lvalue l, lstrict l, ts')
             | _ => exists nm, cond_flag_operator rest nm = Ok (lop l, lvalue l, ts')
             end)).
  { rewrite PA in H. cbn [app] in H. fold (op_kind (cur (adv ts))) in H. destruct used_not.
    - injection H as Hl _ Ht. subst l ts'. cbn [lk loperand lop lvalue]. split; [reflexivity|]. split; [reflexivity|]. split; [auto|discriminate].
    - destruct (op_kind (cur (adv ts))) eqn:K.
      + destruct (cond_flag_operator rest "flag") as [[[o v] ts5]| | |] eqn:CF; try discriminate. injection H as Hl _ Ht. subst l ts'.
        cbn [lk loperand lop lvalue lstrict]. split; [reflexivity|]. split; [reflexivity|]. split; [discriminate|]. intros _. eexists; exact CF.
      + destruct (cond_var_operator consts f rest) as [[[[o v] st] ts5]| | |] eqn:CF; try discriminate. injection H as Hl _ Ht. subst l ts'.
        cbn [lk loperand lop lvalue lstrict]. split; [reflexivity|]. split; [reflexivity|]. split; [discriminate|]. intros _. reflexivity.
      + destruct (cond_flag_operator rest "defeated") as [[[o v] ts5]| | |] eqn:CF; try discriminate. injection H as Hl _ Ht. subst l ts'.
        cbn [lk loperand lop lvalue lstrict]. split; [reflexivity|]. split; [reflexivity|]. split; [discriminate|]. intros _. eexists; exact CF. }
  destruct LK as (L1 & L2 & L3 & L4).
  split; [exact L1|]. split; [exact C2|]. split; [exact SEGNE|]. split; [exact F|]. split; [exact ST|]. split; [exact L2|].
  destruct PRE2 as [(_ & B & U)|(nt & _ & _ & B & U)]; rewrite B; (split; [intros X; try discriminate X; apply L3, U|intros X; try discriminate X; apply L4, U]).
Qed.

(* ---------- switch ---------- *)
Notation parse_switch := (parse_switch autovars switches env_errors parse_format consts).
Notation parse_cases := (parse_cases autovars switches env_errors parse_format consts).
Notation parse_switch_block := (parse_switch_block autovars switches env_errors parse_format consts).
Notation parse_block := (parse_block autovars switches env_errors parse_format consts).
Notation parse_stmt := (parse_stmt autovars switches env_errors parse_format consts).

Lemma parse_switch_block_suffix f script bs cs start ts acc imp ss imp' ts' :
  parse_switch_block f script bs cs start ts acc imp = Ok (ss, imp', ts') -> advs ts ts'.
Proof.
  intros H. destruct (adv_all autovars switches parse_format consts parse_format_advs env_errors f) as (_ & _ & I & _).
  eapply I; [exact H|apply advs_refl].
Qed.
Lemma parse_block_suffix f script bs cs start ts acc imp ss imp' ts' :
  parse_block f script bs cs start ts acc imp = Ok (ss, imp', ts') -> advs ts ts'.
Proof.
  intros H. destruct (adv_all autovars switches parse_format consts parse_format_advs env_errors f) as (_ & I & _).
  eapply I; [exact H|apply advs_refl].
Qed.

(* a case of a switch read from the stream [ts]: either the default case, or its value is the substitution applied to the
   tokens between a 'case' keyword and the next ':' of [ts], joined by one space *)
Definition case_from (ts : toks) (c : scase) : Prop :=
  Datatypes.fst (Datatypes.fst (Datatypes.fst c)) = true \/
  exists pre ck seg post, ts = pre ++ ck :: seg ++ post /\ is CASE ck = true /\ Forall (fun tk => is COLON tk = false) seg /\
                          curis COLON post = true /\ Datatypes.snd (Datatypes.fst (Datatypes.fst c)) = join sp (map subst seg).
Lemma case_from_app a b c : case_from b c -> case_from (a ++ b) c.
Proof.
  intros [D|(pre & ck & seg & post & E & R)]; [left; exact D|]. right. exists (a ++ pre), ck, seg, post.
  split; [rewrite E; now rewrite <- app_assoc|exact R].
Qed.

Lemma parse_cases_site : forall f script bs cs brace ts acc seen hasdef imp cases imp' ts',
  parse_cases f script bs cs brace ts acc seen hasdef imp = Ok (cases, imp', ts') -> eof_ended ts ->
  exists news, cases = acc ++ news /\ Forall (case_from ts) news.
Proof.
  induction f as [|f IH]; intros script bs cs brace ts acc seen hasdef imp cases imp' ts' H EO; [discriminate|].
  rewrite parse_cases_unfold in H.
  destruct (curis RBRACE ts) eqn:C1.
  { injection H as <- _ _. exists []. split; [now rewrite app_nil_r|constructor]. }
  destruct (curis CASE ts) eqn:C2.
  { cbv zeta in H. destruct (step_nonEOF CASE ts EO C2 ltac:(discriminate)) as (r & E & A & EO1). rewrite A in H.
    destruct (collect_until consts f (is COLON) r []) as [[parts ts2]|] eqn:CU; [|discriminate].
    destruct (collect_until_site _ _ _ _ _ _ CU EO1) as (seg & E2 & F & ST & EO2 & PA).
    destruct (existsb (text_eqb (join sp parts)) seen); [discriminate|].
    destruct (parse_switch_block f script bs cs brace (adv ts2) [] imp0) as [[[b imp1] ts3]| | |] eqn:SB; try discriminate.
    pose proof (parse_switch_block_suffix _ _ _ _ _ _ _ _ _ _ _ SB) as A3.
    assert (A4 : advs ts2 ts3) by (apply advs_step; exact A3).
    destruct (advs_split _ _ A4) as [pre3 E3]. pose proof (advs_eof _ _ A4 EO2) as EO3.
    destruct (IH _ _ _ _ _ _ _ _ _ _ _ _ H EO3) as (news & EC & FC).
    exists ((false, join sp parts, tline (cur r), b) :: news). split; [rewrite EC; now rewrite <- app_assoc|].
    assert (TS : ts = (cur ts :: seg ++ pre3) ++ ts3) by (rewrite E at 1; rewrite E2, E3; cbn [app]; now rewrite <- app_assoc).
    constructor.
    - right. exists [], (cur ts), seg, ts2. cbn [app Datatypes.fst Datatypes.snd]. split; [rewrite E at 1; now rewrite E2|].
      split; [exact C2|]. split; [exact F|]. split; [exact ST|]. rewrite PA. reflexivity.
    - rewrite TS. eapply Forall_impl; [|exact FC]. intros c. apply case_from_app. }
  destruct (curis DEFAULT ts) eqn:C3; [|discriminate].
  destruct hasdef; [discriminate|].
  destruct (expect_peek COLON ts) as [ts1|] eqn:P; [|discriminate].
  destruct (peek_step _ _ _ EO P ltac:(discriminate)) as (E1 & C4 & EO1).
  destruct (parse_switch_block f script bs cs brace (adv ts1) [] imp0) as [[[b imp1] ts2]| | |] eqn:SB; try discriminate.
  pose proof (parse_switch_block_suffix _ _ _ _ _ _ _ _ _ _ _ SB) as A3.
  assert (A4 : advs ts1 ts2) by (apply advs_step; exact A3).
  destruct (advs_split _ _ A4) as [pre3 E3]. pose proof (advs_eof _ _ A4 EO1) as EO3.
  destruct (IH _ _ _ _ _ _ _ _ _ _ _ _ H EO3) as (news & EC & FC).
  exists ((true, [], 0%Z, b) :: news). split; [rewrite EC; now rewrite <- app_assoc|].
  constructor; [left; reflexivity|].
  assert (TS : ts = (cur ts :: pre3) ++ ts2) by (rewrite E1 at 1; rewrite E3; reflexivity).
  rewrite TS. eapply Forall_impl; [|exact FC]. intros c. apply case_from_app.
Qed.

(* SITE 4: switch operands and case values.  A switch statement parses to an optional AutoVar preamble and one SSwitch; each
   case value is the substitution applied to the tokens between 'case' and ':' ; for switch (var( ... )) the operand is the
   substitution applied to the tokens between "var(" and the next ')' ; both joined by one space. *)
Theorem switch_sites f script bs cs ts ss imp ts' :
  parse_switch f script bs cs ts = Ok (ss, imp, ts') -> eof_ended ts ->
  exists pre tg operand oline cases,
    ss = pre ++ [SSwitch tg operand oline cases] /\ Forall (case_from ts) cases /\
    (peekis VAR (adv ts) = true ->
       pre = [] /\
       exists lp vr lp2 seg rp rest,
         ts = cur ts :: lp :: vr :: lp2 :: seg ++ rp :: rest /\ is LPAREN lp = true /\ is VAR vr = true /\ is LPAREN lp2 = true /\
         Forall (fun tk => is RPAREN tk = false /\ is EOF tk = false) seg /\ is RPAREN rp = true /\
         operand = join sp (map subst seg)).
Proof.
  destruct f as [|f]; [discriminate|]. intros H EO. rewrite parse_switch_unfold in H. cbv zeta in H.
  destruct (expect_peek LPAREN ts) as [ts1|] eqn:P1; [|discriminate].
  destruct (peek_step _ _ _ EO P1 ltac:(discriminate)) as (E1 & C1 & EO1).
  pose proof (expect_peek_some _ _ _ P1) as A1.
  destruct (var_or_autovar autovars switches env_errors parse_format consts f script ts1) as [[[r imp1] ts2]| | |] eqn:VA; try discriminate.
  assert (A2 : advs ts1 ts2) by (eapply var_or_autovar_advs; [exact parse_format_advs|exact VA|apply advs_refl]).
  pose proof (advs_eof _ _ A2 EO1) as EO2.
  match type of H with (do _ <- ?X ; _) = _ => destruct X as [[[[operand oline] pre] ts3]| | |] eqn:OP; try discriminate end.
  destruct (expect_peek LBRACE ts3) as [ts4|] eqn:P2; [|discriminate].
  destruct (parse_cases f script (List.length ts :: bs) cs (cur ts4) (adv ts4) [] [] false imp0) as [[[cases imp2] ts5]| | |] eqn:PC; try discriminate.
  assert (A3 : advs ts ts3).
  { apply advs_step. rewrite <- A1. eapply advs_trans; [exact A2|]. destruct r as [[v c]|].
    - destruct (expect_peek RPAREN ts2) as [tsx|] eqn:P3; [|discriminate]. injection OP as _ _ _ <-. rewrite (expect_peek_some _ _ _ P3). apply advs_step, advs_refl.
    - destruct (switch_operand consts f (cur ts) (adv ts2) []) as [[parts tsx]| | |] eqn:SO; try discriminate. injection OP as _ _ _ <-.
      apply advs_step. apply advs_adv_r. eapply switch_operand_advs; [exact SO|apply advs_refl]. }
  assert (A4 : advs ts (adv ts4)) by (eapply advs_trans; [exact A3|]; rewrite (expect_peek_some _ _ _ P2); apply advs_step, advs_step, advs_refl).
  destruct (advs_split _ _ A4) as [pre4 E4]. pose proof (advs_eof _ _ A4 EO) as EO4.
  destruct (parse_cases_site _ _ _ _ _ _ _ _ _ _ _ _ _ PC EO4) as (news & EC & FC). cbn [app] in EC. subst news.
  assert (SS : ss = match pre with Some c => [SCmd c] | None => [] end ++ [SSwitch (List.length ts) operand oline cases]).
  { destruct cases; [discriminate|]. injection H as <- _ _. reflexivity. }
  exists (match pre with Some c => [SCmd c] | None => [] end), (List.length ts), operand, oline, cases.
  split; [exact SS|]. split; [rewrite E4; eapply Forall_impl; [|exact FC]; intros c; apply case_from_app|].
  intros PV. rewrite <- A1 in PV. unfold Parser.var_or_autovar in VA. rewrite PV in VA. cbv zeta in VA.
  destruct (peekis_step VAR ts1 EO1 PV ltac:(discriminate)) as (Ea & Ca & EOa).
  destruct (expect_peek LPAREN (adv ts1)) as [tsb|] eqn:P3; [|discriminate]. injection VA as <- _ <-.
  destruct (peek_step _ _ _ EOa P3 ltac:(discriminate)) as (Eb & Cb & EOb).
  destruct (step_nonEOF LPAREN tsb EOb Cb ltac:(discriminate)) as (rb & Ec & Ab & EOc). rewrite Ab in OP.
  destruct (switch_operand consts f (cur ts) rb []) as [[parts tsx]| | |] eqn:SO; try discriminate. injection OP as <- _ <- _.
  destruct (switch_operand_site _ _ _ _ _ _ SO EOc) as (seg & Ed & F & ST & EOd & PA).
  destruct (step_nonEOF RPAREN tsx EOd ST ltac:(discriminate)) as (rest & Ee & _ & _).
  split; [reflexivity|]. exists (cur ts1), (cur (adv ts1)), (cur tsb), seg, (cur tsx), rest.
  split; [rewrite E1 at 1; rewrite Ea at 1; rewrite Eb at 1; rewrite Ec at 1; rewrite Ed; now rewrite Ee at 1|].
  split; [exact C1|]. split; [exact Ca|]. split; [exact Cb|]. split; [exact F|]. split; [exact ST|]. rewrite PA. reflexivity.
Qed.

(* ---------- map script tables ---------- *)
Notation ms_table := (ms_table autovars switches env_errors parse_format consts).

(* the entry [e] is read from the front of [ts], up to [post] (which starts with the ':' or '{' of the entry) *)
Definition entry_at (ts : toks) (e : tableentry) (post : toks) : Prop :=
  exists cseg comma vseg,
    ts = cseg ++ comma :: vseg ++ post /\ is COMMA comma = true /\
    Forall (fun tk => is COMMA tk = false) cseg /\ Forall (fun tk => is COLON tk = false /\ is LBRACE tk = false) vseg /\
    (curis COLON post = true \/ curis LBRACE post = true) /\
    teCond e = cur ts /\ teCondLit e = sb_join (map subst cseg) /\ teCmp e = sb_join (map subst vseg) /\
    (curis COLON post = true -> teName e = tlit (pk 1 post) /\ teScript e = None).

(* SITE 5: map script table entries.  One entry: the tokens up to the first ',' are the var expression, the tokens after it
   up to the first ':' or '{' are the value expression; both are substituted token by token and joined builder-style
   (sb_join: one space between pieces, none before the first non-empty piece).  The label after ':' is verbatim. *)
Theorem table_entry_site f mapname tyname ts i acc imp r :
  ms_table (S f) mapname tyname ts i acc imp = Ok r -> eof_ended ts -> curis RBRACKET ts = false ->
  exists e post imp1 ts1,
    entry_at ts e post /\ advs post ts1 /\ post <> ts1 /\ ms_table f mapname tyname ts1 (S i) (acc ++ [e]) imp1 = Ok r.
Proof.
  intros H EO NB. cbn [Parser.ms_table] in H. rewrite NB in H. cbv zeta in H.
  destruct (ms_collect consts f (is COMMA) ts []) as [[cond ts1]|] eqn:M1; [|discriminate].
  destruct (ms_collect_site _ _ _ _ _ _ M1 EO) as (cseg & E1 & F1 & ST1 & EO1 & PA1).
  destruct cond as [|c0 cond']; [discriminate|].
  destruct (step_nonEOF COMMA ts1 EO1 ST1 ltac:(discriminate)) as (r2 & E2 & A2 & EO2). rewrite A2 in H.
  destruct (ms_collect consts f (fun tk => is COLON tk || is LBRACE tk) r2 []) as [[cmp ts3]|] eqn:M2; [|discriminate].
  destruct (ms_collect_site _ _ _ _ _ _ M2 EO2) as (vseg & E3 & F3 & ST3 & EO3 & PA3).
  destruct cmp as [|c1 cmp']; [discriminate|].
  assert (TS : ts = cseg ++ cur ts1 :: vseg ++ ts3) by (rewrite E1 at 1; rewrite E2 at 1; now rewrite E3).
  assert (F3' : Forall (fun tk => is COLON tk = false /\ is LBRACE tk = false) vseg).
  { eapply Forall_impl; [|exact F3]. intros a Ha. apply orb_false_elim in Ha. exact Ha. }
  assert (ST3' : curis COLON ts3 = true \/ curis LBRACE ts3 = true) by (apply orb_prop in ST3; exact ST3).
  destruct (curis COLON ts3) eqn:CC.
  - destruct (expect_peek IDENT ts3) as [ts4|] eqn:P; [|discriminate].
    destruct (peek_step _ _ _ EO3 P ltac:(discriminate)) as (E4 & C4 & EO4).
    eexists _, ts3, _, (adv ts4). split; [|split; [|split; [|exact H]]].
    + exists cseg, (cur ts1), vseg. cbn [teCond teCondLit teCmp teName teScript].
      split; [exact TS|]. split; [exact ST1|]. split; [exact F1|]. split; [exact F3'|]. split; [left; exact CC|].
      split; [reflexivity|]. split; [exact PA1|]. split; [exact PA3|]. intros _. split; [|reflexivity].
      rewrite E4. unfold pk. destruct ts4 as [|x r4]; [destruct EO4; congruence|reflexivity].
    + rewrite (expect_peek_some _ _ _ P). apply advs_step, advs_step, advs_refl.
    + intros X. pose proof (f_equal (@List.length token) X) as L. rewrite E4 in L at 1. cbn [List.length] in L. pose proof (adv_len ts4). lia.
  - destruct ST3' as [X|CB]; [discriminate|].
    destruct (step_nonEOF LBRACE ts3 EO3 CB ltac:(discriminate)) as (r4 & E4 & A4 & EO4). rewrite A4 in H.
    match type of H with (do _ <- ?X ; _) = _ => destruct X as [[[b imp2] ts5]| | |] eqn:PB; try discriminate end.
    pose proof (parse_block_suffix _ _ _ _ _ _ _ _ _ _ _ PB) as A5.
    eexists _, ts3, _, (adv ts5). split; [|split; [|split; [|exact H]]].
    + exists cseg, (cur ts1), vseg. cbn [teCond teCondLit teCmp teName teScript].
      split; [exact TS|]. split; [exact ST1|]. split; [exact F1|]. split; [exact F3'|]. split; [right; exact CB|].
      split; [reflexivity|]. split; [exact PA1|]. split; [exact PA3|]. intros X; rewrite CC in X; discriminate X.
    + apply advs_step. rewrite A4. apply advs_adv_r. exact A5.
    + intros X. pose proof (f_equal (@List.length token) X) as L. rewrite E4 in L at 1. cbn [List.length] in L.
      pose proof (advs_len _ _ A5). pose proof (adv_len ts5). lia.
Qed.

Definition entry_from (ts : toks) (e : tableentry) : Prop := exists pre mid post, ts = pre ++ mid /\ entry_at mid e post.
(* all the entries of a table *)
Theorem table_entries_site : forall f mapname tyname ts i acc imp es imp' ts',
  ms_table f mapname tyname ts i acc imp = Ok (es, imp', ts') -> eof_ended ts ->
  exists news, es = acc ++ news /\ Forall (entry_from ts) news.
Proof.
  induction f as [|f IH]; intros mapname tyname ts i acc imp es imp' ts' H EO; [discriminate|].
  destruct (curis RBRACKET ts) eqn:NB.
  { cbn [Parser.ms_table] in H. rewrite NB in H. injection H as <- _ _. exists []. split; [now rewrite app_nil_r|constructor]. }
  destruct (table_entry_site _ _ _ _ _ _ _ _ H EO NB) as (e & post & imp1 & ts1 & EA & A1 & _ & H1).
  pose proof (advs_eof _ _ A1) as EO1.
  assert (E2 : exists p, ts = p ++ ts1).
  { destruct EA as (cseg & comma & vseg & E & _). destruct (advs_split _ _ A1) as [p1 E1]. rewrite E1 in E.
    exists (cseg ++ comma :: vseg ++ p1). rewrite E. rewrite <- !app_assoc. cbn [app]. now rewrite <- app_assoc. }
  destruct E2 as [p E2].
  assert (EOp : eof_ended post).
  { destruct EA as (cseg & comma & vseg & E & _ & _ & _ & [C|C] & _); destruct EO as [_ L]; rewrite E in L.
    all: assert (NP : post <> []) by (intros X; subst post; cbn in C; discriminate C).
    all: split; [exact NP|]. all: rewrite <- L. all: clear -NP.
    all: rewrite app_comm_cons, app_assoc; generalize ((cseg ++ comma :: vseg)); intros l; induction l as [|a l IHl]; [reflexivity|].
    all: cbn [app]; destruct (l ++ post) eqn:Y; [apply app_eq_nil in Y; destruct Y; contradiction|]; exact IHl. }
  specialize (EO1 EOp).
  destruct (IH _ _ _ _ _ _ _ _ _ H1 EO1) as (news & EC & FC).
  exists (e :: news). split; [rewrite EC; now rewrite <- app_assoc|]. constructor.
  - exists [], ts, post. split; [reflexivity|exact EA].
  - eapply Forall_impl; [|exact FC]. intros e0 (pre & mid & post0 & E0 & EA0). exists (p ++ pre), mid, post0.
    split; [rewrite E2, E0; now rewrite <- app_assoc|exact EA0].
Qed.

(* ---------- movement / mart lists ---------- *)
Notation list_value := (list_value switches env_errors).
Notation list_cases := (list_cases switches env_errors).

Definition src_ident (ts : toks) (tk : token) : Prop := In tk ts /\ is IDENT tk = true.
Lemma src_ident_app a b tk : src_ident b tk -> src_ident (a ++ b) tk.
Proof. intros [I T]. split; [apply in_or_app; right; exact I|exact T]. Qed.
Lemma src_ident_advs a b tk : advs a b -> src_ident b tk -> src_ident a tk.
Proof. intros A S. destruct (advs_split _ _ A) as [pre ->]. apply src_ident_app, S. Qed.
Lemma cur_in ty ts : curis ty ts = true -> ty <> EOF -> In (cur ts) ts.
Proof. intros C N. destruct ts as [|x r]; [exfalso; cbn in C; apply is_spec in C; cbn in C; congruence|left; reflexivity]. Qed.
Lemma assoc_in {B} : forall (l : list (text * B)) k v, assoc l k = Some v -> exists k', In (k', v) l.
Proof.
  induction l as [|[a b] l IH]; intros k v H; [discriminate|]. cbn [assoc] in H. destruct (text_eqb a k).
  - injection H as <-. exists a. left; reflexivity.
  - destruct (IH _ _ H) as [k' I]. exists k'. right; exact I.
Qed.
Lemma repeat_tok_all n tk x : In x (repeat_tok n tk) -> x = tk.
Proof. induction n as [|n IH]; cbn; [tauto|]. intros [E|I]; [now subst|auto]. Qed.

(* every token a movement / mart list records is an identifier token of the stream it was read from *)
Lemma list_src : forall f,
  (forall k multi ts acc r ts' base, list_value f k multi ts acc = Ok (r, ts') -> advs base ts ->
     exists news, r = acc ++ news /\ Forall (src_ident base) news) /\
  (forall k start ts acc r ts' base, list_cases f k start ts acc = Ok (r, ts') -> advs base ts ->
     Forall (fun c => Forall (src_ident base) (Datatypes.snd c)) acc -> Forall (fun c => Forall (src_ident base) (Datatypes.snd c)) r).
Proof.
  induction f as [|f [IH1 IH2]]; [split; intros; discriminate|]. split.
  - intros k multi ts acc r ts' base H AB. rewrite list_value_unfold in H. cbv zeta in H.
    destruct (curis (match k with LMov c => c | LMart => RBRACE end) ts); [injection H as <- _; exists []; split; [now rewrite app_nil_r|constructor]|].
    assert (CONT : forall add ts1, advs ts ts1 -> Forall (src_ident base) add ->
              (if multi then list_value f k multi ts1 (acc ++ add) else Ok (acc ++ add, ts1)) = Ok (r, ts') ->
              exists news, r = acc ++ news /\ Forall (src_ident base) news).
    { intros add ts1 A FA G. destruct multi.
      - destruct (IH1 _ _ _ _ _ _ base G (advs_trans _ _ _ AB A)) as (news & -> & FN). exists (add ++ news). split; [now rewrite <- app_assoc|].
        apply Forall_app. split; [exact FA|exact FN].
      - injection G as <- _. exists add. split; [reflexivity|exact FA]. }
    destruct (curis PORYSWITCH ts) eqn:CP.
    + destruct (poryswitch_header switches env_errors ts) as [[[sc sv] ts1]| | |] eqn:PH; try discriminate.
      destruct (list_cases f k (cur ts1) ts1 []) as [[cases ts2]| | |] eqn:LC; try discriminate.
      assert (A1 : advs ts ts1) by (eapply poryswitch_header_advs; [exact PH|apply advs_refl]).
      assert (A2 : advs ts (adv ts2)).
      { apply advs_adv_r. eapply advs_trans; [exact A1|]. destruct (list_advs switches env_errors f) as [_ L]. eapply L; [exact LC|apply advs_refl]. }
      pose proof (IH2 _ _ _ _ _ _ base LC (advs_trans _ _ _ AB A1) (Forall_nil _)) as FC.
      assert (SEL : forall key items, assoc cases key = Some items -> Forall (src_ident base) items).
      { intros key items AS. destruct (assoc_in _ _ _ AS) as [k' I]. rewrite Forall_forall in FC. exact (FC _ I). }
      destruct (assoc cases (sval sv)) as [items|] eqn:AS1.
      { eapply CONT; [exact A2|eapply SEL; exact AS1|exact H]. }
      destruct (assoc cases (t "_")) as [items|] eqn:AS2.
      { eapply CONT; [exact A2|eapply SEL; exact AS2|exact H]. }
      destruct env_errors; [discriminate|].
      apply (CONT [] (adv ts2) A2 (Forall_nil _)). rewrite app_nil_r. exact H.
    + assert (SI : curis IDENT ts = true -> src_ident base (cur ts)).
      { intros CI. eapply src_ident_advs; [exact AB|]. split; [eapply cur_in; [exact CI|discriminate]|exact CI]. }
      destruct k as [c|].
      * destruct (curis IDENT ts) eqn:CI.
        { specialize (SI eq_refl). destruct (curis MUL (adv ts)).
          - destruct (negb (curis INT (adv (adv ts)))); [discriminate|].
            destruct (go_parse_int (tlit (cur (adv (adv ts))))) as [n|]; [|discriminate].
            destruct (n <=? 0)%Z; [discriminate|]. destruct (n >? 9999)%Z; [discriminate|].
            eapply CONT; [| |exact H]; [apply advs_step, advs_step, advs_step, advs_refl|].
            apply Forall_forall. intros x I. rewrite (repeat_tok_all _ _ _ I). exact SI.
          - eapply CONT; [| |exact H]; [apply advs_step, advs_refl|constructor; [exact SI|constructor]]. }
        destruct (curis COMMA ts); [|discriminate].
        apply (CONT [] (adv ts) (advs_step _ _ (advs_refl _)) (Forall_nil _)). rewrite app_nil_r. exact H.
      * destruct (curis IDENT ts) eqn:CI; [|discriminate]. specialize (SI eq_refl).
        eapply CONT; [| |exact H]; [apply advs_step, advs_refl|constructor; [exact SI|constructor]].
  - intros k start ts acc r ts' base H AB FA. rewrite list_cases_unfold in H. cbv zeta in H.
    destruct (curis RBRACE ts); [injection H as <- _; exact FA|].
    destruct (curis EOF ts); [discriminate|].
    destruct (negb (curis IDENT ts) && negb (curis INT ts)); [discriminate|].
    destruct (curis COLON (adv ts) || curis LBRACE (adv ts)); [|discriminate].
    match type of H with (do _ <- ?X ; _) = _ => destruct X as [[items ts2]| | |] eqn:LV; try discriminate end.
    assert (A0 : advs base (adv (adv ts))) by (apply advs_adv_r, advs_adv_r, AB).
    destruct (IH1 _ _ _ _ _ _ base LV A0) as (news & -> & FN). cbn [app] in H.
    assert (A1 : advs base ts2) by (eapply list_value_advs; [exact LV|exact A0]).
    assert (FA' : Forall (fun c => Forall (src_ident base) (Datatypes.snd c)) ((tlit (cur ts), news) :: acc)) by (constructor; [exact FN|exact FA]).
    destruct (curis LBRACE (adv ts)).
    + destruct (negb (curis RBRACE ts2)); [discriminate|]. eapply IH2; [exact H|apply advs_adv_r, A1|exact FA'].
    + eapply IH2; [exact H|exact A1|exact FA'].
Qed.

(* a mart list without nested poryswitch: the items are exactly the tokens up to the closing brace *)
Lemma mart_list_exact : forall f ts acc r ts',
  list_value f LMart true ts acc = Ok (r, ts') -> eof_ended ts ->
  curis RBRACE ts' = true /\ exists seg, ts = seg ++ ts' /\ (Forall (fun tk => is PORYSWITCH tk = false) seg -> r = acc ++ seg).
Proof.
  induction f as [|f IH]; intros ts acc r ts' H EO; [discriminate|]. pose proof H as H0.
  rewrite list_value_unfold in H. cbv zeta in H.
  destruct (curis RBRACE ts) eqn:C1.
  { injection H as <- <-. split; [exact C1|]. exists []. split; [reflexivity|]. intros _. now rewrite app_nil_r. }
  destruct (curis PORYSWITCH ts) eqn:CP.
  - assert (RB : curis RBRACE ts' = true).
    { destruct (poryswitch_header switches env_errors ts) as [[[sc sv] ts1]| | |] eqn:PH; try discriminate.
      destruct (list_cases f LMart (cur ts1) ts1 []) as [[cases ts2]| | |] eqn:LC; try discriminate.
      assert (A2 : advs ts (adv ts2)).
      { apply advs_adv_r. eapply advs_trans; [eapply poryswitch_header_advs; [exact PH|apply advs_refl]|].
        destruct (list_advs switches env_errors f) as [_ L]. eapply L; [exact LC|apply advs_refl]. }
      pose proof (advs_eof _ _ A2 EO) as EO2.
      destruct (assoc cases (sval sv)); [exact (proj1 (IH _ _ _ _ H EO2))|].
      destruct (assoc cases (t "_")); [exact (proj1 (IH _ _ _ _ H EO2))|].
      destruct env_errors; [discriminate|]. exact (proj1 (IH _ _ _ _ H EO2)). }
    split; [exact RB|].
    assert (A : advs ts ts') by (eapply list_value_advs; [exact H0|apply advs_refl]).
    destruct (advs_split _ _ A) as [seg E]. exists seg. split; [exact E|]. intros F. exfalso.
    destruct seg as [|x seg]; [cbn [app] in E; subst ts'; congruence|].
    rewrite E in CP. unfold curis in CP. cbn [app cur hd] in CP. inversion F as [|? ? Fx _]. congruence.
  - destruct (curis IDENT ts) eqn:CI; [|discriminate].
    destruct (step_nonEOF IDENT ts EO CI ltac:(discriminate)) as (r0 & E & A & EO1). rewrite A in H.
    destruct (IH _ _ _ _ H EO1) as (RB & seg & E1 & R). split; [exact RB|]. exists (cur ts :: seg).
    split; [rewrite E at 1; cbn [app]; now rewrite E1|]. intros F. inversion F as [|? ? _ F'].
    rewrite (R F'). now rewrite <- app_assoc.
Qed.

(* SITE 6: mart items.  The item texts are the substitution applied, one by one, to the recorded item tokens; these are
   identifier tokens of the source (the selected poryswitch cases included), and when the list holds no poryswitch they are
   exactly the tokens between the braces. *)
Theorem mart_items_site f ts tp ts' :
  parse_mart switches env_errors consts f ts = Ok (tp, ts') -> eof_ended ts ->
  exists name g tk itoks,
    tp = TMart name g tk (map subst itoks) itoks /\ Forall (src_ident ts) itoks /\ curis RBRACE ts' = true /\
    exists pre seg, ts = pre ++ seg ++ ts' /\ is LBRACE (last pre eof0) = true /\
                    (Forall (fun tk => is PORYSWITCH tk = false) seg -> itoks = seg).
Proof.
  intros H EO. unfold parse_mart in H. cbv zeta in H.
  destruct (scope_modifier false ts) as [[g ts1]| | |] eqn:SM; try discriminate.
  destruct (expect_peek IDENT ts1) as [ts2|] eqn:P1; [|discriminate].
  destruct (expect_peek LBRACE ts2) as [ts3|] eqn:P2; [|discriminate].
  destruct (mart_value switches env_errors f true (adv ts3) []) as [[its ts4]| | |] eqn:MV; try discriminate.
  injection H as <- <-. unfold mart_value in MV.
  assert (A1 : advs ts ts1) by (eapply scope_modifier_advs; [exact SM|apply advs_refl]).
  assert (A2 : advs ts ts2) by (eapply advs_k_peek; [exact P1|exact A1]).
  assert (A3 : advs ts ts3) by (eapply advs_k_peek; [exact P2|exact A2]).
  pose proof (advs_eof _ _ A2 EO) as EO2.
  destruct (peek_step _ _ _ EO2 P2 ltac:(discriminate)) as (E2 & C3 & EO3).
  destruct (step_nonEOF LBRACE ts3 EO3 C3 ltac:(discriminate)) as (r4 & E3 & A4 & EO4). rewrite A4 in MV.
  destruct (proj1 (list_src f) _ _ _ _ _ _ ts MV) as (news & EN & FN).
  { rewrite <- A4. apply advs_adv_r, A3. }
  cbn [app] in EN. subst news.
  destruct (mart_list_exact _ _ _ _ _ MV EO4) as (RB & seg & E4 & R).
  exists (tlit (cur ts2)), g, (cur ts), its. split; [reflexivity|]. split; [exact FN|]. split; [exact RB|].
  destruct (advs_split _ _ A3) as [pre3 E5].
  exists (pre3 ++ [cur ts3]), seg. split; [rewrite E5; rewrite E3 at 1; rewrite E4; rewrite <- app_assoc; reflexivity|].
  split; [rewrite last_last; exact C3|]. intros F. rewrite (R F). reflexivity.
Qed.

(* ---------- NEGATIVE: movement steps ---------- *)
(* parse_movement and moves_operator do not even take the constants as an argument; the steps they record are identifier
   tokens of the source, as tokens (the emitter prints their literals) *)
Theorem movement_steps_verbatim f ts tp ts' :
  parse_movement switches env_errors f ts = Ok (tp, ts') ->
  exists name g tk steps, tp = TMovement name g tk steps /\ Forall (src_ident ts) steps.
Proof.
  intros H. unfold parse_movement in H. cbv zeta in H.
  destruct (scope_modifier false ts) as [[g ts1]| | |] eqn:SM; try discriminate.
  destruct (expect_peek IDENT ts1) as [ts2|] eqn:P1; [|discriminate].
  destruct (expect_peek LBRACE ts2) as [ts3|] eqn:P2; [|discriminate].
  destruct (movement_value switches env_errors f RBRACE true (adv ts3) []) as [[mv ts4]| | |] eqn:MV; try discriminate.
  injection H as <- _. unfold movement_value in MV.
  assert (A : advs ts (adv ts3)).
  { apply advs_adv_r. eapply advs_k_peek; [exact P2|]. eapply advs_k_peek; [exact P1|]. eapply scope_modifier_advs; [exact SM|apply advs_refl]. }
  destruct (proj1 (list_src f) _ _ _ _ _ _ ts MV A) as (news & EN & FN). cbn [app] in EN. subst news.
  eexists _, _, _, _. split; [reflexivity|exact FN].
Qed.
Theorem moves_operator_verbatim f ts steps ts' :
  moves_operator switches env_errors f ts = Ok (steps, ts') -> Forall (src_ident ts) steps.
Proof.
  intros H. unfold moves_operator in H. destruct (expect_peek LPAREN ts) as [ts1|] eqn:P; [|discriminate]. unfold movement_value in H.
  assert (A : advs ts (adv ts1)) by (apply advs_adv_r; eapply advs_k_peek; [exact P|apply advs_refl]).
  destruct (proj1 (list_src f) _ _ _ _ _ _ ts H A) as (news & EN & FN). cbn [app] in EN. subst news. exact FN.
Qed.

(* ---------- NEGATIVE: text content ---------- *)
(* text_value / parse_text do not take the constants either; the content is the string token's literal plus terminator *)
Theorem text_content_verbatim ts v sty ts' :
  text_value parse_format ts = Ok (v, sty, ts') ->
  (curis STRING ts = true /\ sty = [] /\ v = terminate (tlit (cur ts)) [] /\ ts' = ts) \/
  (curis STRINGTYPE ts = true /\ curis STRING (adv ts) = true /\ sty = tlit (cur ts) /\ v = terminate (tlit (cur (adv ts))) sty /\ ts' = adv ts) \/
  (curis FORMAT ts = true /\ exists tk v0, parse_format ts = Ok (tk, v0, sty, ts') /\ v = terminate v0 sty).
Proof.
  intros H. unfold text_value in H. destruct (curis FORMAT ts) eqn:C1.
  { right; right. split; [reflexivity|]. destruct (parse_format ts) as [[[[tk v0] sty0] ts1]| | |]; try discriminate.
    injection H as <- <- <-. exists tk, v0. split; reflexivity. }
  destruct (curis STRING ts) eqn:C2.
  { left. injection H as <- <- <-. auto. }
  destruct (curis STRINGTYPE ts) eqn:C3; [|discriminate]. cbv zeta in H.
  destruct (curis STRING (adv ts)) eqn:C4; [|discriminate]. cbn [negb] in H. injection H as <- <- <-. right; left. auto.
Qed.

(* the inline texts and movements of a command: what is recorded for them comes from the tokens, never from the constants *)
Definition text_from (ts : toks) (it : imptext) : Prop :=
  (exists tk, In tk ts /\ is STRING tk = true /\ itTok it = set_lit tk (terminate (tlit tk) (itType it)) /\
              (itType it = [] \/ exists ty, In ty ts /\ is STRINGTYPE ty = true /\ itType it = tlit ty)) \/
  (exists ts0 tk v ts1, parse_format ts0 = Ok (tk, v, itType it, ts1) /\ itTok it = set_lit tk (terminate v (itType it))).
Lemma text_from_advs a b it : advs a b -> text_from b it -> text_from a it.
Proof.
  intros A [(tk & I & S & T & TY)|F]; [|right; exact F]. destruct (advs_split _ _ A) as [pre ->]. left. exists tk.
  split; [apply in_or_app; right; exact I|]. split; [exact S|]. split; [exact T|]. destruct TY as [TY|(ty & I2 & S2 & T2)]; [left; exact TY|].
  right. exists ty. split; [apply in_or_app; right; exact I2|]. auto.
Qed.

Theorem command_args_implicit : forall f script cmdtok cidv ts depth parts args imp args' imp' ts' base,
  command_args f script cmdtok cidv ts depth parts args imp = Ok (args', imp', ts') -> advs base ts ->
  exists nt nm, idT imp' = idT imp ++ nt /\ idM imp' = idM imp ++ nm /\
                Forall (text_from base) nt /\ Forall (fun im => Forall (src_ident base) (imToks im)) nm.
Proof.
  induction f as [|f IH]; intros script cmdtok cidv ts depth parts args imp args' imp' ts' base H AB; [discriminate|].
  cbn [Parser.command_args] in H.
  assert (SAME : forall ts1 d p a, command_args f script cmdtok cidv ts1 d p a imp = Ok (args', imp', ts') -> advs ts ts1 ->
            exists nt nm, idT imp' = idT imp ++ nt /\ idM imp' = idM imp ++ nm /\
                Forall (text_from base) nt /\ Forall (fun im => Forall (src_ident base) (imToks im)) nm).
  { intros ts1 d p a G A. eapply IH; [exact G|eapply advs_trans; eassumption]. }
  assert (TXT : forall ts1 d p a it, command_args f script cmdtok cidv ts1 d p a {| idT := idT imp ++ [it]; idM := idM imp |} = Ok (args', imp', ts') ->
            advs ts ts1 -> text_from base it ->
            exists nt nm, idT imp' = idT imp ++ nt /\ idM imp' = idM imp ++ nm /\
                Forall (text_from base) nt /\ Forall (fun im => Forall (src_ident base) (imToks im)) nm).
  { intros ts1 d p a it G A T. destruct (IH _ _ _ _ _ _ _ _ _ _ _ base G (advs_trans _ _ _ AB A)) as (nt & nm & E1 & E2 & F1 & F2).
    cbn [idT idM] in E1, E2. exists (it :: nt), nm. split; [rewrite E1; now rewrite <- app_assoc|]. split; [exact E2|]. split; [constructor; assumption|exact F2]. }
  destruct (curis RPAREN ts && Nat.eqb depth 0).
  { injection H as _ <- _. exists [], []. rewrite !app_nil_r. auto. }
  destruct (curis EOF ts); [discriminate|].
  destruct (curis COMMA ts); [eapply SAME; [exact H|apply advs_step, advs_refl]|].
  destruct (curis LPAREN ts); [eapply SAME; [exact H|apply advs_step, advs_refl]|].
  destruct (curis RPAREN ts); [eapply SAME; [exact H|apply advs_step, advs_refl]|].
  destruct (curis FORMAT ts).
  { destruct (parse_format ts) as [[[[tk v] sty] ts1]| | |] eqn:PF; try discriminate.
    eapply TXT; [exact H|apply advs_adv_r; eapply parse_format_advs; [exact PF|apply advs_refl]|].
    right. exists ts, tk, v, ts1. split; [exact PF|reflexivity]. }
  destruct (curis STRING ts) eqn:CS.
  { eapply TXT; [exact H|apply advs_step, advs_refl|]. eapply text_from_advs; [exact AB|]. left. exists (cur ts).
    split; [eapply cur_in; [exact CS|discriminate]|]. split; [exact CS|]. split; [reflexivity|left; reflexivity]. }
  destruct (curis STRINGTYPE ts) eqn:CT.
  { cbv zeta in H. destruct (curis STRING (adv ts)) eqn:CS2; [|discriminate]. cbn [negb] in H.
    eapply TXT; [exact H|apply advs_step, advs_step, advs_refl|]. eapply text_from_advs; [exact AB|]. left. exists (cur (adv ts)).
    assert (I1 : In (cur ts) ts) by (eapply cur_in; [exact CT|discriminate]).
    assert (I2 : In (cur (adv ts)) ts).
    { pose proof (cur_in _ _ CS2 ltac:(discriminate)) as I. destruct (advs_split ts (adv ts) (advs_step _ _ (advs_refl _))) as [pre E]. rewrite E at 2. apply in_or_app; right; exact I. }
    split; [exact I2|]. split; [exact CS2|]. split; [reflexivity|]. right. exists (cur ts). auto. }
  destruct (curis MOVES ts).
  { destruct (moves_operator switches env_errors f ts) as [[mv ts1]| | |] eqn:MO; try discriminate.
    assert (A1 : advs ts (adv ts1)) by (apply advs_adv_r; eapply moves_operator_advs; [exact MO|apply advs_refl]).
    destruct (IH _ _ _ _ _ _ _ _ _ _ _ base H (advs_trans _ _ _ AB A1)) as (nt & nm & E1 & E2 & F1 & F2).
    cbn [idT idM] in E1, E2. eexists nt, (_ :: nm). split; [exact E1|]. split; [rewrite E2; rewrite <- app_assoc; reflexivity|]. split; [exact F1|].
    constructor; [|exact F2]. cbn [imToks]. pose proof (moves_operator_verbatim _ _ _ _ MO) as FM.
    eapply Forall_impl; [|exact FM]. intros x. apply src_ident_advs, AB. }
  eapply SAME; [exact H|apply advs_step, advs_refl].
Qed.

(* ---------- NEGATIVE: label names; a statement that starts with an identifier ---------- *)
Theorem label_name_verbatim ts l ts' :
  try_label ts = Some (l, ts') -> exists g, l = SLabel (tlit (cur ts)) g (cur ts).
Proof.
  unfold try_label. intros H. destruct (peekis COLON ts); [injection H as <- _; eexists; reflexivity|].
  destruct (peekis LPAREN ts && (is GLOBAL (pk 2 ts) || is LOCAL (pk 2 ts)) && is RPAREN (pk 3 ts) && is COLON (pk 4 ts)); [|discriminate].
  injection H as <- _; eexists; reflexivity.
Qed.
Theorem identifier_statement_verbatim f script bs cs ts ss imp ts' :
  parse_stmt f script bs cs ts = Ok (ss, imp, ts') -> ttype (cur ts) = IDENT ->
  (exists g, ss = [SLabel (tlit (cur ts)) g (cur ts)]) \/
  (exists c, ss = [SCmd c] /\ cname c = tlit (cur ts) /\ ctok c = cur ts).
Proof.
  destruct f as [|f]; [discriminate|]. intros H T. rewrite parse_stmt_unfold in H. rewrite T in H.
  destruct (try_label ts) as [[l ts1]|] eqn:TL.
  - left. destruct (label_name_verbatim _ _ _ TL) as [g ->]. injection H as <- _ _. exists g. reflexivity.
  - right. destruct (command_stmt f script ts) as [[[c imp1] ts1]| | |] eqn:CS; try discriminate. injection H as <- _ _.
    exists c. split; [reflexivity|]. eapply command_name_verbatim. exact CS.
Qed.

(* ---------- the value of a constant definition (constants defined from constants) ---------- *)
Lemma const_value_site : forall f ts acc v ts',
  const_value f consts ts acc = (v, ts') -> eof_ended ts -> (List.length ts <= f)%nat ->
  exists seg rest, ts = cur ts :: seg ++ rest /\ ts' = last (cur ts :: seg) eof0 :: rest /\
                   Forall (fun tk => is_toplevel (ttype tk) = false) seg /\
                   is_toplevel (ttype (pk 1 ts')) || curis EOF ts' = true /\
                   v = fold_left sb_add (map subst seg) acc.
Proof.
  induction f as [|f IH]; intros ts acc v ts' H EO L.
  { destruct EO as [N _]. destruct ts; [congruence|cbn in L; lia]. }
  cbn [const_value] in H. destruct (is_toplevel (ttype (pk 1 ts)) || curis EOF ts) eqn:ST.
  - injection H as <- <-. exists [], (tl ts). destruct EO as [N _]. destruct ts as [|x r]; [congruence|]. cbn [cur hd app last tl].
    split; [reflexivity|]. split; [reflexivity|]. split; [constructor|]. split; [exact ST|reflexivity].
  - apply orb_false_elim in ST. destruct ST as [ST1 ST2].
    destruct (step_stream ts EO ST2) as (r & E & A & EO1). rewrite A in H.
    assert (PK : pk 1 ts = cur r).
    { rewrite E. unfold pk. cbn [nth]. destruct r as [|y r']; [destruct EO1; congruence|reflexivity]. }
    assert (L1 : (List.length r <= f)%nat) by (rewrite E in L; cbn [List.length] in L; lia).
    change (match acc with [] => creplace consts (tlit (cur r)) | _ :: _ => acc ++ sp ++ creplace consts (tlit (cur r)) end)
      with (sb_add acc (subst (cur r))) in H.
    destruct (IH _ _ _ _ H EO1 L1) as (seg & rest & E1 & E2 & F & ST' & V).
    exists (cur r :: seg), rest. split; [rewrite E at 1; now rewrite E1 at 1|]. split; [exact E2|].
    split; [constructor; [rewrite <- PK; exact ST1|exact F]|]. split; [exact ST'|exact V].
Qed.

(* A definition  const NAME = tokens...  binds NAME to the tokens after '=' (up to the token before the next top-level
   keyword), each replaced through the constants defined so far, joined builder-style. *)
Theorem const_definition_site f ts consts' ts' :
  parse_const f consts ts = Ok (consts', ts') -> eof_ended ts -> (List.length ts <= f)%nat ->
  exists nm asg seg rest,
    ts = cur ts :: nm :: asg :: seg ++ rest /\ is IDENT nm = true /\ is ASSIGN asg = true /\
    Forall (fun tk => is_toplevel (ttype tk) = false) seg /\ seg <> [] /\
    ts' = last seg eof0 :: rest /\ is_toplevel (ttype (pk 1 ts')) || curis EOF ts' = true /\
    assoc consts (tlit nm) = None /\
    consts' = (tlit nm, sb_join (map subst seg)) :: consts.
Proof.
  intros H EO L. unfold parse_const in H. cbv zeta in H.
  destruct (expect_peek IDENT ts) as [ts1|] eqn:P1; [|discriminate].
  destruct (peek_step _ _ _ EO P1 ltac:(discriminate)) as (E1 & C1 & EO1).
  destruct (assoc consts (tlit (cur ts1))) eqn:AS; [discriminate|].
  destruct (expect_peek ASSIGN ts1) as [ts2|] eqn:P2; [|discriminate].
  destruct (peek_step _ _ _ EO1 P2 ltac:(discriminate)) as (E2 & C2 & EO2).
  destruct (const_value f consts ts2 []) as [v ts3] eqn:CV.
  assert (L2 : (List.length ts2 <= f)%nat) by (rewrite E1, E2 in L; cbn [List.length] in L; lia).
  destruct (const_value_site _ _ _ _ _ CV EO2 L2) as (seg & rest & E3 & E4 & F & ST & V).
  destruct v as [|c0 v']; [discriminate|]. injection H as <- <-.
  assert (NE : seg <> []) by (intros X; subst seg; discriminate V).
  exists (cur ts1), (cur ts2), seg, rest. split; [rewrite E1 at 1; rewrite E2 at 1; now rewrite E3 at 1|].
  split; [exact C1|]. split; [exact C2|]. split; [exact F|]. split; [exact NE|].
  assert (LS : last (cur ts2 :: seg) eof0 = last seg eof0) by (destruct seg; [congruence|reflexivity]).
  split; [rewrite E4, LS; reflexivity|]. split; [exact ST|]. split; [exact AS|]. unfold sb_join. rewrite <- V. reflexivity.
Qed.

(* ---------- NEGATIVE, at every depth: command names and label names ---------- *)
(* a command whose name is the literal of its own token, a token of the stream [base] *)
Definition vcmd (base : toks) (c : cmd) : Prop := cname c = tlit (ctok c) /\ In (ctok c) base.
Fixpoint vbexp (base : toks) (e : bexp) : Prop :=
  match e with
  | BLeaf l => match lpre l with Some c => vcmd base c | None => True end
  | BBin _ a b => vbexp base a /\ vbexp base b
  end.
Definition vopt (base : toks) (o : option bexp) : Prop := match o with Some e => vbexp base e | None => True end.
Inductive vstmt (base : toks) : stmt -> Prop :=
| vs_cmd c : vcmd base c -> vstmt base (SCmd c)
| vs_label tk g : In tk base -> vstmt base (SLabel (tlit tk) g tk)
| vs_if conds els : Forall (fun cb : bexp * list stmt => vbexp base (Datatypes.fst cb)) conds ->
                    Forall (fun cb : bexp * list stmt => Forall (vstmt base) (Datatypes.snd cb)) conds ->
                    Forall (vstmt base) (match els with Some b => b | None => [] end) -> vstmt base (SIf conds els)
| vs_while tg c b : vopt base c -> Forall (vstmt base) b -> vstmt base (SWhile tg c b)
| vs_dowhile tg b c : Forall (vstmt base) b -> vbexp base c -> vstmt base (SDoWhile tg b c)
| vs_break tg : vstmt base (SBreak tg)
| vs_continue tg : vstmt base (SContinue tg)
| vs_switch tg o ol cases : Forall (fun c : scase => Forall (vstmt base) (Datatypes.snd c)) cases -> vstmt base (SSwitch tg o ol cases).

Lemma bind_inv {A B} (m : res A) (k : A -> res B) r :
  (match m with Ok x => k x | Err e => Err e | Panic => Panic | Fuel => Fuel end) = Ok r -> exists x, m = Ok x /\ k x = Ok r.
Proof. destruct m; try discriminate. eauto. Qed.
Tactic Notation "bind" hyp(H) "as" simple_intropattern(p) "eqn" ident(E) :=
  apply bind_inv in H; destruct H as (p & E & H); cbn beta iota in H.

Lemma cur_in_base base ts : advs base ts -> base <> [] -> In (cur ts) base.
Proof.
  intros A N. pose proof (advs_nonempty _ _ A N) as N2. destruct (advs_split _ _ A) as [pre ->].
  apply in_or_app; right. destruct ts; [congruence|left; reflexivity].
Qed.

Lemma command_stmt_v f script ts c imp ts' base :
  command_stmt f script ts = Ok (c, imp, ts') -> advs base ts -> base <> [] -> vcmd base c.
Proof.
  intros H A N. destruct (command_name_verbatim _ _ _ _ _ _ H) as [E1 E2]. split; [now rewrite E1, E2|]. rewrite E2. apply cur_in_base; assumption.
Qed.

Notation var_or_autovar := (var_or_autovar autovars switches env_errors parse_format consts).
Notation bool_expr := (bool_expr autovars switches env_errors parse_format consts).
Notation right_side := (right_side autovars switches env_errors parse_format consts).

Lemma var_or_autovar_v f script ts v c imp ts' base :
  var_or_autovar f script ts = Ok (Some (v, c), imp, ts') -> advs base ts -> base <> [] -> vcmd base c.
Proof.
  intros H A N. unfold Parser.var_or_autovar in H. destruct (peekis VAR ts).
  { cbv zeta in H. destruct (expect_peek LPAREN (adv ts)); discriminate. }
  destruct (assoc autovars (tlit (pk 1 ts))) as [av|]; [|discriminate]. cbv zeta in H.
  bind H as [[c0 imp0] ts2] eqn CS. pose proof (command_stmt_v _ _ _ _ _ _ base CS (advs_adv_r _ _ A) N) as V.
  destruct (avPos av) as [p|].
  - destruct ((p <? 0)%Z || (p >? Z.of_nat (List.length (cargs c0)) - 1)%Z); [discriminate|]. injection H as _ <- _ _. exact V.
  - injection H as _ <- _ _. exact V.
Qed.

Lemma leaf_expr_v f script ts l imp ts' base :
  leaf_expr f script ts = Ok (l, imp, ts') -> advs base ts -> base <> [] -> vbexp base (BLeaf l).
Proof.
  intros H A N. cbn [vbexp]. destruct (lpre l) as [c|] eqn:LP; [|exact I]. unfold Parser.leaf_expr in H.
  remember (if peekis NOT ts then (true, adv ts) else (false, ts)) as p eqn:Ep. destruct p as [used_not ts0].
  assert (A0 : advs base ts0) by (destruct (peekis NOT ts); injection Ep as _ ->; [apply advs_adv_r, A|exact A]).
  cbv zeta in H.
  destruct (negb (peekis VAR ts0) && negb (peek_is_autovar autovars ts0) && negb (peekis FLAG ts0) && negb (peekis DEFEATED ts0)); [discriminate|].
  destruct (negb (peek_is_autovar autovars ts0)).
  - exfalso. destruct (expect_peek LPAREN (adv ts0)) as [ts2|]; [|discriminate]. destruct (peekis RPAREN ts2); [discriminate|].
    destruct (collect_until consts f (is RPAREN) (adv ts2) []) as [[parts ts4]|]; [|discriminate]. cbv beta iota zeta in H.
    destruct used_not; [injection H as <- _ _; discriminate LP|].
    destruct (if is VAR (cur (adv ts0)) then KVar else if is FLAG (cur (adv ts0)) then KFlag else KDefeated).
    + destruct (cond_flag_operator (adv ts4) "flag") as [[[o v] ts5]| | |]; try discriminate. injection H as <- _ _; discriminate LP.
    + destruct (cond_var_operator consts f (adv ts4)) as [[[[o v] st] ts5]| | |]; try discriminate. injection H as <- _ _; discriminate LP.
    + destruct (cond_flag_operator (adv ts4) "defeated") as [[[o v] ts5]| | |]; try discriminate. injection H as <- _ _; discriminate LP.
  - bind H as [[[[[kind opnd] opline] pre] imp1] ts3] eqn IN. bind IN as [[r imp2] ts1] eqn VA.
    destruct r as [[v c0]|]; [|discriminate]. injection IN as <- <- <- <- <- <-. cbv beta iota zeta in H.
    pose proof (var_or_autovar_v _ _ _ _ _ _ _ base VA A0 N) as V.
    destruct used_not; [injection H as <- _ _; cbn [lpre] in LP; injection LP as <-; exact V|].
    destruct (cond_var_operator consts f (adv ts1)) as [[[[o v0] st] ts5]| | |]; try discriminate.
    injection H as <- _ _; cbn [lpre] in LP; injection LP as <-; exact V.
Qed.

Lemma bexp_v : forall f,
  (forall single negated script ts e imp ts' base, bool_expr f single negated script ts = Ok (e, imp, ts') -> advs base ts -> base <> [] -> vbexp base e) /\
  (forall left single negated script ts e imp ts' base, right_side f left single negated script ts = Ok (e, imp, ts') -> advs base ts -> base <> [] ->
     vbexp base left -> vbexp base e).
Proof.
  induction f as [|f [IH1 IH2]]; [split; intros; discriminate|].
  destruct (bexp_advs autovars switches parse_format consts parse_format_advs env_errors f) as [AB1 AB2]. split.
  - intros single negated script ts e imp ts' base H A N. rewrite bool_expr_unfold in H. cbv zeta in H.
    destruct (peekis LPAREN ts || peekis NOT ts && is LPAREN (pk 2 ts)).
    + remember (if peekis LPAREN ts then (adv ts, negated) else (adv (adv ts), negb negated)) as p eqn:Ep. destruct p as [ts2 nn].
      assert (A2 : advs base ts2) by (destruct (peekis LPAREN ts); injection Ep as -> _; [apply advs_adv_r, A|apply advs_adv_r, advs_adv_r, A]).
      bind H as [[e1 imp1] ts3] eqn B1. pose proof (IH1 _ _ _ _ _ _ _ base B1 A2 N) as V1.
      destruct (negb (curis RPAREN ts3)); [discriminate|].
      destruct (negb single && (peekis AND ts3 || peekis OR ts3)).
      * bind H as [[e2 imp2] ts4] eqn R2. injection H as <- _ _.
        eapply IH2; [exact R2|apply advs_adv_r; eapply AB1; [exact B1|exact A2]|exact N|exact V1].
      * injection H as <- _ _. exact V1.
    + bind H as [[l imp1] ts1] eqn L1. pose proof (leaf_expr_v _ _ _ _ _ _ base L1 A N) as V1.
      assert (V2 : vbexp base (BLeaf (if negated then neg_leaf l else l))) by (destruct negated; exact V1).
      destruct single; [injection H as <- _ _; exact V2|].
      bind H as [[e2 imp2] ts2] eqn R2. injection H as <- _ _.
      eapply IH2; [exact R2|eapply leaf_expr_advs; [exact parse_format_advs|exact L1|exact A]|exact N|exact V2].
  - intros left single negated script ts e imp ts' base H A N VL. rewrite right_side_unfold in H.
    destruct (curis AND ts).
    + bind H as [[r imp1] ts1] eqn B1. cbv zeta in H. bind H as [[e2 imp2] ts2] eqn R2. injection H as <- _ _.
      eapply IH2; [exact R2|eapply AB1; [exact B1|exact A]|exact N|]. cbn [vbexp]. split; [exact VL|eapply IH1; eassumption].
    + destruct (curis OR ts); [|injection H as <- _ _; exact VL].
      bind H as [[r imp1] ts1] eqn B1. injection H as <- _ _. cbn [vbexp]. split; [exact VL|eapply IH1; eassumption].
Qed.

Notation parse_cond := (parse_cond autovars switches env_errors parse_format consts).
Notation parse_if := (parse_if autovars switches env_errors parse_format consts).
Notation parse_elifs := (parse_elifs autovars switches env_errors parse_format consts).
Notation parse_pory := (parse_pory autovars switches env_errors parse_format consts).
Notation parse_pory_cases := (parse_pory_cases autovars switches env_errors parse_format consts).
Notation parse_pory_stmts := (parse_pory_stmts autovars switches env_errors parse_format consts).

Definition vconds base (l : list (bexp * list stmt)) : Prop :=
  Forall (fun cb : bexp * list stmt => vbexp base (Datatypes.fst cb)) l /\ Forall (fun cb : bexp * list stmt => Forall (vstmt base) (Datatypes.snd cb)) l.
Definition vcases base (l : list scase) : Prop := Forall (fun c : scase => Forall (vstmt base) (Datatypes.snd c)) l.
Definition vpcases base (l : list (text * (list stmt * impdata))) : Prop :=
  Forall (fun c : text * (list stmt * impdata) => Forall (vstmt base) (Datatypes.fst (Datatypes.snd c))) l.

Definition VW (f : nat) : Prop :=
  (forall script bs cs ts ss imp ts' base, parse_stmt f script bs cs ts = Ok (ss, imp, ts') -> advs base ts -> base <> [] -> Forall (vstmt base) ss) /\
  (forall script bs cs start ts acc imp ss imp' ts' base, parse_block f script bs cs start ts acc imp = Ok (ss, imp', ts') -> advs base ts -> base <> [] ->
      Forall (vstmt base) acc -> Forall (vstmt base) ss) /\
  (forall script bs cs start ts acc imp ss imp' ts' base, parse_switch_block f script bs cs start ts acc imp = Ok (ss, imp', ts') -> advs base ts -> base <> [] ->
      Forall (vstmt base) acc -> Forall (vstmt base) ss) /\
  (forall req script bs cs ts e b imp ts' base, parse_cond f req script bs cs ts = Ok (e, b, imp, ts') -> advs base ts -> base <> [] ->
      vopt base e /\ Forall (vstmt base) b) /\
  (forall script bs cs ts ss imp ts' base, parse_if f script bs cs ts = Ok (ss, imp, ts') -> advs base ts -> base <> [] -> Forall (vstmt base) ss) /\
  (forall script bs cs ts acc imp l imp' ts' base, parse_elifs f script bs cs ts acc imp = Ok (l, imp', ts') -> advs base ts -> base <> [] ->
      vconds base acc -> vconds base l) /\
  (forall script bs cs ts ss imp ts' base, parse_switch f script bs cs ts = Ok (ss, imp, ts') -> advs base ts -> base <> [] -> Forall (vstmt base) ss) /\
  (forall script bs cs brace ts acc seen hasdef imp l imp' ts' base,
      parse_cases f script bs cs brace ts acc seen hasdef imp = Ok (l, imp', ts') -> advs base ts -> base <> [] -> vcases base acc -> vcases base l) /\
  (forall script bs cs ts ss imp ts' base, parse_pory f script bs cs ts = Ok (ss, imp, ts') -> advs base ts -> base <> [] -> Forall (vstmt base) ss) /\
  (forall script bs cs start ts acc l ts' base, parse_pory_cases f script bs cs start ts acc = Ok (l, ts') -> advs base ts -> base <> [] ->
      vpcases base acc -> vpcases base l) /\
  (forall script bs cs multi ts acc imp ss imp' ts' base, parse_pory_stmts f script bs cs multi ts acc imp = Ok (ss, imp', ts') -> advs base ts -> base <> [] ->
      Forall (vstmt base) acc -> Forall (vstmt base) ss).

Lemma vw_all : forall f, VW f.
Proof.
  induction f as [|f IH].
  - unfold VW. split; [|split; [|split; [|split; [|split; [|split; [|split; [|split; [|split; [|split]]]]]]]]]; intros; discriminate.
  - destruct IH as (Istmt & Iblock & Iswb & Icond & Iif & Ielifs & Iswitch & Icases & Ipory & Ipcases & Ipstmts).
    destruct (adv_all autovars switches parse_format consts parse_format_advs env_errors f) as (Astmt & Ablock & Aswb & Acond & Aif & Aelifs & Aswitch & Acases & Apory & Apcases & Apstmts).
    unfold VW. split; [|split; [|split; [|split; [|split; [|split; [|split; [|split; [|split; [|split]]]]]]]]].
    + (* parse_stmt *)
      intros script bs cs ts ss imp ts' base H A N. rewrite parse_stmt_unfold in H.
      destruct (ttype (cur ts)) eqn:TY; try discriminate.
      * destruct (try_label ts) as [[l ts1]|] eqn:TL.
        -- injection H as <- _ _. destruct (label_name_verbatim _ _ _ TL) as [g ->]. constructor; [|constructor]. constructor. apply cur_in_base; assumption.
        -- bind H as [[c imp1] ts1] eqn E1. injection H as <- _ _. constructor; [|constructor]. constructor. eapply command_stmt_v; eassumption.
      * eapply Iif; eassumption.
      * (* do *)
        destruct (expect_peek LBRACE ts) as [ts1|] eqn:P1; [|discriminate]. bind H as [[b imp1] ts2] eqn E2.
        destruct (expect_peek WHILE ts2) as [ts3|] eqn:P3; [|discriminate].
        destruct (expect_peek LPAREN ts3) as [ts4|] eqn:P4; [|discriminate]. bind H as [[e imp2] ts5] eqn E5. injection H as <- _ _.
        assert (A1 : advs base (adv ts1)) by (apply advs_adv_r; eapply advs_k_peek; [exact P1|exact A]).
        assert (A4 : advs base ts4) by (eapply advs_k_peek; [exact P4|]; eapply advs_k_peek; [exact P3|]; eapply Ablock; [exact E2|exact A1]).
        constructor; [|constructor]. constructor.
        -- eapply Iblock; [exact E2|exact A1|exact N|constructor].
        -- eapply (proj1 (bexp_v f)); eassumption.
      * (* while *)
        bind H as [[[c b] imp1] ts1] eqn E1. injection H as <- _ _.
        destruct (Icond _ _ _ _ _ _ _ _ _ base E1 A N) as [V1 V2]. constructor; [|constructor]. constructor; assumption.
      * destruct bs as [|tg bs]; [discriminate|]. injection H as <- _ _. constructor; [|constructor]. constructor.
      * destruct cs as [|tg cs]; [discriminate|]. destruct (peekis RBRACE ts); [|discriminate]. injection H as <- _ _. constructor; [|constructor]. constructor.
      * eapply Iswitch; eassumption.
      * eapply Ipory; eassumption.
    + (* parse_block *)
      intros script bs cs start ts acc imp ss imp' ts' base H A N Hacc. rewrite parse_block_unfold in H.
      destruct (curis RBRACE ts); [injection H as <- _ _; exact Hacc|].
      destruct (curis EOF ts); [discriminate|]. bind H as [[ss1 imp1] ts1] eqn E1.
      eapply Iblock; [exact H|apply advs_adv_r; eapply Astmt; [exact E1|exact A]|exact N|].
      apply Forall_app. split; [exact Hacc|eapply Istmt; eassumption].
    + (* parse_switch_block *)
      intros script bs cs start ts acc imp ss imp' ts' base H A N Hacc. rewrite parse_switch_block_unfold in H.
      destruct (curis RBRACE ts || curis CASE ts || curis DEFAULT ts); [injection H as <- _ _; exact Hacc|].
      destruct (curis EOF ts); [discriminate|]. bind H as [[ss1 imp1] ts1] eqn E1.
      eapply Iswb; [exact H|apply advs_adv_r; eapply Astmt; [exact E1|exact A]|exact N|].
      apply Forall_app. split; [exact Hacc|eapply Istmt; eassumption].
    + (* parse_cond *)
      intros req script bs cs ts e b imp ts' base H A N. rewrite parse_cond_unfold in H. bind H as [[e1 imp1] ts1] eqn E1.
      destruct (expect_peek LBRACE ts1) as [ts2|] eqn:P2; [|discriminate]. bind H as [[b1 imp2] ts3] eqn E3. injection H as <- <- _ _.
      assert (X : advs base ts1 /\ vopt base e1).
      { destruct (req || negb (peekis LBRACE ts)).
        - destruct (expect_peek LPAREN ts) as [tsa|] eqn:PA; [|discriminate]. bind E1 as [[e0 imp0'] tsb] eqn EB. injection E1 as <- _ <-.
          assert (Aa : advs base tsa) by (eapply advs_k_peek; [exact PA|exact A]).
          split; [eapply bool_expr_advs; [exact parse_format_advs|exact EB|exact Aa]|]. cbn [vopt]. eapply (proj1 (bexp_v f)); eassumption.
        - injection E1 as <- _ <-. split; [exact A|exact I]. }
      destruct X as [A1 V1]. split; [exact V1|].
      eapply Iblock; [exact E3|apply advs_adv_r; eapply advs_k_peek; [exact P2|exact A1]|exact N|constructor].
    + (* parse_if *)
      intros script bs cs ts ss imp ts' base H A N. rewrite parse_if_unfold in H. bind H as [[[o l] imp1] ts1] eqn E1.
      destruct o as [e1|]; [|discriminate]. bind H as [[l0 imp2] t0] eqn E2.
      destruct (Icond _ _ _ _ _ _ _ _ _ base E1 A N) as [V1 V2].
      assert (A1 : advs base ts1) by (eapply Acond; [exact E1|exact A]).
      destruct (Ielifs _ _ _ _ _ _ _ _ _ base E2 A1 N (conj (Forall_nil _) (Forall_nil _))) as [C1 C2].
      assert (A2 : advs base t0) by (eapply Aelifs; [exact E2|exact A1]).
      destruct (peekis ELSE t0).
      * cbv zeta in H. destruct (expect_peek LBRACE (adv t0)) as [ts4|] eqn:P4; [|discriminate]. bind H as [[eb imp3] ts5] eqn E5. injection H as <- _ _.
        constructor; [|constructor]. constructor; [constructor; [exact V1|exact C1]|constructor; [exact V2|exact C2]|].
        eapply Iblock; [exact E5|apply advs_adv_r; eapply advs_k_peek; [exact P4|apply advs_adv_r, A2]|exact N|constructor].
      * injection H as <- _ _. constructor; [|constructor]. constructor; [constructor; [exact V1|exact C1]|constructor; [exact V2|exact C2]|constructor].
    + (* parse_elifs *)
      intros script bs cs ts acc imp l imp' ts' base H A N [Hacc1 Hacc2]. rewrite parse_elifs_unfold in H.
      destruct (peekis ELSEIF ts); [|injection H as <- _ _; split; assumption]. bind H as [[[o b1] imp1] ts1] eqn E1.
      destruct o as [e1|]; [|discriminate].
      destruct (Icond _ _ _ _ _ _ _ _ _ base E1 (advs_adv_r _ _ A) N) as [V1 V2].
      eapply Ielifs; [exact H|eapply Acond; [exact E1|apply advs_adv_r, A]|exact N|].
      split; apply Forall_app; (split; [assumption|constructor; [assumption|constructor]]).
    + (* parse_switch *)
      intros script bs cs ts ss imp ts' base H A N. rewrite parse_switch_unfold in H. cbv zeta in H.
      destruct (expect_peek LPAREN ts) as [ts1|] eqn:P1; [|discriminate]. bind H as [[r0 imp1] ts2] eqn E2. bind H as [[[operand oline] pre] ts3] eqn E3.
      destruct (expect_peek LBRACE ts3) as [ts4|] eqn:P4; [|discriminate]. bind H as [[l imp2] ts5] eqn E5.
      destruct l as [|c0 l]; [discriminate|]. injection H as <- _ _.
      assert (A1 : advs base ts1) by (eapply advs_k_peek; [exact P1|exact A]).
      assert (A2 : advs base ts2) by (eapply var_or_autovar_advs; [exact parse_format_advs|exact E2|exact A1]).
      assert (X : advs base ts3 /\ match pre with Some c => vcmd base c | None => True end).
      { destruct r0 as [[v c]|].
        - destruct (expect_peek RPAREN ts2) as [tsx|] eqn:PX; [|discriminate]. injection E3 as _ _ <- <-.
          split; [eapply advs_k_peek; [exact PX|exact A2]|]. eapply var_or_autovar_v; eassumption.
        - bind E3 as [parts tsx] eqn EX. injection E3 as _ _ <- <-. split; [|exact I].
          apply advs_adv_r. eapply switch_operand_advs; [exact EX|apply advs_adv_r, A2]. }
      destruct X as [A3 VP].
      assert (VC : vcases base (c0 :: l)).
      { eapply Icases; [exact E5|apply advs_adv_r; eapply advs_k_peek; [exact P4|exact A3]|exact N|constructor]. }
      destruct pre as [c|]; cbn [app]; [constructor; [constructor; exact VP|]|]; (constructor; [|constructor]); constructor; exact VC.
    + (* parse_cases *)
      intros script bs cs brace ts acc seen hasdef imp l imp' ts' base H A N Hacc. rewrite parse_cases_unfold in H.
      destruct (curis RBRACE ts); [injection H as <- _ _; exact Hacc|].
      destruct (curis CASE ts).
      * cbv zeta in H. destruct (collect_until consts f (is COLON) (adv ts) []) as [[parts ts2]|] eqn:CU; [|discriminate].
        destruct (existsb _ seen); [discriminate|]. bind H as [[b1 imp1] ts3] eqn E3.
        assert (A2 : advs base (adv ts2)) by (apply advs_adv_r; eapply collect_until_advs; [exact CU|apply advs_adv_r, A]).
        eapply Icases; [exact H|eapply Aswb; [exact E3|exact A2]|exact N|].
        apply Forall_app. split; [exact Hacc|constructor; [|constructor]]. cbn [Datatypes.snd].
        eapply Iswb; [exact E3|exact A2|exact N|constructor].
      * destruct (curis DEFAULT ts); [|discriminate]. destruct hasdef; [discriminate|].
        destruct (expect_peek COLON ts) as [ts1|] eqn:P1; [|discriminate]. bind H as [[b1 imp1] ts2] eqn E2.
        assert (A2 : advs base (adv ts1)) by (apply advs_adv_r; eapply advs_k_peek; [exact P1|exact A]).
        eapply Icases; [exact H|eapply Aswb; [exact E2|exact A2]|exact N|].
        apply Forall_app. split; [exact Hacc|constructor; [|constructor]]. cbn [Datatypes.snd].
        eapply Iswb; [exact E2|exact A2|exact N|constructor].
    + (* parse_pory *)
      intros script bs cs ts ss imp ts' base H A N. rewrite parse_pory_unfold in H. cbv zeta in H. bind H as [[sc o] ts1] eqn E1. bind H as [l ts2] eqn E2.
      assert (A1 : advs base ts1) by (eapply poryswitch_header_advs; [exact E1|exact A]).
      assert (PC : vpcases base l) by (eapply Ipcases; [exact E2|exact A1|exact N|constructor]).
      assert (SEL : forall key ss0 imp0', assoc l key = Some (ss0, imp0') -> Forall (vstmt base) ss0).
      { intros key ss0 imp0' AS. destruct (assoc_in _ _ _ AS) as [k' IN]. unfold vpcases in PC. rewrite Forall_forall in PC. exact (PC _ IN). }
      destruct (assoc l (sval o)) as [[ss0 imp0']|] eqn:AS1.
      * injection H as <- _ _. eapply SEL; exact AS1.
      * destruct (assoc l (t "_")) as [[ss0 imp0']|] eqn:AS2.
        -- injection H as <- _ _. eapply SEL; exact AS2.
        -- destruct env_errors; [discriminate|]. injection H as <- _ _. constructor.
    + (* parse_pory_cases *)
      intros script bs cs start ts acc l ts' base H A N Hacc. rewrite parse_pory_cases_unfold in H.
      destruct (curis RBRACE ts); [injection H as <- _; exact Hacc|].
      destruct (curis EOF ts); [discriminate|].
      destruct (negb (curis IDENT ts) && negb (curis INT ts)); [discriminate|]. cbv zeta in H.
      destruct (curis COLON (adv ts) || curis LBRACE (adv ts)); [|discriminate]. bind H as [[l0 i] t0] eqn E0.
      assert (A0 : advs base (adv (adv ts))) by (apply advs_adv_r, advs_adv_r, A).
      assert (V0 : Forall (vstmt base) l0) by (eapply Ipstmts; [exact E0|exact A0|exact N|constructor]).
      assert (A1 : advs base t0) by (eapply Apstmts; [exact E0|exact A0]).
      assert (PC : vpcases base ((tlit (cur ts), (l0, i)) :: acc)) by (constructor; [exact V0|exact Hacc]).
      destruct (curis LBRACE (adv ts)).
      * destruct (negb (curis RBRACE t0)); [discriminate|]. eapply Ipcases; [exact H|apply advs_adv_r, A1|exact N|exact PC].
      * eapply Ipcases; [exact H|exact A1|exact N|exact PC].
    + (* parse_pory_stmts *)
      intros script bs cs multi ts acc imp ss imp' ts' base H A N Hacc. rewrite parse_pory_stmts_unfold in H.
      destruct (curis RBRACE ts); [injection H as <- _ _; exact Hacc|]. bind H as [[l imp1] ts1] eqn E1.
      assert (S1 : Forall (vstmt base) l /\ advs base ts1).
      { destruct (curis PORYSWITCH ts); [split; [eapply Ipory; eassumption|eapply Apory; [exact E1|exact A]]|split; [eapply Istmt; eassumption|eapply Astmt; [exact E1|exact A]]]. }
      destruct S1 as [V1 A1]. cbv zeta in H.
      assert (GA : Forall (vstmt base) (acc ++ l)) by (apply Forall_app; split; assumption).
      destruct multi.
      * eapply Ipstmts; [exact H|apply advs_adv_r, A1|exact N|exact GA].
      * injection H as <- _ _. exact GA.
Qed.

(* NEGATIVE 2, at every depth: in the statements of an accepted block, every command (also the AutoVar commands placed in
   conditions and before switches) is named by the literal of its own token and every label by the literal of its own
   token, tokens of the stream that was parsed: no constant is ever substituted there. *)
Theorem names_verbatim_everywhere f script bs cs start ts ss imp ts' :
  parse_block f script bs cs start ts [] imp0 = Ok (ss, imp, ts') -> ts <> [] -> Forall (vstmt ts) ss.
Proof.
  intros H N. destruct (vw_all f) as (_ & I & _). eapply I; [exact H|apply advs_refl|exact N|constructor].
Qed.
End SITES.


(* ---------- all the definitions of a program: the table grows by const_definition_site steps only ---------- *)
Section PROGRAM.
Variable autovars : list (text * autovar).
Variable switches : list (text * text).
Variable env_errors : bool.
Variable parse_format : toks -> res (token * text * text * toks).
Hypothesis parse_format_advs : forall ts tk v sty ts', parse_format ts = Ok (tk, v, sty, ts') -> forall a, advs a ts -> advs a ts'.

(* [consts_from ts c c'] : the table c' is c extended by successive definitions  const NAME = seg  found in the stream ts,
   each value being its tokens substituted through the table as it was just before that definition, joined builder-style *)
Inductive consts_from (ts : toks) : list (text * text) -> list (text * text) -> Prop :=
| cf_refl c : consts_from ts c c
| cf_step c c' pre k nm asg seg post :
    ts = pre ++ k :: nm :: asg :: seg ++ post -> is CONST k = true -> is IDENT nm = true -> is ASSIGN asg = true ->
    seg <> [] -> Forall (fun tk => is_toplevel (ttype tk) = false) seg -> assoc c (tlit nm) = None ->
    consts_from ts ((tlit nm, sb_join (map (subst c) seg)) :: c) c' -> consts_from ts c c'.
Lemma consts_from_app p ts c c' : consts_from ts c c' -> consts_from (p ++ ts) c c'.
Proof.
  induction 1 as [c|c c' pre k nm asg seg post E K N A NE F AS _ IH]; [apply cf_refl|].
  eapply (cf_step _ _ _ (p ++ pre)); try eassumption. rewrite E. now rewrite <- app_assoc.
Qed.

Tactic Notation "bind" hyp(H) "as" simple_intropattern(p) "eqn" ident(E) :=
  apply bind_inv in H; destruct H as (p & E & H); cbn beta iota in H.

Theorem program_constants_site : forall f st ts st',
  parse_tops autovars switches env_errors parse_format f st ts = Ok st' -> eof_ended ts -> (List.length ts < f)%nat ->
  consts_from ts (pconsts st) (pconsts st').
Proof.
  induction f as [|f IH]; intros st ts st' H EO L; [discriminate|]. cbn [parse_tops] in H.
  destruct (curis EOF ts) eqn:CE; [injection H as <-; apply cf_refl|]. cbv zeta in H.
  destruct (step_stream ts EO CE) as (r0 & E0 & A0 & EOr).
  assert (NEXT : forall ts1 st1, advs ts ts1 -> parse_tops autovars switches env_errors parse_format f st1 (adv ts1) = Ok st' ->
            consts_from ts (pconsts st1) (pconsts st')).
  { intros ts1 st1 A G. pose proof (advs_eof _ _ A EO) as EO1. pose proof (advs_len _ _ A) as L1.
    assert (A2 : advs ts (adv ts1)) by (apply advs_adv_r, A). pose proof (advs_eof _ _ A2 EO) as EO2.
    assert (L2 : (List.length (adv ts1) < f)%nat).
    { rewrite E0 in L, L1. cbn [List.length] in L, L1. destruct ts1 as [|x [|y r]]; [destruct EO1; congruence| |]; cbn [adv List.length] in *.
      - destruct r0; [destruct EOr; congruence|cbn [List.length] in L; lia].
      - lia. }
    destruct (advs_split _ _ A2) as [p E]. rewrite E. apply consts_from_app. eapply IH; eassumption. }
  destruct (ttype (cur ts)) eqn:TY; try discriminate.
  - bind H as [[[[name g] b] imp] ts1] eqn E1. destruct (add_implicit imp (ph st)) as [h' ps].
    eapply (NEXT ts1 {| pconsts := pconsts st; ph := h'; ptops := _; ptexts := _ |}); [|exact H].
    eapply parse_script_advs; [exact parse_format_advs|exact E1|apply advs_refl].
  - bind H as [tp ts1] eqn E1.
    eapply (NEXT ts1 {| pconsts := pconsts st; ph := _; ptops := _; ptexts := _ |}); [|exact H].
    eapply parse_raw_advs; [exact E1|apply advs_refl].
  - bind H as [td ts1] eqn E1.
    eapply (NEXT ts1 {| pconsts := pconsts st; ph := _; ptops := _; ptexts := _ |}); [|exact H].
    eapply parse_text_advs; [exact parse_format_advs|exact E1|apply advs_refl].
  - bind H as [tp ts1] eqn E1.
    eapply (NEXT ts1 {| pconsts := pconsts st; ph := _; ptops := _; ptexts := _ |}); [|exact H].
    eapply parse_movement_advs; [exact E1|apply advs_refl].
  - bind H as [tp ts1] eqn E1.
    eapply (NEXT ts1 {| pconsts := pconsts st; ph := _; ptops := _; ptexts := _ |}); [|exact H].
    eapply parse_mart_advs; [exact E1|apply advs_refl].
  - bind H as [[tp imp] ts1] eqn E1. destruct (add_implicit imp (ph st)) as [h' ps].
    eapply (NEXT ts1 {| pconsts := pconsts st; ph := h'; ptops := _; ptexts := _ |}); [|exact H].
    eapply parse_mapscripts_advs; [exact parse_format_advs|exact E1|apply advs_refl].
  - bind H as [c' ts1] eqn E1.
    destruct (const_definition_site _ _ _ _ _ E1 EO ltac:(lia)) as (nm & asg & seg & rest & E2 & N & A & F & NE & _ & _ & AS & ->).
    eapply (cf_step _ _ _ [] (cur ts)); [exact E2|apply is_t; exact TY|exact N|exact A|exact NE|exact F|exact AS|].
    eapply (NEXT ts1 {| pconsts := _; ph := _; ptops := _; ptexts := _ |}); [|exact H].
    eapply parse_const_advs; [exact E1|apply advs_refl].
Qed.
End PROGRAM.

(* the two standing hypotheses hold in the compiler (Compile.compile): the lexer's output ends with its EOF token, and the
   real format() parser only advances *)
From Pory Require ProgSrc Format.
Lemma hyp_eof_ended_holds hl hd hs src : eof_ended (lex hl hd hs src).
Proof. apply ProgSrc.lex_eof. Qed.
Lemma hyp_parse_format_holds fc cli_font cli_maxlen ee :
  forall ts tk v sty ts', Format.parse_format fc cli_font cli_maxlen ee ts = Ok (tk, v, sty, ts') -> forall a, advs a ts -> advs a ts'.
Proof. exact (ProgSrc.parse_format_advs fc cli_font cli_maxlen ee). Qed.

(* ---------- the hypotheses are satisfiable: concrete streams from the lexer ---------- *)
Module Examples.
Definition lex0 (s : string) : toks := lex (fun _ => false) (fun _ => false) (fun _ => false) (t s).
Definition pf0 : toks -> res (token * text * text * toks) := fun _ => Panic.
Definition consts0 : list (text * text) := [(t "BAR", t "5 + 1"); (t "FOO", t "5")].
(* the assumption made of the format() parser is satisfiable (Format.parse_format satisfies it too: ProgSrc.parse_format_advs) *)
Lemma pf0_advs : forall ts tk v sty ts', pf0 ts = Ok (tk, v, sty, ts') -> forall a, advs a ts -> advs a ts'.
Proof. discriminate. Qed.

Example ex_command_arguments :
  let ts := lex0 "setvar(VAR_A, FOO, (BAR), ""hi"")" in
  eof_ended ts /\ peekis LPAREN ts = true /\
  exists c imp ts', command_stmt [] false pf0 consts0 30 (t "S") ts = Ok (c, imp, ts') /\
                    cname c = t "setvar" /\ cargs c = [t "VAR_A"; t "5"; t "( 5 + 1 )"; []].
Proof.
  intros ts. split; [split; [vm_compute; discriminate|vm_compute; reflexivity]|]. split; [vm_compute; reflexivity|].
  eexists _, _, _. split; [vm_compute; reflexivity|]. split; vm_compute; reflexivity.
Qed.

Example ex_condition :
  let ts0 := lex0 "( var(FOO) == BAR )" in
  eof_ended ts0 /\
  exists l imp ts', leaf_expr [] [] false pf0 consts0 30 (t "S") ts0 = Ok (l, imp, ts') /\ lpre l = None /\
                    loperand l = t "5" /\ lvalue l = t "5 + 1".
Proof.
  intros ts0. split; [split; [vm_compute; discriminate|vm_compute; reflexivity]|].
  eexists _, _, _. split; [vm_compute; reflexivity|]. split; [reflexivity|]. split; vm_compute; reflexivity.
Qed.

Example ex_comparison_value :
  let ts := lex0 "== value(FOO + (BAR)) )" in
  eof_ended ts /\ exists ts', cond_var_operator consts0 30 ts = Ok (OEq, t "( 5 + ( 5 + 1 ) )", true, ts').
Proof. intros ts. split; [split; [vm_compute; discriminate|vm_compute; reflexivity]|]. eexists. vm_compute. reflexivity. Qed.

Example ex_switch :
  let ts := lex0 "switch (var(FOO)) { case BAR: foo case 2: bar }" in
  eof_ended ts /\ peekis VAR (adv ts) = true /\
  exists tg oline l1 b1 l2 b2 imp ts',
    parse_switch [] [] false pf0 consts0 60 (t "S") [] [] ts =
      Ok ([SSwitch tg (t "5") oline [(false, t "5 + 1", l1, b1); (false, t "2", l2, b2)]], imp, ts').
Proof.
  intros ts. split; [split; [vm_compute; discriminate|vm_compute; reflexivity]|]. split; [vm_compute; reflexivity|].
  eexists _, _, _, _, _, _, _, _. vm_compute. reflexivity.
Qed.

Example ex_table_entry :
  let ts := lex0 "VAR_A, FOO: Lbl ]" in
  eof_ended ts /\ curis RBRACKET ts = false /\
  exists tk imp ts', ms_table [] [] false pf0 consts0 30 (t "M") (t "T") ts 0 [] imp0 =
    Ok ([{| teCond := tk; teCondLit := t "VAR_A"; teCmp := t "5"; teName := t "Lbl"; teScript := None |}], imp, ts').
Proof.
  intros ts. split; [split; [vm_compute; discriminate|vm_compute; reflexivity]|]. split; [vm_compute; reflexivity|].
  eexists _, _, _. vm_compute. reflexivity.
Qed.

Example ex_mart :
  let ts := lex0 "mart M { FOO ITEM_X }" in
  eof_ended ts /\ exists tk itoks ts', parse_mart [] false consts0 30 ts = Ok (TMart (t "M") false tk [t "5"; t "ITEM_X"] itoks, ts').
Proof. intros ts. split; [split; [vm_compute; discriminate|vm_compute; reflexivity]|]. eexists _, _, _. vm_compute. reflexivity. Qed.

Example ex_const_definition :
  let ts := lex0 "const BAZ = FOO * BAR script" in
  eof_ended ts /\ (List.length ts <= 30)%nat /\
  exists ts', parse_const 30 consts0 ts = Ok ((t "BAZ", t "5 * 5 + 1") :: consts0, ts').
Proof.
  intros ts. split; [split; [vm_compute; discriminate|vm_compute; reflexivity]|]. split; [vm_compute; lia|]. eexists. vm_compute. reflexivity.
Qed.

(* a label and a command that are spelled like a constant keep their names; only the argument is replaced *)
Example ex_names_verbatim :
  let ts := lex0 "FOO: FOO(FOO) }" in
  ts <> [] /\ ttype (cur ts) = IDENT /\
  exists tk1 tk2 n imp ts',
    parse_block [] [] false pf0 consts0 30 (t "S") [] [] eof0 ts [] imp0 =
      Ok ([SLabel (t "FOO") false tk1; SCmd {| cname := t "FOO"; cargs := [t "5"]; ctok := tk2; cid := n |}], imp, ts').
Proof.
  intros ts. split; [vm_compute; discriminate|]. split; [vm_compute; reflexivity|]. eexists _, _, _, _, _. vm_compute. reflexivity.
Qed.

Example ex_movement :
  let ts := lex0 "movement M { FOO * 2 BAR }" in
  exists tk s1 s2 ts', parse_movement [] false 30 ts = Ok (TMovement (t "M") false tk [s1; s1; s2], ts') /\ tlit s1 = t "FOO" /\ tlit s2 = t "BAR".
Proof. intros ts. eexists _, _, _, _. split; [vm_compute; reflexivity|]. split; vm_compute; reflexivity. Qed.

Example ex_text :
  let ts := lex0 """FOO""" in text_value pf0 ts = Ok (t "FOO$", [], ts).
Proof. vm_compute. reflexivity. Qed.

(* parse_program runs parse_tops with fuel S (length ts): the fuel premise of program_constants_site *)
Example ex_program_constants :
  let ts := lex0 "const A = 1 const B = A + A script S { foo(B) }" in
  eof_ended ts /\ (List.length ts < S (List.length ts))%nat /\
  exists st', parse_tops [] [] false pf0 (S (List.length ts)) {| pconsts := []; ph := hst0; ptops := []; ptexts := [] |} ts = Ok st' /\
              pconsts st' = [(t "B", t "1 + 1"); (t "A", t "1")].
Proof.
  intros ts. split; [split; [vm_compute; discriminate|vm_compute; reflexivity]|]. split; [lia|].
  eexists. split; vm_compute; reflexivity.
Qed.
End Examples.
